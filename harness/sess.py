"""History-level correspondence: run the REAL LAN / Device objects against a scripted symbolic peer on the simulated network
and produce the same observation record as the Coq session model (coq/model/Session.v, fid 60)."""
import acresp as A
import refpeer
import simnet
from common import exn_code

F_SESSION = 60


def frame_of(f):
    """AC frame number f (a state response whose fan byte encodes f)"""
    body = A.state_body(None, n=24)
    body[3] = f % 128
    body[19] = f // 128 % 128
    return A.mk_frame(body)


def frame_no(frame):
    return frame[10 + 3] + 128 * frame[10 + 19]


def request_of(f):
    """the frame the client sends for 'frame number f'"""
    return bytes(A.mk_frame([0x41, 0x81, f % 256, f // 256 % 256], ftype=3))


def request_no(frame):
    return frame[12] + 256 * frame[13]


class SymbolicPeer:
    """realises the reply script: per received write, a list of (delay_ms, kind, f)"""

    def __init__(self, model, rng, hs_replies, replies, fast=False):
        self.fast = fast
        self.dev = refpeer.RefDevice(model, rng, version=3)
        self.rng, self.replies, self.hs_replies = rng, list(replies), list(hs_replies)
        self.kid = 1                       # number of the next genuine handshake reply
        self.keys = {}                     # kid -> session key
        self.peerkey = {}                  # cid -> kid of the last genuine reply sent on that connection
        self.views = []                    # decoded writes in order: (cid, raw bytes)
        self.seq = 0

    def __call__(self, conn, data):
        v3 = type(conn.protocol).__name__ == "_LanProtocolV3"
        self.views.append((conn.cid, bytes(data), v3))
        is_hs = v3 and len(data) >= 6 and data[5] & 0xF == 0
        src = self.hs_replies if is_hs else self.replies
        reply = src.pop(0) if src else []
        out = []
        for delay, kind, f in reply:
            self.seq += 1
            d = delay / 1000.0                              # simnet orders ties by scheduling order
            if kind == 4:
                out.append((d, "close"))
            elif kind == 0:
                fr = frame_of(f)
                if self.fast:
                    import lanmut
                    v2 = lanmut.v2_good(bytes(fr))
                    if not v3:
                        out.append((d, v2))
                    elif conn.cid in self.peerkey:
                        out.append((d, lanmut.v3_encrypted(bytes(self.keys[self.peerkey[conn.cid]]), 3, self.seq % 65536, v2)))
                    else:
                        out.append((d, bytes(self.dev.error_packet())))
                elif not v3:
                    out.append((d, bytes(self.dev.v2_packet(fr))))
                elif conn.cid in self.peerkey:
                    conn.state["session_key"] = self.keys[self.peerkey[conn.cid]]
                    out.append((d, bytes(self.dev.v3_wrap(conn, self.dev.v2_packet(fr)))))
                else:
                    out.append((d, bytes(self.dev.error_packet())))
            elif kind == 1:
                pkt, skey = self.dev.handshake_reply(conn)
                self.keys[self.kid] = skey
                self.peerkey[conn.cid] = self.kid
                self.kid += 1
                out.append((d, bytes(pkt)))
            elif kind == 2:
                bad = [0x83, 0x70, 0x00, 0x40, 0x20, 0x01, 0, 0] + [self.rng.randrange(256) for _ in range(64)]
                out.append((d, bytes(bad)))
            else:
                out.append((d, bytes(self.dev.error_packet()) if v3 else bytes(10)))
        return out


def run_impl(model, rng, conns, hs_replies, replies, ops, fast=False):
    """-> observation record: (now_ms, lan summary, [outcomes], [events])"""
    from msmart.lan import LAN
    from msmart.base_device import Device
    from msmart.frame import Frame
    peer = SymbolicPeer(model, rng, hs_replies, replies, fast=fast)
    net = simnet.Net(connects=[["ok", "refuse", "hang"][c] for c in conns], responder=peer)
    authed = {}      # cid -> last observed local key

    def pre_event(conn):
        k = getattr(conn.protocol, "_local_key", None)
        if k is not None and authed.get(conn.cid) != k:
            authed[conn.cid] = k
            net.log.append(("authok", conn.cid, bytes(k), net.loop.time()))
    net.pre_event = pre_event
    simnet.install(net, rnd=lambda n: bytes(rng.randrange(256) for _ in range(n)))
    dev = Device(ip="10.0.0.1", port=6444, device_id=123456, device_type=0xAC)
    lan = dev._lan
    good_tok, good_key = bytes(peer.dev.token), bytes(peer.dev.key)
    bad_key = bytes((b ^ 0x55) for b in good_key)
    bad_tok = bytes((b ^ 0x55) for b in good_tok)
    events, outcomes = [], []
    etimes = []
    opinfo = []

    def scan():
        """turn what happened on the wire since the last scan into events (in order)"""
        for tag in net.log[scan.pos:]:
            n_before = len(events)
            if tag[0] == "connect" and tag[1] == "ok":
                pass
            elif tag[0] == "authok":
                note_conn(net.conns[tag[1]])
                kid = next((i for i, sk in peer.keys.items() if bytes(sk) == tag[2]), -1)
                events.append([4, tag[1], kid])
            elif tag[0] == "write":
                cid, data = tag[1], tag[3]
                conn = net.conns[cid]
                note_conn(conn)
                v3 = type(conn.protocol).__name__ == "_LanProtocolV3"
                if not v3:
                    st, outs = model.call(refpeer.F_V2PARSE, [list(data)])
                    events.append([3, cid, 0, 0, request_no(outs[1])] if st == 0 else [9, cid])
                elif data[5] & 0xF == 0:
                    st, outs = model.call(refpeer.F_HSPARSE, [list(data)])
                    events.append([2, cid, outs[0][0], int(outs[1] == list(good_tok))] if st == 0 else [9, cid])
                elif fast:
                    import lanmut
                    ev = [9, cid]
                    for kid, skey in reversed(list(peer.keys.items())):
                        r = lanmut.v3_parse_request_fast(skey, data)
                        if r is not None:
                            fr = lanmut.v2_parse_fast(r[1])
                            if fr is not None:
                                ev = [3, cid, r[0], kid, request_no(fr)]
                            break
                    events.append(ev)
                else:
                    ev = [9, cid]
                    for kid, skey in peer.keys.items():
                        st, outs = model.call(refpeer.F_V3PARSE, [skey, list(data)])
                        if st == 0:
                            st2, o2 = model.call(refpeer.F_V2PARSE, [outs[1]])
                            if st2 == 0:
                                ev = [3, cid, outs[0][0], kid, request_no(o2[1])]
                            break
                    events.append(ev)
            elif tag[0] == "close":
                note_conn(net.conns[tag[1]])
                events.append([5, tag[1]])
            t_ev = tag[2] if tag[0] in ("write", "close", "connect") else (tag[3] if tag[0] == "authok" else net.loop.time())
            etimes.extend([t_ev] * (len(events) - n_before))
        scan.pos = len(net.log)
        for conn in net.conns:
            note_conn(conn)
            pre_event(conn)
        for tag in net.log[scan.pos:]:
            if tag[0] == "authok":
                kid = next((i for i, sk in peer.keys.items() if bytes(sk) == tag[2]), -1)
                events.append([4, tag[1], kid])
                etimes.append(tag[3])
        scan.pos = len(net.log)
    scan.pos = 0
    conn_logged = set()

    def note_conn(conn):
        if conn.cid not in conn_logged:
            conn_logged.add(conn.cid)
            events.append([1, conn.cid, int(type(conn.protocol).__name__ == "_LanProtocolV3")])

    def call(coro, kind):
        try:
            r = net.run(coro)
            if kind == "frames":
                outcomes.append([0] + [frame_no(list(Frame_bytes)) for Frame_bytes in r])
            else:
                outcomes.append([-1])
        except BaseException as e:  # noqa: BLE001
            outcomes.append([exn_code(e)])
        scan()

    def entry_state():
        import msmart.lan as L
        proto = lan._protocol
        now = L.datetime.now(None)
        st = {"v3": lan._protocol_version == 3, "has_proto": proto is not None, "alive": bool(lan._alive) if proto is not None else False,
              "authed": bool(getattr(proto, "authenticated", False)) if proto is not None else False, "nevents": len(events),
              "time": net.loop.time()}
        return st

    for op, a, b in ops:
        scan()
        opinfo.append(entry_state())
        if op == 1:
            call(lan.send(request_of(a), retries=b), "frames")
        elif op == 2:
            if a == 0:
                call(lan.authenticate(retries=b), "unit")
            else:
                call(lan.authenticate(good_tok if a == 1 else bad_tok, good_key if a == 1 else bad_key, retries=b), "unit")
        elif op == 3:
            class _Cmd:
                def tobytes(self_inner):
                    return request_of(a)
            call(dev._send_command(_Cmd()), "frames")
        elif op == 4:
            call(dev.authenticate(good_tok if a == 1 else bad_tok, good_key if a == 1 else bad_key), "unit")
        elif op == 5:
            net.tick(a / 1000.0)
            outcomes.append([-1])
            scan()
        else:
            dev.set_max_connection_lifetime(None if a < 0 else a / 1000.0)
            outcomes.append([-1])
    proto = lan._protocol
    creds = 0 if lan._key is None else (1 if lan._key == good_key else 2)
    kid = -1
    if proto is not None:
        k = getattr(proto, "_local_key", None)
        kid = 0 if k is None else next((i for i, sk in peer.keys.items() if bytes(sk) == bytes(k)), -2)
    summary = [0 if proto is None else (2 if not proto.alive else 1), int(lan._protocol_version == 3), creds, kid]
    now = round(net.loop.time() * 1000)
    net.close()
    run_impl.last_opinfo = opinfo
    etimes.extend([net.loop.time()] * (len(events) - len(etimes)))
    run_impl.last_event_times = etimes[:len(events)]
    run_impl.last_writes = [(t[1], t[2]) for t in net.log if t[0] == 'write']
    return now, summary, outcomes, events


def flat_replies(replies):
    flat_r = []
    for r in replies:
        flat_r.append(len(r))
        for d, k, f in r:
            flat_r += [d, k, f]
    return flat_r


def model_case(conns, hs_replies, replies, ops):
    flat_o = [x for o in ops for x in o]
    return (F_SESSION, [list(conns), flat_replies(hs_replies), flat_o, flat_replies(replies)])


def decode_model(outs):
    now = outs[0][0]
    summary = outs[1]
    n = outs[2][0]
    return now, summary, [list(o) for o in outs[3:3 + n]], [list(e) for e in outs[3 + n:]]


def compare(ctx, rep, cases, tag="session"):
    mo = ctx.model.batch([model_case(*c) for c in cases])
    res = []
    for c, (st, outs) in zip(cases, mo):
        im = run_impl(ctx.model, ctx.rng, *c)
        md = decode_model(outs)
        res.append((im, md))
        if tuple(im) != tuple(md):
            diff = [n for n, x, y in zip(("now", "lan", "outcomes", "events"), im, md) if x != y]
            rep.fail("corr", tag + ":" + ",".join(diff), {"connects": c[0], "hs_replies": c[1], "replies": c[2], "ops": c[3]},
                     {"impl": im, "model": md})
    return res


def device_key_discipline(case, events, etimes):
    """C07/C06, judged from the DEVICE's side: which handshake reply does the client accept for which handshake request?
    For every accepted authentication (EvAuthOk) the request it answers is the last handshake request written on that
    connection before it.  Accepting the reply the appliance produced for THAT request is the normal case.  Accepting an
    older reply is
      'stale-handshake-reply-not-flushed'           when that reply had ARRIVED before the request was written (it was waiting
                                                     in the receive queue and should have been discarded), and
      'late-handshake-reply-raced-next-handshake'   when it arrived after the request was written (nothing could discard it:
                                                     replies are not correlated with requests).
    Either way client and appliance end up with different session keys.  Returns [(klass, detail)] (first finding only)."""
    hs_replies, data_replies = case[1], case[2]
    k, j, kid = 0, 0, 0
    arrival, produced, unjudged = {}, {}, set()       # produced: index of a handshake-write event -> kid of its genuine reply
    last_hs = {}                                       # cid -> index of the last handshake write
    for i, (e, t) in enumerate(zip(events, etimes)):
        if e[0] == 2:
            reply = hs_replies[k] if k < len(hs_replies) else []
            k += 1
            for delay, kind, _f in reply:
                if kind == 1:
                    kid += 1
                    arrival[kid] = t + delay / 1000.0
                    produced[i] = kid
                    if e[3] != 1:
                        unjudged.add(e[1])            # a genuine reply to a handshake with the WRONG token: not a real appliance
            last_hs[e[1]] = i
        elif e[0] in (3, 9):
            reply = data_replies[j] if j < len(data_replies) else []
            j += 1
            if any(kind == 1 for _d, kind, _f in reply):
                kid += sum(1 for _d, kind, _f in reply if kind == 1)
                unjudged.add(e[1])                    # a handshake reply in answer to DATA: not a real appliance either
        elif e[0] == 4 and e[1] in last_hs and e[1] not in unjudged and e[2] > 0:
            req = last_hs[e[1]]
            if produced.get(req) == e[2]:
                continue
            w = etimes[req]
            raced = arrival.get(e[2], -1) >= w - 1e-6
            return [("late-handshake-reply-raced-next-handshake" if raced else "stale-handshake-reply-not-flushed",
                     {"accepted_key": e[2], "connection": e[1], "request_written": round(w, 3), "key_that_request_produced": produced.get(req),
                      "accepted_reply_arrived": round(arrival.get(e[2], -1), 3), "events": events})]
    return []
