"""Grammar-aware generators of hostile V2 / V3 peer traffic (test inputs only; nothing here is an oracle)."""
import hashlib

from Crypto.Cipher import AES
from Crypto.Util import Padding


def sign_key():
    from msmart.lan import Security
    return Security.SIGN_KEY


def v2_raw(payload, length_field=None, start=(0x5A, 0x5A), head=None, sig=None):
    """V2 packet around an ARBITRARY ciphertext `payload`, correctly signed unless sig is given"""
    total = 40 + len(payload) + 16
    lf = total if length_field is None else length_field
    hdr = head if head is not None else bytes([start[0], start[1], 0x01, 0x11, lf & 0xFF, (lf >> 8) & 0xFF, 0x20, 0x00]) + bytes(32)
    pkt = bytes(hdr) + bytes(payload)
    s = hashlib.md5(pkt + sign_key()).digest() if sig is None else bytes(sig)
    return pkt + s


def v2_good(frame):
    enc_key = hashlib.md5(sign_key()).digest()
    return v2_raw(AES.new(enc_key, AES.MODE_ECB).encrypt(Padding.pad(bytes(frame), 16)))


def v2_hostile(rng, frame):
    """(name, bytes) list of malformed / truncated / correctly-signed-garbage V2 packets"""
    enc_key = hashlib.md5(sign_key()).digest()
    good = v2_good(frame)
    out = [("v2-good", good)]
    out += [(f"v2-signed-cipher-len{n}", v2_raw(bytes(rng.randrange(256) for _ in range(n)))) for n in (0, 1, 15, 16, 17, 31, 32, 33)]
    for padbyte in (0, 17, 255):           # aligned ciphertext whose plaintext has invalid PKCS7 padding
        plain = bytes(rng.randrange(256) for _ in range(15)) + bytes([padbyte])
        out.append((f"v2-signed-badpad{padbyte}", v2_raw(AES.new(enc_key, AES.MODE_ECB).encrypt(plain))))
    plain = bytes(rng.randrange(256) for _ in range(12)) + bytes([3, 4, 4, 4])
    out.append(("v2-signed-badpad-mixed", v2_raw(AES.new(enc_key, AES.MODE_ECB).encrypt(plain))))
    for lf in (0, 5, 6, 15, 16, 39, 40, 55, 56, len(good) - 1, len(good) + 1, 0xFFFF):
        out.append((f"v2-lengthfield{lf}", v2_raw(good[40:-16], length_field=lf)))
        # length field shorter than the data, signature valid for the SHORT packet
        if 16 <= lf <= len(good):
            short = bytearray(good[:lf])
            short[4], short[5] = lf & 0xFF, lf >> 8
            body = bytes(short[:max(0, lf - 16)])
            out.append((f"v2-short-resigned{lf}", body + hashlib.md5(body + sign_key()).digest() + good[lf:]))
    for n in (0, 1, 5, 6, 7, 39, 40, 41, 55, 56, len(good) - 1):
        out.append((f"v2-truncated{n}", good[:n]))
    out.append(("v2-badstart", v2_raw(good[40:-16], start=(0xAA, 0x5A))))
    out.append(("v2-badsig", good[:-1] + bytes([good[-1] ^ 1])))
    out.append(("v2-trailing", good + bytes(rng.randrange(256) for _ in range(9))))
    out.append(("random", bytes(rng.randrange(256) for _ in range(rng.randrange(0, 80)))))
    out.append(("empty-frame-ok", v2_good(b"")))
    return out


def v3_raw(ptype, body, size=None, magic=0x20, pad=0, start=(0x83, 0x70)):
    size = len(body) - 2 if size is None else size
    size = max(0, min(size, 0xFFFF))
    return bytes([start[0], start[1], size >> 8, size & 0xFF, magic, (pad << 4) | ptype]) + bytes(body)


def v3_encrypted(key, ptype, counter, payload, pad=None, rnd=None, tamper=None):
    """well-formed encrypted packet of any type nibble (pad nibble may be forced)"""
    import hashlib as h
    p = (16 - (len(payload) + 2) % 16) % 16 if pad is None else pad
    plain = counter.to_bytes(2, "big") + bytes(payload) + bytes((rnd or bytes(16))[:p] if (len(payload) + 2 + p) % 16 == 0 else (rnd or bytes(16))[:p])
    size = len(payload) + p + 32
    header = bytes([0x83, 0x70, (size >> 8) & 0xFF, size & 0xFF, 0x20, ((p & 0xF) << 4) | ptype])
    if len(plain) % 16:
        cipher = plain           # cannot be encrypted; sent as is (non-aligned "ciphertext")
    else:
        cipher = AES.new(bytes(key), AES.MODE_CBC, iv=bytes(16)).encrypt(plain)
    tag = h.sha256(header + plain).digest()
    return header + cipher + tag


def v3_hostile(rng, key, frame):
    """hostile packets for an authenticated V3 data phase (key = session key)"""
    good_v2 = v2_good(frame)
    out = [("v3-good", v3_encrypted(key, 3, 7, good_v2))]
    for t in range(16):
        out.append((f"v3-type{t}-encrypted", v3_encrypted(key, t, 1, good_v2)))
        out.append((f"v3-type{t}-raw", v3_raw(t, bytes(rng.randrange(256) for _ in range(rng.choice([0, 2, 10, 66])) ))))
    for n in (0, 1, 15, 17, 31, 33, 47):
        body = bytes(rng.randrange(256) for _ in range(n)) + bytes(32)
        out.append((f"v3-cipher-len{n}", v3_raw(3, body)))
    out.append(("v3-wrongkey", v3_encrypted(bytes(rng.randrange(256) for _ in range(32)), 3, 1, good_v2)))
    out.append(("v3-badmagic", bytes(v3_encrypted(key, 3, 1, good_v2)[:4]) + b"\x21" + v3_encrypted(key, 3, 1, good_v2)[5:]))
    for name, v2 in v2_hostile(rng, frame):
        out.append(("v3(" + name + ")", v3_encrypted(key, 3, 2, v2)))
    for pad in range(16):
        out.append((f"v3-padnibble{pad}", v3_encrypted(key, 3, 3, good_v2, pad=pad)))
    # correctly SIGNED packets whose decrypted part is empty or a single block (shorter than id + padding claims)
    import hashlib as h
    for t in (3, 6, 15):
        for plain in (b"", bytes(16), bytes(rng.randrange(256) for _ in range(16))):
            for padn in (0, 1, 14, 15):
                size = len(plain) + 32
                header = bytes([0x83, 0x70, size >> 8, size & 0xFF, 0x20, (padn << 4) | t])
                cipher = AES.new(bytes(key), AES.MODE_CBC, iv=bytes(16)).encrypt(plain) if plain else b""
                out.append((f"v3-signed-plain{len(plain)}-pad{padn}-type{t}", header + cipher + h.sha256(header + plain).digest()))
    out.append(("v3-handshake-like-64", v3_raw(1, bytes(2) + bytes(rng.randrange(256) for _ in range(64)))))
    out.append(("v3-header-only", bytes([0x83, 0x70, 0, 0, 0x20, 3])))
    out.append(("v3-tiny", v3_raw(3, b"")))
    out.append(("random", bytes(rng.randrange(256) for _ in range(rng.randrange(0, 60)))))
    return out


def hs_hostile(rng, key, good_reply_packet):
    """hostile replies in the handshake phase"""
    g = bytes(good_reply_packet)
    out = [("hs-good", g)]
    for t in range(16):
        out.append((f"hs-type{t}", g[:5] + bytes([t]) + g[6:]))
    for n in (0, 1, 7, 8, 9, 40, 71, 73, 100, 130):
        body = (g[8:] + bytes(rng.randrange(256) for _ in range(80)))[: max(0, n - 8)]
        out.append((f"hs-len{n}", v3_raw(1, bytes(2) + body)))
    for bit in (0, 7, 255, 256, 511):
        q = bytearray(g); q[8 + bit // 8] ^= 1 << (bit % 8)
        out.append((f"hs-flip{bit}", bytes(q)))
    out.append(("hs-encrypted-before-auth", v3_encrypted(key, 3, 1, v2_good(b"\xaa\x01"))))
    out.append(("hs-encrypted-unaligned", v3_raw(3, bytes(rng.randrange(256) for _ in range(45)))))
    out.append(("hs-error", bytes([0x83, 0x70, 0, 0, 0x20, 0x0F, 0, 0])))
    out.append(("hs-random", bytes(rng.randrange(256) for _ in range(rng.randrange(0, 90)))))
    return out


# ---- fast python-side codecs (used only for very long sessions, where the extracted reference would be too slow) ----
def v2_parse_fast(pkt):
    pkt = bytes(pkt)
    if len(pkt) < 56 or pkt[:2] != b"\x5a\x5a" or hashlib.md5(pkt[:-16] + sign_key()).digest() != pkt[-16:]:
        return None
    enc_key = hashlib.md5(sign_key()).digest()
    try:
        return Padding.unpad(AES.new(enc_key, AES.MODE_ECB).decrypt(pkt[40:-16]), 16)
    except ValueError:
        return None


def v3_parse_request_fast(key, data):
    data = bytes(data)
    if len(data) < 40 or data[:2] != b"\x83\x70" or data[5] & 0xF != 6:
        return None
    body = data[6:-32]
    if len(body) % 16:
        return None
    plain = AES.new(bytes(key), AES.MODE_CBC, iv=bytes(16)).decrypt(body)
    if hashlib.sha256(data[:6] + plain).digest() != data[-32:]:
        return None
    pad = data[5] >> 4
    return int.from_bytes(plain[:2], "big"), plain[2:len(plain) - pad]
