"""Run the extracted Coq model (and, for a sample, the same cases inside the Coq kernel)."""
import os
import subprocess
import tempfile

ROOT = os.path.dirname(os.path.dirname(os.path.abspath(__file__)))
BUILD = os.path.join(ROOT, "_build")
COQ = os.path.join(ROOT, "coq")


def enc_case(fid, args):
    return str(fid) + "".join(";" + ",".join(str(int(x)) for x in a) for a in args)


def dec_out(line):
    parts = line.split(";")
    st = int(parts[0])
    outs = [[int(t) for t in p.split(",")] if p else [] for p in parts[1:]]
    return st, outs


class Model:
    def __init__(self):
        self.driver = os.path.join(BUILD, "driver")
        self.log = []          # (fid, args, (st, outs)) for the in-kernel cross-check sample

    def batch(self, cases):
        """cases: list of (fid, [list of int lists]) -> list of (status, [int lists])"""
        if not cases:
            return []
        os.makedirs(os.path.join(BUILD, "tmp"), exist_ok=True)
        with tempfile.NamedTemporaryFile("w", dir=os.path.join(BUILD, "tmp"), suffix=".in", delete=False) as f:
            for fid, args in cases:
                f.write(enc_case(fid, args) + "\n")
            path = f.name
        try:
            p = subprocess.run([self.driver, path], stdout=subprocess.PIPE, stderr=subprocess.PIPE, text=True, timeout=3600)
            if p.returncode != 0:
                raise RuntimeError("driver failed: " + p.stderr[-500:])
            lines = p.stdout.split("\n")
            if lines and lines[-1] == "":
                lines.pop()
            if len(lines) != len(cases):
                raise RuntimeError(f"driver returned {len(lines)} lines for {len(cases)} cases")
            res = [dec_out(l) for l in lines]
        finally:
            os.unlink(path)
        step = max(1, len(cases) // 40)
        for i in range(0, len(cases), step):
            self.log.append((cases[i][0], cases[i][1], res[i]))
        return res

    def one(self, fid, args):
        return self.batch([(fid, args)])[0]

    def call(self, fid, args):
        """synchronous call through a persistent driver process (for peers that answer dynamically)"""
        if getattr(self, "_proc", None) is None or self._proc.poll() is not None:
            self._proc = subprocess.Popen([self.driver, "-i"], stdin=subprocess.PIPE, stdout=subprocess.PIPE, text=True, bufsize=1)
        self._proc.stdin.write(enc_case(fid, args) + "\n")
        self._proc.stdin.flush()
        line = self._proc.stdout.readline()
        if not line:
            raise RuntimeError("driver died")
        return dec_out(line.rstrip("\n"))

    def close(self):
        if getattr(self, "_proc", None) is not None:
            try:
                self._proc.stdin.close()
                self._proc.wait(timeout=5)
            except Exception:  # noqa: BLE001
                self._proc.kill()
            self._proc = None

    def kernel_crosscheck(self, limit=300, max_ints=4000):
        """Re-evaluate a sample of the logged cases with vm_compute inside Coq; returns (n, error or None)."""
        sample, seen = [], 0
        for c in self.log:
            size = sum(len(a) for a in c[1]) + sum(len(o) for o in c[2][1])
            if size > max_ints:
                continue
            sample.append(c)
            if len(sample) >= limit:
                break
        if not sample:
            return 0, None

        def zl(l):
            return "[" + "; ".join(f"({x})" if x < 0 else str(x) for x in l) + "]"

        def zll(ll):
            return "[" + "; ".join(zl(l) for l in ll) + "]"
        body = ";\n  ".join(f"({fid}, {zll(args)}, (({st}), {zll(outs)}))" if st < 0 else f"({fid}, {zll(args)}, ({st}, {zll(outs)}))"
                            for fid, args, (st, outs) in sample)
        text = ("From MS Require Import lib.Base extract.RunAll.\nOpen Scope Z_scope.\n"
                "Definition cases : list (Z * list (list Z) * (Z * list (list Z))) :=\n  [" + body + "].\n"
                "Example kernel_agrees : first_bad 0 cases = None.\nProof. vm_compute. reflexivity. Qed.\n")
        d = os.path.join(BUILD, "tmp")
        os.makedirs(d, exist_ok=True)
        with tempfile.NamedTemporaryFile("w", dir=d, prefix="cases_", suffix=".v", delete=False) as f:
            f.write(text)
            path = f.name
        try:
            p = subprocess.run(["timeout", "600", "coqc", "-Q", COQ, "MS", path], stdout=subprocess.PIPE,
                               stderr=subprocess.STDOUT, text=True)
            err = None if p.returncode == 0 else p.stdout[-800:]
        finally:
            for ext in (".v", ".vo", ".vok", ".vos", ".glob"):
                try:
                    os.unlink(path[:-2] + ext)
                except OSError:
                    pass
            try:
                os.unlink(os.path.join(d, "." + os.path.basename(path)[:-2] + ".aux"))
            except OSError:
                pass
        return len(sample), err
