"""Implementation-side helpers for AC responses: frame builders and canonicalisation of Response objects
into the same integer lists coq/extract/Run.v produces (enc_response)."""
from common import call

F_CONSTRUCT, F_PTEMP, F_RVALIDATE = 10, 11, 12


def crc8_ref(data):
    """independent bit-serial CRC-8/MAXIM (used only to BUILD test frames)"""
    c = 0
    for m in data:
        c ^= m
        for _ in range(8):
            c = (c >> 1) ^ 0x8C if c & 1 else c >> 1
    return c


def addsum(data):
    return (-sum(data)) & 0xFF


def mk_frame(body, ftype=3, check="crc", msgid=None, dev=0xAC):
    """device -> client frame around a response body (without id/check byte)"""
    payload = list(body)
    chk = crc8_ref(payload) if check == "crc" else addsum(payload) if check == "sum" else check
    data = payload + [chk]
    hdr = [0xAA, (len(data) + 10) & 0xFF, dev, 0, 0, 0, 0, 0, 0, ftype]
    fr = hdr + data
    return fr + [addsum(fr[1:])]


def refix(frame):
    """recompute the outer checksum"""
    return frame[:-1] + [addsum(frame[1:-1])]


def tenths(x, scale=10):
    if x is None:
        return [0, 0]
    v = round(x * scale)
    assert abs(x * scale - v) < 1e-6, ("float not on the grid", x)
    return [1, v]


def canon_response(r, C):
    rid = int(r.id)
    if isinstance(r, C.StateResponse):
        tt = tenths(r.target_temperature, 2)[1]
        s = [int(r.power_on), tt, r.operational_mode, r.fan_speed, r.swing_mode, int(r.turbo), int(r.independent_aux_heat),
             int(r.follow_me), int(r.eco), int(r.purifier), int(r.aux_heat), int(r.sleep), int(r.fahrenheit)]
        s += tenths(r.indoor_temperature) + tenths(r.outdoor_temperature) + [int(r.filter_alert), int(r.display_on)]
        s += ([1, r.target_humidity] if r.target_humidity is not None else [0, 0])
        s += ([1, int(r.freeze_protection)] if r.freeze_protection is not None else [0, 0])
        return [[1, rid], s]
    if isinstance(r, C.CapabilitiesResponse):
        return [[2, rid], [int(r.additional_capabilities)]] + canon_caps(r.raw_capabilities)
    if isinstance(r, C.PropertiesResponse):
        flat = []
        for k, v in sorted((int(k), int(v)) for k, v in r._properties.items()):
            flat += [k, v]
        return [[3, rid], flat]
    if isinstance(r, C.EnergyUsageResponse):
        valid = r.total_energy is not None
        # the parser computes all six numbers and then hides them when invalid; compare what is exposed
        if not valid:
            return [[4, rid], [0, 0, 0, 0, None, None, None]]
        return [[4, rid], [1, tenths(r.total_energy, 100)[1], tenths(r.current_energy, 100)[1], tenths(r.real_time_power, 10)[1],
                           tenths(r.total_energy_binary, 10)[1], tenths(r.current_energy_binary, 10)[1],
                           tenths(r.real_time_power_binary, 10)[1]]]
    if isinstance(r, C.HumidityResponse):
        return [[5, rid], [1, r.humidity] if r.humidity is not None else [0, 0]]
    return [[6, rid]]


def canon_caps(d):
    out = []
    for k in sorted(d):
        v = d[k]
        out.append(list(k.encode()))
        out.append([0, int(v)] if isinstance(v, bool) else [1, tenths(v, 2)[1]])
    return out


def canon_model_response(outs):
    """bring the model's enc_response output to the same canonical form (sort dict-like parts)"""
    kind = outs[0][0]
    if kind == 2:
        items = sorted((bytes(outs[i]), outs[i + 1]) for i in range(2, len(outs), 2))
        flat = []
        for k, v in items:
            flat += [list(k), v]
        return outs[:2] + flat
    if kind == 3:
        f = outs[1]
        pairs = sorted((f[i], f[i + 1]) for i in range(0, len(f), 2))
        return [outs[0], [x for p in pairs for x in p]]
    if kind == 4 and outs[1][0] == 0:
        return [outs[0], [0, 0, 0, 0, None, None, None]]
    return outs


def impl_construct(C, frame):
    code, val = call(C.Response.construct, bytes(frame))
    if code != 0:
        return code, None
    return 0, canon_response(val, C)


def compare_construct(ctx, rep, C, frames, tag="construct"):
    """correspondence of Response.construct on a list of frames; returns list of (code, canon) from the implementation"""
    mo = ctx.model.batch([(F_CONSTRUCT, [f]) for f in frames])
    res = []
    for f, (mst, mouts) in zip(frames, mo):
        code, canon = impl_construct(C, f)
        res.append((code, canon))
        mcanon = canon_model_response(mouts) if mst == 0 else None
        if code != mst or (code == 0 and canon != mcanon):
            rep.fail("corr", tag, {"frame": bytes(f).hex()}, {"impl": [code, canon], "model": [mst, mcanon]})
    return res


# ---- sample response bodies (valid ones, from the repo's own tests and the protocol layout) ----
def state_body(rng=None, n=24, **kw):
    b = [0xC0] + [0] * (n - 1)
    if rng:
        for i in range(1, n):
            b[i] = rng.randrange(256)
    for k, v in kw.items():
        b[int(k[1:])] = v
    return b


def caps_body(records, more=0, trailer=True):
    """records: list of (id, [value bytes])"""
    b = [0xB5, len(records) & 0xFF]
    for cid, vals in records:
        b += [cid & 0xFF, cid >> 8, len(vals)] + list(vals)
    if trailer:
        b += [more, 0]   # the byte at [-2] of the payload is the "more" flag (payload excludes id/crc)
    return b


def props_body(records, rid=0xB1):
    """records: list of (id, result, [value bytes])"""
    b = [rid, len(records)]
    for pid, resu, vals in records:
        b += [pid & 0xFF, pid >> 8, resu, len(vals)] + list(vals)
    return b


def energy_body(rng):
    b = [0xC1, 0x21, 0x01, 0x44] + [rng.randrange(256) for _ in range(16)]
    return b


def humidity_body(rng):
    return [0xC1, 0x21, 0x01, 0x45, rng.randrange(256)] + [rng.randrange(256) for _ in range(rng.randrange(0, 12))]
