"""An ideal appliance for the property protocol (0xB0 / 0xB1) built on the EXTRACTED reference coq/spec/RefProps (fid 100..103),
with a minimal AC shell around it (capabilities page per profile, a fixed status frame for 0x40/0x41)."""
import acresp as A
import acdev as D
from common import exn_code

F_STEP, F_VIEW, F_SETTING, F_PARSE_SET = 100, 101, 102, 103
ID = {"ud": 0x09, "lr": 0x0A, "breezeless": 0x18, "buzzer": 0x1A, "self_clean": 0x39, "breeze_away": 0x42,
      "breeze_control": 0x43, "rate": 0x48, "ieco": 0xE3}
# capability profiles: name -> capability records (id, [value]) the appliance advertises
PROFILES = {
    "breeze-control-5level-ieco-angles": [(0x43, [1]), (0x48, [2]), (0xE3, [1]), (0x09, [1]), (0x0A, [1]), (0x39, [1])],
    "legacy-both-2level": [(0x42, [1]), (0x18, [1]), (0x48, [1]), (0x39, [1])],
    "legacy-away-only-angles": [(0x42, [1]), (0x09, [1]), (0x0A, [1])],
    "legacy-breezeless-only-ieco": [(0x18, [1]), (0xE3, [1]), (0x48, [3])],
    "control-and-legacy-advertised": [(0x43, [1]), (0x42, [1]), (0x18, [1]), (0x0A, [1])],
    "nothing": [],
}
DEFAULTS = {0x09: [0], 0x0A: [0], 0x18: [0], 0x1A: [0], 0x39: [0], 0x42: [1], 0x43: [1], 0x48: [100], 0xE3: [1, 0]}


class PropDevice:
    def __init__(self, model, profile, lose=(), ext=None, lose_state=()):
        self.m = model
        self.lose_state = set(lose_state)   # indices of the SetState (0x40) commands whose answer is lost
        self.nstate = 0
        self.ext = dict(ext or {})   # {index of the property QUERY (0 = first): [(id, value bytes)]}: changed on the appliance by
        self.ngets = 0               # someone else (remote control, the unit itself) just before that query is answered
        self.lose = set(lose)   # indices (0 = first) of the property WRITES whose acknowledgement is lost on the way back
        self.nsets = 0
        self.caps = PROFILES[profile]
        ids = [cid for cid, v in self.caps if cid in DEFAULTS]
        if any(cid == 0x43 for cid, _ in self.caps):
            ids = [i for i in ids if i not in (0x42, 0x18)]          # breeze control supersedes the legacy pair on the appliance too
        self.store = [(i, list(DEFAULTS[i])) for i in ids + [0x1A]]
        self.log = []           # ('set', [(id, value)]) / ('get', [ids]) / other bodies
        self.exchanges = []     # frames returned per request, in order (for replaying into the model)

    def view(self):
        st, outs = self.m.call(F_VIEW, [x for k, v in self.store for x in ([k], v)])
        return outs[0]

    def handle(self, frame):
        body = list(frame[10:-3])            # without message id, CRC and checksum
        out = []
        if body[0] == 0xB5:
            out = [A.mk_frame(A.caps_body(self.caps))]
        elif body[0] in (0x40, 0x41):
            out = [A.mk_frame(A.state_body(None, n=24))]
            if body[0] == 0x40:
                if self.nstate in self.lose_state:
                    out = []
                self.nstate += 1
        elif body[0] in (0xB0, 0xB1):
            if body[0] == 0xB1:
                for k, v in self.ext.get(self.ngets, []):
                    self.store = [(i, list(v) if i == k else x) for i, x in self.store]
                self.ngets += 1
            st, outs = self.m.call(F_STEP, [body] + [x for k, v in self.store for x in ([k], v)])
            ok, resp = outs[0][0], outs[1]
            rest = outs[2:]
            self.store = [(rest[i][0], list(rest[i + 1])) for i in range(0, len(rest), 2)]
            if body[0] == 0xB0:
                st2, o2 = self.m.call(F_PARSE_SET, [body])
                self.log.append(("set", [(o2[i][0], list(o2[i + 1])) for i in range(0, len(o2), 2)] if st2 == 0 else None))
            else:
                self.log.append(("get", [body[2 + 2 * i] | body[3 + 2 * i] << 8 for i in range(body[1])]))
            if ok:
                out = [A.mk_frame(resp, check="sum")]
            if body[0] == 0xB0:
                if self.nsets in self.lose:
                    out = []            # the appliance has carried out the write; its acknowledgement never arrives
                self.nsets += 1
        self.exchanges.append([bytes(f) for f in out])
        return out


def run_impl(ops, device, counter0=0):
    """the real AirConditioner against the ideal appliance -> (status, dump, counter, sent bodies, dev)"""
    C, AC = D.mods()
    C.Command._message_id = counter0
    dev = AC(ip="10.0.0.1", device_id=123456, port=6444)
    sent = []

    async def fake_send(data, retries=3):
        sent.append(list(data))
        return [bytes(f) for f in device.handle(bytes(data))]
    dev._lan.send = fake_send
    status = 0
    for op, a in ops:
        try:
            D.do_op(dev, AC, C, op, a)
        except Exception as e:  # noqa: BLE001
            status = exn_code(e)
            break
    return status, D.dump(dev), C.Command._message_id, [D.canon_body(f[10:-3]) for f in sent], dev
