"""Generators of session histories (operations + environment scripts) for the LAN / Device layer."""
DELAYS = [0, 0, 0, 300, 1999, 2001, 2500, 3999, 4001, 6500]
H12 = 12 * 3600 * 1000


def rand_reply(rng, hs):
    r = rng.random()
    if hs:
        if r < 0.62:
            return [(rng.choice(DELAYS[:5]), 1, 0)]
        if r < 0.72:
            return []
        if r < 0.80:
            return [(0, 2, 0)]
        if r < 0.86:
            return [(0, 3, 0)]
        if r < 0.90:
            return [(rng.choice([0, 100]), 4, 0)]
        if r < 0.95:
            return [(rng.choice(DELAYS), 1, 0)]
        return [(0, 0, 9)]                         # a data frame in place of the handshake reply
    if r < 0.50:
        return [(rng.choice(DELAYS[:5]), 0, rng.randrange(1, 300))]
    if r < 0.62:
        return []
    if r < 0.72:
        return [(rng.choice(DELAYS), 0, rng.randrange(1, 300))]
    if r < 0.80:
        return [(0, 0, rng.randrange(1, 300)), (rng.choice([0, 10, 2500]), 0, rng.randrange(1, 300))]     # duplicated / unsolicited
    if r < 0.87:
        return [(rng.choice([0, 2001]), 3, 0)]
    if r < 0.93:
        return [(rng.choice([0, 100, 2100]), 4, 0)]
    if r < 0.97:
        return [(0, 1, 0)]                          # a handshake reply in place of data
    return [(0, 3, 0), (0, 0, rng.randrange(1, 300))]


def rand_history(rng, nops=None, v3=None):
    v3 = rng.random() < 0.7 if v3 is None else v3
    n = nops or rng.randrange(1, 6)
    ops = []
    if v3 and rng.random() < 0.85:
        ops.append((2, 1, 3) if rng.random() < 0.7 else (4, 1, 0))
    for _ in range(n):
        r = rng.random()
        if r < 0.40:
            ops.append((1, rng.randrange(1, 200), rng.randrange(1, 5)))
        elif r < 0.55:
            ops.append((3, rng.randrange(1, 200), 0))
        elif r < 0.65 and v3:
            ops.append((2, rng.choice([0, 1, 1, 2]), rng.randrange(1, 4)))
        elif r < 0.72 and v3:
            ops.append((4, rng.choice([1, 2]), 0))
        elif r < 0.86:
            ops.append((5, rng.choice([500, 3000, H12 + 1000, 20000, 60000]), 0))
        elif r < 0.93:
            ops.append((6, rng.choice([-1, 10000, 30000]), 0))
        else:
            ops.append((1, rng.randrange(1, 200), 0))        # retries = 0
    conns = [rng.choice([0, 0, 0, 0, 0, 1, 2]) for _ in range(8)]
    hs = [rand_reply(rng, True) for _ in range(14)]
    data = [rand_reply(rng, False) for _ in range(24)]
    return conns, hs, data, ops


def late_hs_histories(rng, n):
    """V3 histories in which genuine handshake replies arrive LATER than the 2 s read timeout (after the attempt - or all
    attempts - gave up), followed by a pause and exchanges with a promptly answering device. Exercises the flush of the
    receive queue before a handshake and the recovery after a timed-out authentication."""
    out = []
    late = [2001, 2499, 3101, 4501, 6499]       # never a whole multiple of the timeout / of the 1 s pause after authentication: no ties
    for _ in range(n):
        k = rng.choice([1, 1, 2, 3])                      # how many handshakes are answered late
        d = [rng.choice(late) for _ in range(k)]
        pause = rng.choice([607, 1503, 3011, 7001])
        f, g = rng.randrange(1, 200), rng.randrange(1, 200)
        prompt_hs = [[(0, 1, 0)]] * 8
        data = [[(0, 0, rng.randrange(1, 250))] for _ in range(8)]
        shape = rng.randrange(5)
        if shape == 0:      # explicit authentication that times out, pause, then exchanges
            ops = [(2, 1, rng.choice([1, 2, 3])), (5, pause, 0), (1, f, 3), (1, g, 3)]
            hs = [[(x, 1, 0)] for x in d] + prompt_hs
        elif shape == 1:    # authenticated, 12 h later the implicit re-authentication of a send is answered late
            ops = [(2, 1, 3), (5, H12 + 1000, 0), (1, f, 3), (5, pause, 0), (1, g, 3), (1, f, 3)]
            hs = [[(0, 1, 0)]] + [[(x, 1, 0)] for x in d] + prompt_hs
        elif shape == 3:    # a FRESH connection (no session key yet): timed-out explicit authentication, pause, authenticate again
            ops = [(2, 1, rng.choice([1, 2, 3])), (5, pause, 0), (2, 1, 3), (1, f, 3), (1, g, 3)]
            hs = [[(x, 1, 0)] for x in d] + prompt_hs
        elif shape == 4:    # authenticated; the connection lifetime ends; the exchange on the NEW connection meets late handshake
            #                     replies; after a pause longer than every delay the next exchange must simply work
            ops = [(6, 1000, 0), (2, 1, 3), (5, 1500, 0), (6, 600000, 0), (1, f, 3), (5, 7001, 0), (1, g, 3), (1, f, 3)]
            # all three attempts (written at 0, 2 and 4 s) are answered only after the last one has given up (6 s)
            d3 = rng.choice([[6499, 4501, 2499], [6101, 4101, 2101], [6499, 6499, 6499], [6203, 4777, 3011]])
            hs = [[(0, 1, 0)]] + [[(x, 1, 0)] for x in d3] + prompt_hs
        else:               # device-level calls
            ops = [(4, 1, 0), (5, H12 + 1000, 0), (3, f, 0), (5, pause, 0), (3, g, 0), (3, f, 0)]
            hs = [[(0, 1, 0)]] + [[(x, 1, 0)] for x in d] + prompt_hs
        out.append(([0] * 8, hs, data, ops))
    return out


def reauth_on_live_session(rng, n):
    """an authenticated live session, then an explicit authenticate with OTHER credentials whose reply cannot be verified
    (garbage / error / none / a reply under the appliance's key, which the wrong client key rejects): it must fail, a handshake
    request must go out, the stored credentials must stay"""
    out = []
    for _ in range(n):
        bad_reply = rng.choice([[(0, 2, 0)], [(0, 3, 0)], [], [(0, 1, 0)], [(0, 0, 9)]])
        pause = rng.choice([0, 500, 3000])
        ops = [(2, 1, 3)] + ([(5, pause, 0)] if pause else []) + [(2, 2, rng.choice([1, 2, 3])), (1, rng.randrange(1, 200), 3)]
        hs = [[(0, 1, 0)], bad_reply, bad_reply, bad_reply] + [[(0, 1, 0)]] * 6
        out.append(([0] * 6, hs, [[(0, 0, rng.randrange(1, 250))] for _ in range(6)], ops))
    return out


def lifetime_histories(rng, n):
    """a configured connection lifetime L, a re-handshake on the SAME connection before L is over, then an exchange after the
    connection's lifetime has run out (but less than L after the re-handshake): it must start on a NEW connection"""
    out = []
    for _ in range(n):
        L = rng.choice([10000, 30000])
        a = rng.choice([L // 2, L // 2 + 1700, L - 2500])
        b = L - a + rng.choice([300, 1500, L // 3])                 # connect + L < now < re-handshake + L
        how = rng.choice(["explicit", "expiry"])
        if how == "explicit":
            ops = [(6, L, 0), (2, 1, 3), (5, a, 0), (2, 1, 3), (5, b, 0), (1, rng.randrange(1, 200), 3), (1, rng.randrange(1, 200), 3)]
        else:
            ops = [(6, L, 0), (4, 1, 0), (5, a, 0), (4, 1, 0), (5, b, 0), (3, rng.randrange(1, 200), 0), (3, rng.randrange(1, 200), 0)]
        out.append(([0] * 6, [[(0, 1, 0)]] * 8, [[(0, 0, rng.randrange(1, 250))] for _ in range(6)], ops))
    return out


def fault_then_expiry(rng, n):
    """a configured lifetime, an exchange that drops the connection (garbage / error / silence / peer close), a pause longer
    than the lifetime, then an ordinary exchange"""
    out = []
    for _ in range(n):
        v3 = rng.random() < 0.5
        fault = rng.choice([[(0, 3, 0)], [], [(0, 4, 0)], [(0, 1, 0)] if not v3 else [(0, 3, 0)]])
        level = rng.choice([1, 3])
        ops = [(6, 1000, 0)] + ([(2, 1, 3)] if v3 else []) + [(level, 30, 3), (5, rng.choice([1200, 2500, 9000]), 0), (level, 31, 3), (level, 32, 3)]
        replies = [fault] + ([[]] * 2 if not fault else []) + [[(0, 0, 77)]] * 6
        out.append(([0] * 8, [[(0, 1, 0)]] * 8, replies, ops))
    return out


def reauth_fault_then_recover(rng, n):
    """an authenticated V3 session; the key expires (12 h) or the connection is dropped; the handshake of the NEXT exchange meets one
    transient fault (error packet / unverifiable reply / data in its place / silence on every attempt); afterwards the appliance
    answers promptly: the exchanges after the failed one must succeed with the credentials given at the start"""
    out = []
    for _ in range(n):
        fault = rng.choice([[(0, 3, 0)], [(0, 2, 0)], [(0, 0, 9)], []])
        nfault = 3 if not fault else 1                      # silence: all three attempts of the handshake
        how = rng.choice(["expiry", "expiry", "drop"])
        ops = [(2, 1, 3), (1, rng.randrange(1, 200), 3)]
        if how == "expiry":
            ops += [(5, H12 + 1000, 0)]
            replies = [[(0, 0, 71)]]
        else:
            ops += [(1, rng.randrange(1, 200), 3), (5, 700, 0)]          # answered with garbage: the connection is dropped
            replies = [[(0, 0, 71)], [(0, 3, 0)]]
        ops += [(rng.choice([1, 3]), rng.randrange(1, 200), 3 if rng.random() < 0.7 else 0) for _ in range(3)]
        ops = [(o[0], o[1], 0) if o[0] == 3 else (o[0], o[1], 3) for o in ops[:-3]] + [(o[0], o[1], 3 if o[0] == 1 else 0) for o in ops[-3:]]
        hs = [[(0, 1, 0)]] + [fault] * nfault + [[(0, 1, 0)]] * 6
        out.append(([0] * 8, hs, replies + [[(0, 0, rng.randrange(1, 250))] for _ in range(6)], ops))
    return out


def key_age_histories(rng, n):
    """the 12 h life of a session key counts from its handshake: exchanges in between (each less than 12 h after the previous one,
    more than 12 h after the handshake in total) do not extend it - the first exchange past 12 h starts with a new handshake"""
    out = []
    H = 3600 * 1000
    for _ in range(n):
        steps = rng.choice([[7 * H, 6 * H], [5 * H, 5 * H, 3 * H], [11 * H, 2 * H], [4 * H, 4 * H, 3 * H, 2 * H], [6 * H, 6 * H + 5000]])
        lvl = rng.choice([1, 3])
        ops = [(2, 1, 3) if lvl == 1 else (4, 1, 0)]
        for st in steps:
            ops += [(5, st, 0), (lvl, rng.randrange(1, 200), 3 if lvl == 1 else 0)]
        ops += [(lvl, rng.randrange(1, 200), 3 if lvl == 1 else 0)]
        out.append(([0] * 8, [[(0, 1, 0)]] * 8, [[(0, 0, rng.randrange(1, 250))] for _ in range(8)], ops))
    return out
