#!/venv/bin/python
"""Regenerate constants from /repo, build the Coq development (full .vo, never -vos), extract, build driver.
All under a file lock so concurrent checks share one build. Nothing here lives in /tmp."""
import fcntl
import glob
import os
import subprocess
import sys
import time

ROOT = os.path.dirname(os.path.dirname(os.path.abspath(__file__)))
COQ = os.path.join(ROOT, "coq")
BUILD = os.path.join(ROOT, "_build")
DIRS = ["lib", "gen", "crypto", "model", "spec", "proofs", "props"]
FORBIDDEN = ["Admitted", "admit", "Axiom", "Parameter", "Conjecture", "Unset Guard", "bypass_check",
             "type-in-type", "impredicative-set", "native_compute", "Admit Obligations",
             "Unset Positivity", "Unset Universe"]


def sh(cmd, cwd=None, timeout=3600, env=None):
    p = subprocess.run(cmd, cwd=cwd, shell=isinstance(cmd, str), stdout=subprocess.PIPE, stderr=subprocess.STDOUT,
                       timeout=timeout, env=env, text=True)
    return p.returncode, p.stdout


def v_files():
    fs = []
    for d in DIRS:
        fs += sorted(glob.glob(os.path.join(COQ, d, "*.v")))
    fs += sorted(glob.glob(os.path.join(COQ, "extract", "Run*.v")))
    return [os.path.relpath(f, COQ) for f in fs]


def forbidden_scan():
    """No axioms / admits / disabled checks anywhere in the development (comments excluded crudely)."""
    import re
    hits = []
    for rel in v_files() + ["extract/Extract.v"]:
        text = open(os.path.join(COQ, rel)).read()
        text = re.sub(r"\(\*.*?\*\)", "", text, flags=re.S)
        for tok in FORBIDDEN + ["Variable ", "Hypothesis ", "Variables ", "Hypotheses "]:
            for m in re.finditer(r"(?<![A-Za-z_])" + re.escape(tok), text):
                if tok.strip() in ("Variable", "Hypothesis", "Variables", "Hypotheses"):
                    # allowed only inside a Section
                    before = text[:m.start()]
                    if before.count("Section ") > before.count("\nEnd "):
                        continue
                hits.append(f"{rel}: {tok.strip()}")
    return hits


def build(full=False, quiet=True):
    os.makedirs(BUILD, exist_ok=True)
    t0 = time.time()
    status = {"gen_ok": False, "make_ok": False, "failed": [], "driver_ok": False, "log": "", "forbidden": []}
    with open(os.path.join(ROOT, ".build.lock"), "w") as lock:
        fcntl.flock(lock, fcntl.LOCK_EX)
        rc, out = sh(["/venv/bin/python", os.path.join(ROOT, "harness", "gen_constants.py")])
        status["log"] += out
        status["gen_ok"] = rc == 0
        if rc != 0:
            status["gen_error"] = out.strip()
        status["forbidden"] = forbidden_scan()
        # _CoqProject
        proj = "-Q . MS\n-arg -w -arg -notation-overridden,-deprecated-hint-without-locality,-deprecated-instance-without-locality,-unused-pattern-matching-variable\n" + "\n".join(v_files()) + "\n"
        pp = os.path.join(COQ, "_CoqProject")
        if not os.path.exists(pp) or open(pp).read() != proj:
            open(pp, "w").write(proj)
            sh("coq_makefile -f _CoqProject -o Makefile", cwd=COQ)
        if not os.path.exists(os.path.join(COQ, "Makefile")):
            sh("coq_makefile -f _CoqProject -o Makefile", cwd=COQ)
        if full:
            sh("make clean", cwd=COQ)
        rc, out = sh("timeout 3000 make -k -j16 2>&1", cwd=COQ)
        status["log"] += out[-6000:]
        import re as _re
        failed = _re.findall(r"\*\*\* \[Makefile[^\]]*?: ([\w/]+)\.vo\] Error", out)
        missing = [f for f in v_files() if not os.path.exists(os.path.join(COQ, f[:-2] + ".vo"))
                   or os.path.getmtime(os.path.join(COQ, f[:-2] + ".vo")) < os.path.getmtime(os.path.join(COQ, f))]
        for f in failed:
            # a stale .vo of a file that no longer compiles must not be loaded by anything
            for ext in (".vo", ".vok", ".vos"):
                try:
                    os.unlink(os.path.join(COQ, f + ext))
                except OSError:
                    pass
        status["failed"] = sorted(set(missing + [f + ".v" for f in failed]))
        status["make_ok"] = rc == 0 and not status["failed"]
        # extraction + driver (needs model/spec/extract only)
        runall = os.path.join(COQ, "extract", "RunAll.vo")
        drv = os.path.join(BUILD, "driver")
        if os.path.exists(runall) and "extract/RunAll.v" not in missing:
            need = (not os.path.exists(drv)) or os.path.getmtime(drv) < os.path.getmtime(runall) \
                or os.path.getmtime(drv) < os.path.getmtime(os.path.join(ROOT, "ocaml", "driver.ml"))
            if need:
                rc, out = sh(f"timeout 600 coqc -Q {COQ} MS {COQ}/extract/Extract.v", cwd=BUILD)
                status["log"] += out
                if rc == 0:
                    sh(f"cp {ROOT}/ocaml/driver.ml .", cwd=BUILD)
                    rc, out = sh("timeout 600 ocamlfind ocamlopt -O2 -w -a model.mli model.ml driver.ml -o driver.new && mv driver.new driver", cwd=BUILD)
                    status["log"] += out
            status["driver_ok"] = os.path.exists(drv) and os.path.getmtime(drv) >= os.path.getmtime(runall)
        fcntl.flock(lock, fcntl.LOCK_UN)
    status["wall_s"] = round(time.time() - t0, 2)
    return status


if __name__ == "__main__":
    st = build(full="--full" in sys.argv)
    print({k: v for k, v in st.items() if k != "log"})
    if not (st["gen_ok"] and st["make_ok"] and st["driver_ok"]) or st["forbidden"]:
        print(st["log"][-4000:])
        sys.exit(1)
