"""Drive the real AirConditioner against a scripted transport (dev._lan.send replaced) and dump its state in the
layout of coq/extract/Run.v enc_dev; model counterpart = fid 20."""
import asyncio
import logging

from common import exn_code
from acresp import tenths

logging.disable(logging.CRITICAL)
F_DEV = 20
_loop = None


def loop():
    global _loop
    if _loop is None or _loop.is_closed():
        _loop = asyncio.new_event_loop()
    return _loop


def mods():
    from msmart.device.AC import command as C
    from msmart.device.AC.device import AirConditioner as AC
    return C, AC


def enum_or_int(E, v):
    try:
        return E(v)
    except ValueError:
        return v


def do_op(dev, AC, C, op, a):
    lp = loop()
    if op == 1:
        return lp.run_until_complete(dev.refresh())
    if op == 2:
        return lp.run_until_complete(dev.apply())
    if op == 3:
        return lp.run_until_complete(dev.get_capabilities())
    if op == 4:
        return lp.run_until_complete(dev.toggle_display())
    if op == 5:
        return lp.run_until_complete(dev.start_self_clean())
    b = bool(a)
    if op == 10: dev.beep = b
    elif op == 11: dev.power_state = b
    elif op == 12: dev.target_temperature = a / 2
    elif op == 13: dev.operational_mode = enum_or_int(AC.OperationalMode, a)
    elif op == 14: dev.fan_speed = enum_or_int(AC.FanSpeed, a)
    elif op == 15: dev.swing_mode = enum_or_int(AC.SwingMode, a)
    elif op == 16: dev.eco = b
    elif op == 17: dev.turbo = b
    elif op == 18: dev.freeze_protection = b
    elif op == 19: dev.sleep = b
    elif op == 20: dev.fahrenheit = b
    elif op == 21: dev.follow_me = b
    elif op == 22: dev.purifier = b
    elif op == 23: dev.target_humidity = a
    elif op == 24: dev.aux_mode = enum_or_int(AC.AuxHeatMode, a)
    elif op == 25: dev.breeze_away = b
    elif op == 26: dev.breeze_mild = b
    elif op == 27: dev.breezeless = b
    elif op == 28: dev.horizontal_swing_angle = enum_or_int(AC.SwingAngle, a)
    elif op == 29: dev.vertical_swing_angle = enum_or_int(AC.SwingAngle, a)
    elif op == 30: dev.ieco = b
    elif op == 31: dev.rate_select = enum_or_int(AC.RateSelect, a)
    elif op == 32: dev.use_alternate_energy_format = b
    elif op == 33: dev.enable_energy_usage_requests = b


def optv(x, f=int):
    return [0, 0] if x is None else [1, f(x)]


def dump(dev):
    binary = dev._use_binary_energy
    e_scale = 10 if binary else 100
    row0 = [int(dev.beep), int(dev.power_state), tenths(dev.target_temperature, 2)[1], int(dev.operational_mode),
            int(dev.fan_speed), int(dev.swing_mode), int(dev.eco), int(dev.turbo)] + optv(dev.freeze_protection) + \
           [int(dev.sleep), int(dev.fahrenheit), int(dev.display_on), int(dev.filter_alert), int(dev.follow_me),
            int(dev.purifier)] + optv(dev.target_humidity) + tenths(dev.indoor_temperature) + \
        tenths(dev.outdoor_temperature) + optv(dev.indoor_humidity) + [int(dev.aux_mode)] + \
        tenths(dev.total_energy_usage, e_scale) + tenths(dev.current_energy_usage, e_scale) + \
        tenths(dev.real_time_power_usage, 10) + [int(binary), int(dev.enable_energy_usage_requests)]
    return [row0,
            [int(x) for x in dev.supported_operation_modes], [int(x) for x in dev.supported_swing_modes],
            [int(x) for x in dev.supported_fan_speeds],
            [int(dev.supports_custom_fan_speed), int(dev.supports_eco), int(dev.supports_turbo),
             int(dev.supports_freeze_protection), int(dev.supports_display_control), int(dev.supports_filter_reminder),
             int(dev.supports_purifier), int(dev.supports_humidity), int(dev.supports_target_humidity),
             tenths(dev.min_target_temperature, 2)[1], tenths(dev.max_target_temperature, 2)[1]],
            [int(x) for x in dev.supported_rate_selects], [int(x) for x in dev.supported_aux_modes],
            sorted(int(x) for x in dev._supported_properties), sorted(int(x) for x in dev._updated_properties),
            [int(dev.horizontal_swing_angle), int(dev.vertical_swing_angle), int(dev.self_clean_active), int(dev.rate_select),
             int(dev._breeze_mode), int(dev.ieco), int(dev.online), int(dev.supported)]]


def canon_body(body):
    """order-insensitive form of a command body (property records are emitted in set order)"""
    body = list(body)
    if body and body[0] == 0xB1:
        ids = sorted(body[2 + 2 * i] | body[3 + 2 * i] << 8 for i in range((len(body) - 2) // 2))
        return [0xB1, body[1]] + ids
    if body and body[0] == 0xB0:
        recs, i = [], 2
        while i + 3 <= len(body):
            n = body[i + 2]
            recs.append((body[i] | body[i + 1] << 8, tuple(body[i + 3:i + 3 + n])))
            i += 3 + n
        out = [0xB0, body[1]]
        for pid, vals in sorted(recs):
            out += [pid, len(vals)] + list(vals)
        return out
    return body


def run_impl(ops, exchanges, counter0=0):
    """ops: [(op, arg)], exchanges: list of frame lists. -> (status, dump, counter, sent bodies)"""
    C, AC = mods()
    C.Command._message_id = counter0
    dev = AC(ip="10.0.0.1", device_id=123456, port=6444)
    script, sent = list(exchanges), []

    async def fake_send(data, retries=3):
        sent.append(list(data))
        return [bytes(f) for f in script.pop(0)] if script else []
    dev._lan.send = fake_send
    status = 0
    for op, a in ops:
        try:
            do_op(dev, AC, C, op, a)
        except Exception as e:  # noqa: BLE001
            status = exn_code(e)
            break
    return status, dump(dev), C.Command._message_id, [canon_body(f[10:-3]) for f in sent], dev


def model_case(ops, exchanges, counter0=0):
    flat = [x for op, a in ops for x in (op, a)]
    frames = [list(f) for ex in exchanges for f in ex]
    return (F_DEV, [[counter0], flat, [len(ex) for ex in exchanges]] + frames)


def canon_model(outs):
    """model output -> (dump, counter, sent bodies) with the same canonicalisation"""
    d = [list(r) for r in outs[:10]]
    d[7], d[8] = sorted(d[7]), sorted(d[8])
    return d, outs[10][0], [canon_body(b) for b in outs[11:]]


def compare(ctx, rep, cases, tag="device-ops"):
    """cases: list of (ops, exchanges, counter0). Returns implementation results."""
    mo = ctx.model.batch([model_case(*c) for c in cases])
    res = []
    for c, (mst, mouts) in zip(cases, mo):
        st, dmp, cnt, sent, dev = run_impl(*c)
        res.append((st, dmp, cnt, sent, dev))
        md, mc, ms = canon_model(mouts)
        if st != mst or dmp != md or sent != ms or (st == 0 and cnt != mc):
            rep.fail("corr", tag, {"ops": c[0], "exchanges": [[bytes(f).hex() for f in ex] for ex in c[1]], "counter": c[2]},
                     {"impl": [st, dmp, cnt, sent], "model": [mst, md, mc, ms]})
    return res
