"""Implementation-side access to the packet layer of msmart.lan with deterministic clock and randomness."""
import datetime as _dt
import logging

from common import call

logging.disable(logging.CRITICAL)


def lan():
    import msmart.lan as L
    return L


class FakeClock:
    """stands in for msmart.lan.datetime; now() returns a settable instant"""
    current = _dt.datetime(2024, 1, 2, 3, 4, 5, 670000, tzinfo=_dt.timezone.utc)

    @classmethod
    def now(cls, tz=None):
        return cls.current


_rnd = {"bytes": b""}


def fake_random(n):
    out = _rnd["bytes"][:n]
    return out + bytes(n - len(out))


def install():
    L = lan()
    L.datetime = FakeClock
    L.get_random_bytes = fake_random
    return L


def set_time(y, mo, d, h, mi, s, us):
    FakeClock.current = _dt.datetime(y, mo, d, h, mi, s, us, tzinfo=_dt.timezone.utc)


def le(n, size=None):
    """int -> little-endian byte list (variable length, for ids that exceed 62 bits)"""
    out = []
    while n:
        out.append(n & 0xFF)
        n >>= 8
    return out + [0] * ((size or 0) - len(out))


def v2_encode(device_id, frame):
    L = install()
    return call(lambda: list(L._Packet.encode(device_id, bytes(frame))))


def v2_decode(data):
    L = install()
    return call(lambda: list(L._Packet.decode(bytes(data))))


def v3_proto(key=None):
    L = install()
    p = L._LanProtocolV3()
    p._local_key = bytes(key) if key else None
    return p


def v3_encode_request(key, pid, data, rnd):
    p = v3_proto(key)
    _rnd["bytes"] = bytes(rnd)
    return call(lambda: list(p._encode_encrypted_request(pid, bytes(data))))


def v3_session(key, steps):
    """ONE protocol object for a whole sequence of ("enc", pid, data, rnd) / ("dec", packet) steps -> list of results"""
    p = v3_proto(key)
    out = []
    for st in steps:
        if st[0] == "enc":
            _rnd["bytes"] = bytes(st[3])
            out.append(call(lambda: list(p._encode_encrypted_request(st[1], bytes(st[2])))))
        else:
            def f():
                with memoryview(bytes(st[1])) as mv:
                    return list(p._process_packet(mv))
            out.append(call(f))
    return out


def v3_encode_handshake(pid, data):
    p = v3_proto(None)
    return call(lambda: list(p._encode_handshake_request(pid, bytes(data))))


def v3_process(key, packet):
    p = v3_proto(key)

    def f():
        with memoryview(bytes(packet)) as mv:
            return list(p._process_packet(mv))
    return call(f)


def get_local_key(key, data):
    p = v3_proto(None)

    def f():
        with memoryview(bytes(data)) as mv:
            return list(p._get_local_key(bytes(key), mv))
    return call(f)


def lan_read(version, key, segments):
    """LAN._read() on a connection of the given version whose protocol object has received the segments: the level at which
    LAN.send sees a reply -> (code, frame | exc)"""
    import asyncio
    L = install()
    lan_ = L.LAN("10.0.0.1", 6444, 123456)
    p = L._LanProtocolV3() if version == 3 else L._LanProtocol()
    if version == 3:
        p._local_key = bytes(key) if key else None
    lan_._protocol = p
    lan_._protocol_version = version
    for s_ in segments:
        p.data_received(bytes(s_))
    loop = asyncio.new_event_loop()
    try:
        return call(lambda: list(loop.run_until_complete(lan_._read(timeout=0))))
    finally:
        loop.close()


def reassemble_gaps(segments, gap_s):
    """like reassemble, but every clock the interpreter offers (time.monotonic / time.time / perf_counter and the module's
    datetime) jumps by gap_s seconds between two segments"""
    import time as _time
    from unittest import mock
    p = v3_proto(None)
    t = {"now": 1000.0}
    base = FakeClock.current
    with mock.patch.object(_time, "monotonic", lambda: t["now"]), mock.patch.object(_time, "time", lambda: 1.7e9 + t["now"]), \
            mock.patch.object(_time, "perf_counter", lambda: t["now"]):
        try:
            for s_ in segments:
                p.data_received(bytes(s_))
                t["now"] += gap_s
                FakeClock.current = FakeClock.current + _dt.timedelta(seconds=gap_s)
        finally:
            FakeClock.current = base
    q = []
    while not p._queue.empty():
        q.append(list(p._queue.get_nowait()))
    return list(p._buffer), q


def reassemble(segments, buf0=()):
    """-> (buffer, [packets]) after feeding the segments to _LanProtocolV3.data_received"""
    p = v3_proto(None)
    p._buffer = bytearray(buf0)
    for s in segments:
        p.data_received(bytes(s))
    q = []
    while not p._queue.empty():
        q.append(list(p._queue.get_nowait()))
    return list(p._buffer), q


def cmp_res(rep, tag, inp, impl, model):
    """impl = (code, value|exc), model = (status, outs) with a single byte-list output"""
    ic, iv = impl
    ms, mo = model
    mv = mo[0] if ms == 0 and mo else None
    if ic != ms or (ic == 0 and iv != mv):
        rep.fail("corr", tag, inp, {"impl": [ic, iv if ic == 0 else str(iv)[:80]], "model": [ms, mv]})
        return False
    return True
