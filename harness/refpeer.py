"""A device-side peer for simnet built on the EXTRACTED reference (coq/spec/RefLan): it parses what the client writes with the
reference parsers and answers with packets from the reference builders. It also records, per connection, the decoded view
of every write: ('hs', counter, token) | ('data', counter, device_id, frame) | ('undecodable', raw)."""
F_V2PARSE, F_V2BUILD, F_V3PARSE, F_V3BUILD, F_HSREPLY, F_HSPKT, F_HSPARSE = 51, 52, 53, 54, 55, 56, 57


def le(n):
    out = []
    while n:
        out.append(n & 0xFF)
        n >>= 8
    return out


class RefDevice:
    def __init__(self, model, rng, version=3, token=None, key=None, device_id=123456):
        self.m, self.rng, self.version = model, rng, version
        self.token = list(token) if token is not None else [rng.randrange(256) for _ in range(64)]
        self.key = list(key) if key is not None else [rng.randrange(256) for _ in range(32)]
        self.device_id = device_id
        self.views = {}          # cid -> list of decoded writes
        self.resp_counter = 0
        self.on_frame = lambda frame: []          # AC-level behaviour: frame -> list of response frames
        self.fault = lambda conn, view: None      # optional override: return a list [(delay, item)] to replace the normal reply
        self.delay = 0.0

    # ---- builders -----------------------------------------------------------------------------------
    def v2_packet(self, frame, device_id=None):
        r = self.rng
        st, outs = self.m.call(F_V2BUILD, [[r.randrange(256) for _ in range(4)], [r.randrange(256) for _ in range(8)],
                                           le(self.device_id if device_id is None else device_id),
                                           [0] * 12, list(frame)])
        assert st == 0
        return outs[0]

    def v3_wrap(self, conn, payload, ptype=3, key=None):
        key = key or conn.state.get("session_key")
        self.resp_counter = (self.resp_counter + 1) % 65536
        st, outs = self.m.call(F_V3BUILD, [[ptype], key, [self.resp_counter], list(payload), [self.rng.randrange(256) for _ in range(16)]])
        assert st == 0
        return outs[0]

    def response_packet(self, conn, frame):
        v2 = self.v2_packet(frame)
        return v2 if self.version == 2 else self.v3_wrap(conn, v2)

    def error_packet(self):
        return [0x83, 0x70, 0x00, 0x00, 0x20, 0x0F, 0x00, 0x00]

    def handshake_reply(self, conn, key=None, nonce=None):
        nonce = nonce or [self.rng.randrange(256) for _ in range(32)]
        st, outs = self.m.call(F_HSREPLY, [list(key or self.key), nonce])
        assert st == 0
        reply, skey = outs
        st, outs = self.m.call(F_HSPKT, [[self.resp_counter], reply])
        return outs[0], skey

    # ---- the responder used by simnet.Net ---------------------------------------------------------------
    def decode_write(self, conn, data):
        data = list(data)
        if self.version == 2:
            st, outs = self.m.call(F_V2PARSE, [data])
            if st == 0:
                return ("data", None, int.from_bytes(bytes(outs[0]), "little"), outs[1])
            return ("undecodable", data)
        if len(data) >= 6 and data[5] & 0xF == 0:
            st, outs = self.m.call(F_HSPARSE, [data])
            if st == 0:
                return ("hs", outs[0][0], outs[1])
            return ("undecodable", data)
        skey = conn.state.get("session_key")
        if skey:
            st, outs = self.m.call(F_V3PARSE, [skey, data])
            if st == 0:
                counter, v2 = outs[0][0], outs[1]
                st2, o2 = self.m.call(F_V2PARSE, [v2])
                if st2 == 0:
                    return ("data", counter, int.from_bytes(bytes(o2[0]), "little"), o2[1])
        return ("undecodable", data)

    def __call__(self, conn, data):
        view = self.decode_write(conn, data)
        self.views.setdefault(conn.cid, []).append(view)
        override = self.fault(conn, view)
        if override is not None:
            return override
        if view[0] == "hs":
            if view[2] != self.token:
                return [(self.delay, bytes(self.error_packet()))]
            pkt, skey = self.handshake_reply(conn)
            conn.state["session_key"] = skey
            return [(self.delay, bytes(pkt))]
        if view[0] == "data":
            return [(self.delay, bytes(self.response_packet(conn, f))) for f in self.on_frame(view[3])]
        return []
