"""A frame-level IDEAL air conditioner: the device side of the AC application protocol, built only from the extracted
reference (coq/spec/RefFrame, coq/spec/RefAC) and the independent frame builders of acresp.py - never from msmart.

    ac = IdealAC(model, rng)                    # model: harness/model.py Model (extracted evaluator), rng: random.Random
    ac = IdealAC(model, rng, state={...})       # start from a given state (missing keys are drawn from rng)
    responses = ac.handle(frame)                # frame: bytes / list of ints, one request frame (0xAA ... checksum)
                                                # -> list of response frames (each a list of ints); [] = stays silent

Behaviour (one request frame in, zero or one response frame out):
  * the request must be accepted by the reference device parser (fid 5 dev_accepts: length, 0xAA, device type 0xAC, frame type,
    CRC-8, checksum) with the frame type the vendor uses for that request (control 0x02 for 0x40 / 0xB0, query 0x03 otherwise);
    anything else is ignored (logged as 'rejected');
  * 0x41 get-state (byte 1 = 0x81)        -> a 0xC0 status frame reporting the current state;
  * 0x40 set-state                        -> decoded with the reference decoder of the vendor layout (fid 30 ref_decode_control),
                                             every field of the state is replaced (beep is a one-shot tone: kept in last_beep only),
                                             answered with the status frame;
  * 0x41 display toggle (bytes 4, 6 = 2)  -> flips `display`, answered with the status frame;
  * 0xB5 capabilities                     -> a small fixed capability list (no additional page);
  * 0xB0 set-properties                   -> the raw records are kept in `props` {property id: [value bytes]}, no answer;
  * everything else (0x41 group queries, 0xB1, unknown ids) -> no answer.
Every status frame that is built is checked on the spot: the reference reading (fid 32 ref_report / expected_view) of the
body must equal the state (AssertionError otherwise), so the builder below is not trusted.

State (`ac.state`, plain dict of ints; `ac.vector()` gives it in the order of Run.v enc_request):
    power, mode (1..6), target (half degrees, 26..87 = 13.0..43.5 C), fan (0..127), swing (0|3|12|15), turbo, follow_me, eco,
    purifier, aux_heat, sleep, fahrenheit, humidity (0..100), freeze, indep_aux, display, filter (filter alert, read-only)
`ac.log` is the list of (kind, request frame, response frames) in arrival order; kinds: 'get-state', 'set-state', 'toggle-display',
'capabilities', 'set-properties', 'ignored', 'rejected'.  `ac.exchanges()` merges immediate repetitions of an unanswered frame
(LAN-level retries) so that there is one entry per application-level exchange.

Use as a simnet peer:      dev = RefDevice(model, rng, version=2); dev.on_frame = ac.handle
Use without a network:     msmart.lan.LAN.send = ac.lan_send()         (an `async def send(self, data, retries=...)`)
"""
import acresp as A

F_ACCEPTS, F_DECODE_CONTROL, F_REPORT = 5, 30, 32
FT_CONTROL, FT_QUERY = 2, 3

FIELDS = ["power", "beep", "mode", "target", "fan", "swing", "turbo", "follow_me", "eco", "purifier", "aux_heat", "sleep",
          "fahrenheit", "humidity", "freeze", "indep_aux"]            # order of Run.v enc_request
FLAGS = ["power", "turbo", "follow_me", "eco", "purifier", "sleep", "fahrenheit", "freeze", "display", "filter"]
MODES, SWINGS, AUX = [1, 2, 3, 4, 5, 6], [0, 3, 12, 15], [(0, 0), (1, 0), (0, 1)]

# capability records (id, value bytes) of the small capability answer: custom fan speeds, all modes, both swings, eco, turbo,
# freeze protection, display control, 16-30 C for every mode with half degrees
CAPS = [(0x0210, [1]), (0x0214, [1]), (0x0215, [1]), (0x0212, [1]), (0x021A, [1]), (0x0213, [1]), (0x0224, [1]),
        (0x0225, [32, 60, 32, 60, 32, 60, 1])]


def random_state(rng):
    """a state inside the domain every layer represents exactly (see C10 / C11)"""
    s = {k: rng.randrange(2) for k in FLAGS}
    aux = rng.choice(AUX)
    s.update(mode=rng.choice(MODES), target=rng.randrange(26, 88), fan=rng.choice([20, 40, 60, 80, 100, 102, rng.randrange(1, 101)]),
             swing=rng.choice(SWINGS), humidity=rng.randrange(0, 101), aux_heat=aux[0], indep_aux=aux[1])
    return s


class IdealAC:
    def __init__(self, model, rng, state=None, caps=None):
        self.m, self.rng = model, rng
        self.state = random_state(rng)
        if state:
            self.state.update(state)
        self.caps = list(CAPS if caps is None else caps)
        self.last_beep = None
        self.props = {}
        self.log = []
        self.silent = False           # when set the device answers nothing (offline)
        self.indoor_raw, self.outdoor_raw = 50 + 2 * 22, 0xFF        # 22.0 C indoors, outdoor sensor absent

    # ---- views of the state ----------------------------------------------------------------------------------
    def vector(self, state=None):
        s = dict(self.state if state is None else state)
        s.setdefault("beep", 0)
        return [int(s[k]) for k in FIELDS]

    def snapshot(self):
        return dict(self.state)

    # ---- building the status frame -----------------------------------------------------------------------------
    def status_body(self):
        s = self.state
        whole, half = s["target"] // 2, s["target"] % 2
        if 16 <= whole <= 31:
            nib, alt = whole - 16, 0
        else:
            nib, alt = 0, whole - 12
        assert 0 <= nib < 16 and 0 <= alt < 32, ("target outside the layout", s["target"])
        kw = {
            "b1": s["power"],
            "b2": (s["mode"] << 5) | (half << 4) | nib,
            "b3": s["fan"],
            "b7": s["swing"],
            "b8": (s["turbo"] << 5) | (s["indep_aux"] << 6) | (s["follow_me"] << 7),
            "b9": (s["aux_heat"] << 3) | (s["eco"] << 4) | (s["purifier"] << 5),
            "b10": s["sleep"] | (s["turbo"] << 1) | (s["fahrenheit"] << 2),
            "b11": self.indoor_raw, "b12": self.outdoor_raw,
            "b13": alt | (s["filter"] << 5),
            "b14": 0x00 if s["display"] else 0x70,
            "b19": s["humidity"],
            "b21": s["freeze"] << 7,
        }
        body = A.state_body(None, n=24, **kw)
        self._check_report(body)
        return body

    def _check_report(self, body):
        """the reference reading of what was built must be the state"""
        st, outs = self.m.call(F_REPORT, [body, [1]])
        assert st == 0, "reference cannot read the status body"
        v = outs[0]
        s = self.state
        aux_mode = 2 if s["indep_aux"] else 1 if s["aux_heat"] else 0
        want = [s["power"], s["target"], s["mode"], s["fan"], s["swing"], s["eco"], s["turbo"], 1, s["freeze"], s["sleep"],
                s["fahrenheit"], s["display"], s["filter"], s["follow_me"], s["purifier"], 1, s["humidity"], aux_mode]
        assert v == want, ("status body does not report the state", v, want)

    def status_frame(self, ftype):
        return A.mk_frame(self.status_body(), ftype=ftype)

    # ---- one request -----------------------------------------------------------------------------------------
    def handle(self, frame):
        frame = list(frame)
        kind, responses = self._handle(frame)
        self.log.append((kind, frame, responses))
        return responses

    def _handle(self, frame):
        if len(frame) < 13:
            return "rejected", []
        ftype = frame[9]
        st, outs = self.m.call(F_ACCEPTS, [[ftype], frame])
        if st != 0 or outs[0] != [1]:
            return "rejected", []
        body = outs[2]
        if not body:
            return "ignored", []
        cid = body[0]
        want_type = FT_CONTROL if cid in (0x40, 0xB0) else FT_QUERY
        if ftype != want_type:
            return "rejected", []
        if self.silent:
            return "ignored", []
        if cid == 0x41 and len(body) >= 21 and body[1] == 0x81:
            return "get-state", [self.status_frame(ftype)]
        if cid == 0x41 and len(body) >= 21 and body[1] & 0xBF == 0x02 and body[4] == 0x02 and body[6] == 0x02:
            self.state["display"] ^= 1
            return "toggle-display", [self.status_frame(ftype)]
        if cid == 0x40:
            st, outs = self.m.call(F_DECODE_CONTROL, [body])
            if st != 0:
                return "ignored", []
            q = dict(zip(FIELDS, outs[0]))
            self.last_beep = q.pop("beep")
            self.state.update(q)
            return "set-state", [self.status_frame(ftype)]
        if cid == 0xB5:
            return "capabilities", [A.mk_frame(A.caps_body(self.caps, more=0), ftype=ftype)]
        if cid == 0xB0:
            i, n = 2, body[1] if len(body) > 1 else 0
            for _ in range(n):
                if i + 3 > len(body):
                    break
                size = body[i + 2]
                self.props[body[i] | body[i + 1] << 8] = body[i + 3:i + 3 + size]
                i += 3 + size
            return "set-properties", []
        return "ignored", []

    def exchanges(self):
        """log with immediate repetitions of an unanswered request merged (one entry per application-level exchange)"""
        out = []
        for kind, frame, resp in self.log:
            if out and out[-1][1] == frame and not out[-1][2]:
                out[-1] = (kind, frame, resp)
            else:
                out.append((kind, frame, resp))
        return out

    # ---- stand-in for msmart.lan.LAN.send -----------------------------------------------------------------------
    def lan_send(self):
        ac = self

        async def send(self, data, retries=3):
            return [bytes(f) for f in ac.handle(data)]
        return send
