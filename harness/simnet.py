"""Simulated network for the real msmart code: a virtual-time asyncio event loop, in-memory TCP transports and a scripted or
programmable peer. Nothing touches real sockets or the wall clock; time advances only when the loop would block."""
import asyncio
import datetime as _dt
import heapq
import selectors

EPOCH = _dt.datetime(2024, 1, 2, 0, 0, 0, tzinfo=_dt.timezone.utc)


class _VSelector(selectors.SelectSelector):
    def __init__(self, owner):
        super().__init__()
        self._owner = owner

    def select(self, timeout=None):
        if timeout is None:
            raise RuntimeError("simnet: the loop would block forever (nothing scheduled)")
        if timeout > 0:
            self._owner._vtime += timeout
        return []


class VLoop(asyncio.SelectorEventLoop):
    """SelectorEventLoop whose clock is virtual."""

    def __init__(self, net=None):
        self._vtime = 0.0
        super().__init__(selector=_VSelector(self))
        self.net = net

    def time(self):
        return self._vtime

    async def create_connection(self, protocol_factory, host=None, port=None, **kw):
        outcome = self.net.next_connect()
        if outcome == "refuse":
            raise ConnectionRefusedError(111, "Connection refused")
        if outcome == "hang":
            await self.create_future()          # never completes; the caller's wait_for times out
        conn = self.net.new_conn(host, port)
        proto = protocol_factory()
        tr = FakeTransport(self, proto, conn, self.net)
        conn.transport, conn.protocol = tr, proto
        proto.connection_made(tr)
        return tr, proto

    async def create_datagram_endpoint(self, protocol_factory, local_addr=None, remote_addr=None, **kw):
        proto = protocol_factory()
        tr = FakeDatagramTransport(self, proto, self.net)
        self.net.endpoints.append(tr)
        proto.connection_made(tr)
        self.net.on_endpoint(tr)
        return tr, proto


class _FakeSock:
    def __init__(self):
        self.opts = []

    def setsockopt(self, *a):
        self.opts.append(a)


class FakeDatagramTransport(asyncio.DatagramTransport):
    """in-memory UDP endpoint: records every sendto; the net delivers scripted datagrams until it is closed"""

    def __init__(self, loop, proto, net):
        super().__init__()
        self._loop, self._proto, self._net = loop, proto, net
        self._closing = False
        self.sock = _FakeSock()
        self.sent = []                 # (data, addr, time)
        self.transport = self          # so that the dispatcher can treat it like a connection

    def get_extra_info(self, name, default=None):
        return self.sock if name == "socket" else default

    def is_closing(self):
        return self._closing

    def sendto(self, data, addr=None):
        self.sent.append((bytes(data), addr, self._loop.time()))
        self._net.log.append(("sendto", bytes(data), addr, self._loop.time()))

    def close(self):
        if not self._closing:
            self._closing = True
            self._net.log.append(("udp-close", self._loop.time()))
            self._loop.call_soon(self._proto.connection_lost, None)

    def abort(self):
        self.close()

    def _deliver(self, item):
        if self._closing:
            return
        data, addr = item
        self._net.log.append(("dgram", addr, self._loop.time()))
        self._proto.datagram_received(bytes(data), addr)


class Conn:
    def __init__(self, cid, host, port):
        self.cid, self.host, self.port = cid, host, port
        self.transport = self.protocol = None
        self.written = []            # raw writes
        self.state = {}              # free for the peer (session key, ...)
        self.closed_by_client = False
        self.closed_by_peer = False


class FakeTransport(asyncio.Transport):
    def __init__(self, loop, proto, conn, net):
        super().__init__()
        self._loop, self._proto, self._conn, self._net = loop, proto, conn, net
        self._closing = False

    def get_extra_info(self, name, default=None):
        if name == "peername":
            return (self._conn.host, self._conn.port)
        if name == "sockname":
            return ("10.9.9.9", 50000 + self._conn.cid)
        return default

    def is_closing(self):
        return self._closing

    def close(self):
        if not self._closing:
            if self._net.pre_event:
                self._net.pre_event(self._conn)
            self._closing = True
            self._conn.closed_by_client = True
            self._net.log.append(("close", self._conn.cid, self._loop.time()))
            self._loop.call_soon(self._proto.connection_lost, None)

    def abort(self):
        self.close()

    def write(self, data):
        data = bytes(data)
        if self._closing:
            # asyncio's socket transport silently discards writes once the connection is lost / closing
            self._net.log.append(("write-discarded", self._conn.cid, self._loop.time(), data))
            return
        if self._net.pre_event:
            self._net.pre_event(self._conn)
        self._conn.written.append(data)
        self._net.log.append(("write", self._conn.cid, self._loop.time(), data))
        self._net.on_write(self._conn, data)

    # used by the net to deliver
    def _deliver(self, item):
        if self._closing:
            return
        if item == "close":
            self._closing = True
            self._conn.closed_by_peer = True
            self._proto.connection_lost(None)
        else:
            self._proto.data_received(bytes(item))


class Net:
    """connect outcomes and, per received write, what the peer sends back: a list of (delay_seconds, bytes | 'close')"""

    def __init__(self, connects=None, replies=None, responder=None, host="10.0.0.1"):
        self.connects = list(connects or [])
        self.replies = list(replies or [])
        self.responder = responder      # callable(conn, data) -> [(delay, item)], used when given
        self.conns = []
        self.log = []
        self.pre_event = None           # hook called with the connection before a write / close is logged
        self.endpoints = []             # datagram endpoints created so far
        self.dgrams = []                # scripted datagrams for the next endpoint: (delay_seconds, data, (ip, port))
        self._inflight, self._seq, self._armed, self._token = [], 0, None, 0
        self.loop = VLoop(self)

    def next_connect(self):
        out = self.connects.pop(0) if self.connects else "ok"
        self.log.append(("connect", out, self.loop.time()))
        return out

    def new_conn(self, host, port):
        c = Conn(len(self.conns), host, port)
        self.conns.append(c)
        return c

    def on_write(self, conn, data):
        if self.responder is not None:
            reply = self.responder(conn, data)
        else:
            reply = self.replies.pop(0) if self.replies else []
        # arrivals are computed from the NOMINAL time (whole milliseconds) so that the tie-breaking offsets never add up;
        # one dispatcher delivers exactly one item per loop iteration, in (arrival, scheduling order)
        nominal = round(self.loop.time(), 3)
        for delay, item in reply or []:
            self._seq += 1
            heapq.heappush(self._inflight, (round(nominal + delay, 6), self._seq, conn, item))
        self._arm()

    def on_endpoint(self, tr):
        """a datagram endpoint was opened (and has sent its probes): schedule the scripted replies"""
        nominal = round(self.loop.time(), 3)
        script, self.dgrams = self.dgrams, []
        for delay, data, addr in script:
            self._seq += 1
            heapq.heappush(self._inflight, (round(nominal + delay, 6), self._seq, tr, (bytes(data), addr)))
        self._arm()

    def inject(self, conn, delay, data):
        """the peer sends on its own (not in answer to a write)"""
        self._seq += 1
        heapq.heappush(self._inflight, (round(round(self.loop.time(), 3) + delay, 6), self._seq, conn, data if data == "close" else bytes(data)))
        self._arm()

    def _arm(self):
        if not self._inflight:
            return
        when = self._inflight[0][0] + 1e-7              # a timer due at the same instant fires first
        if self._armed is None or when < self._armed[0] - 1e-12:
            self._token += 1
            self._armed = (when, self._token)
            self.loop.call_at(max(when, self.loop.time()), self._dispatch, self._token)

    def _dispatch(self, token):
        if self._armed is None or self._armed[1] != token:
            return                                       # a superseded timer
        self._armed = None
        if self._inflight and self._inflight[0][0] + 1e-7 <= self.loop.time() + 1e-12:
            _, _, conn, item = heapq.heappop(self._inflight)
            conn.transport._deliver(item)
            if self._inflight and self._inflight[0][0] + 1e-7 <= self.loop.time() + 1e-12:
                # next item of the same instant: one loop iteration later
                self._token += 1
                self._armed = (self.loop.time(), self._token)
                self.loop.call_soon(self._dispatch, self._token)
                return
        self._arm()

    # ---- running --------------------------------------------------------------------------------
    def run(self, coro):
        asyncio.set_event_loop(self.loop)
        return self.loop.run_until_complete(coro)

    def tick(self, seconds):
        self.run(asyncio.sleep(seconds))

    def close(self):
        try:
            self.loop.run_until_complete(self.loop.shutdown_asyncgens())
        except Exception:  # noqa: BLE001
            pass
        self.loop.close()


class Clock:
    """stands in for msmart.lan.datetime"""
    net = None
    offset = 0.0

    @classmethod
    def now(cls, tz=None):
        return EPOCH + _dt.timedelta(seconds=cls.net.loop.time() + cls.offset)


def install(net, rnd=None):
    """patch msmart.lan's clock and randomness to the simulation"""
    import msmart.lan as L
    Clock.net, Clock.offset = net, 0.0
    L.datetime = Clock
    if rnd is not None:
        L.get_random_bytes = rnd
    return L
