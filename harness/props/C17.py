"""C17: every well-formed V2/V3 discovery reply (built by the extracted reference builder, coq/spec/RefDiscover) is reported by
the real Discover.discover() on the simulated network with exactly its identity and the source address; AC -> AirConditioner,
other types -> Device; the probe is what the reference appliance answers, sent to both ports discovery_packets times."""
import asyncio
import itertools

import discsim as S
from common import exn_code

ASSUMPTIONS = [
    "modelled, not verified: the UDP socket / broadcast (simnet datagram endpoint), xml.etree (its verdict on a datagram is an "
    "input to the model, computed by the harness with the same library call), int(_,16) on non-ASCII digits/spaces",
    "'the probe real devices answer' has no oracle in the repository other than the constant itself: checked = length-consistent, "
    "correctly signed V2 packet of the broadcast type with a decryptable payload, sent to ports 6445 and 20086",
]

ID_EDGES = [0, 1, 255, 256, 65535, 65536, (1 << 24) - 1, 1 << 24, (1 << 32) - 1, 1 << 32, (1 << 40) - 1, 1 << 40, (1 << 48) - 1,
            15393162840672, 0x0000FF0000FF]
PORT_EDGES = [1, 255, 256, 257, 6444, 6445, 20086, 32767, 32768, 65280, 65534, 65535]


def info_impl(loop, D, ip, ver, data):
    try:
        r = loop.run_until_complete(D.Discover._get_device_info(ip, ver, bytes(data)))
        return 0, r
    except Exception as e:  # noqa: BLE001
        return exn_code(e), None


def run(ctx, rep):
    import msmart.discover as D
    from msmart.const import DISCOVERY_MSG
    from msmart.device import AirConditioner as AC
    m, rng = ctx.model, ctx.rng
    rep.rule = ("reference-built replies: ids at every byte boundary + random, edge ports, all 256 type bytes, reported IP equal / "
                "different from the source, both versions, extra payload bytes; through Discover.discover() on simnet (oracle = the "
                "encoded identity) and through _get_device_info against the model; int(_,16) tokens exhaustively over a 14-symbol "
                "alphabet; UTF-8 validity on structured byte strings. non-trivial = distinct (version, id, port, type)")
    # ---- 1. library-semantics pieces of the model against CPython ------------------------------------------------------
    alpha = [0x20, 0x09, 0x1C, 0x2B, 0x2D, 0x30, 0x78, 0x58, 0x5F, 0x31, 0x61, 0x46, 0x67, 0x00]
    toks = [list(t) for n in range(0, 4 if not ctx.deep else 5) for t in itertools.product(alpha, repeat=n)]
    toks += [[rng.choice(alpha + [0xC3, 0xA9, 0x39, 0x62]) for _ in range(rng.randrange(1, 9))] for _ in range(ctx.n(1000, 20000))]
    mo = m.batch([(S.F_INT16, [t]) for t in toks])
    for t, (st, outs) in zip(toks, mo):
        try:
            s = bytes(t).decode()
        except UnicodeDecodeError:
            continue
        try:
            v, c = int(s, 16), 0
        except ValueError:
            v, c = None, 2
        rep.case(None, "int16-token")
        if (st, outs[0][0] if st == 0 else None) != (c, v):
            rep.fail("corr", "int16", {"token": t}, {"impl": [c, v], "model": [st, outs]})
    strs = [[a, b] for a in (0x41, 0x7F, 0x80, 0xBF, 0xC0, 0xC1, 0xC2, 0xDF, 0xE0, 0xED, 0xEF, 0xF0, 0xF4, 0xF5, 0xFF)
            for b in (0x41, 0x7F, 0x80, 0x8F, 0x90, 0x9F, 0xA0, 0xBF, 0xC0)]
    strs += [[a, b, c] for a in (0xE0, 0xE1, 0xED, 0xEE, 0xF0, 0xF4) for b in (0x7F, 0x80, 0x8F, 0x90, 0x9F, 0xA0, 0xBF, 0xC0)
             for c in (0x41, 0x80, 0xBF, 0xC0)]
    strs += [[a, b, c, d] for a in (0xF0, 0xF1, 0xF4, 0xF5) for b in (0x80, 0x8F, 0x90, 0xBF) for c in (0x7F, 0x80, 0xBF)
             for d in (0x80, 0xBF, 0xC0)]
    strs += [[rng.choice([0x41, 0x80, 0xC2, 0xE0, 0xA0, 0xED, 0xF0, 0x90, 0xBF, 0xF4, 0xFF]) for _ in range(rng.randrange(0, 9))]
             for _ in range(ctx.n(2000, 40000))]
    mo = m.batch([(S.F_UTF8, [t]) for t in strs])
    for t, (st, outs) in zip(strs, mo):
        try:
            bytes(t).decode()
            ok = 1
        except UnicodeDecodeError:
            ok = 0
        rep.case(None, "utf8")
        if outs[0][0] != ok:
            rep.fail("corr", "utf8", {"bytes": t}, {"impl": ok, "model": outs})
    # ---- 2. identities ---------------------------------------------------------------------------------------------------
    idents = []
    for i in ID_EDGES:
        idents.append((rng.choice([2, 3]), i, rng.choice(PORT_EDGES), 0xAC))
    for p in PORT_EDGES:
        idents.append((rng.choice([2, 3]), rng.randrange(1 << 48), p, 0xAC))
    for ty in range(256):
        idents.append((2 + ty % 2, rng.randrange(1 << 48), rng.choice(PORT_EDGES), ty))
    for ver in (2, 3):
        idents.append((ver, (1 << 48) - 1, 65535, 0xAC))
    for _ in range(ctx.n(300, 6000)):
        idents.append((rng.choice([2, 3]), rng.randrange(1 << 48), rng.randrange(1, 65536), rng.choice([0xAC, 0xAC, rng.randrange(256)])))
    loop = asyncio.new_event_loop()
    replies = []
    for ver, did, port, ty in idents:
        host = rng.randrange(1, 60000)
        sn = S.good_sn(rng)
        name = S.good_name(m, rng, ty)
        rip = rng.choice([None, [int(x) for x in S.ip_of(host).split(".")]])
        data = S.ref_reply(m, rng, ver, did, port, sn, name, rip=rip)
        replies.append((host, ver, did, port, ty, sn, name, data))
    # direct parser vs model (incl. mutated payload bytes)
    direct = [(h, ver, d) for h, ver, *_x, d in replies]
    for h, ver, *_x, d in replies[:ctx.n(150, 1500)]:
        b = bytearray(d)
        for _ in range(rng.choice([1, 1, 2, 8])):
            b[rng.randrange(len(b))] = rng.randrange(256)
        direct.append((h, ver, bytes(b)))
        direct.append((h, ver, d[:rng.randrange(len(d))]))
        direct.append((h, 5 - ver, d))
    mo = m.batch([(S.F_INFO, [[h], [ver], [0], list(d)]) for h, ver, d in direct])
    for (h, ver, d), (st, outs) in zip(direct, mo):
        c, r = info_impl(loop, D, S.ip_of(h), ver, d)
        rep.case(None, "parser-direct")
        if c == 0:
            im = [[h, r["port"], r["version"], r["device_type"], int(r["device_type"] == 0xAC)], S.le(r["device_id"]),
                  list(r["name"].encode()), list(r["sn"].encode())]
            if r["ip"] != S.ip_of(h):
                rep.fail("oracle", "source-address-not-used", {"host": h, "data": d.hex()}, {"ip": r["ip"]})
        if (c != st) or (c == 0 and im != [list(o) for o in outs]):
            rep.fail("corr", "get_device_info", {"host": h, "version": ver, "data": d.hex()},
                     {"impl": [c, im if c == 0 else None], "model": [st, outs]})
    loop.close()
    # ---- 3. through discover(): groups of up to 4 hosts ------------------------------------------------------------------
    k = 0
    AC_name = "AirConditioner"
    while k < len(replies):
        n = rng.choice([1, 1, 2, 3, 4])
        group = replies[k:k + n]
        k += n
        if len({g[0] for g in group}) != len(group):
            group = group[:1]
        dg = [(rng.randrange(0, 4000), g[0], rng.choice([6445, 20086, rng.randrange(1, 65536)]), g[7]) for g in group]
        packets = rng.choice([1, 3, 5])
        target = rng.choice(["255.255.255.255", "10.0.0.7"])
        st, devs, probes, opts = S.run_impl(dg, packets=packets, target=target)
        want = sorted((g[0], g[3], g[1], g[4], int(g[4] == 0xAC), g[2], tuple(g[6]), tuple(g[5])) for g in group)
        for g in group:
            rep.case((g[1], g[2], g[3], g[4]), f"v{g[1]}-" + ("ac" if g[4] == 0xAC else "other"))
        inp = {"dgrams": [(t, h, p, d.hex()) for t, h, p, d in dg], "packets": packets, "target": target}
        if st != 0:
            rep.fail("oracle", "discover-raised", inp, {"status": st})
        elif devs != want:
            rep.fail("oracle", "identity-mismatch", inp, {"reported": devs, "advertised": want})
        exp_probes = [(port, bytes(DISCOVERY_MSG), target) for port in (6445, 20086) for _ in range(packets)]
        if probes != exp_probes:
            rep.fail("oracle", "probe-sequence", inp, {"sent": [(p, d.hex(), t) for p, d, t in probes][:8]})
        if target == "255.255.255.255" and not opts:
            rep.fail("oracle", "broadcast-option-not-set", inp, {})
    # the DEFAULT mode (auto_connect=True): the device is queried before it is returned; a device that answered the probe is
    # reported whether or not that query gets anywhere (generic appliance types cannot be refreshed at all; the simulated
    # appliances accept the TCP connection and stay silent). V2 replies - a V3 device would need the cloud (C19)
    v2 = [g for g in replies if g[1] == 2]
    for g in (v2 if ctx.deep else v2[::3]):
        tmo = rng.choice([1.0, 2.0, 5.0])                     # the follow-up query of a silent appliance outlasts the discovery timeout
        dg = [(rng.randrange(0, int(tmo * 800)), g[0], 6445, g[7])]
        st, devs, _, _ = S.run_impl(dg, auto_connect=True, timeout=tmo)
        rep.case(("auto", g[2], g[3], g[4]), "auto-connect-" + ("ac" if g[4] == 0xAC else "other"))
        want = [(g[0], g[3], g[1], g[4], int(g[4] == 0xAC), g[2], tuple(g[6]), tuple(g[5]))]
        if st != 0 or devs != want:
            rep.fail("oracle", "discover-raised" if st else "answering-device-not-reported:auto-connect",
                     {"auto_connect": True, "timeout_s": tmo, "dgrams": [(t, h, p, d.hex()) for t, h, p, d in dg]}, {"status": st, "reported": devs, "advertised": want})
    # discover_single(host): the probe goes to one host, named by IP literal or by HOSTNAME; the device that answers is the result
    for g in replies[:: (7 if not ctx.deep else 2)]:
        for host in (S.ip_of(g[0]), "ac-livingroom.local", "localhost"):
            dg = [(rng.randrange(0, 4000), g[0], 6445, g[7])]
            st, devs, probes, _ = S.run_impl(dg, single=host)
            rep.case(("single", host, g[1], g[2]), "discover-single-" + ("ip" if host[0].isdigit() else "hostname"))
            want = [(g[0], g[3], g[1], g[4], int(g[4] == 0xAC), g[2], tuple(g[6]), tuple(g[5]))]
            inp = {"discover_single": host, "dgrams": [(t, h, p, d.hex()) for t, h, p, d in dg]}
            if st != 0 or devs != want:
                rep.fail("oracle", "discover-raised" if st else "answering-device-not-reported:discover-single", inp,
                         {"status": st, "reported": devs, "advertised": want})
            elif any(t != host for _, _, t in probes):
                rep.fail("oracle", "probe-sequence:discover-single", inp, {"probe_targets": sorted({t for _, _, t in probes})})
    # repeated runs in one process: the same hosts answer every run and must be reported every run
    for rnd in range(ctx.n(6, 60)):
        group = [g for g in rng.sample(replies, 3)]
        if len({g[0] for g in group}) != 3:
            continue
        want = sorted((g[0], g[3], g[1], g[4], int(g[4] == 0xAC), g[2], tuple(g[6]), tuple(g[5])) for g in group)
        for run_no in range(3):
            dg = [(rng.randrange(0, 4000), g[0], 6445, g[7]) for g in group]
            st, devs, _, _ = S.run_impl(dg)
            rep.case(None, "repeated-run")
            if st != 0 or devs != want:
                rep.fail("oracle", "repeated-run-loses-device", {"run": run_no + 1, "dgrams": [(t, h, p, d.hex()) for t, h, p, d in dg]},
                         {"status": st, "reported": devs, "advertised": want})
                break
    rep.sample({"version": replies[0][1], "id": replies[0][2], "port": replies[0][3], "type": replies[0][4], "reply": replies[0][7].hex()})
    # the probe itself against the reference appliance, and the model's probe list against the wire
    st, outs = m.one(S.F_PROBE_OK, [list(DISCOVERY_MSG)])
    if outs[0][0] != 1:
        rep.fail("oracle", "probe-not-answerable", {"probe": bytes(DISCOVERY_MSG).hex()}, {})
    st, outs = m.one(S.F_PROBES, [[3]])
    _, _, probes, _ = S.run_impl([], packets=3)
    if [(o[0][0], bytes(o[1])) for o in zip(outs[0::2], outs[1::2])] != [(p, d) for p, d, _ in probes]:
        rep.fail("corr", "probes", {}, {"model": outs, "impl": [(p, d.hex()) for p, d, _ in probes]})
