"""C20: `msmart-ng control` applies the documented meaning of each setting=value pair, leaves unspecified settings as the device
reported them, and rejects unknown / read-only / ill-typed settings with a non-zero exit before anything is sent.

The REAL msmart.cli.main() runs in-process with a crafted sys.argv against harness/idealac.IdealAC, either behind the simulated
network (simnet + the reference LAN peer RefDevice(version=2)) or plugged in directly in place of LAN.send (same frames, no
packet layer; used for the bulk of the sweep).  Observed: exit status (SystemExit code, or the exception that escapes main()),
every frame the device received, the state of the ideal device before and after.

 * oracle (judged by the extracted coq/spec/RefCli.v + the ideal device, never by the model of the code):
   documented-value-not-applied, unspecified-setting-changed, display-toggled-wrongly, invalid-setting-accepted,
   sent-before-rejection, valid-setting-rejected
 * corr: coq/model/Cli.v against the code - converted values (`new_properties`, observed through a recording device object),
   exit status / escaping exception, command bodies sent and message counter of whole runs; lib/PyLit.lit against
   ast.literal_eval; the regenerated setting table against run-time introspection; the spec table against the setter annotations.
"""
import argparse
import ast
import asyncio
import logging
from fractions import Fraction

import acdev
import idealac
import refpeer
import simnet
from common import exn_code

F_LIT, F_PARSE, F_CONTROL, F_JUDGE, F_DOCTABLE, F_MODELTABLE, F_ENUM, F_CASEMAP = 80, 81, 82, 83, 84, 85, 86, 87

ASSUMPTIONS = [
    "argparse is not modelled: the settings reach _control as given (words starting with '-' are not generated)",
    "ast.literal_eval is modelled only as a classification (int / bool / finite float as an exact fraction / str / None / other "
    "object / raised exception). coq/lib/PyLit.lit computes that classification for: the empty string, True/False/None, "
    "identifiers and keywords, [+-]decimal integers without leading zeros, [+-]decimal/exponent floats (<= 40 characters, "
    "exponent <= 2 digits, no white space or underscores) and is compared with the real ast.literal_eval on every such string "
    "that occurs in a run (floats: the exact decimal must round to the Python float). For every other string the classification "
    "used by the model is the one computed by the real ast.literal_eval in this harness; the theorems hold for every evaluator "
    "that agrees with lit on lit's grammar",
    "strings outside the model (not compared with the model, still judged by the oracles): non-ASCII characters (str.upper / "
    "str.capitalize are modelled on ASCII only), bytes literals, infinite floats, integers >= 2^1000 for float settings, "
    "literal_eval exceptions other than ValueError / SyntaxError / TypeError",
    "float(decimal literal) is treated as the exact decimal in theorems about lit (true for <= 15 significant digits)",
    "values the Device.v record cannot hold are stored through a representative that yields the same command bytes (negative fan "
    "speed -> 256, humidity mod 128, temperature = integral part + 'positive fraction' flag); negative target temperatures are "
    "outside the modelled domain of whole runs",
    "the LAN / packet layer below Device._send_command is the abstract peer of Device.v (C02-C09 cover it); exit status of an "
    "uncaught exception is taken to be 1 (CPython); logging output is not observed",
    "property-protocol settings (swing angles, rate select, breeze modes, ieco): accepted/rejected and the raw property record "
    "that reaches the device are checked; their vendor encoding is the subject of C16",
]

# --------------------------------------------------------------------------------------------------------------------
# integers of any size <-> [sign, little-endian bytes]


def big(z):
    out, m = [1 if z < 0 else 0], abs(z)
    while m:
        out.append(m & 0xFF)
        m >>= 8
    return out


def unbig(l):
    m = int.from_bytes(bytes(l[1:]), "little")
    return -m if l and l[0] else m


def classify(s):
    """class row (see coq/extract/RunCli.v class_of) of ast.literal_eval(s), or None when outside the model"""
    try:
        v = ast.literal_eval(s)
    except ValueError:
        return [6, 2]
    except SyntaxError:
        return [6, 22]
    except TypeError:
        return [6, 6]
    except BaseException:  # noqa: BLE001  MemoryError, RecursionError ...
        return None
    if isinstance(v, bool):
        return [1, int(v)]
    if isinstance(v, int):
        return [0] + big(v)
    if isinstance(v, float):
        if v != v or v in (float("inf"), float("-inf")):
            return None
        n, d = v.as_integer_ratio()
        bn = big(n)
        return [2, len(bn)] + bn + big(d)[1:]
    if isinstance(v, str):
        return [3] + list(v.encode()) if v.isascii() else None
    if v is None:
        return [4]
    if isinstance(v, (list, tuple, dict, set, complex)) or v is Ellipsis:
        return [5, int(bool(v))]
    return None


def classify_for_spec(s):
    """like classify, total: what the value is as a Python literal, for the judgement of the specification only"""
    if s is None:
        return [6, 22]
    c = classify(s)
    if c is not None:
        return c
    try:
        v = ast.literal_eval(s)
    except BaseException:  # noqa: BLE001
        return [6, 22]                                 # not a value at all
    if isinstance(v, float):                           # inf: a float nevertheless (never "documented": lit does not read it)
        bn = big(10 ** 400 if v > 0 else -10 ** 400)
        return [2, len(bn)] + bn + [1]
    if isinstance(v, str):
        return [3] + list(v.encode())
    return [5, int(bool(v))]                           # bytes and other objects


def class_value(row):
    """comparable form of a class row"""
    if row[0] == 0:
        return ("int", unbig(row[1:]))
    if row[0] == 2:
        n = row[1]
        return ("float", Fraction(unbig(row[2:2 + n]), int.from_bytes(bytes(row[2 + n:]), "little")))
    return tuple(row)


def class_agrees(coq_row, py_row):
    a, b = class_value(coq_row), class_value(py_row)
    if a[0] == "float" and b[0] == "float":
        try:
            return float(a[1]) == float(b[1])          # the exact decimal rounds to the Python float
        except OverflowError:
            return False
    return a == b


def tval_value(row):
    if row[0] in (0, 2):
        return ("i", unbig(row[1:]))
    if row[0] == 1:
        return ("b", row[1])
    n = row[1]
    return ("f", Fraction(unbig(row[2:2 + n]), int.from_bytes(bytes(row[2 + n:]), "little")))


def real_value(v):
    if isinstance(v, bool):
        return ("b", int(v))
    if isinstance(v, int):
        return ("i", int(v))
    if isinstance(v, float):
        return ("f", Fraction(v)) if v == v and abs(v) != float("inf") else ("f", repr(v))
    return ("?", repr(v))


# --------------------------------------------------------------------------------------------------------------------
# the real code

class _Probe:
    """stands for device.display_on: records what it is compared with"""
    __hash__ = None

    def __init__(self, rec):
        self.rec = rec

    def __eq__(self, o):
        self.rec.append(("display_on", o))
        return False

    def __ne__(self, o):
        self.rec.append(("display_on", o))
        return True


class _Recorder:
    """a device object that records what _control does with the converted values"""

    def __init__(self):
        object.__setattr__(self, "rec", [])
        object.__setattr__(self, "online", True)
        object.__setattr__(self, "display_on", _Probe(self.rec))

    async def refresh(self):
        pass

    async def get_capabilities(self):
        pass

    async def toggle_display(self):
        pass

    async def apply(self):
        pass

    def __setattr__(self, k, v):
        self.rec.append((k, v))


def status_of(f):
    """run f() -> ('exit', code) | ('raise', exception code)"""
    try:
        f()
    except SystemExit as e:
        return ("exit", 0 if e.code is None else e.code)
    except Exception as e:  # noqa: BLE001
        return ("raise", exn_code(e), type(e).__name__ + ": " + str(e)[:80])
    return ("return", 0)


def real_convert(cli, settings):
    """-> (status, [(name, value)]) : the converted values in the order _control hands them to the device"""
    rec = _Recorder()

    async def fake_connect(args):
        return rec
    saved = cli._connect
    cli._connect = fake_connect
    args = argparse.Namespace(settings=list(settings), capabilities=False, host="10.0.0.1", auto=False, token=None, key=None,
                              device_id=0)

    def go():
        coro = cli._control(args)
        try:
            coro.send(None)
        except StopIteration:
            return
        coro.close()
        raise RuntimeError("_control awaited something real")
    try:
        st = status_of(go)
    finally:
        cli._connect = saved
    return st, [(k, real_value(v)) for k, v in rec.rec]


class Env:
    """patches needed to run cli.main() in-process; restored by close()"""

    def __init__(self, ctx):
        import msmart.cli as cli
        import msmart.lan as L
        from msmart.device.AC import command as C
        self.cli, self.L, self.C, self.ctx = cli, L, C, ctx
        self.saved = (asyncio.run, logging.basicConfig, L.LAN.send, L.datetime, L.get_random_bytes)
        logging.basicConfig = lambda *a, **k: None            # _run configures logging: keep the process quiet

    def close(self):
        asyncio.run, logging.basicConfig, self.L.LAN.send, self.L.datetime, self.L.get_random_bytes = self.saved
        asyncio.set_event_loop(None)

    def run(self, case):
        """case: dict(settings, caps, state, via, offline, devid) -> observation dict"""
        import sys
        ctx, cli, L = self.ctx, self.cli, self.L
        ac = idealac.IdealAC(ctx.model, ctx.rng, case.get("state"), caps=case.get("ac_caps"))
        ac.silent = bool(case.get("offline"))
        before = ac.snapshot()
        counter0 = ctx.rng.randrange(0, 300)
        self.C.Command._message_id = counter0
        argv = ["msmart-ng", "control", "10.0.0.1"] + (["--capabilities"] if case.get("caps") else [])
        devid = case.get("devid")
        if devid is not None:
            argv += ["--id", str(devid)]
        argv += list(case["settings"])
        net = dev = None
        if case.get("via") == "simnet":
            v3 = bool(case.get("v3"))
            dev = refpeer.RefDevice(ctx.model, ctx.rng, version=3 if v3 else 2, device_id=devid or 0)
            dev.on_frame = ac.handle
            net = simnet.Net(responder=dev)
            simnet.install(net, rnd=lambda n: bytes(ctx.rng.randrange(256) for _ in range(n)))
            if v3:                                      # --token / --key: _connect authenticates before anything else
                k = argv.index("10.0.0.1") + 1
                argv[k:k] = ["--token", bytes(dev.token).hex(), "--key", bytes(dev.key).hex()]
            L.LAN.send = self.saved[2]
            asyncio.run = net.run
        else:
            L.LAN.send = ac.lan_send()
            asyncio.run = self.saved[0]
        old_argv = sys.argv
        sys.argv = argv
        try:
            st = status_of(cli.main)
        finally:
            sys.argv = old_argv
            if net is not None:
                net.close()
                asyncio.run = self.saved[0]
        obs = {"status": st, "before": before, "after": ac.snapshot(), "exchanges": ac.exchanges(), "log": ac.log,
               "counter0": counter0, "counter": self.C.Command._message_id, "props": dict(ac.props), "last_beep": ac.last_beep}
        if net is not None:
            obs["conns"] = [(c.host, c.port) for c in net.conns]
            obs["ids"] = sorted({v[2] for views in dev.views.values() for v in views if v[0] == "data"})
            obs["undecodable"] = sum(1 for views in dev.views.values() for v in views if v[0] == "undecodable")
            obs["handshakes"] = sum(1 for views in dev.views.values() for v in views if v[0] == "hs")
        return obs


# --------------------------------------------------------------------------------------------------------------------
# generators

def cases_of(rng, word):
    rnd = "".join(c.upper() if rng.randrange(2) else c.lower() for c in word)
    return [word.lower(), word.upper(), word.capitalize(), rnd]


INVALID_VALUES = ["", "1 2", "[1]", "None", '"cool"', "cool=1", "()", "{}", "{1: 2}", "'a'", "b'x'", "1j", "...", "--1", "1e999",
                  "nan", "inf", "0x10", "1_0", "007", " 1", "1 ", "１", "yes", "on", "[]", "(1,)", "1,2", "None ", "none", "''",
                  "lambda: 1", "in", "1+1", "-", "+", ".", "1e", "True=1"]
BOOL_SPELLINGS = ["True", "False", "true", "false", "TRUE", "FALSE", "tRuE", "fALSE", "1", "0", "2", "yes", "on", "", "no", "off",
                  "None", "1.0", "0.0", "-1", "T", "01", "+1", "tru", "truee"]
TEMP_VALUES = ["16", "17", "30", "30.5", "60", "86", "0", "-1", "1e2", "20.", ".5", "20.5", "13", "43.5", "43", "12.5", "20.3",
               "17.0", "16.5", "31", "+20", "2e1", "20.50", "1.7e1", "-0.5", "44", "True", "20,5", "20.5.1"]
HUMIDITY_VALUES = ["0", "40", "100", "45.5", "-1", "101", "127", "128", "1e2", "55", "+60", "35.0", "True", "200", "4_0"]
ENUM_ODD_VALUES = ["7", "-1", "999", "45", "1", "2.0", "2.5", "True", "False", "100", "0", "00", "+2", "1e0", "101.9", "255", "256", "127"]


def introspect(AC):
    """run-time view of the class: {name: (is_writable, kind)} for every property; kind: enum class | bool | int | float | None"""
    from msmart.utils import MideaIntEnum
    fresh = AC("0.0.0.0", 0, 0)
    out = {}
    for n in dir(AC):
        p = getattr(AC, n, None)
        if not isinstance(p, property):
            continue
        kind = None
        if p.fset is not None or n == "display_on":
            v = getattr(fresh, n)
            kind = type(v) if isinstance(v, MideaIntEnum) else bool if isinstance(v, bool) else type(v)
        out[n] = (p.fset is not None, kind)
    return out


def valid_value(rng, AC, kind):
    from msmart.utils import MideaIntEnum
    if isinstance(kind, type) and issubclass(kind, MideaIntEnum):
        m = rng.choice(list(kind.__members__))
        return rng.choice([rng.choice(cases_of(rng, m)), str(int(kind[m]))])
    if kind is bool:
        return rng.choice(["True", "False", "1", "0", "true", "FALSE"])
    if kind is float:
        return rng.choice(["17", "20.5", "24", "30", "16.5", "27.0"])
    return str(rng.randrange(30, 80))


def gen_cases(ctx, AC, props):
    rng = ctx.rng
    from msmart.utils import MideaIntEnum
    settable = [n for n, (w, k) in props.items() if w or n == "display_on"]
    enums = [n for n in settable if isinstance(props[n][1], type) and issubclass(props[n][1], MideaIntEnum)]
    bools = [n for n in settable if props[n][1] is bool]
    cases = []

    def add(bucket, settings, **kw):
        cases.append(dict(bucket=bucket, settings=list(settings), **kw))

    # 1. every enumerated setting x every member name (aliases too) x 4 letter cases x every member value
    for n in enums:
        E = props[n][1]
        for m in E.__members__:
            for w in cases_of(rng, m):
                add("enum-name", [f"{n}={w}"])
            add("enum-value", [f"{n}={int(E[m])}"])
        for v in ENUM_ODD_VALUES:
            add("enum-odd-number", [f"{n}={v}"])
        add("enum-unknown-name", [f"{n}=bogus"])
        add("enum-other-enum-name", [f"{n}=breeze_mild"])
    # 2. numbers
    for v in TEMP_VALUES:
        for fahr in (0, 1):
            add("temperature", [f"target_temperature={v}"], state={"fahrenheit": fahr})
        add("temperature+fahrenheit", [f"target_temperature={v}", "fahrenheit=True"])
    for v in HUMIDITY_VALUES:
        add("humidity", [f"target_humidity={v}"])
    # 3. booleans: every boolean setting x every spelling; the display against both reported values
    for n in bools:
        for v in BOOL_SPELLINGS:
            if n == "display_on":
                for disp in (0, 1):
                    add("display", [f"{n}={v}"], state={"display": disp})
            else:
                add("bool", [f"{n}={v}"])
    for disp in (0, 1):
        for v in ("True", "0"):
            add("display+others", [f"display_on={v}", "eco=1", "operational_mode=heat"], state={"display": disp})
            add("display+others", ["power_state=1", f"display_on={v}"], state={"display": disp})
    # 4. pairs of settings on one command line (all ordered pairs of names in thorough, a sample in quick) and some longer lines
    pairs = [(a, b) for a in settable for b in settable]
    if not ctx.deep:
        pairs = rng.sample(pairs, ctx.n(160, len(pairs)))
    for a, b in pairs:
        add("pair", [f"{a}={valid_value(rng, AC, props[a][1])}", f"{b}={valid_value(rng, AC, props[b][1])}"])
    for _ in range(ctx.n(60, 600)):
        k = rng.randrange(3, 7)
        add("line", [f"{a}={valid_value(rng, AC, props[a][1])}" for a in rng.sample(settable, k)],
            caps=rng.randrange(4) == 0)
    # 5. invalid names (alone, after and before a valid setting)
    readonly = [n for n, (w, k) in props.items() if not w and n != "display_on"]
    names = (["bogus", "Beep", "BEEP", "beep ", " beep", "", "_lan", "_beep_on", "_power_state", "_supported_properties",
              "apply", "refresh", "toggle_display", "get_capabilities", "to_dict", "authenticate", "start_self_clean",
              "__class__", "__init__", "__dict__", "__doc__", "__module__", "__eq__", "FanSpeed", "OperationalMode", "_PROPERTY_MAP",
              "display", "power", "mode", "temperature", "target_temperature ", "eco.mode", "beep.real", "éco"] + readonly)
    for nm in names:
        add("invalid-name", [f"{nm}=1"])
        add("invalid-name-after-valid", ["power_state=1", f"{nm}=1"])
        add("invalid-name-before-valid", [f"{nm}=True", "eco=1"])
    # 6. invalid values on every setting (alone) and after a valid one for one setting of each kind
    reps = [enums[0], "fan_speed", "beep", "display_on", "target_temperature", "target_humidity"]
    for n in (settable if ctx.deep else reps + rng.sample(settable, 6)):
        for v in INVALID_VALUES:
            add("invalid-value", [f"{n}={v}"])
    for n in reps:
        for v in INVALID_VALUES:
            add("invalid-value-after-valid", ["power_state=1", f"{n}={v}"])
        add("no-equals", [n])
        add("no-equals-after-valid", ["eco=1", n])
        add("only-equals", ["="])
    # 7. an offline device, the capabilities switch
    for s in (["power_state=1"], ["display_on=1"], ["beep=[1]"], ["operational_mode=cool", "fan_speed=55"]):
        add("offline", s, offline=True)
        add("capabilities", s, caps=True)
    for n in rng.sample(settable, min(len(settable), ctx.n(10, 40))):
        add("capabilities", [f"{n}={valid_value(rng, AC, props[n][1])}"], caps=True)
    # --capabilities on an appliance WITHOUT custom fan speeds that reports a non-preset speed: the speed is not named, so it stays
    nocustom = [(0x0210, [7])] + [c for c in idealac.CAPS if c[0] != 0x0210]
    for fan in (1, 35, 50, 99, 101):
        for s in (["power_state=1"], ["eco=1", "beep=0"], ["operational_mode=cool"]):
            add("capabilities-no-custom-fan", s, caps=True, ac_caps=nocustom, state={"fan": fan})
    # which runs go through the simulated network: every k-th in quick, all in thorough
    step = 1 if ctx.deep else max(1, len(cases) // ctx.n(150, 100000))
    for i, c in enumerate(cases):
        c["via"] = "simnet" if i % step == 0 else "direct"
        if c["via"] == "simnet" and rng.randrange(3) == 0:
            c["devid"] = rng.randrange(1, 1 << 40)
    # a V3 device: --token / --key / --id, handshake by _connect, then the same exchanges inside encrypted packets
    for _ in range(ctx.n(6, 40)):
        k = rng.randrange(1, 4)
        add("v3", [f"{a}={valid_value(rng, AC, props[a][1])}" for a in rng.sample(settable, k)])
        cases[-1].update(via="simnet", v3=True, devid=rng.randrange(1, 1 << 40))
    add("v3", ["power_state=1", "bogus=1"])
    cases[-1].update(via="simnet", v3=True, devid=5)
    return cases, settable


# --------------------------------------------------------------------------------------------------------------------

def table_checks(ctx, rep, AC, props):
    """the regenerated model table and the hand-written spec table against the class as it is at run time"""
    from msmart.utils import MideaIntEnum
    m = ctx.model
    enum_order = ["FanSpeed", "OperationalMode", "SwingMode", "SwingAngle", "RateSelect", "BreezeMode", "AuxHeatMode"]
    st, rows = m.one(F_MODELTABLE, [])
    model = {bytes(rows[i]).decode(): tuple(rows[i + 1]) for i in range(0, len(rows), 2)}
    want = {}
    for n, (w, kind) in props.items():
        if kind is None:
            k = 255
        elif isinstance(kind, type) and issubclass(kind, MideaIntEnum):
            k = enum_order.index(kind.__name__) if kind.__name__ in enum_order else -1
        else:
            k = {bool: 100, int: 101, float: 102}.get(kind, -1)
        want[n] = (k, int(w))
    rep.case(("model-table", len(model)), "tables")
    if model != want:
        diff = {n: (model.get(n), want.get(n)) for n in set(model) | set(want) if model.get(n) != want.get(n)}
        rep.fail("corr", "model-setting-table", {"differences": diff}, {"note": "coq/gen/GenCli.v does not describe the class"})
    for i, en in enumerate(enum_order):
        st, rows = m.one(F_ENUM, [[i]])
        got = [(bytes(rows[j]).decode(), rows[j + 1][0]) for j in range(0, len(rows), 2)]
        E = getattr(AC, en)
        rep.case(("enum-table", en), "tables")
        if sorted(got) != sorted((k, int(v)) for k, v in E.__members__.items()):
            rep.fail("corr", "model-enum-table", {"enum": en}, {"model": got, "class": [(k, int(v)) for k, v in E.__members__.items()]})
    # spec table vs the documented API (setter annotations; README for display_on)
    st, rows = m.one(F_DOCTABLE, [])
    spec = {bytes(rows[i]).decode(): rows[i + 1] for i in range(0, len(rows), 2)}
    doc = {}
    for n, (w, kind) in props.items():
        if n == "display_on":
            doc[n] = [1]
        elif w:
            f = getattr(AC, n).fset
            f = getattr(f, "__wrapped__", f)
            ann = [v for k, v in f.__annotations__.items() if k != "return"]
            parts = [p.strip() for p in str(ann[0]).split("|")] if ann else []
            if parts == ["bool"]:
                doc[n] = [1]
            elif parts == ["float"]:
                doc[n] = [2]
            elif parts == ["int"]:
                doc[n] = [3]
            elif parts and hasattr(AC, parts[0]):
                E = getattr(AC, parts[0])
                doc[n] = [0, int("int" in parts[1:])] + [int(v) for v in E.__members__.values()]
            else:
                doc[n] = ["?", str(ann)]
    rep.case(("spec-table", len(spec)), "tables")
    got = {n: r[1:] for n, r in spec.items()}
    if got != doc:
        diff = {n: (got.get(n), doc.get(n)) for n in set(got) | set(doc) if got.get(n) != doc.get(n)}
        rep.fail("corr", "spec-setting-table", {"differences": diff}, {"note": "coq/spec/RefCli.v doc_settings is not the documented API"})
    return {n: r[0] for n, r in spec.items()}


def value_part(s):
    return s.split("=", 1)[1] if "=" in s else None


def lit_table(settings):
    """the strings literal_eval may be applied to by _control and their classes; None if one is outside the model"""
    rows, ok = [], True
    for s in settings:
        if s.count("=") != 1:
            continue
        v = value_part(s)
        for t in {v, v.capitalize()}:
            c = classify(t)
            if c is None or not t.isascii():
                ok = False
            else:
                rows += [list(t.encode()), c]
    return rows, ok


def in_model(case):
    if not all(s.isascii() for s in case["settings"]):
        return False
    rows, ok = lit_table(case["settings"])
    if not ok:
        return False
    for s in case["settings"]:                      # huge integers for a float setting: float() overflows, not modelled
        if s.count("=") == 1 and s.startswith("target_temperature="):
            c = classify(value_part(s))
            if c and c[0] == 0 and abs(unbig(c[1:])) >= 2 ** 1000:
                return False
    return True


def control_in_model(case):
    """whole runs: additionally no negative target temperature (Device.v holds it as a natural number of half degrees)"""
    for s in case["settings"]:
        if s.count("=") == 1 and s.startswith("target_temperature="):
            c = classify(value_part(s))
            if c and ((c[0] == 0 and unbig(c[1:]) < 0) or (c[0] == 2 and unbig(c[2:2 + c[1]]) < 0)):
                return False
    return True


PROP_IDS = {16: 0x0A, 17: 0x09, 18: 0x48}          # field code (RefCli.field_code) -> vendor property id (single byte value)
STATE_FIELDS = {0: "beep", 1: "power", 2: "fahrenheit", 3: "target", 4: "mode", 5: "fan", 6: "swing", 7: "eco", 8: "turbo",
                9: "freeze", 10: "sleep", 11: "follow_me", 12: "purifier", 13: "humidity", 14: "aux"}


def in_domain(vec):
    q = dict(zip(idealac.FIELDS, vec))
    return 26 <= q["target"] <= 87 and q["mode"] < 8 and q["fan"] < 128 and q["swing"] < 16 and q["humidity"] < 128


def judge(rep, case, obs, verdict):
    """the oracles"""
    inp = {"argv": case["settings"], "capabilities": bool(case.get("caps")), "via": case["via"], "device_state": obs["before"],
           "offline": bool(case.get("offline")), "v3": bool(case.get("v3")), "id": case.get("devid")}
    st = obs["status"]
    code = st[1] if st[0] == "exit" else 1
    kinds = [k for k, _, _ in obs["log"]]
    detail = {"exit": st, "frames_received": kinds, "after": obs["after"]}
    if verdict[0] == [0]:                                            # must be rejected before anything is sent
        if code == 0:
            rep.fail("oracle", "invalid-setting-accepted", inp, detail)
        elif kinds or obs.get("conns"):                              # not even a connection / handshake
            rep.fail("oracle", "sent-before-rejection", inp, dict(detail, connections=obs.get("conns")))
        return "must-reject"
    if verdict[0] != [1] or case.get("offline"):
        return "not-judged"
    exp_vec, exp_display, given = verdict[1], verdict[2][0], verdict[3:]
    if code != 0:
        rep.fail("oracle", "valid-setting-rejected", inp, detail)
        return "must-apply"
    fields = {g[0] for g in given}
    before, after = obs["before"], obs["after"]
    toggles = kinds.count("toggle-display")
    want_toggles = 1 if (15 in fields and exp_display != before["display"]) else 0
    if after["display"] != exp_display or toggles != want_toggles:
        rep.fail("oracle", "display-toggled-wrongly", inp, dict(detail, expected_display=exp_display, toggles=toggles))
    if in_domain(exp_vec):
        exp = dict(zip(idealac.FIELDS, exp_vec))
        for k in idealac.FIELDS:
            if k == "beep":
                if 0 in fields and "set-state" in kinds and obs["last_beep"] != exp["beep"]:
                    rep.fail("oracle", "documented-value-not-applied", inp, dict(detail, field="beep", expected=exp["beep"]))
                continue
            if after[k] != exp[k]:
                changed_by_user = exp[k] != before[k]
                rep.fail("oracle", "documented-value-not-applied" if changed_by_user else "unspecified-setting-changed", inp,
                         dict(detail, field=k, expected=exp[k], got=after[k], reported=before[k]))
                break
        if "filter" in after and after["filter"] != before["filter"]:
            rep.fail("oracle", "unspecified-setting-changed", inp, dict(detail, field="filter"))
    for g in {g[0]: g for g in given}.values():                      # property-protocol settings reach the device (last one wins)
        if g[0] in PROP_IDS and g[1] == 1:
            if obs["props"].get(PROP_IDS[g[0]]) != [unbig(g[2:])]:
                rep.fail("oracle", "documented-value-not-applied", inp, dict(detail, property=PROP_IDS[g[0]], records=obs["props"]))
        elif 19 <= g[0] <= 22 and "set-properties" not in kinds:
            rep.fail("oracle", "documented-value-not-applied", inp, dict(detail, note="no property command reached the device"))
    return "must-apply"


def run(ctx, rep):
    from msmart.device.AC.device import AirConditioner as AC
    rng = ctx.rng
    rep.rule = ("argv: every enumerated setting x every member name (aliases too) x {lower, UPPER, Capitalized, rAnDoM} x every member "
                "value + odd numbers; boundary numbers for target_temperature (device in C and F mode) and target_humidity; every "
                "boolean setting x 25 spellings (display against both reported values); pairs of settings (sampled in quick, all "
                "ordered pairs of names in thorough) and longer lines; a catalogue of invalid names (unknown, read-only, private, "
                "methods, dunder, empty) and invalid values (empty, '1 2', '[1]', None, quoted, two '=', no '=') alone and next to "
                "valid settings; offline device; --capabilities; a V3 device (--token/--key/--id). Each through msmart.cli.main() against the ideal device "
                "(a slice / all through the simulated network). non-trivial = distinct (argv, switches, relevant device state)")
    props = introspect(AC)
    env = Env(ctx)
    try:
        field_of = table_checks(ctx, rep, AC, props)
        cases, settable = gen_cases(ctx, AC, props)
        # ---- lib/PyLit.lit and the ASCII case maps against Python ---------------------------------------------------------
        strings = sorted({t for c in cases for s in c["settings"] if "=" in s for t in (value_part(s), value_part(s).capitalize())
                          if t.isascii()} | set(INVALID_VALUES[:0]))
        import keyword
        strings += [k for k in keyword.kwlist + keyword.softkwlist + ["__debug__", "print"] if k not in strings]
        mo = ctx.model.batch([(F_LIT, [list(t.encode())]) for t in strings])
        for t, (st, outs) in zip(strings, mo):
            if st != 0:
                continue
            py = classify(t)
            rep.case(("lit", t), "literal-classification")
            if py is None or not class_agrees(outs[0], py):
                rep.fail("corr", "lit-classification", {"string": t}, {"lit": outs[0], "literal_eval": py})
        mo = ctx.model.batch([(F_CASEMAP, [list(t.encode())]) for t in strings])
        for t, (st, outs) in zip(strings, mo):
            rep.case(("casemap", t), "ascii-case-maps")
            if [bytes(o).decode() for o in outs] != [t.upper(), t.lower(), t.capitalize()]:
                rep.fail("corr", "ascii-case-map", {"string": t}, {"model": [bytes(o).decode() for o in outs]})
        # ---- converted values: model parse_all vs the real _control (recording device) -------------------------------------
        conv_cases = [c for c in cases if in_model(c)]
        batch = []
        for c in conv_cases:
            rows, _ = lit_table(c["settings"])
            batch.append((F_PARSE, [[len(c["settings"])]] + [list(s.encode()) for s in c["settings"]] + rows))
        mo = ctx.model.batch(batch)
        for c, (st, outs) in zip(conv_cases, mo):
            rst, rvals = real_convert(env.cli, c["settings"])
            rep.case(("convert", tuple(c["settings"])), "convert:" + c["bucket"])
            if outs[0][0] == 0:
                mvals = [(bytes(outs[i]).decode(), tval_value(outs[i + 1])) for i in range(1, len(outs), 2)]
                mvals = [x for x in mvals if x[0] == "display_on"] + [x for x in mvals if x[0] != "display_on"]
                mst = ("return", 0)
            else:
                mvals, mst = [], ("exit", outs[0][1]) if outs[0][0] == 1 else ("raise", outs[0][1])
            if mst != rst[:2] or (mst[0] == "return" and mvals != rvals):
                rep.fail("corr", "converted-values", {"argv": c["settings"]}, {"code": [rst, rvals], "model": [mst, mvals]})
        rep.sample({"argv": conv_cases[0]["settings"], "converted": real_convert(env.cli, conv_cases[0]["settings"])[1]})
        # ---- whole runs ---------------------------------------------------------------------------------------------------
        observations = [env.run(c) for c in cases]
        jbatch, cbatch, cidx = [], [], []
        for i, (c, obs) in enumerate(zip(cases, observations)):
            rows = []
            for s in c["settings"]:
                v = value_part(s)
                rows += [list(s.encode("utf-8", "surrogateescape")), classify_for_spec(v)]
            jbatch.append((F_JUDGE, [ac_vector(obs["before"]), [obs["before"]["display"]]] + rows))
            if in_model(c) and control_in_model(c):
                trows, _ = lit_table(c["settings"])
                ex = obs["exchanges"]
                frames = [list(f) for _, _, resp in ex for f in resp]
                cbatch.append((F_CONTROL, [[obs["counter0"], int(bool(c.get("caps"))), len(c["settings"]), len(trows) // 2]]
                               + [list(s.encode()) for s in c["settings"]] + trows + [[len(resp) for _, _, resp in ex]] + frames))
                cidx.append(i)
        verdicts = ctx.model.batch(jbatch)
        nj = {"must-reject": 0, "must-apply": 0, "not-judged": 0}
        for c, obs, (st, outs) in zip(cases, observations, verdicts):
            key = (tuple(c["settings"]), bool(c.get("caps")), bool(c.get("offline")), c["via"],
                   obs["before"]["display"], obs["before"]["fahrenheit"])
            rep.case(key, c["bucket"] + ":" + c["via"])
            nj[judge(rep, c, obs, outs)] += 1
            if c["via"] == "simnet" and obs["log"]:
                if obs["conns"] != [("10.0.0.1", 6444)] or obs["ids"] != [c.get("devid") or 0] or obs["undecodable"] \
                        or obs["handshakes"] != int(bool(c.get("v3"))):
                    rep.fail("oracle", "connected-elsewhere", {"argv": c["settings"], "id": c.get("devid")},
                             {"connections": obs["conns"], "device_ids": obs["ids"], "undecodable": obs["undecodable"],
                              "handshakes": obs["handshakes"]})
        rep.notes.append(f"oracle verdicts: {nj}")
        mo = ctx.model.batch(cbatch)
        for i, (st, outs) in zip(cidx, mo):
            c, obs = cases[i], observations[i]
            rst = obs["status"][:2]
            mst = ("exit", outs[0][1]) if outs[0][0] == 1 else ("raise", outs[0][1])
            sent = [acdev.canon_body(f[10:-3]) for _, f, _ in obs["exchanges"]]
            msent = [acdev.canon_body(b) for b in outs[2:]]
            rep.case(None, "control-model")
            if mst != rst or sent != msent or outs[1][0] != obs["counter"]:
                rep.fail("corr", "control-run", {"argv": c["settings"], "capabilities": bool(c.get("caps")), "offline": bool(c.get("offline")),
                                                 "device_state": obs["before"], "via": c["via"]},
                         {"code": [obs["status"], [bytes(b).hex() for b in sent], obs["counter"]],
                          "model": [mst, [bytes(b).hex() for b in msent], outs[1][0]]})
        good = next((o for c, o in zip(cases, observations) if c["bucket"] == "line"), observations[0])
        rep.sample({"argv": next((c["settings"] for c in cases if c["bucket"] == "line"), None), "exit": good["status"],
                    "frames": [k for k, _, _ in good["log"]]})
        rep.notes.append(f"{sum(1 for c in cases if c['via'] == 'simnet')} runs through the simulated network, "
                         f"{len(cidx)} whole runs compared with the model, {len(conv_cases)} conversions compared")
    finally:
        env.close()


def ac_vector(state):
    s = dict(state)
    s.setdefault("beep", 0)
    return [int(s[k]) for k in idealac.FIELDS]


def replay(ctx, data):
    """re-run the recorded failing input against the current code"""
    from msmart.device.AC.device import AirConditioner as AC  # noqa: F401
    inp = data["failure"]["input"]
    env = Env(ctx)
    try:
        case = {"settings": inp["argv"], "caps": inp.get("capabilities"), "via": inp.get("via", "direct"),
                "offline": inp.get("offline"), "state": inp.get("device_state"), "bucket": "replay", "v3": inp.get("v3"),
                "devid": inp.get("id")}
        obs = env.run(case)
        return {"argv": inp["argv"], "exit": obs["status"], "frames_received": [k for k, _, _ in obs["log"]],
                "before": obs["before"], "after": obs["after"]}
    finally:
        env.close()
