"""C18: one device per responding address whatever the duplicates / ports / interleaving; hosts whose replies are malformed
(every bad-reply class) are omitted and cannot change what is reported for the others, nor make discover() raise."""
import itertools

import discsim as S

ASSUMPTIONS = [
    "modelled, not verified: the UDP socket (simnet datagram endpoint), xml.etree (its verdict on a datagram is an input to the "
    "model computed with the same library call), the V1 TCP device-info query (the simulated host accepts the connection and "
    "stays silent)",
    "per host only the FIRST datagram counts (the address is marked before parsing); the oracle therefore uses hosts that are "
    "either good (all their datagrams are well-formed replies) or bad (all malformed); mixed hosts are covered by the "
    "model-vs-code correspondence",
]
PORTS = [6445, 20086, 6445, 20086, 1, 65535]


def make_host(ctx, m, rng, h, kind, ver=None, did=None):
    """-> (kind, expected canonical device or None, list of datagram payloads this host may send)"""
    if kind == "good":
        ver, did, port = ver or rng.choice([2, 3]), rng.randrange(1 << 48) if did is None else did, rng.choice([6444, 1, 65535, rng.randrange(1, 65536)])
        ty = rng.choice([0xAC, 0xAC, rng.randrange(256)])
        sn, name = S.good_sn(rng), S.good_name(m, rng, ty)
        d = S.ref_reply(m, rng, ver, did, port, sn, name)
        return kind, (h, port, ver, ty, int(ty == 0xAC), did, tuple(name), tuple(sn)), [d, d, d]
    d = [S.bad_reply(m, rng, kind) for _ in range(3)]
    return kind, None, d


def run(ctx, rep):
    m, rng = ctx.model, ctx.rng
    rep.rule = ("scenarios of 1..4 hosts (thorough: ..6), each good (reference-built reply, random identity/version) or bad (one of "
                f"{len(S.BAD_CLASSES)} malformed-reply classes), 1..3 datagrams per host from varying source ports; ALL arrival "
                "orders for <= 5 datagrams (quick: <= 4), random orders beyond; every bad class alone, with every subset size of bad "
                "hosts; truncations of good replies at every length; datagrams after the timeout. Each scenario runs through the "
                "real Discover.discover() on simnet and through the Coq model. non-trivial = distinct (host kinds, order)")
    scenarios = []          # (hosts dict, datagram list)

    def scenario(kinds, counts, order=None):
        hosts, dg = {}, []
        for i, (kind, cnt) in enumerate(zip(kinds, counts)):
            h = 10 + i
            hosts[h] = make_host(ctx, m, rng, h, kind)
            for j in range(cnt):
                dg.append((h, rng.choice(PORTS), hosts[h][2][j]))
        return hosts, dg

    # every bad class alone next to two good hosts, the bad one first / middle / last
    for klass in S.BAD_CLASSES:
        for pos in range(3):
            kinds = ["good", "good"]
            kinds.insert(pos, klass)
            hosts, dg = scenario(kinds, [1, 1, 1])
            scenarios.append((hosts, [(10 * (i + 1), *d) for i, d in enumerate(dg)]))
    # exhaustive interleavings of small multisets
    limit = 5 if ctx.deep else 4
    shapes = [(k, c) for n in (1, 2, 3) for k in itertools.product(["good", "bad"], repeat=n)
              for c in itertools.product([1, 2], repeat=n) if sum(c) <= limit]
    for kinds, counts in shapes:
        kinds = [k if k == "good" else rng.choice(S.BAD_CLASSES) for k in kinds]
        hosts, dg = scenario(kinds, counts)
        perms = set(itertools.permutations(range(len(dg))))
        for perm in sorted(perms):
            scenarios.append((hosts, [(10 * (i + 1), *dg[j]) for i, j in enumerate(perm)]))
    # random larger ones: any subset of hosts bad
    for _ in range(ctx.n(250, 5000)):
        n = rng.randrange(1, 5 if not ctx.deep else 7)
        kinds = [rng.choice(["good", "good", rng.choice(S.BAD_CLASSES)]) for _ in range(n)]
        hosts, dg = scenario(kinds, [rng.randrange(1, 4) for _ in range(n)])
        rng.shuffle(dg)
        times = sorted(rng.choice([rng.randrange(0, 4999), rng.randrange(0, 50)]) for _ in dg)
        scenarios.append((hosts, [(t, *d) for t, d in zip(times, dg)]))
    # several addresses answering with the SAME device id (cloned / factory-default ids, one appliance on two interfaces): each
    # responding address is still one reported device
    for _ in range(ctx.n(30, 300)):
        n = rng.randrange(2, 5)
        did = rng.randrange(1 << 48)
        hosts, dg = {}, []
        for i in range(n):
            same = i < 2 or rng.random() < 0.5
            hosts[10 + i] = make_host(ctx, m, rng, 10 + i, "good", did=did if same else None)
            for j in range(rng.randrange(1, 3)):
                dg.append((10 + i, rng.choice(PORTS), hosts[10 + i][2][j]))
        rng.shuffle(dg)
        scenarios.append((hosts, [(t, *d) for t, d in zip(sorted(rng.randrange(0, 4000) for _ in dg), dg)]))
    # mixed hosts (first datagram decides), late datagrams, truncations: correspondence only
    corr_only = []
    for _ in range(ctx.n(120, 2500)):
        n = rng.randrange(1, 5)
        dg = []
        for i in range(n):
            for _j in range(rng.randrange(1, 4)):
                kind = rng.choice(["good", rng.choice(S.BAD_CLASSES)])
                dg.append((rng.choice([rng.randrange(0, 4999), 4999, 5000, 5001, 7000]), 10 + i, rng.choice(PORTS),
                           make_host(ctx, m, rng, 10 + i, kind)[2][0]))
        rng.shuffle(dg)
        corr_only.append(dg)
    good = S.ref_reply(m, rng, 3, 0xA1B2C3D4E5F6, 6444, S.good_sn(rng), S.good_name(m, rng, 0xAC))
    good2 = S.ref_reply(m, rng, 2, 0x010203040506, 6444, S.good_sn(rng), S.good_name(m, rng, 0xAC))
    step = 1 if ctx.deep else 3
    for g in (good, good2):
        for cut in range(0, len(g), step):
            corr_only.append([(10, 10, 6445, good2), (20, 11, 6445, g[:cut]), (30, 12, 6445, good)])

    res = S.compare(ctx, rep, [dg for _, dg in scenarios], tag="discover")
    for (hosts, dg), (im, md) in zip(scenarios, res):
        kinds = tuple(hosts[h][0] for h in sorted(hosts))
        rep.case((kinds, tuple(h for _, h, _, _ in dg)), "bad-hosts=%d" % sum(1 for k in kinds if k != "good"))
        inp = {"hosts": {h: hosts[h][0] for h in hosts}, "dgrams": [(t, h, p, bytes(d).hex()) for t, h, p, d in dg]}
        st, devs = im[0], im[1]
        if st != 0:
            from common import EXN_NAME
            bad = sorted({hosts[h][0] for h in hosts if hosts[h][0] != "good"})
            rep.fail("oracle", "bad-host-aborts-discovery", inp, {"exception": EXN_NAME.get(st, st), "bad_classes": bad})
            continue
        want = sorted(hosts[h][1] for h in hosts if hosts[h][0] == "good")
        got_hosts = [d[0] for d in devs]
        if len(set(got_hosts)) != len(got_hosts):
            rep.fail("oracle", "duplicate-device", inp, {"reported_hosts": got_hosts})
        elif any(h not in hosts for h in got_hosts):
            rep.fail("oracle", "device-reported-under-an-address-that-never-answered", inp,
                     {"reported_addresses": [S.ip_of(h) for h in got_hosts], "answering_addresses": [S.ip_of(h) for h in sorted(hosts)]})
        elif any(hosts[h][0] != "good" for h in got_hosts):
            rep.fail("oracle", "bad-host-reported", inp, {"reported": devs})
        elif devs != want:
            rep.fail("oracle", "good-host-missing-or-altered", inp, {"reported": devs, "expected": want})
    # the DEFAULT mode, auto_connect=True: every reported device is queried before it is returned, so a host's task stays pending
    # for seconds while its duplicates (and the other hosts' replies) keep arriving. V2 hosts (a V3 host would need the cloud:
    # C19); the simulated hosts accept the TCP connection and stay silent
    auto = []
    for _ in range(ctx.n(40, 600)):
        n = rng.randrange(1, 4)
        kinds = [rng.choice(["good", "good", rng.choice(S.BAD_CLASSES)]) for _ in range(n)]
        hosts, dg = {}, []
        for i, kind in enumerate(kinds):
            hosts[10 + i] = make_host(ctx, m, rng, 10 + i, kind, ver=2)
            for j in range(rng.randrange(1, 4)):
                dg.append((10 + i, rng.choice(PORTS), hosts[10 + i][2][j]))
        rng.shuffle(dg)
        times = sorted(rng.randrange(0, 3000) for _ in dg)
        auto.append((hosts, [(t, *d) for t, d in zip(times, dg)]))
    resa = S.compare(ctx, rep, [dg for _, dg in auto], tag="discover-auto-connect", auto_connect=True)
    for (hosts, dg), (im, md) in zip(auto, resa):
        kinds = tuple(hosts[h][0] for h in sorted(hosts))
        rep.case(("auto", kinds, tuple(h for _, h, _, _ in dg)), "auto-connect")
        inp = {"auto_connect": True, "hosts": {h: hosts[h][0] for h in hosts}, "dgrams": [(t, h, p, bytes(d).hex()) for t, h, p, d in dg]}
        want = sorted(hosts[h][1] for h in hosts if hosts[h][0] == "good")
        got_hosts = [d[0] for d in im[1]]
        if im[0] != 0:
            rep.fail("oracle", "bad-host-aborts-discovery:auto-connect", inp, {"exception": im[0]})
        elif len(set(got_hosts)) != len(got_hosts):
            rep.fail("oracle", "duplicate-device:auto-connect", inp, {"reported_hosts": got_hosts})
        elif im[1] != want:
            rep.fail("oracle", "good-host-missing-or-altered:auto-connect", inp, {"reported": im[1], "expected": want})
    rep.sample({"hosts": {h: scenarios[0][0][h][0] for h in scenarios[0][0]}, "n_dgrams": len(scenarios[0][1])})
    res2 = S.compare(ctx, rep, corr_only, tag="discover-mixed")
    for dg, (im, md) in zip(corr_only, res2):
        rep.case(None, "mixed/late/truncated")
        if im[0] != 0:
            rep.fail("oracle", "bad-host-aborts-discovery", {"dgrams": [(t, h, p, bytes(d).hex()) for t, h, p, d in dg]},
                     {"exception": im[0]})
