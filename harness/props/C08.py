"""C08: retry, timeout and recovery contract. Scripted peers on the simulated network: every retry budget 1..4 x every
answered/unanswered pattern x response delays around the 2 s read timeout; every single fault and every pair of consecutive
faults from {drop, error packet, garbage, peer close, refuse, hang, cancel}, V2 and V3; transmissions counted at the peer.
The same histories run through the Coq session model (correspondence), except cancellation (implementation only)."""
import asyncio
import itertools

import acresp as A
import refpeer
import sess
import simnet
from common import exn_code

DELAYS = [0, 1999, 2001, 3999, 4001]
FAULTS = ["drop", "error", "garbage", "close", "refuse", "hang"]


def fault_script(fault, retries=3):
    """(connect outcomes to prepend, data replies for the faulty exchange)"""
    if fault == "drop":
        return [], [[]] * retries
    if fault in ("error", "garbage"):
        return [], [[(0, 3, 0)]]
    if fault == "close":
        return [], [[(0, 4, 0)]] + [[]] * (retries - 1)
    if fault == "refuse":
        return [1], []
    if fault == "hang":
        return [2], []
    raise ValueError(fault)


def tx_counts(events, ops, opinfo):
    """number of data transmissions per op"""
    out = []
    for i, info in enumerate(opinfo):
        end = opinfo[i + 1]["nevents"] if i + 1 < len(opinfo) else len(events)
        out.append(sum(1 for e in events[info["nevents"]:end] if e[0] == 3))
    return out


def run(ctx, rep):
    rng = ctx.rng
    rep.rule = ("retry budgets 1..4 x all answered/unanswered patterns x delays {0,1999,2001,3999,4001} ms; all single faults and all "
                "pairs of consecutive faults from {drop, error packet, garbage, peer close, refuse, hang} followed by an exchange "
                "with a prompt device, V2 and V3, at LAN and device level; cancellation during the read on the implementation. "
                "non-trivial = distinct (script, ops)")
    cases, meta = [], []
    # ---- retransmission patterns -------------------------------------------------------------------------
    for v3 in (False, True):
        for retries in (1, 2, 3, 4):
            for answered_at in list(range(retries)) + [None]:
                for delay in (DELAYS if ctx.deep else [0, 1999, 2001, 4001]):
                    replies = []
                    for k in range(retries):
                        replies.append([(delay, 0, 40 + k)] if answered_at is not None and k >= answered_at else [])
                    ops = ([(2, 1, 3)] if v3 else []) + [(1, 17, retries), (3, 18, 0), (5, 5000, 0), (3, 19, 0), (1, 20, 2)]
                    hs = [[(0, 1, 0)]] * 4
                    cases.append(([0] * 6, hs, replies + [[(0, 0, 99)]] * 4, ops))
                    meta.append(("pattern", v3, retries, answered_at, delay))
    # ---- single faults and pairs, then a prompt device ------------------------------------------------------
    for v3 in (False, True):
        for level in (1, 3):
            seqs = [(f,) for f in FAULTS] + list(itertools.product(FAULTS, repeat=2))
            for seq in seqs:
                # a connection lifetime of 1 s and a 1.5 s pause before every exchange: each exchange has to connect, so
                # connect faults (refuse / hang) hit exactly the exchange they are meant for
                conns, replies = ([0] if v3 else []), []
                ops = [(6, 1000, 0)] + ([(2, 1, 3)] if v3 else [])
                for f in seq:
                    c, r = fault_script(f)
                    conns += c if c else [0]
                    replies += r
                    ops += [(5, 1500, 0), (level, 30, 3)]
                ops += [(5, 1500, 0), (level, 31, 3)]
                conns += [0] * 8
                replies += [[(0, 0, 77)]] * 6
                cases.append((conns, [[(0, 1, 0)]] * 10, replies, ops))
                meta.append(("faults", v3, level, seq))
    # ---- handshake transmissions answered LATER than the read timeout, then a pause and a promptly answering device --------
    import sessgen
    for c in sessgen.late_hs_histories(rng, ctx.n(50, 1500)):
        cases.append(c)
        meta.append(("late-handshake-replies", True, None, None))
    for c in sessgen.reauth_fault_then_recover(rng, ctx.n(40, 600)):
        cases.append(c)
        meta.append(("failed-reauthentication", True, None, None))
    res = sess.compare(ctx, rep, cases, tag="retry-recovery")
    for (im, md), c, mt in zip(res, cases, meta):
        now, lan, outcomes, events = im
        rep.case((mt, str(c[2][:6])), mt[0] + ("-v3" if mt[1] else "-v2"))
    # ---- the contract, checked on the implementation's own observations ---------------------------------------
    for c, mt in zip(cases, meta):
        im = sess.run_impl(ctx.model, rng, *c)
        now, lan, outcomes, events = im
        tx = tx_counts(events, c[3], sess.run_impl.last_opinfo)
        for op, out, n, info in zip(c[3], outcomes, tx, sess.run_impl.last_opinfo):
            # an exchange that starts on a live (and, for V3, authenticated) connection has nothing to do but transmit its request
            if op[0] in (1, 3) and (op[2] if op[0] == 1 else 3) >= 1 and n == 0 and info["alive"] and (info["authed"] or not info["v3"]):
                rep.fail("oracle", "request-never-transmitted", sess_case(c), {"op": op, "entry": info, "outcome": out})
                break
        for op, out, n in zip(c[3], outcomes, tx):
            budget = op[2] if op[0] == 1 else 3
            if op[0] in (1, 3) and budget >= 1 and out[0] == 0 and (op[0] == 1 or len(out) > 1) and not (1 <= n <= budget):
                rep.fail("oracle", "exchange-without-transmission" if n == 0 else "too-many-transmissions", sess_case(c),
                         {"op": op, "tx": n, "outcome": out})
        if mt[0] == "pattern":
            _, v3, retries, answered_at, delay = mt
            k = 1 if v3 else 0
            n, out = tx[k], outcomes[k]
            if not (1 <= n <= retries):
                rep.fail("oracle", "transmission-count-out-of-bounds", sess_case(c), {"tx": n, "retries": retries}); continue
            # the first read window in which something arrives
            expect = None
            if answered_at is not None:
                for w in range(answered_at, retries):
                    # reply to transmission j (sent at 2000*j) arrives at 2000*j + delay; window w is [2000w, 2000w+2000)
                    if any(2000 * j + delay < 2000 * (w + 1) for j in range(answered_at, w + 1)):
                        expect = w + 1
                        break
            if expect is not None and (out[0] != 0 or n != expect):
                rep.fail("oracle", "retransmission-does-not-stop-at-first-response", sess_case(c), {"tx": n, "expected": expect, "outcome": out})
            if expect is None and (out[0] != 12 or n != retries):
                rep.fail("oracle", "exhaustion-not-a-timeout", sess_case(c), {"tx": n, "outcome": out})
            if expect is None and outcomes[k + 1][0] != 0:
                rep.fail("oracle", "device-level-raised", sess_case(c), {"outcome": outcomes[k + 1]})
        elif mt[0] == "failed-reauthentication":
            # one transient fault on the automatic re-handshake fails THAT exchange; the two after it meet a promptly answering
            # appliance and must succeed with the credentials given at the start
            ok = [o[0] == 0 and len(o) > 1 for o in outcomes]
            if not (ok[-1] and ok[-2]):
                rep.fail("oracle", "no-recovery-after:failed-reauthentication", sess_case(c), {"outcomes": outcomes})
        elif mt[0] == "late-handshake-replies":
            # with cached credentials (histories of 6 operations) at most ONE of the two final exchanges may fail
            if len(c[3]) == 8:
                # the exchange after a pause longer than every reply delay: everything late has arrived and must have been discarded
                o = outcomes[6]
                if not (o[0] == 0 and len(o) > 1):
                    rep.fail("oracle", "no-recovery-after:late-handshake-replies-on-a-new-connection", sess_case(c),
                             {"outcomes": outcomes, "events": events})
            if len(c[3]) == 6:
                # with cached credentials: after the pause everything late has arrived; both remaining exchanges meet a promptly
                # answering appliance on a live connection and must succeed (stale packets in the queue are skipped - F10)
                ok = [o[0] == 0 and len(o) > 1 for o in outcomes]
                if not (ok[4] and ok[5]):
                    rep.fail("oracle", "no-recovery-after:late-handshake-replies", sess_case(c), {"outcomes": outcomes, "events": events})
        else:
            last = outcomes[-1]
            if last[0] != 0 or 77 not in last[1:]:
                rep.fail("oracle", "no-recovery-after:" + "+".join(mt[3]), sess_case(c), {"outcomes": outcomes, "events": events})
            for o in outcomes:
                if o[0] not in (0, -1, 10, 11, 12):
                    rep.fail("oracle", f"unexpected-exception:{o[0]}", sess_case(c), {"outcomes": outcomes})
    # ---- cancellation (implementation only): cancelled read -> TimeoutError, connection dropped, next exchange fine ----
    for v3 in (False, True):
        for level in ("lan", "device"):
            r = run_cancel(ctx, v3, level)
            rep.case(("cancel", v3, level), "cancel")
            if r is not None:
                rep.fail("oracle", "cancel:" + r[0], {"v3": v3, "level": level}, r[1])
    rep.sample({"ops": cases[3][3], "replies": cases[3][2][:4]})


def sess_case(c):
    return {"connects": c[0], "hs_replies": c[1], "replies": c[2], "ops": c[3]}


def run_cancel(ctx, v3, level):
    from msmart.base_device import Device
    rng = ctx.rng
    dev = refpeer.RefDevice(ctx.model, rng, version=3 if v3 else 2)
    state = A.mk_frame(A.state_body(rng, n=24))
    silent = {"on": True}
    dev.on_frame = lambda f: [] if silent["on"] else [state]
    net = simnet.Net(responder=dev)
    simnet.install(net, rnd=lambda n: bytes(rng.randrange(256) for _ in range(n)))
    d = Device(ip="10.0.0.1", port=6444, device_id=123456, device_type=0xAC)
    if v3:
        net.run(d.authenticate(bytes(dev.token), bytes(dev.key)))
    frame = sess.request_of(5)

    class _Cmd:
        def tobytes(self):
            return frame

    async def scenario():
        coro = d._lan.send(frame) if level == "lan" else d._send_command(_Cmd())
        task = asyncio.ensure_future(coro)
        await asyncio.sleep(1.0)          # the request is out, the read is pending
        task.cancel()
        try:
            return ("ok", await task)
        except BaseException as e:  # noqa: BLE001
            return ("exc", e)
    kind, val = net.run(scenario())
    nconn = len(net.conns)
    if level == "lan":
        if kind != "exc" or exn_code(val) != 12:
            return ("cancel-not-timeout", {"result": str(val)[:80]})
    else:
        if kind != "ok" and not isinstance(val, asyncio.CancelledError):
            return ("device-level-raised", {"result": f"{type(val).__name__}: {val}"[:80]})
    if d._lan._protocol is not None:
        return ("connection-kept-after-cancel", {})
    silent["on"] = False
    try:
        r = net.run(d._lan.send(frame))
    except BaseException as e:  # noqa: BLE001
        return ("no-recovery", {"exception": f"{type(e).__name__}: {e}"[:80]})
    if [list(x) for x in r] != [state] or len(net.conns) != nconn + 1:
        return ("no-recovery", {"frames": len(r), "connections": len(net.conns)})
    net.close()
    return None
