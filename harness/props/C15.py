"""C15: capability records are interpreted independently and survive paging.
Oracle (the property's own definition, on the implementation): parse(list) == merge in order of parse(each record alone);
single response == split at every point across a first and an 'additional' response, compared on raw_capabilities and
on every capability-derived attribute after get_capabilities()."""
import acresp as A
import acdev as D
from common import call

KNOWN = [0x0009, 0x000A, 0x0018, 0x0030, 0x0032, 0x0033, 0x0039, 0x0040, 0x0042, 0x0043, 0x0048, 0x004B, 0x0051, 0x0058, 0x0059,
         0x0067, 0x00E3, 0x0091, 0x0093, 0x0094, 0x0098, 0x0210, 0x0212, 0x0213, 0x0214, 0x0215, 0x0216, 0x0217, 0x0219, 0x021A,
         0x0221, 0x021E, 0x021F, 0x0222, 0x0224, 0x0225, 0x022C, 0x0230, 0x0231, 0x0232, 0x0233, 0x0234]


def rand_record(rng):
    r = rng.random()
    if r < 0.12:
        return (rng.choice(KNOWN + [0x7777, 0x0301]), [])                       # zero-size
    if r < 0.30:
        return (0x0225, [rng.randrange(256) for _ in range(rng.randrange(1, 11))])   # temperatures of every size 1..10
    if r < 0.42:
        return (rng.choice([0x7777, 0x0300, 0x1234, 0xFFFF]), [rng.randrange(256) for _ in range(rng.randrange(1, 6))])  # unknown ids
    cid = rng.choice(KNOWN)
    return (cid, [rng.choice([0, 1, 2, 3, 4, 5, 6, 7, 9, 10, 13, 100, rng.randrange(256)])] + [rng.randrange(256) for _ in range(rng.randrange(0, 3))])


def frame_of(records, more):
    return A.mk_frame(A.caps_body(records, more=more))


def caps_of(C, records, more=0):
    code, r = call(C.Response.construct, bytes(frame_of(records, more)))
    return code, (dict(r.raw_capabilities), r.additional_capabilities) if code == 0 else None


def run(ctx, rep):
    from msmart.device.AC import command as C
    rng = ctx.rng
    rep.rule = ("record lists of length <= 12 over every known capability id x selected values, unknown ids, zero-size records, "
                "temperature records of every size 1..10; exhaustive lists of <= 2 records over a 40-record alphabet; every split "
                "point. non-trivial = distinct record list")
    lists = []
    alphabet = [(cid, [v]) for cid in [0x0214, 0x0210, 0x0225, 0x0048, 0x0212, 0x7777] for v in (0, 1, 2, 6)]
    alphabet += [(0x0225, [30, 60, 34, 60, 34, 60]), (0x0225, [30, 60, 34, 60, 34, 60, 1]), (0x0225, [1, 2, 3]), (0x0225, [32, 60, 32, 60, 32]),
                 (0x0214, []), (0x7777, [1, 2, 3]), (0x0216, [3]), (0x021F, [2]), (0x0043, [1]), (0x0042, [1]), (0x0018, [1]),
                 (0x00E3, [1]), (0x0009, [1]), (0x000A, [1]), (0x0039, [1]), (0x021A, [1]),
                 (0x0216, [0]), (0x0048, [0]), (0x0048, [3]), (0x0043, [0]), (0x0219, [1]), (0x0219, [0])]
    for a in alphabet:
        lists.append([a])
        for b in alphabet:
            lists.append([a, b])
    n_exhaustive = len(lists)
    for cid in KNOWN:                                   # every known id with every first value
        for v in range(256) if ctx.deep else (0, 1, 2, 3, 4, 5, 6, 7, 8, 9, 10, 11, 12, 13, 100, 255):
            lists.append([(cid, [v]), (0x0212, [1])])
    for _ in range(ctx.n(2500, 50000)):
        lists.append([rand_record(rng) for _ in range(rng.randrange(0, 13))])
    dev_cases, dev_meta = [], []
    frames_for_model = []
    for li, recs in enumerate(lists):
        rep.case(tuple((c, tuple(v)) for c, v in recs), f"len{len(recs)}")
        code, whole = caps_of(C, recs)
        frames_for_model.append(frame_of(recs, 0))
        if code != 0:
            rep.fail("oracle", "wellformed-list-rejected", {"records": recs}, {"exception": code})
            continue
        # (1) independence: each record alone, merged in order
        merged, ok = {}, True
        for r in recs:
            c1, one = caps_of(C, [r])
            if c1 != 0:
                rep.fail("oracle", "single-record-rejected", {"record": r}, {"exception": c1}); ok = False; break
            merged.update(one[0])
        if ok and merged != whole[0]:
            rep.fail("oracle", "not-independent", {"records": recs}, {"whole": whole[0], "merged_singles": merged})
        # (2) paging at every split point: raw dicts
        for k in range(0, len(recs) + 1):
            c1, first = caps_of(C, recs[:k], more=1)
            c2, second = caps_of(C, recs[k:], more=0)
            if c1 != 0 or c2 != 0:
                rep.fail("oracle", "page-rejected", {"records": recs, "split": k}, {"codes": [c1, c2]}); continue
            d = dict(first[0]); d.update(second[0])
            if d != whole[0] or first[1] is not True or second[1] is not False:
                rep.fail("oracle", "paging-differs", {"records": recs, "split": k}, {"whole": whole[0], "paged": d, "flags": [first[1], second[1]]})
        # (3) attributes through get_capabilities(): single response vs a random split (all splits for short lists)
        if li % (1 if ctx.deep else 4) == 0 or (li < n_exhaustive and lists[li][0][0] == lists[li][-1][0]):
            splits = range(len(recs) + 1) if len(recs) <= 3 else [rng.randrange(len(recs) + 1)]
            dev_cases.append(([(3, 0)], [[frame_of(recs, 0)]], li % 256)); dev_meta.append((li, None))
            for k in splits:
                dev_cases.append(([(3, 0)], [[frame_of(recs[:k], 1)], [frame_of(recs[k:], 0)]], li % 256)); dev_meta.append((li, k))
    A.compare_construct(ctx, rep, C, frames_for_model[: ctx.n(3000, 30000)], tag="construct-caps")
    nb = ctx.n(1500, 15000)
    res = D.compare(ctx, rep, dev_cases[:nb], tag="get_capabilities")
    res += [D.run_impl(*c) for c in dev_cases[nb:]]
    single = {}
    for (li, k), r in zip(dev_meta, res):
        if k is None:
            single[li] = r
        else:
            s = single[li]
            if r[0] != s[0] or r[1][1:9] != s[1][1:9] or r[1][0][-1] != s[1][0][-1]:
                rep.fail("oracle", "attributes-differ-when-paged", {"records": lists[li], "split": k},
                         {"single": s[1][1:9], "paged": r[1][1:9]})
    rep.sample({"records": lists[3]}); rep.sample({"records": lists[-1]})
