"""C06: V3 handshake. Oracle on the implementation over the simulated network: authentication succeeds exactly for a genuine
reply (bytes or hex credentials) and then a data exchange with the reference device works; for every single-bit flip, every
reply length, every packet type in place of the reply and replies under another key it fails with an authentication error,
the session stays unauthenticated, only handshake requests were written and stored credentials are not replaced.
Correspondence: _get_local_key against the byte-level model."""
import acresp as A
import lanfn as F
import refpeer
import simnet
from common import exn_code, rbytes


def attempt(ctx, reply_fn, hexform=False, prior=None, level="device"):
    """one authentication against a peer whose handshake reply is produced by reply_fn(dev, conn, genuine_packet)"""
    from msmart.device.AC.device import AirConditioner as AC
    rng = ctx.rng
    dev = refpeer.RefDevice(ctx.model, rng, version=3)
    state = A.mk_frame(A.state_body(rng, n=24))
    dev.on_frame = lambda f: [state]
    info = {}

    def fault(conn, view):
        if view[0] == "hs":
            pkt, skey = dev.handshake_reply(conn)
            conn.state["session_key"] = skey
            out = reply_fn(dev, conn, bytes(pkt))
            info["done"] = True
            return [(0.0, out)] if out is not None else []
        return None
    dev.fault = fault
    net = simnet.Net(responder=dev)
    simnet.install(net, rnd=lambda n: bytes(rng.randrange(256) for _ in range(n)))
    ac = AC(ip="10.0.0.1", device_id=123456, port=6444)
    if prior:                                   # previously stored credentials that must survive a failure
        ac._lan._token, ac._lan._key = prior
    tok, key = bytes(dev.token), bytes(dev.key)
    args = (tok.hex(), key.hex()) if hexform else (tok, key)
    try:
        net.run(ac.authenticate(*args) if level == "device" else ac._lan.authenticate(*args, retries=1))
        code = 0
    except BaseException as e:  # noqa: BLE001
        code = exn_code(e)
    writes = [v[0] for vs in dev.views.values() for v in vs]
    proto = ac._lan._protocol
    authed = bool(proto is not None and getattr(proto, "authenticated", False))
    stored = (ac._lan._token, ac._lan._key)
    ok_exchange = None
    if code == 0:
        try:
            net.run(ac.refresh())
            ok_exchange = ac.online
        except BaseException as e:  # noqa: BLE001
            ok_exchange = f"raised {type(e).__name__}"
    net.close()
    return {"code": code, "writes": writes, "authed": authed, "stored": stored, "good": (tok, key), "exchange": ok_exchange}


def reauth_after_expiry(ctx, mode):
    """genuine handshake, 13 h pass, then a re-authentication whose reply is bad: the session must end up unauthenticated"""
    from msmart.device.AC.device import AirConditioner as AC
    rng = ctx.rng
    dev = refpeer.RefDevice(ctx.model, rng, version=3)
    state = A.mk_frame(A.state_body(rng, n=24))
    dev.on_frame = lambda f: [state]
    phase = {"bad": False}

    def fault(conn, view):
        if view[0] == "hs" and phase["bad"]:
            pkt, _ = dev.handshake_reply(conn)
            q = bytearray(pkt)
            if mode == "flip":
                q[20] ^= 4
            elif mode == "otherkey":
                q = bytearray(dev.handshake_reply(conn, key=rbytes(rng, 32))[0])
            else:
                q = bytearray(dev.error_packet())
            return [(0.0, bytes(q))]
        return None
    dev.fault = fault
    net = simnet.Net(responder=dev)
    simnet.install(net, rnd=lambda n: bytes(rng.randrange(256) for _ in range(n)))
    ac = AC(ip="10.0.0.1", device_id=123456, port=6444)
    net.run(ac.authenticate(bytes(dev.token), bytes(dev.key)))
    net.tick(13 * 3600)
    phase["bad"] = True
    try:
        net.run(ac.authenticate(bytes(dev.token), bytes(dev.key)))
        code = 0
    except BaseException as e:  # noqa: BLE001
        code = exn_code(e)
    proto = ac._lan._protocol
    authed = bool(proto is not None and getattr(proto, "authenticated", False))
    net.close()
    return code, authed


def run(ctx, rep):
    rng = ctx.rng
    for mode in ("flip", "otherkey", "error"):
        code, authed = reauth_after_expiry(ctx, mode)
        rep.case(("reauth", mode), "reauth-after-expiry")
        if code != 11:
            rep.fail("oracle", f"bad-reply-outcome:{code}", {"kind": "reauth-after-expiry", "mode": mode}, {"code": code})
        elif authed:
            rep.fail("oracle", "session-authenticated-after-failure", {"kind": "reauth-after-expiry", "mode": mode}, {})
    rep.rule = ("genuine handshakes with random tokens / keys / nonces in bytes and hex form followed by a data exchange; all 512 "
                "single-bit flips of the 64-byte reply, reply lengths 0..130, all 16 type nibbles, replies under a different key, "
                "error / encrypted / random packets in place of the reply; _get_local_key correspondence. non-trivial = distinct reply")
    prior = (b"\x11" * 64, b"\x22" * 32)
    # ---- genuine ---------------------------------------------------------------------------------------
    for i in range(ctx.n(12, 200)):
        r = attempt(ctx, lambda d, c, g: g, hexform=(i % 2 == 1), level=("device", "lan")[i % 2])
        rep.case(("genuine", i), "genuine")
        if r["code"] != 0 or not r["authed"] or r["stored"] != r["good"] or r["exchange"] is not True:
            rep.fail("oracle", "genuine-handshake-not-accepted", {"hex": i % 2 == 1}, {k: str(v)[:80] for k, v in r.items()})
    # ---- altered replies ---------------------------------------------------------------------------------
    def check_fail(name, r, inp):
        rep.case((name, str(inp)), name.split(":")[0])
        if r["code"] not in (11,) and not (r["code"] == 12 and inp.get("lan")):
            rep.fail("oracle", f"bad-reply-outcome:{r['code']}", {"kind": name, **inp}, {"code": r["code"]})
        elif r["authed"]:
            rep.fail("oracle", "session-authenticated-after-failure", {"kind": name, **inp}, {})
        elif any(w != "hs" for w in r["writes"]):
            rep.fail("oracle", "non-handshake-written", {"kind": name, **inp}, {"writes": r["writes"]})
        elif r["stored"] != prior:
            rep.fail("oracle", "stored-credentials-replaced", {"kind": name, **inp}, {})
    bits = range(512) if ctx.deep else list(range(0, 512, 9)) + [255, 256, 511]
    for b in bits:
        def flip(d, c, g, b=b):
            q = bytearray(g); q[8 + b // 8] ^= 1 << (b % 8); return bytes(q)
        check_fail("bitflip", attempt(ctx, flip, prior=prior, level=("device", "lan")[b % 2]), {"bit": b, "lan": b % 2 == 1})
    for n in (range(0, 131) if ctx.deep else list(range(0, 131, 7)) + [63, 64, 65]):
        def relen(d, c, g, n=n):
            body = (g[8:] + bytes(rng.randrange(256) for _ in range(80)))[:n]
            return bytes([0x83, 0x70, n >> 8, n & 0xFF, 0x20, 0x01, 0, 0]) + body
        if n != 64:
            check_fail("length", attempt(ctx, relen, prior=prior), {"len": n})
    for t in range(16):
        if t != 1:
            check_fail("type", attempt(ctx, lambda d, c, g, t=t: g[:5] + bytes([t]) + g[6:], prior=prior), {"type": t})
    for i in range(ctx.n(6, 60)):
        def otherkey(d, c, g):
            pkt, _ = d.handshake_reply(c, key=rbytes(rng, 32)); return bytes(pkt)
        check_fail("other-key", attempt(ctx, otherkey, prior=prior), {"i": i})
    import lanmut as M
    names = [n for n, _ in M.hs_hostile(rng, bytes(32), bytes([0x83, 0x70, 0, 64, 0x20, 1, 0, 0]) + bytes(64))]
    for i, name in enumerate(names):
        if name in ("hs-good", "hs-type1"):
            continue
        check_fail("hostile:" + name, attempt(ctx, lambda d, c, g, i=i: M.hs_hostile(rng, bytes(rbytes(rng, 32)), g)[i][1], prior=prior), {})
    # ---- key agreement when replies are late: histories on the session level (sess / sessgen) ----------------------------
    import sess
    import sessgen
    for c in sessgen.late_hs_histories(rng, ctx.n(40, 800)):
        im = sess.run_impl(ctx.model, rng, *c)
        rep.case(("late", str(c[3]), str(c[1][:4])), "late-handshake-replies")
        for klass, detail in sess.device_key_discipline(c, im[3], sess.run_impl.last_event_times):
            rep.fail("oracle", klass, {"connects": c[0], "hs_replies": c[1], "replies": c[2], "ops": c[3]}, detail)
    # ---- other credentials offered on a LIVE authenticated session, reply not verifiable: must fail like on a fresh one ----------
    for c in sessgen.reauth_on_live_session(rng, ctx.n(30, 500)):
        im = sess.run_impl(ctx.model, rng, *c)
        i = next(k for k, o in enumerate(c[3]) if o[0] == 2 and o[1] == 2)
        info = sess.run_impl.last_opinfo
        end = info[i + 1]["nevents"] if i + 1 < len(info) else len(im[3])
        new_hs = [e for e in im[3][info[i]["nevents"]:end] if e[0] == 2]
        rep.case(("reauth-live", str(c[3]), str(c[1][1])), "reauth-on-live-session")
        inp = {"connects": c[0], "hs_replies": c[1][:4], "replies": c[2][:3], "ops": c[3]}
        if im[2][i][0] not in (11, 12):
            rep.fail("oracle", "unverifiable-reauthentication-accepted", inp, {"outcome": im[2][i], "handshakes_written": new_hs})
        elif not new_hs or any(e[3] != 0 for e in new_hs):
            rep.fail("oracle", "reauthentication-without-handshake-request", inp, {"handshakes_written": new_hs})
        elif im[1][2] != 1:
            rep.fail("oracle", "stored-credentials-replaced", inp, {"stored": im[1][2]})
    # ---- _get_local_key correspondence --------------------------------------------------------------------
    cases = []
    for i in range(ctx.n(150, 3000)):
        key = rbytes(rng, rng.choice([32, 32, 32, 16, 24, 31, 0]))
        nonce = rbytes(rng, 32)
        st, outs = ctx.model.one(55, [key if len(key) in (16, 24, 32) else rbytes(rng, 32), nonce])
        reply = outs[0]
        m = rng.random()
        if m < 0.3:
            reply = list(reply); reply[rng.randrange(64)] ^= 1 << rng.randrange(8)
        elif m < 0.4:
            reply = reply[:rng.randrange(0, 70)]
        cases.append((key, reply))
    # genuine replies whose nonce shares its first 1..4 bytes (or everything) with the key: the session key then starts with zero bytes
    for i in range(ctx.n(40, 400)):
        key = rbytes(rng, 32)
        nonce = rbytes(rng, 32)
        k = rng.choice([1, 1, 2, 3, 4, 32])
        nonce[:k] = key[:k]
        st, outs = ctx.model.one(55, [key, nonce])
        cases.append((key, outs[0]))
        code, val = F.get_local_key(key, outs[0])
        want = [a ^ b for a, b in zip(key, nonce)]
        rep.case(("glk-prefix", tuple(key), tuple(nonce)), "get_local_key-shared-prefix")
        if code != 0 or list(val) != want:
            rep.fail("oracle", "genuine-handshake-wrong-session-key", {"key": bytes(key).hex(), "nonce": bytes(nonce).hex(), "reply": bytes(outs[0]).hex()},
                     {"result": [code, bytes(val).hex() if code == 0 else str(val)[:80]], "nonce_xor_key": bytes(want).hex()})
    mo = ctx.model.batch([(44, [k, r]) for k, r in cases])
    for (k, r), m in zip(cases, mo):
        rep.case(("glk", tuple(k), tuple(r)), "get_local_key")
        F.cmp_res(rep, "get_local_key", {"key": bytes(k).hex(), "reply": bytes(r).hex()}, F.get_local_key(k, r), m)
    rep.sample({"kind": "bitflip", "bit": 0})
