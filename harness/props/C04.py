"""C04: V3 stream reassembly is segmentation-independent. Correspondence of _LanProtocolV3.data_received with the model after
every segment; oracle on the implementation: for streams of well-formed packets behind marker-free garbage, every segmentation
delivers exactly the complete packets, once, in order, as soon as the last byte of each has arrived."""
import itertools

import lanfn as F

F_RX = 45


def mk_packet(rng, size, with_marker):
    body = [rng.randrange(256) for _ in range(size + 4)]       # type byte, etc: arbitrary
    if with_marker and size >= 2:
        k = rng.randrange(0, len(body) - 1)
        body[k:k + 2] = [0x83, 0x70]
    return [0x83, 0x70, size >> 8, size & 0xFF] + body


def garbage(rng, n):
    g = []
    while len(g) < n:
        b = rng.randrange(256)
        if g and g[-1] == 0x83 and b == 0x70:
            continue
        g.append(b)
    return g


def cuts_to_segments(stream, cuts):
    pts = [0] + sorted(cuts) + [len(stream)]
    return [stream[a:b] for a, b in zip(pts, pts[1:])]


def check_stream(rep, g, pkts, tail, segs, tag):
    """feed segs one by one; after each, the queue must hold exactly the packets wholly received"""
    stream = g + [b for p in pkts for b in p] + tail
    ends, off = [], len(g)
    for p in pkts:
        off += len(p)
        ends.append(off)
    p = F.v3_proto(None)
    got, received = [], 0
    for s in segs:
        p.data_received(bytes(s))
        received += len(s)
        while not p._queue.empty():
            got.append(list(p._queue.get_nowait()))
        want = [pk for pk, e in zip(pkts, ends) if e <= received]
        if got != want:
            rep.fail("oracle", "wrong-packets-delivered", {"garbage": g, "packets": [bytes(x).hex() for x in pkts], "tail": tail,
                                                           "segments": [bytes(x).hex() for x in segs]},
                     {"after_bytes": received, "delivered": [bytes(x).hex() for x in got], "expected": [bytes(x).hex() for x in want]})
            return False
    return True


def run(ctx, rep):
    rng = ctx.rng
    rep.rule = ("streams of 1..4 packets with payload sizes from {0,1,2,15,16,100} and a sweep of every size 0..1100, payloads seeded with the marker bytes, marker-free "
                "garbage prefixes (incl. ending in 0x83), partial trailing packets; all segmentations with <= 3 cuts exhaustively for "
                "short streams, random segmentations incl. byte-by-byte; arbitrary (non-well-formed) byte strings for the "
                "correspondence. non-trivial = distinct (stream, segmentation)")
    model_cases, impl_states = [], []
    # ---- exhaustive small ------------------------------------------------------------------------
    small = []
    for sizes in [(0,), (1,), (2, 0), (0, 1, 0), (2,), (15,)] + ([(16, 0), (1, 1, 1, 1)] if ctx.deep else []):
        for gl in (0, 1, 3):
            pk = [mk_packet(rng, s, with_marker=(s >= 2)) for s in sizes]
            g = garbage(rng, gl)
            if gl == 3:
                g[-1] = 0x83                     # garbage ending in the first marker byte
            small.append((g, pk, []))
    for g, pk, tail in small:
        stream = g + [b for p in pk for b in p] + tail
        n = len(stream)
        maxcuts = 3 if n <= 40 else 2
        for k in range(0, maxcuts + 1):
            for cuts in itertools.combinations(range(1, n), k):
                segs = cuts_to_segments(stream, list(cuts))
                rep.case((tuple(stream), cuts), f"exhaustive-{k}cuts")
                check_stream(rep, g, pk, tail, segs, "exhaustive")
                if rng.random() < 0.01:
                    model_cases.append(segs)
    # ---- random larger ---------------------------------------------------------------------------
    for _ in range(ctx.n(1500, 30000)):
        pk = [mk_packet(rng, rng.choice([0, 1, 2, 15, 16, 100]), rng.random() < 0.5) for _ in range(rng.randrange(1, 5))]
        g = garbage(rng, rng.choice([0, 0, 1, 2, 7]))
        tail = []
        if rng.random() < 0.3:
            extra = mk_packet(rng, rng.choice([0, 5, 30]), False)
            tail = extra[:rng.randrange(0, len(extra))]
        stream = g + [b for p in pk for b in p] + tail
        mode = rng.random()
        if mode < 0.2:
            cuts = list(range(1, len(stream)))                                  # byte by byte
        elif mode < 0.4:
            cuts = []
        else:
            cuts = sorted(set(rng.randrange(1, len(stream)) for _ in range(rng.randrange(1, 12))))
        segs = cuts_to_segments(stream, cuts)
        rep.case((tuple(stream), tuple(cuts)), "random")
        check_stream(rep, g, pk, tail, segs, "random")
        if rng.random() < 0.2:
            model_cases.append(segs)
    # ---- every value of the size field up to 1100 (both bytes of the field matter), followed by a second packet -----------
    for size in range(0, 1101, 1 if ctx.deep else 1):
        pk = [mk_packet(rng, size, size % 5 == 0), mk_packet(rng, 3, False)]
        stream = [b for p in pk for b in p]
        for cuts in ([], [rng.randrange(1, len(stream))], sorted({rng.randrange(1, len(stream)) for _ in range(3)})):
            segs = cuts_to_segments(stream, cuts)
            rep.case((tuple(stream), tuple(cuts)), "size-sweep")
            check_stream(rep, [], pk, [], segs, "size-sweep")
        if size % 37 == 0:
            model_cases.append(cuts_to_segments(stream, [len(stream) // 2]))
    # ---- the same segmentations with seconds / hours between two segments: the result must not depend on WHEN the bytes arrive ----
    for gap in (1.5, 30.0, 7200.0):
        for _ in range(ctx.n(25, 300)):
            pk = [mk_packet(rng, rng.randrange(0, 60), rng.random() < 0.3) for _ in range(rng.randrange(1, 4))]
            stream = [b for p_ in pk for b in p_]
            cuts = sorted({rng.randrange(1, len(stream)) for _ in range(rng.randrange(1, 5))})
            segs = cuts_to_segments(stream, cuts)
            buf, q = F.reassemble_gaps(segs, gap)
            rep.case(("gap", gap, tuple(stream), tuple(cuts)), "time-gap")
            if buf or q != [list(p_) for p_ in pk]:
                rep.fail("oracle", "result-depends-on-arrival-times", {"segments": [bytes(x).hex() for x in segs], "seconds_between_segments": gap},
                         {"delivered": [bytes(x).hex() for x in q], "buffer": bytes(buf).hex(), "expected_packets": [bytes(bytes(x)).hex() for x in pk]})
    # ---- arbitrary bytes (incl. hostile length fields) for the correspondence -------------------------
    for _ in range(ctx.n(300, 3000)):
        stream = [rng.choice([0x83, 0x70, 0, 1, rng.randrange(256)]) for _ in range(rng.randrange(0, 60))]
        cuts = sorted(set(rng.randrange(1, len(stream)) for _ in range(rng.randrange(0, 6)))) if len(stream) > 1 else []
        model_cases.append(cuts_to_segments(stream, cuts))
    model_cases = model_cases[: ctx.n(1200, 10000)]
    mo = ctx.model.batch([(F_RX, [[]] + segs) for segs in model_cases])
    for segs, (st, outs) in zip(model_cases, mo):
        buf, q = F.reassemble(segs)
        rep.case(("corr", tuple(map(tuple, segs))), "correspondence")
        if outs[0] != buf or outs[1:] != q:
            rep.fail("corr", "data_received", {"segments": [bytes(s).hex() for s in segs]},
                     {"impl": [bytes(buf).hex(), [bytes(x).hex() for x in q]], "model": [bytes(outs[0]).hex(), [bytes(x).hex() for x in outs[1:]]]})
    rep.sample({"segments": [bytes(s).hex() for s in model_cases[0]]})
