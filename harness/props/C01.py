"""C01: end to end. The real AirConditioner on the simulated network against an ideal appliance assembled from the extracted
references (LAN packets, frames, AC bodies). Applied state must be the appliance's state; the appliance's state must be what
a refresh from a fresh client reports - for both protocol versions, ids / credentials, and for every way the reply stream is
cut into TCP segments and padded with unsolicited / duplicated status frames."""
import e2e as E

ASSUMPTIONS = [
    "the ideal appliance is assembled from coq/spec (RefLan, RefFrame, RefAC, RefDevice) and run as extracted code; the TCP "
    "stream is simnet's (segments delivered in order, no loss)",
    "K2: the V2 transport has no stream reassembly - a V2 reply cut into several segments or coalesced with another packet is a "
    "known finding; K3: responses are not correlated with requests - an unsolicited report arriving in its own segment is taken "
    "as the reply and the real reply answers the NEXT request, so a refresh can show an EARLIER state of the device; every "
    "other failure of the property is a violation",
]
SETTABLE = ["power", "target", "mode", "fan", "swing", "turbo", "eco", "sleep", "fahrenheit", "follow_me", "purifier", "aux",
            "indep_aux", "humidity", "freeze"]


def rand_state(rng):
    aux = rng.choice([0, 1, 2])
    return {"power": rng.randrange(2), "target": rng.randrange(34, 61), "mode": rng.choice([1, 2, 3, 4, 5]),
            "fan": rng.choice([20, 40, 60, 80, 102]), "swing": rng.choice([0, 3, 12, 15]),
            "turbo": rng.randrange(2), "eco": rng.randrange(2), "sleep": rng.randrange(2), "fahrenheit": rng.randrange(2),
            "follow_me": rng.randrange(2), "purifier": rng.randrange(2), "aux": int(aux == 1), "indep_aux": int(aux == 2),
            "humidity": rng.randrange(30, 100), "freeze": rng.randrange(2)}


def plans(ctx):
    out = []
    for extra in ("none", "before", "after", "dup"):
        for seg in ("whole", "coalesce", "two", "random", "bytes"):
            for gap in (0, 3):
                out.append({"extra": extra, "seg": seg, "gap_ms": gap})
    out.append({"extra": "sandwich", "seg": "coalesce", "gap_ms": 0})
    out.append({"extra": "sandwich", "seg": "whole", "gap_ms": 0})
    return out


def is_k2(version, plan):
    """reply stream not delivered one whole packet per segment"""
    if version != 2:
        return None
    if plan["seg"] in ("two", "random", "bytes"):
        return "v2-reply-split-across-segments"
    return None


def run(ctx, rep):
    rng = ctx.rng
    rep.rule = ("for each protocol version: every (unsolicited-frame placement x segmentation x gap) plan with random settable "
                "states, device ids at byte boundaries and random token/key; boundary setpoints 13.0/16.0/30.5/31.0/43.5 C, every "
                "mode/fan/swing enum member; per case: refresh, set all attributes, apply -> appliance state; fresh client, refresh -> "
                "attributes. non-trivial = distinct (version, plan, state)")
    cases = []
    ids = [1, 255, 256, 65535, 1 << 24, (1 << 32) - 1, (1 << 40) + 5, (1 << 48) - 1, 123456]
    for version in (2, 3):
        for plan in plans(ctx):
            for _ in range(ctx.n(1, 6)):
                cases.append((version, plan, rand_state(rng), rng.choice(ids)))
        for _ in range(ctx.n(4, 40)):
            cases.append((version, {"extra": "none", "seg": "whole", "gap_ms": 0, "idle_push": rand_state(rng)}, rand_state(rng), 123456))
            cases.append((version, {"extra": "none", "seg": "whole", "gap_ms": 0, "idle_push": rand_state(rng), "drop": 1}, rand_state(rng), 123456))
            cases.append((version, {"extra": "none", "seg": "whole", "gap_ms": 0, "local_edit": rand_state(rng)}, rand_state(rng), 123456))
        base = {"extra": "none", "seg": "whole", "gap_ms": 0}
        for tgt in (26, 27, 32, 33, 61, 62, 63, 86, 87):
            s = rand_state(rng); s["target"] = tgt
            cases.append((version, base, s, 123456))
        for mode in (1, 2, 3, 4, 5, 6):
            s = rand_state(rng); s["mode"] = mode
            cases.append((version, base, s, 123456))
        for fan in (20, 40, 60, 80, 100, 101, 102, 1, 55):
            s = rand_state(rng); s["fan"] = fan
            cases.append((version, base, s, 123456))
        for swing in (0, 3, 12, 15):
            s = rand_state(rng); s["swing"] = swing
            cases.append((version, base, s, 123456))
    wire = []
    for version, plan, want, did in cases:
        obs = E.run_case(ctx.model, rng, version, plan, want, device_id=did)
        if obs.get("control_packet_v2"):
            wire.append((want, did, obs))
        key = (version, tuple(sorted((k, str(v)) for k, v in plan.items())), tuple(want[k] for k in SETTABLE))
        rep.case(key, f"v{version}-{plan['seg']}-{plan['extra']}" + ("-idlepush" if plan.get("idle_push") else ""))
        inp = {"version": version, "plan": plan, "state": want, "device_id": did}
        k2 = is_k2(version, plan)
        want_vec = [want[k] for k in SETTABLE]

        def fail(klass, detail):
            rep.fail("oracle", k2 or klass, inp, dict(detail, failure=klass))
        if obs["status"] != 0:
            fail("operation-raised", {"status": obs["status"], "error": obs.get("error")})
            continue
        if not (obs["online1"] and obs["online2"]):
            fail("device-reported-offline", {"online": [obs["online1"], obs["online2"]]})
            continue
        dev = obs["device_after_apply"][:15]
        if dev != want_vec:
            fail("applied-state-differs-on-device", {"device": dev, "applied": want_vec})
            continue
        for who in ("same_client_after_refresh", "fresh_client_after_refresh"):
            if obs[who] != obs["expected_view"]:
                # K3 = the exchange returned NO report of the current state (the reply proper is still under way) and what the
                # client shows is an earlier state of the appliance; a current report that was handed over but overridden is not K3
                got_current = obs["same_client_got_current_report"] if who.startswith("same") else True
                stale = plan["extra"] != "none" and obs[who] in obs["earlier_views"] and not got_current
                rep.fail("oracle", k2 or ("stale-report-taken-as-reply" if stale else "refresh-differs-from-device"), inp,
                         {"client": who, "read": obs[who], "reference_reading_of_device_state": obs["expected_view"],
                          "failure": "refresh-differs-from-device", "is_an_earlier_state_of_the_device": stale})
                break
        ip = obs.get("idle_push")
        if ip and ip["read"] != ip["expected"]:
            # K3 needs an unsolicited report to have been delivered; when the appliance merely closed the idle connection none was
            stale = not plan.get("drop") and ip["read"] in obs["earlier_views"] and not ip["got_current_report"]
            rep.fail("oracle", k2 or ("stale-report-taken-as-reply" if stale else "refresh-differs-from-device"), inp,
                     {"phase": "unsolicited report while idle, state changed by another client, refresh", "read": ip["read"],
                      "reference_reading_of_device_state": ip["expected"], "exchange_returned_a_current_report": ip["got_current_report"],
                      "failure": "refresh-differs-from-device"})
        le = obs.get("local_edit")
        if le and le["read"] != le["expected"]:
            rep.fail("oracle", k2 or "refresh-differs-from-device:after-unapplied-local-changes", inp,
                     {"read": le["read"], "reference_reading_of_device_state": le["expected"]})
        if obs["rejected_frames"]:
            fail("frame-rejected-by-reference-parser", {"count": obs["rejected_frames"]})
    rep.sample({"version": cases[0][0], "plan": cases[0][1], "state": cases[0][2]})
    # the K3 witness of props/C01.v (C01_replies_not_correlated) on the real LAN.send: same outcomes as the session model
    import sess
    k3 = ([0], [], [[(0, 0, 10), (3, 0, 11)], [(6, 0, 20), (9, 0, 21)], [(6, 0, 30), (9, 0, 31)]], [(1, 1, 3), (1, 2, 3), (1, 3, 3)])
    res = sess.compare(ctx, rep, [k3], tag="k3-witness")
    rep.case(None, "k3-witness")
    if res and res[0][0][2] != [[0, 10], [0, 11], [0, 20]]:
        rep.fail("corr", "k3-witness-outcomes", {"history": "three sends, report + late reply per request"}, {"impl": res[0][0][2]})
    # correspondence of the composed client pipeline (C01_apply_*): the V2 packet the real client wrote for the control command
    # equals  v2_encode ts id (emit n (SetState (apply_ctrl d)))  of the model, for the same attributes, counter, id and timestamp
    mcases = []
    for want, did, obs in wire:
        aux = 2 if want["indep_aux"] else 1 if want["aux"] else 0
        ops = [10, obs["beep"], 11, want["power"], 12, want["target"], 13, want["mode"], 14, want["fan"], 15, want["swing"],
               16, want["eco"], 17, want["turbo"], 18, want["freeze"], 19, want["sleep"], 20, want["fahrenheit"],
               21, want["follow_me"], 22, want["purifier"], 23, want["humidity"], 24, aux]
        pkt = obs["control_packet_v2"]
        mcases.append((114, [[obs["counter_before_apply"]], ops, list(pkt[12:20]), E.refpeer.le(did) or [0]]))
    for (want, did, obs), (st, outs) in zip(wire, ctx.model.batch(mcases)):
        rep.case(None, "wire-correspondence")
        if st != 0 or bytes(outs[0]) != obs["control_packet_v2"]:
            rep.fail("corr", "client-pipeline-bytes", {"state": want, "device_id": did, "counter": obs["counter_before_apply"]},
                     {"impl": obs["control_packet_v2"].hex(), "model": [st, bytes(outs[0]).hex() if st == 0 else None]})
