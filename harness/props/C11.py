"""C11: attributes after refresh() equal the reference report (extracted coq/spec/RefAC.ref_report / expected_view) for raw
status bodies; temperature laws checked on the implementation's values."""
import acresp as A
import acdev as D

F_REPORT = 32
CAPS_NO_CUSTOM = A.mk_frame(A.caps_body([(0x0210, [7])], more=0))   # fan capability without custom speeds


def bodies(ctx):
    rng = ctx.rng
    out = []

    def base(n=24):
        b = A.state_body(rng, n=n)
        b[3] &= 0x7F
        return b
    for raw in range(256):                          # temperatures: all raw x 16 digits x both sensors x both units
        for dig in range(16):
            for unit in (0, 4):
                b = base(); b[11] = raw; b[15] = (b[15] & 0xF0) | dig; b[10] = (b[10] & ~4 & 0xFF) | unit
                out.append(b)
                b = base(); b[12] = raw; b[15] = (b[15] & 0x0F) | dig << 4; b[10] = (b[10] & ~4 & 0xFF) | unit
                out.append(b)
    for alt in range(32):                           # all alternate x primary setpoint codes, both half bits
        for prim in range(16):
            for half in (0, 16):
                b = base(); b[13] = (b[13] & 0xE0) | alt; b[2] = (b[2] & 0xE0) | half | prim
                out.append(b)
    for pos in (1, 2, 3, 7, 8, 9, 10, 13, 14, 19, 21):   # every value of every flag byte
        for v in range(128 if pos == 3 else 256):
            b = base(); b[pos] = v
            out.append(b)
    for n in range(16, 41):                         # every length from the 16-byte minimum
        for _ in range(4):
            out.append(base(n))
    out += [base(rng.choice([16, 19, 20, 21, 22, 23, 24, 30])) for _ in range(ctx.n(1500, 40000))]
    return out


def run(ctx, rep):
    rng = ctx.rng
    rep.rule = ("raw 0xC0 bodies: all 256 x 16 (byte, digit) temperature inputs x 2 sensors x 2 units, all 32 x 16 x 2 setpoint codes, "
                "every value of bytes 1,2,3(7-bit),7,8,9,10,13,14,19,21, every length 16..40, random; alternating CRC-8 / additive "
                "check; each through AirConditioner.refresh() on a scripted transport, with and without custom fan speeds. "
                "non-trivial = distinct body")
    bs = bodies(ctx)
    cases, custom = [], []
    for i, b in enumerate(bs):
        fr = A.mk_frame(b, check="crc" if i % 2 == 0 else "sum")
        if i % 5 == 4:
            cases.append(([(3, 0), (1, 0)], [[CAPS_NO_CUSTOM], [fr]], rng.randrange(256)))
            custom.append(0)
        else:
            cases.append(([(1, 0)], [[fr]], rng.randrange(256)))
            custom.append(1)
    nb = ctx.n(2500, 30000)
    res = D.compare(ctx, rep, cases[:nb], tag="refresh-state")
    res += [D.run_impl(*c) for c in cases[nb:]]
    ref = ctx.model.batch([(F_REPORT, [b, [cu]]) for b, cu in zip(bs, custom)])
    for b, cu, r, (rst, routs) in zip(bs, custom, res, ref):
        rep.case(tuple(b), f"len{len(b)}" if len(b) != 24 else "len24")
        if r[0] != 0:
            rep.fail("oracle", "refresh-raised", {"body": bytes(b).hex()}, {"status": r[0]})
            continue
        row = r[1][0]
        view = row[1:18] + [row[24]]
        if rst != 0 or view != routs[0]:
            names = ["power", "target", "mode", "fan", "swing", "eco", "turbo", "freeze?", "freeze", "sleep", "fahrenheit", "display",
                     "filter", "follow_me", "purifier", "humidity?", "humidity", "aux_mode"]
            diff = [n for n, x, y in zip(names, view, routs[0])] if rst == 0 else ["no report"]
            diff = [n for n, x, y in zip(names, view, routs[0] if rst == 0 else view) if x != y]
            rep.fail("oracle", "attribute-differs:" + ",".join(diff), {"body": bytes(b).hex(), "custom_fan": cu},
                     {"exposed": view, "reference": routs[0] if rst == 0 else None})
        # temperature laws on what the implementation exposes
        iraw, idig, oraw, odig, fahr = routs[1] if rst == 0 else (b[11], b[15] & 15, b[12], b[15] >> 4, (b[10] >> 2) & 1)
        for name, raw, dig, (present, t) in (("indoor", iraw, idig, row[18:20]), ("outdoor", oraw, odig, row[20:22])):
            if (raw == 255) != (present == 0):
                rep.fail("oracle", "temperature-unknown-iff-0xFF", {"body": bytes(b).hex(), "sensor": name}, {"raw": raw, "value": [present, t]})
            elif present and dig <= 9:
                if abs(t - 5 * (raw - 50)) > 10:
                    rep.fail("oracle", "temperature-not-within-one-degree", {"body": bytes(b).hex(), "sensor": name},
                             {"raw": raw, "digit": dig, "tenths": t})
                if not fahr and 1 <= dig <= 9 and abs(t) % 10 != dig:
                    rep.fail("oracle", "temperature-digit", {"body": bytes(b).hex(), "sensor": name},
                             {"raw": raw, "digit": dig, "tenths": t})
    rep.sample({"body": bytes(bs[0]).hex(), "exposed": res[0][1][0]})
    rep.sample({"body": bytes(bs[-1]).hex(), "exposed": res[-1][1][0]})
    # ---- one device object over several refreshes: a report is decoded the same whatever the object saw or was told before ----
    # (report S; local attributes changed through setters, or another report T; then S again: the attributes are S's once more)
    setters = {"power": (11, [0, 1]), "mode": (13, [1, 2, 3, 4, 5]), "target": (12, list(range(34, 61))), "fan": (14, [20, 40, 60, 80, 102]),
               "swing": (15, [0, 3, 12, 15]), "eco": (16, [0, 1]), "turbo": (17, [0, 1]), "sleep": (19, [0, 1]), "fahrenheit": (20, [0, 1])}
    k = max(1, len(D.run_impl([(1, 0)], [[A.mk_frame(bs[0])]])[3]))          # requests per refresh of a fresh object
    seq, want = [], []
    for i in range(ctx.n(250, 4000)):
        S, T = bs[rng.randrange(len(bs))], bs[rng.randrange(len(bs))]
        frS, frT = A.mk_frame(S, check="crc"), A.mk_frame(T, check="sum")
        one = lambda fr: [[fr]] + [[]] * (k - 1)        # noqa: E731
        if i % 2 == 0:
            chosen = rng.sample(sorted(setters), 4)
            mid = [(setters[n][0], rng.choice(setters[n][1])) for n in chosen]
            seq.append(([(1, 0)] + mid + [(1, 0)], one(frS) + one(frS), rng.randrange(256)))
        else:
            seq.append(([(1, 0), (1, 0), (1, 0)], one(frS) + one(frT) + one(frS), rng.randrange(256)))
        want.append(S)
    res2 = D.compare(ctx, rep, seq, tag="refresh-sequence")
    ref2 = ctx.model.batch([(F_REPORT, [b, [1]]) for b in want])
    for c, b, r, (rst, routs) in zip(seq, want, res2, ref2):
        rep.case(("seq", tuple(b), str(c[0])), "same-object-sequence")
        row = r[1][0]
        view = row[1:18] + [row[24]]
        if r[0] != 0 or rst != 0 or view != routs[0]:
            rep.fail("oracle", "attribute-differs:after-earlier-reports-or-setters", {"ops": c[0], "last_report_body": bytes(b).hex(),
                     "reports": [[bytes(f).hex() for f in ex] for ex in c[1]]}, {"status": r[0], "exposed": view, "reference_reading_of_last_report": routs[0] if rst == 0 else None})
