"""C13: corrupted responses are rejected and never change state.
Oracle on the implementation: every single-byte corruption (all positions >= 1, all 255 substitutes) of valid responses of
the five kinds, without fix-up of the outer checksum, and for body bytes with the outer checksum recomputed, must be
dropped by Response.construct; refresh() fed only dropped frames must leave every attribute unchanged and report
offline/unsupported. Acceptances that are inherent in the acceptance rule itself (the corrupted frame again satisfies
'CRC-8 or additive', or its id byte became a property id, which is exempt by design) are the known finding K1."""
import acresp as A
import acdev as D
from common import call

ASSUMPTIONS = ["corruptions are single-byte substitutions of frames built by the harness's independent frame builder"]


def kinds(rng):
    out = []
    for chk in ("crc", "sum"):
        out.append(("state-" + chk, A.mk_frame(A.state_body(rng, n=24), check=chk), False))
        out.append(("caps-" + chk, A.mk_frame(A.caps_body([(0x0214, [1]), (0x0225, [30, 60, 34, 60, 34, 60, 1]), (0x0212, [1]),
                                                            (0x0048, [2])], more=0), check=chk), False))
        out.append(("props-" + chk, A.mk_frame(A.props_body([(0x42, 0, [2]), (0xE3, 0, [1, 1]), (0x48, 0, [40])]), check=chk), True))
        out.append(("energy-" + chk, A.mk_frame(A.energy_body(rng), check=chk), False))
        out.append(("humidity-" + chk, A.mk_frame(A.humidity_body(rng), check=chk), False))
    return out


def classify_escape(frame):
    """is the corrupted frame one that the acceptance rule of sentence 1 itself admits?"""
    body, chk = frame[10:-2], frame[-2]
    if frame[10] in (0xB0, 0xB1):
        return "K1b-id-becomes-property-response"
    if chk == A.crc8_ref(body) or chk == A.addsum(body):
        return "K1a-other-check-coincidence"
    return None


def run(ctx, rep):
    from msmart.device.AC import command as C
    from msmart.frame import InvalidFrameException
    rng = ctx.rng
    rep.rule = ("5 response kinds x 2 check styles; every position >= 1 x all 255 substitutes without fix-up, every body "
                "position (10..len-3) x 255 with the outer checksum recomputed, all on Response.construct of the "
                "implementation (exhaustive); a sample of the same frames through the model; refresh() fed only rejected "
                "frames. non-trivial = distinct corrupted frame")
    rejected_pool = []
    sample_for_model = []
    for name, frame, is_props in kinds(rng):
        code, _ = call(C.Response.construct, bytes(frame))
        if code != 0:
            rep.fail("oracle", "valid-frame-rejected", {"kind": name, "frame": bytes(frame).hex()}, {"exception": code})
            continue
        n = len(frame)
        step = 1 if ctx.deep else 1
        for pos in range(1, n):
            for v in range(256):
                if v == frame[pos]:
                    continue
                for fix in ((False, True) if 10 <= pos <= n - 3 else (False,)):
                    f = list(frame)
                    f[pos] = v
                    if fix:
                        f = A.refix(f)
                    code, val = call(C.Response.construct, bytes(f))
                    rep.case((name, pos, v, fix), name + ("+fixup" if fix else ""))
                    if (pos * 256 + v) % 1499 == 0:
                        sample_for_model.append(f)
                    if code == 0:
                        if fix and is_props:
                            continue        # property responses are exempt from the body check by design
                        klass = classify_escape(f) if fix else None
                        rep.fail("oracle", klass or ("accepted-without-fixup" if not fix else "accepted-corrupted-body"),
                                 {"kind": name, "frame": bytes(frame).hex(), "pos": pos, "value": v, "fixup": fix},
                                 {"corrupted": bytes(f).hex(), "result": "accepted"})
                    elif code in (8, 9) and len(rejected_pool) < 4000 and rng.random() < 0.02:
                        rejected_pool.append(f)
        rep.sample({"kind": name, "frame": bytes(frame).hex(), "example_corruption": {"pos": 12, "value": frame[12] ^ 1}})
    # ---- correspondence on a sample of the corrupted frames + the originals ---------------------
    extra = [fr for _, fr, _ in kinds(ctx.rng)]
    A.compare_construct(ctx, rep, C, sample_for_model[: ctx.n(3000, 30000)] + extra, tag="construct-corrupted")
    # ---- refresh() fed only rejected frames -----------------------------------------------------
    good_state = A.mk_frame(A.state_body(rng, n=24))
    caps = A.mk_frame(A.caps_body([(0x0216, [2]), (0x021F, [2]), (0x0048, [2]), (0x0009, [1])], more=0))
    cases = []
    for t in range(ctx.n(40, 400)):
        k = rng.randrange(1, 4)
        bad = [[rng.choice(rejected_pool) for _ in range(rng.randrange(1, 4))] for _ in range(4)]
        pre = rng.choice([[], [(3, 0), (1, 0)], [(1, 0)]])
        pre_ex = {0: [], 2: [[caps], [good_state], [], [], []], 1: [[good_state]]}[len(pre)]
        cases.append((pre + [(1, 0)], pre_ex + bad, rng.randrange(256)))
        # the same prefix alone, to know the state before the bad refresh
        cases.append((pre, pre_ex, cases[-1][2]))
    res = D.compare(ctx, rep, cases, tag="refresh-rejected-frames")
    for i in range(0, len(res), 2):
        after, before = res[i], res[i + 1]
        rep.case(("refresh-bad", i), "refresh-only-rejected")
        exp = [list(r) for r in before[1]]
        exp[9][6], exp[9][7] = 0, 0      # online = supported = False
        if after[0] != 0 or after[1] != exp:
            rep.fail("oracle", "state-changed-by-rejected-frames", {"ops": cases[i][0], "exchanges": [[bytes(f).hex() for f in ex] for ex in cases[i][1]]},
                     {"status": after[0], "before": before[1], "after": after[1]})
