"""C03: V2 packet integrity. Oracle on the implementation: for authentic packets (several frame lengths) every single-bit flip,
one or all substitutions per byte, every truncation length and random multi-byte corruptions must give ProtocolError and
never a frame different from the authentic one. Correspondence: the same corrupted packets through the model."""
import lanfn as F
from common import rbytes

F_DEC = 41


def run(ctx, rep):
    rng = ctx.rng
    rep.rule = ("authentic packets for frame lengths {0,1,15,16,17,40,255} (all 0..255 in thorough): every single-bit flip, every "
                "truncation, substitutions per byte (one random in quick, all 255 in thorough for small packets), random multi-byte "
                "corruptions, signature replaced by constants. non-trivial = distinct corrupted packet")
    lengths = list(range(256)) if ctx.deep else [0, 1, 15, 16, 17, 40, 255]
    sample_model = []
    for n in lengths:
        frame = rbytes(rng, n)
        F.set_time(2024, 5, 6, 7, 8, 9, 120000)
        code, pkt = F.v2_encode(rng.randrange(2 ** 48), frame)
        assert code == 0
        c0, f0 = F.v2_decode(pkt)
        if c0 != 0 or f0 != frame:
            rep.fail("oracle", "authentic-packet-not-decoded", {"frame": bytes(frame).hex()}, {"result": [c0, str(f0)[:80]]})
            continue
        muts = []
        for pos in range(len(pkt)):
            for bit in range(8):
                q = list(pkt); q[pos] ^= 1 << bit
                muts.append(("bitflip", pos, q))
            subs = range(256) if (ctx.deep and n <= 17) else [rng.randrange(256), 0, 0xAA, 0xFF]
            for v in subs:
                if v != pkt[pos]:
                    q = list(pkt); q[pos] = v
                    muts.append(("subst", pos, q))
        for k in range(len(pkt)):
            muts.append(("truncate", k, pkt[:k]))
        for _ in range(ctx.n(200, 1000)):
            q = list(pkt)
            for _ in range(rng.randrange(2, 6)):
                q[rng.randrange(len(q))] = rng.randrange(256)
            if q != pkt:
                muts.append(("multi", 0, q))
        for fill in (0, 0xFF, 0x5A):
            muts.append(("sig-fill", fill, pkt[:-16] + [fill] * 16))
        muts.append(("sig-md5-unkeyed", 0, pkt[:-16] + list(__import__("hashlib").md5(bytes(pkt[:-16])).digest())))
        # bytes FOLLOWING an authentic packet in the same read (further packets of the stream, block-aligned data): whatever is
        # returned must be the authentic frame of the first packet
        others = []
        for m in (5, 20, 35):
            F.set_time(2024, 5, 6, 7, 8, 10, 0)
            others.append(F.v2_encode(rng.randrange(2 ** 48), rbytes(rng, m))[1])
        for tail in (others[0], others[0] + others[1], others[0] + others[1] + others[2], others[2] + others[2] + others[0],
                     rbytes(rng, 16), rbytes(rng, 48), rbytes(rng, 7)):
            muts.append(("append", len(tail), pkt + tail))
        for kind, pos, q in muts:
            code, val = F.v2_decode(q)
            rep.case((n, kind, tuple(q)), kind)
            if kind == "append":
                if code == 0 and val != frame:
                    rep.fail("oracle", "different-frame-decoded-from-following-bytes", {"frame": bytes(frame).hex(), "packet": bytes(pkt).hex()},
                             {"read": bytes(q).hex(), "decoded": bytes(val).hex()})
                elif code not in (0, 10, 11):
                    rep.fail("oracle", f"corrupted-packet-raises:{code}", {"packet": bytes(pkt).hex(), "kind": kind}, {"exception": str(val)[:80]})
                if rng.random() < 0.5:
                    sample_model.append((q, code, val))
                continue
            if code == 0:
                rep.fail("oracle", "corrupted-packet-accepted" + ("" if val == frame else "-as-different-frame"),
                         {"frame": bytes(frame).hex(), "packet": bytes(pkt).hex(), "kind": kind, "pos": pos},
                         {"corrupted": bytes(q).hex(), "decoded": bytes(val).hex()})
            elif code not in (10, 11):
                rep.fail("oracle", f"corrupted-packet-raises:{code}", {"packet": bytes(pkt).hex(), "kind": kind, "pos": pos},
                         {"corrupted": bytes(q).hex(), "exception": str(val)[:80]})
            if rng.random() < (0.15 if not ctx.deep else 0.03):
                sample_model.append((q, code, val))
        rep.sample({"frame_len": n, "packet": bytes(pkt).hex(), "mutations": len(muts)})
    sample_model = sample_model[: ctx.n(2500, 20000)]
    mo = ctx.model.batch([(F_DEC, [q]) for q, _, _ in sample_model])
    for (q, code, val), m in zip(sample_model, mo):
        F.cmp_res(rep, "v2-decode-corrupted", {"packet": bytes(q).hex()}, (code, val), m)
    # ---- at the level LAN.send sees a reply (LAN._read), on a V2 connection and inside an AUTHENTIC V3 wrapper: the altered V2
    # packet is re-wrapped by the reference appliance under the session key; the outer SHA-256 then verifies, the inner MD5 must not
    key = rbytes(rng, 32)
    for n in ([0, 5, 16, 33] if not ctx.deep else [0, 1, 5, 15, 16, 17, 33, 64]):
        frame = rbytes(rng, n)
        code, pkt = F.v2_encode(rng.randrange(2 ** 48), frame)
        alts = [("authentic", list(pkt))]
        for pos in range(len(pkt)):
            q = list(pkt); q[pos] ^= 1 << rng.randrange(8)
            alts.append((f"bitflip@{pos}", q))
        alts += [(f"cut@{k}", list(pkt[:k])) for k in range(0, len(pkt), 5)]
        for kind, q in alts:
            for ver in (2, 3):
                if ver == 3:
                    st, outs = ctx.model.one(54, [[3], key, [rng.randrange(4096)], q, rbytes(rng, 16)])
                    wire = outs[0]
                else:
                    wire = q
                if not wire:
                    continue
                c, v = F.lan_read(ver, key, [wire])
                rep.case(("lanread", ver, tuple(q)), f"lan-read-v{ver}")
                inp = {"connection": f"V{ver}", "frame": bytes(frame).hex(), "kind": kind, "v2_packet_as_received": bytes(q).hex(),
                       "wire": bytes(wire).hex(), "session_key": bytes(key).hex() if ver == 3 else None}
                if kind == "authentic":
                    if c != 0 or v != frame:
                        rep.fail("oracle", "authentic-packet-not-decoded:lan-read", inp, {"result": [c, str(v)[:80]]})
                elif c == 0:
                    rep.fail("oracle", "corrupted-packet-accepted:lan-read" + ("" if v == frame else "-as-different-frame"), inp, {"decoded": bytes(v).hex()})
                elif c not in (10, 11) and not (ver == 2 and c == -1):
                    rep.fail("oracle", f"corrupted-packet-raises:{c}:lan-read", inp, {"exception": str(v)[:80]})
