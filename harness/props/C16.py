"""C16: settings carried by the property protocol, on the real AirConditioner against an ideal appliance built on the
extracted reference (coq/spec/RefProps): each changed setting is written by the next apply, exactly once, under the id the
appliance advertised, with the vendor value; reads back equal on the next refresh; an apply without changes writes nothing;
at most one breeze mode reads active. The same histories are replayed into the Coq model (fid 20)."""
import itertools

import acdev as D
import propdev as P

ASSUMPTIONS = [
    "vendor value encodings and record layouts are taken from the vendor Lua (reference/T_0000_AC_00000Q14_2024013001.lua); the "
    "ideal appliance keeps the three breeze settings mutually exclusive",
    "'transmitted' = written to the transport; loss/retry behaviour is C08's",
]
# setter op codes of fid 20 / acdev.do_op  -> (name, values)
SETTERS = {25: ("breeze_away", [0, 1]), 26: ("breeze_mild", [0, 1]), 27: ("breezeless", [0, 1]),
           28: ("lr_angle", [0, 1, 25, 50, 75, 100]), 29: ("ud_angle", [0, 1, 25, 50, 75, 100]), 30: ("ieco", [0, 1]),
           31: ("rate", [100, 50, 75, 1, 20, 40, 60, 80]), 10: ("beep", [0, 1])}
APPLY, REFRESH, CAPS, SELF_CLEAN = (2, 0), (1, 0), (3, 0), (5, 0)


def expected_id(profile_ids, op):
    """reference: under which id the next apply must carry this setter's setting"""
    ctl = 0x43 in profile_ids
    if op in (25, 26, 27):
        return 0x43 if (ctl or op == 26) else (0x42 if op == 25 else 0x18)
    return {28: 0x0A, 29: 0x09, 30: 0xE3, 31: 0x48}.get(op)


def vendor_value(m, pid, ac):
    """vendor encoding (extracted reference, fid 102) of the value the user currently sees for the setting carried by pid"""
    mode = 2 if ac.breeze_away else 3 if ac.breeze_mild else 4 if ac.breezeless else 1
    kind, val = {0x42: (0, int(mode == 2)), 0x18: (1, int(mode == 4)), 0x43: (2, mode), 0xE3: (3, int(bool(ac.ieco))),
                 0x48: (4, int(ac.rate_select)), 0x0A: (5, int(ac.horizontal_swing_angle)),
                 0x09: (6, int(ac.vertical_swing_angle))}[pid]
    st, outs = m.call(P.F_SETTING, [[kind], [val]])
    assert outs[0][0] == pid
    return list(outs[1])


def check_history(ctx, rep, profile, ops, lose=(), ext=None, lose_state=()):
    m = ctx.model
    dev = P.PropDevice(m, profile, lose, ext, lose_state)
    adv = [cid for cid, _ in P.PROFILES[profile]]
    full = [CAPS] + list(ops)
    st, dmp, cnt, sent, ac = P.run_impl(full, dev)
    inp = {"profile": profile, "ops": full}
    if lose:
        inp["acknowledgement_lost_for_property_writes"] = sorted(lose)
    if lose_state:
        inp["answer_lost_for_set_state_commands"] = sorted(lose_state)
    if ext:
        inp["changed_on_the_appliance_by_someone_else_before_property_query_no"] = {str(k): [(hex(i), v) for i, v in x] for k, x in ext.items()}
    rep.case((profile, tuple(ops), tuple(lose)), profile + ("-ack-lost" if lose else ""))
    if st != 0:
        rep.fail("oracle", "operation-raised", inp, {"status": st})
        return None
    # walk the history: which B0 writes happened in which apply
    pending, beep = set(), 0
    log = list(dev.log)
    # re-run bookkeeping op by op using the recorded per-request log: count requests per op
    dev2 = P.PropDevice(m, profile, lose, ext, lose_state)
    C, AC = D.mods()
    C.Command._message_id = 0
    ac2 = AC(ip="10.0.0.1", device_id=123456, port=6444)

    async def fake_send(data, retries=3):
        return [bytes(f) for f in dev2.handle(bytes(data))]
    ac2._lan.send = fake_send
    for op, a in full:
        n0 = len(dev2.log)
        before = {k: vendor_value(m, k, ac2) for k in pending} if (op, a) == APPLY else None
        D.do_op(ac2, AC, C, op, a)
        new = dev2.log[n0:]
        sets = [x for x in new if x[0] == "set"]
        if op in SETTERS and op != 10:
            pending.add(expected_id(adv, op))
        if op == 10:
            beep = a
        if (op, a) == APPLY:
            if not pending:
                if sets:
                    rep.fail("oracle", "write-without-change", inp, {"writes": sets})
                    return None
            else:
                if len(sets) != 1 or sets[0][1] is None:
                    rep.fail("oracle", "changed-setting-not-written-once", inp, {"pending": sorted(pending), "writes": sets})
                    return None
                recs = sets[0][1]
                ids = [k for k, _ in recs]
                want = dict(before)
                want[0x1A] = [beep]
                if sorted(ids) != sorted(want) or any(dict(recs)[k] != want[k] for k in want):
                    rep.fail("oracle", "wrong-id-or-encoding", inp, {"written": recs, "expected": sorted(want.items())})
                    return None
                pending = set()
        elif (op, a) == SELF_CLEAN:
            if len(sets) != 1 or sets[0][1] is None or sorted(sets[0][1]) != sorted([(0x39, [1]), (0x1A, [beep])]):
                rep.fail("oracle", "self-clean-write", inp, {"writes": sets})
                return None
        elif sets:
            rep.fail("oracle", "write-outside-apply", inp, {"op": [op, a], "writes": sets})
            return None
        if (op, a) == REFRESH:
            # read back: what the user reads equals the reference reading of the appliance's store
            view = dev2.view()       # [away, mild, less, ieco?, ieco, rate?, rate, lr?, lr, ud?, ud, sc?, sc]
            got = {"away": int(bool(ac2.breeze_away)), "mild": int(bool(ac2.breeze_mild)), "less": int(bool(ac2.breezeless)),
                   "ieco": int(bool(ac2.ieco)), "rate": int(ac2.rate_select), "lr": int(ac2.horizontal_swing_angle),
                   "ud": int(ac2.vertical_swing_angle), "self_clean": int(ac2.self_clean_active)}
            have = {k for k, _ in dev2.store}
            exp = {}                 # only settings the appliance advertises can be read back
            if have & {0x43, 0x42}:
                exp["away"] = view[0]
            if 0x43 in have:
                exp["mild"] = view[1]
            if have & {0x43, 0x18}:
                exp["less"] = view[2]
            for name, k in (("ieco", 3), ("rate", 5), ("lr", 7), ("ud", 9), ("self_clean", 11)):
                if view[k]:
                    exp[name] = view[k + 1]
            bad = {k: (got[k], exp[k]) for k in exp if got[k] != exp[k]}
            if bad and not pending:
                rep.fail("oracle", "readback-differs", inp, {"read (got, device)": bad, "store": dev2.store})
                return None
        if int(bool(ac2.breeze_away)) + int(bool(ac2.breeze_mild)) + int(bool(ac2.breezeless)) > 1:
            rep.fail("oracle", "two-breeze-modes-active", inp, {})
            return None
    return (full, dev.exchanges, st, dmp, cnt, sent)


def run(ctx, rep):
    rng = ctx.rng
    rep.rule = ("histories = get_capabilities then sequences over {every setter x every enum value, apply, refresh, start_self_clean} "
                "for 6 capability profiles (breeze-control / legacy both / away only / breezeless only / both advertised / none; 2- and "
                "5-level rate select; with/without iECO and swing angles): every set-apply-refresh triple for every setter value, "
                "all sequences of length <= 3 over a reduced alphabet (thorough: <= 4), random longer ones; every 0xB0/0xB1 body is "
                "parsed and answered by the extracted reference appliance; then the recorded exchanges are replayed into the Coq "
                "model. non-trivial = distinct (profile, history)")
    hist = []
    for profile in P.PROFILES:
        # every setter value: set, apply, refresh, apply (second apply must write nothing), refresh
        for op, (name, vals) in SETTERS.items():
            for v in vals:
                hist.append((profile, [(op, v), APPLY, REFRESH, APPLY, REFRESH]))
        # pairs of breeze setters in both orders, then apply/refresh
        for (o1, v1), (o2, v2) in itertools.product([(o, v) for o in (25, 26, 27) for v in (0, 1)], repeat=2):
            hist.append((profile, [(o1, v1), (o2, v2), APPLY, REFRESH]))
            hist.append((profile, [(o1, v1), APPLY, (o2, v2), APPLY, REFRESH]))
        # exhaustive short sequences over a reduced alphabet
        alpha = [(25, 1), (27, 1), (26, 1), (25, 0), (28, 50), (30, 1), (31, 75), APPLY, REFRESH, SELF_CLEAN]
        for n in range(1, 4 if not ctx.deep else 5):
            for seq in itertools.product(alpha, repeat=n):
                if n >= 3 and not ctx.deep and rng.random() < 0.6:
                    continue
                hist.append((profile, list(seq) + [APPLY, REFRESH]))
    for _ in range(ctx.n(400, 8000)):
        profile = rng.choice(list(P.PROFILES))
        seq = []
        for _k in range(rng.randrange(2, 9)):
            r = rng.random()
            if r < 0.55:
                op = rng.choice(list(SETTERS))
                seq.append((op, rng.choice(SETTERS[op][1])))
            else:
                seq.append(rng.choice([APPLY, APPLY, REFRESH, SELF_CLEAN]))
        hist.append((profile, seq + [APPLY, REFRESH]))
    # the acknowledgement of a property write is lost: the write was transmitted once; the following applies carry nothing more
    lossy = []
    for profile in P.PROFILES:
        for op, (name, vals) in SETTERS.items():
            if op == 10:
                continue
            v = vals[-1]
            lossy.append((profile, [(op, v), APPLY, APPLY, REFRESH, APPLY, REFRESH], (0,)))
            lossy.append((profile, [(op, v), APPLY, (op, vals[0]), APPLY, APPLY, REFRESH], (rng.randrange(2),)))
    # a setting is switched on and applied, then changed ON THE APPLIANCE by someone else (remote control / the unit itself); a refresh
    # reads that back; the next apply - no setter called since - carries no property write
    OFF = {0x42: [1], 0x18: [0], 0x43: [1], 0xE3: [0, 0], 0x48: [100], 0x0A: [0], 0x09: [0]}
    external = []
    for profile in P.PROFILES:
        adv = [cid for cid, _ in P.PROFILES[profile]]
        for op, (name, vals) in SETTERS.items():
            pid = expected_id(adv, op) if op != 10 else None
            if pid is None or pid not in adv:
                continue
            on = vals[-1] if op not in (25, 26, 27, 30) else 1
            external.append((profile, [(op, on), APPLY, REFRESH, REFRESH, APPLY, REFRESH, APPLY], (), {1: [(pid, OFF[pid])]}))
    # the answer to the state command of an apply is lost: the property write of that apply is still transmitted (once)
    nostate = []
    for profile in P.PROFILES:
        for op, (name, vals) in SETTERS.items():
            if op == 10:
                continue
            nostate.append((profile, [(op, vals[-1]), APPLY, REFRESH, APPLY, REFRESH], (), None, (0,)))
    cases, impl = [], []
    for profile, ops, lose, ext, ls in [h + ((), None, ()) for h in hist] + [l + (None, ()) for l in lossy] + [e + ((),) for e in external] + nostate:
        r = check_history(ctx, rep, profile, ops, lose, ext, ls)
        if r is not None:
            cases.append((r[0], r[1], 0))
            impl.append(r)
    rep.sample({"profile": hist[0][0], "ops": hist[0][1]})
    # replay the recorded exchanges into the model: same dump, counter and sent bodies
    mo = ctx.model.batch([D.model_case(*c) for c in cases])
    for c, r, (mst, mouts) in zip(cases, impl, mo):
        md, mc, ms = D.canon_model(mouts)
        if r[2] != mst or r[3] != md or r[5] != ms or r[4] != mc:
            rep.fail("corr", "device-ops", {"ops": c[0], "exchanges": [[bytes(f).hex() for f in ex] for ex in c[1]]},
                     {"impl": [r[2], r[3], r[4], r[5]], "model": [mst, md, mc, ms]})
