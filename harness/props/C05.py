"""C05: V3 encrypted packet codec. Correspondence of _encode_encrypted_request / _process_packet with the model; oracle: the
extracted reference device (coq/spec/RefLan) parses every request to the same payload and counter; every response the reference
builds is decoded to exactly its payload; every single-bit flip of a response is rejected with a protocol error at the level
LAN.send observes it (_process_packet followed by _Packet.decode)."""
import lanfn as F
from common import rbytes

F_ENC, F_PROC, F_PARSE, F_BUILD, F_V2DEC = 42, 43, 53, 54, 41


def run(ctx, rep):
    rng = ctx.rng
    rep.rule = ("payload lengths 0..300 (every residue of (len+2) mod 16 many times), random 32-byte keys, counters "
                "{0,1,255,256,4095,65535} (all 0..4095 in thorough), random pad bytes; responses built by the reference for the same "
                "grid; all single-bit flips of header, ciphertext and tag of base responses. non-trivial = distinct packet")
    keys = [rbytes(rng, 32) for _ in range(ctx.n(12, 100))]
    counters = list(range(4096)) if ctx.deep else [0, 1, 255, 256, 4095, 65535]
    # ---- requests ---------------------------------------------------------------------------------
    cases = []
    for n in range(0, 301):
        for k in range(ctx.n(2, 6)):
            cases.append((keys[(n + k) % len(keys)], counters[(n * 7 + k) % len(counters)], rbytes(rng, n), rbytes(rng, 16)))
    for c in counters:
        cases.append((keys[c % len(keys)], c, rbytes(rng, rng.randrange(0, 40)), rbytes(rng, 16)))
    cases.append((keys[0], 65536, [1, 2, 3], rbytes(rng, 16)))              # OverflowError
    cases.append(([], 1, [1, 2, 3], rbytes(rng, 16)))                        # no key: ProtocolError
    impl = [F.v3_encode_request(k, c, d, r) for k, c, d, r in cases]
    mo = ctx.model.batch([(F_ENC, [k, [c], d, r]) for k, c, d, r in cases])
    parse_in = []
    for (k, c, d, r), im, m in zip(cases, impl, mo):
        rep.case((tuple(k), c, tuple(d)), f"request-res{(len(d) + 2) % 16}")
        F.cmp_res(rep, "v3-encode-request", {"key": bytes(k).hex(), "counter": c, "data": bytes(d).hex()}, im, m)
        if im[0] == 0:
            parse_in.append((k, c, d, im[1]))
        elif k and c < 65536:
            rep.fail("oracle", "request-not-encoded", {"counter": c, "len": len(d)}, {"exception": im[0]})
    po = ctx.model.batch([(F_PARSE, [k, p]) for k, c, d, p in parse_in])
    for (k, c, d, p), (st, outs) in zip(parse_in, po):
        if st != 0 or outs[0][0] != c or outs[1] != d:
            rep.fail("oracle", "reference-device-rejects-request", {"key": bytes(k).hex(), "counter": c, "data": bytes(d).hex()},
                     {"packet": bytes(p).hex(), "parsed": [st, outs]})
    rep.sample({"counter": cases[40][1], "data": bytes(cases[40][2]).hex(), "packet": bytes(impl[40][1]).hex()})
    # ---- many packets through ONE protocol object (one session): each is what a fresh object makes of it -------------------
    for sidx in range(ctx.n(12, 80)):
        key = keys[sidx % len(keys)]
        steps, want = [], []
        for j in range(rng.randrange(2, 9)):
            if rng.random() < 0.65:
                d, r, c = rbytes(rng, rng.randrange(0, 60)), rbytes(rng, 16), (sidx * 17 + j) % 4096
                steps.append(("enc", c, d, r)); want.append((F_ENC, [key, [c], d, r]))
            else:
                d, c = rbytes(rng, rng.randrange(0, 60)), rng.randrange(65536)
                if rng.random() < 0.7:                       # mostly what an appliance sends: a V2 packet inside
                    d = F.v2_encode(rng.randrange(2 ** 48), rbytes(rng, rng.randrange(0, 40)))[1]
                pkt = ctx.model.one(F_BUILD, [[3], key, [c], d, rbytes(rng, 16)])[1][0]
                steps.append(("dec", pkt)); want.append((F_PROC, [key, pkt]))
                for _ in range(rng.randrange(0, 3)):        # an altered copy arriving right after the authentic packet
                    q = list(pkt); q[rng.randrange(len(q) - 32)] ^= 1 << rng.randrange(8)
                    steps.append(("alt", q)); want.append((F_PROC, [key, q]))
        got = F.v3_session(key, steps)
        mo2 = ctx.model.batch(want)
        for j, (stp, im, m) in enumerate(zip(steps, got, mo2)):
            rep.case(("session", sidx, j), "same-object-sequence")
            inp = {"key": bytes(key).hex(), "position_in_session": j,
                   "session": [[x[0]] + [bytes(y).hex() if isinstance(y, (list, bytes)) else y for y in x[1:]] for x in steps[:j + 1]]}
            F.cmp_res(rep, "v3-session-step", inp, im, m)
            if stp[0] == "enc" and im[0] == 0:
                st, outs = ctx.model.one(F_PARSE, [key, im[1]])
                if st != 0 or outs[0][0] != stp[1] or outs[1] != stp[2]:
                    rep.fail("oracle", "reference-device-rejects-request:later-in-session", inp, {"packet": bytes(im[1]).hex(), "parsed": [st, outs]})
            if stp[0] == "alt" and im[0] == 0:
                # judged where LAN.send sees it (as the bit-flip sweep below): a flip of the type nibble to 'handshake response' makes
                # _process_packet hand the raw body on unverified - by design; what matters is that no FRAME comes out of it
                c2, v2 = F.v2_decode(im[1])
                if c2 == 0:
                    rep.fail("oracle", "altered-packet-accepted:after-its-original", inp, {"processed": bytes(im[1]).hex(), "frame": bytes(v2).hex()})
            if stp[0] == "dec" and (im[0] != 0 or im[1] != ctx.model.one(F_PROC, [key, stp[1]])[1][0]):
                rep.fail("oracle", "response-not-decoded-to-payload:later-in-session", inp, {"result": [im[0], str(im[1])[:80]]})
    # ---- responses built by the reference -----------------------------------------------------------
    rcases = []
    for n in range(0, 301):
        for k in range(ctx.n(1, 4)):
            rcases.append((keys[(n + k) % len(keys)], counters[(n + 3 * k) % len(counters)] % 65536, rbytes(rng, n), rbytes(rng, 16)))
    bo = ctx.model.batch([(F_BUILD, [[3], k, [c], d, r]) for k, c, d, r in rcases])
    pkts = [o[1][0] for o in bo]
    pm = ctx.model.batch([(F_PROC, [k, p]) for (k, c, d, r), p in zip(rcases, pkts)])
    for (k, c, d, r), p, m in zip(rcases, pkts, pm):
        rep.case(("resp", tuple(p)), f"response-res{(len(d) + 2) % 16}")
        im = F.v3_process(k, p)
        F.cmp_res(rep, "v3-process-response", {"key": bytes(k).hex(), "packet": bytes(p).hex()}, im, m)
        if im[0] != 0 or im[1] != d:
            rep.fail("oracle", "response-not-decoded-to-payload" + (":pad0" if (len(d) + 2) % 16 == 0 else ""),
                     {"key": bytes(k).hex(), "counter": c, "data": bytes(d).hex()},
                     {"packet": bytes(p).hex(), "result": [im[0], bytes(im[1]).hex() if im[0] == 0 else str(im[1])[:60]]})
    # ---- tamper evidence: every single-bit flip of responses carrying a V2 packet ------------------------
    F.set_time(2024, 1, 1, 0, 0, 0, 0)
    nbase = ctx.n(5, 30)
    flips_model = []
    for b in range(nbase):
        key = keys[b % len(keys)]
        frame = rbytes(rng, rng.choice([0, 5, 20, 33]))
        v2 = F.v2_encode(rng.randrange(2 ** 48), frame)[1]
        payload = v2 if b % 2 == 0 else rbytes(rng, rng.choice([3, 14, 30, 45]))     # also non-V2 payloads incl. pad 0
        st, outs = ctx.model.one(F_BUILD, [[3], key, [b], payload, rbytes(rng, 16)])
        pkt = outs[0]
        for pos in range(len(pkt)):
            for bit in range(8):
                q = list(pkt); q[pos] ^= 1 << bit
                rep.case(("flip", b, pos, bit), "bitflip")
                code, val = F.v3_process(key, q)
                if code == 0:
                    # what LAN.send observes: the V3 payload is then decoded as a V2 packet
                    code2, val2 = F.v2_decode(val)
                    if code2 == 0:
                        rep.fail("oracle", "altered-response-accepted", {"key": bytes(key).hex(), "packet": bytes(pkt).hex(), "pos": pos, "bit": bit},
                                 {"decoded": bytes(val2).hex()})
                    elif code2 not in (10, 11):
                        rep.fail("oracle", f"altered-response-raises:{code2}", {"key": bytes(key).hex(), "packet": bytes(pkt).hex(), "pos": pos, "bit": bit}, {})
                elif code not in (10, 11):
                    rep.fail("oracle", f"altered-response-raises:{code}", {"key": bytes(key).hex(), "packet": bytes(pkt).hex(), "pos": pos, "bit": bit},
                             {"exception": str(val)[:80]})
                if rng.random() < 0.02:
                    flips_model.append((key, q, (code, val)))
    mo = ctx.model.batch([(F_PROC, [k, q]) for k, q, _ in flips_model])
    for (k, q, im), m in zip(flips_model, mo):
        F.cmp_res(rep, "v3-process-flipped", {"key": bytes(k).hex(), "packet": bytes(q).hex()}, im, m)
