"""C10: the 0x40 control body put on the wire by AirConditioner.apply() decodes, under the reference layout
(extracted coq/spec/RefAC.ref_decode_control), to exactly the requested state; distinct states give distinct bodies."""
import acdev as D

F_DECODE, F_BODY = 30, 31
# (op code of the setter, attribute index in the decoded request)
FIELDS = {"power": 11, "beep": 10, "mode": 13, "target": 12, "fan": 14, "swing": 15, "turbo": 17, "follow_me": 21, "eco": 16,
          "purifier": 22, "sleep": 19, "fahrenheit": 20, "humidity": 23, "freeze": 18, "aux_mode": 24}
ORDER = ["power", "beep", "mode", "target", "fan", "swing", "turbo", "follow_me", "eco", "purifier", "aux_mode", "sleep",
         "fahrenheit", "humidity", "freeze"]
DOMAIN = {"power": [0, 1], "beep": [0, 1], "mode": list(range(8)), "target": list(range(26, 88)), "fan": list(range(0, 128)),
          "swing": list(range(16)), "turbo": [0, 1], "follow_me": [0, 1], "eco": [0, 1], "purifier": [0, 1],
          "sleep": [0, 1], "fahrenheit": [0, 1], "humidity": list(range(128)), "freeze": [0, 1], "aux_mode": [0, 1, 2]}


def expected(st):
    return [st["power"], st["beep"], st["mode"], st["target"], st["fan"], st["swing"], st["turbo"], st["follow_me"], st["eco"],
            st["purifier"], int(st["aux_mode"] == 1), st["sleep"], st["fahrenheit"], st["humidity"], st["freeze"],
            int(st["aux_mode"] == 2)]


def rand_state(rng):
    return {k: rng.choice(v) for k, v in DOMAIN.items()}


def gen_states(ctx):
    rng = ctx.rng
    out = []
    for k, vals in DOMAIN.items():                # every value of every field, others random
        for v in vals:
            s = rand_state(rng); s[k] = v
            out.append(s)
    for t in DOMAIN["target"]:                    # all 62 setpoints x all modes
        for m in range(8):
            s = rand_state(rng); s["target"], s["mode"] = t, m
            out.append(s)
    for bits in range(1 << 9):                    # all combinations of the flags that share bytes 1, 8, 9, 10
        names = ["power", "beep", "turbo", "follow_me", "eco", "purifier", "sleep", "fahrenheit", "freeze"]
        s = rand_state(rng)
        for i, n in enumerate(names):
            s[n] = bits >> i & 1
        for aux in (0, 1, 2):
            s2 = dict(s); s2["aux_mode"] = aux
            out.append(s2)
    keys = list(DOMAIN)                            # pairwise: every pair of fields takes every pair of boundary values
    for i in range(len(keys)):
        for j in range(i + 1, len(keys)):
            for a in (DOMAIN[keys[i]][0], DOMAIN[keys[i]][-1]):
                for b in (DOMAIN[keys[j]][0], DOMAIN[keys[j]][-1]):
                    s = rand_state(rng); s[keys[i]], s[keys[j]] = a, b
                    out.append(s)
    out += [rand_state(rng) for _ in range(ctx.n(3000, 60000))]
    return out


def run(ctx, rep):
    rep.rule = ("states: every value of every field (others random), all 62 setpoints x 8 modes, all 512 flag combinations x 3 "
                "aux modes, pairwise boundary pairs, random; each applied through AirConditioner.apply() on a scripted transport; "
                "body decoded by the extracted reference decoder. non-trivial = distinct command body")
    states = gen_states(ctx)
    cases = []
    for st in states:
        ops = [(FIELDS[k], st[k]) for k in ORDER] + [(2, 0)]
        cases.append((ops, [[]], ctx.rng.randrange(256)))
    # the same after get_capabilities() answered by appliances that advertise little or nothing (random subsets of the capability
    # records, every value 0/1): what the appliance advertises must not silently change what a later apply requests
    import acresp as A
    ncap = ctx.n(500, 5000)
    cap_ids = list(range(0x210, 0x236)) + [0x10, 0x18, 0x1E, 0x39, 0x42, 0x43, 0x48, 0x4B, 0xE3]
    capstates = []
    for i in range(ncap):
        st = rand_state(rng := ctx.rng)
        if i % 3 == 0:
            st["freeze"] = 1
        recs = [] if i % 5 == 0 else [(c, [rng.choice([0, 0, 1])]) for c in rng.sample(cap_ids, rng.randrange(0, 12))]
        ops = [(3, 0)] + [(FIELDS[k], st[k]) for k in ORDER] + [(2, 0)]
        cases.insert(0, (ops, [[A.mk_frame(A.caps_body(recs))], []], rng.randrange(256)))
        st["_advertised_capabilities"] = [(hex(c), v) for c, v in recs]
        capstates.insert(0, st)
    states = capstates + states
    # the same object applies twice (nothing changed in between / one field changed): the second command is the requested state too
    twice = []
    for i in range(ctx.n(300, 3000)):
        st = rand_state(ctx.rng)
        if i % 2 == 0:
            st["beep"] = 1
        st2 = dict(st)
        if i % 3 == 0:
            k = ctx.rng.choice(ORDER); st2[k] = ctx.rng.choice(DOMAIN[k])
        ops = [(FIELDS[k], st[k]) for k in ORDER] + [(2, 0)] + [(FIELDS[k], st2[k]) for k in ORDER if st2[k] != st[k]] + [(2, 0)]
        twice.append((ops, [[], []], ctx.rng.randrange(256), st2))
    # correspondence of the whole apply() path (state dump + sent bodies) on a slice; bodies for all
    nb = ctx.n(600, 6000) + ncap
    res = D.compare(ctx, rep, cases[:nb], tag="apply")
    for c in cases[nb:]:
        res.append(D.run_impl(*c))
    # the control body is the LAST body sent (a capabilities query may precede it)
    bodies = [([b for b in r[3] if b and b[0] == 0x40] or [None])[-1] if r[3] else None for r in res]
    dec = ctx.model.batch([(F_DECODE, [b or []]) for b in bodies])
    seen = {}
    for st, r, body, (dst, douts) in zip(states, res, bodies, dec):
        key = tuple(body) if body else None
        rep.case(key, "apply")
        exp = expected(st)
        if r[0] != 0 or body is None:
            rep.fail("oracle", "apply-raised", {"state": st}, {"status": r[0]})
            continue
        if dst != 0 or douts[0] != exp:
            rep.fail("oracle", "decoded-state-differs", {"state": st},
                     {"body": bytes(body).hex(), "decoded": douts[0] if dst == 0 else None, "requested": exp})
        if key in seen and seen[key] != exp:
            rep.fail("oracle", "two-states-one-body", {"state": st, "other": seen[key]}, {"body": bytes(body).hex()})
        seen[key] = exp
    res2 = D.compare(ctx, rep, [t[:3] for t in twice], tag="apply-twice")
    dec2 = ctx.model.batch([(F_DECODE, [([b for b in r[3] if b and b[0] == 0x40] or [[]])[-1]]) for r in res2])
    for (ops, _, _, st2), r, (dst, douts) in zip(twice, res2, dec2):
        n40 = [b for b in r[3] if b and b[0] == 0x40]
        rep.case(("twice", tuple(n40[-1]) if n40 else None), "apply-twice")
        if r[0] != 0 or len(n40) != 2:
            rep.fail("oracle", "apply-raised", {"ops": ops}, {"status": r[0], "commands_sent": len(n40)})
        elif dst != 0 or douts[0] != expected(st2):
            rep.fail("oracle", "decoded-state-differs:second-apply-of-the-same-object", {"ops": ops, "requested": st2},
                     {"body": bytes(n40[-1]).hex(), "decoded": douts[0] if dst == 0 else None, "requested": expected(st2)})
    rep.sample({"state": states[0], "body": bytes(bodies[0]).hex()})
    rep.sample({"state": states[-1], "body": bytes(bodies[-1]).hex()})
