"""C14: no device response makes refresh / apply / get_capabilities / toggle_display / start_self_clean raise; undecodable
frames are skipped and the decodable ones of the same exchange are still applied."""
import acresp as A
import acdev as D
from common import call

OPS = {"refresh": 1, "apply": 2, "get_capabilities": 3, "toggle_display": 4, "start_self_clean": 5}


def good_frames(rng):
    return {
        "state": A.state_body(rng, n=24),
        "caps": A.caps_body([(0x0214, [1]), (0x0225, [30, 60, 34, 60, 34, 60, 1]), (0x0212, [1]), (0x0048, [2]), (0x0042, [1]),
                             (0x00E3, [1]), (0x0009, [1]), (0x0216, [2]), (0x021F, [2])], more=0),
        "props": A.props_body([(0x42, 0, [2]), (0xE3, 0, [1, 1]), (0x48, 0, [40]), (0x09, 0, [50]), (0x39, 0, [1])]),
        "propsack": A.props_body([(0x42, 0, [1]), (0x1A, 0, [1])], rid=0xB0),
        "energy": A.energy_body(rng),
        "humidity": A.humidity_body(rng) + [0] * 6,
    }


def hostile_bodies(ctx):
    rng = ctx.rng
    good = good_frames(rng)
    out = [("empty-body", [])]
    for name, body in good.items():
        for n in range(0, len(body)):                      # truncated at every shorter length
            out.append((f"{name}-trunc", body[:n]))
    for v in range(256):                                   # count / size fields over every value
        b = list(good["caps"]); b[1] = v; out.append(("caps-count", b))
        b = list(good["caps"]); b[4] = v; out.append(("caps-size", b))
        b = list(good["caps"][:9]); b[4] = v; out.append(("caps-size-short", b))
        b = list(good["props"]); b[1] = v; out.append(("props-count", b))
        b = list(good["props"]); b[5] = v; out.append(("props-size", b))
        b = [0xB5, 1, 0x25, 0x02, v] + [1] * (v % 9); out.append(("caps-temperatures-size", b))
        b = [0xB1, 1, 0xE3, 0x00, 0, v] + [1] * (v % 3); out.append(("props-ieco-size", b))
        b = list(good["energy"]); b[3] = v; out.append(("group-byte", b))
        b = [0xC1, 0x21, 0x01, v]; out.append(("group-short", b))
    # every known property id x value bytes (an enumeration fed a value outside its members), as query reply and as write ack;
    # every capability id of the low page x value bytes
    vals = range(256) if ctx.deep else [0, 1, 2, 3, 4, 5, 6, 7, 50, 100, 101, 127, 128, 200, 254, 255]
    for pid in (0x09, 0x0A, 0x15, 0x18, 0x1A, 0x39, 0x42, 0x43, 0x48, 0x4B, 0xE3, 0x21E, 0x44):
        for v in vals:
            for rid in (0xB1, 0xB0):
                out.append(("props-value", A.props_body([(pid, 0, [v])], rid=rid)))
            out.append(("props-value2", A.props_body([(pid, 0, [v, v ^ 0x5A])])))
    for cid in list(range(0x210, 0x236)) + [0x10, 0x18, 0x1E, 0x39, 0x42, 0x43, 0x48, 0x4B, 0xE3]:
        for v in vals:
            out.append(("caps-value", A.caps_body([(cid, [v])])))
    for rid in range(256):                                 # every response id with random bodies
        for _ in range(ctx.n(2, 12)):
            out.append(("id-random", [rid] + A.rbytes(rng, rng.randrange(0, 40)) if hasattr(A, "rbytes") else [rid] + [rng.randrange(256) for _ in range(rng.randrange(0, 40))]))
    return out, good


def run(ctx, rep):
    from msmart.device.AC import command as C
    rng = ctx.rng
    rep.rule = ("hostile frames: every valid response kind truncated to every shorter length (checksums recomputed), count/size/group "
                "bytes over 0..255, every response id with random bodies, frame types 2..6, raw short frames; each alone and mixed "
                "with good frames in one exchange, through each of the five public operations. non-trivial = distinct (frame, op)")
    hostile, good = hostile_bodies(ctx)
    frames = []
    for i, (name, body) in enumerate(hostile):
        ft = 3 if i % 7 else rng.choice([2, 3, 4, 5, 6])
        frames.append((name, A.mk_frame(body, ftype=ft, check="crc" if i % 2 else "sum")))
    frames += [("raw-short", [0xAA] * k) for k in range(0, 14)] + [("raw-empty", [])]
    frames += [("raw-valid-outer", A.refix([0xAA, 0, 0xAC] + [0] * k + [0])) for k in range(0, 12)]
    # ---- Response.construct: totality into {ok, InvalidFrame, InvalidResponse} + correspondence ----
    res = A.compare_construct(ctx, rep, C, [f for _, f in frames], tag="construct-hostile")
    for (name, f), (code, _) in zip(frames, res):
        rep.case(("construct", tuple(f)), "construct:" + name)
        if code not in (0, 8, 9):
            rep.fail("oracle", f"construct-raises:{D.exn_code.__module__ and code}", {"kind": name, "frame": bytes(f).hex()},
                     {"exception_code": code})
    # ---- through the public operations ---------------------------------------------------------
    gstate, gcaps = A.mk_frame(good["state"]), A.mk_frame(good["caps"])
    gprops = A.mk_frame(good["props"])
    pick = frames if ctx.deep else [frames[i] for i in range(0, len(frames), 3)]
    cases, meta = [], []
    for k, (name, f) in enumerate(pick):
        opname = list(OPS)[k % 5]
        op = OPS[opname]
        pre = [(3, 0)] if k % 2 else []                     # half the time with capabilities known (more commands per refresh)
        pre_ex = [[gcaps]] if pre else []
        bad_ex = [[f], [gstate, f], [f, gprops, f], [f], [f, gstate]]
        good_ex = [[], [gstate], [gprops], [], [gstate]]
        cases.append((pre + [(op, 0)], pre_ex + bad_ex, k % 256)); meta.append((name, f, opname, "mixed"))
        cases.append((pre + [(op, 0)], pre_ex + good_ex, k % 256)); meta.append((name, f, opname, "good-only"))
    # get_capabilities when the FIRST page is genuine and asks for a second one: the hostile frame answers the second query
    gcaps_more = A.mk_frame(A.caps_body([(0x0214, [1]), (0x0212, [1])], more=1))
    second = [(n, f) for n, f in pick] + [("caps-id-nonquery-type", A.mk_frame(good["caps"], ftype=t)) for t in (2, 4, 5, 6)] \
        + [("caps-id-short-nonquery", A.mk_frame([0xB5, 0], ftype=5)), ("caps-id-empty-nonquery", A.mk_frame([0xB5], ftype=2))]
    for k, (name, f) in enumerate(second):
        cases.append(([(3, 0)], [[gcaps_more], [f]], k % 256)); meta.append((name, f, "get_capabilities", "mixed"))
        cases.append(([(3, 0)], [[gcaps_more], []], k % 256)); meta.append((name, f, "get_capabilities", "good-only"))
    nb = ctx.n(400, 4000) * 2
    res = D.compare(ctx, rep, cases[:nb], tag="ops-hostile")
    res += [D.run_impl(*c) for c in cases[nb:]]
    for i in range(0, len(res), 2):
        name, f, opname, _ = meta[i]
        mixed, goodonly = res[i], res[i + 1]
        rep.case(("op", opname, tuple(f)), "op:" + opname)
        if mixed[0] != 0:
            rep.fail("oracle", f"operation-raises:{opname}:{mixed[0]}", {"kind": name, "frame": bytes(f).hex(), "op": opname,
                                                                       "ops": cases[i][0]}, {"exception_code": mixed[0]})
        elif goodonly[0] == 0 and mixed[1] != goodonly[1]:
            # the hostile frame was either skipped (state as with good frames only) or was itself decodable
            code, _ = A.impl_construct(C, f)
            if code != 0:
                rep.fail("oracle", "good-frames-not-applied", {"kind": name, "frame": bytes(f).hex(), "op": opname},
                         {"with_hostile": mixed[1], "good_only": goodonly[1]})
    # ---- what a hostile-but-decodable frame leaves behind: every capabilities / properties / state frame of the sweeps answers one
    # operation, then each operation runs against GOOD frames only - none may raise (e.g. on an emptied list of supported values)
    later, lmeta = [], []
    decodable = [(n, f) for n, f in frames if n.startswith(("caps-", "props-", "group-", "state-trunc")) or n == "id-random"]
    if not ctx.deep:
        decodable = [x for x in decodable if x[0].startswith("state-trunc")] + [x for x in decodable if not x[0].startswith("state-trunc")][::2]
    for k, (name, f) in enumerate(decodable):
        first = (3, 0) if name.startswith("caps-") else (1, 0)
        ex1 = [[f] if first == (3, 0) else ([f] if name.startswith("state-trunc") else [gstate, f])]
        n1 = max(1, len(D.run_impl([first], ex1)[3]))           # requests the first operation makes (a second page, more queries)
        for opname in (list(OPS) if name.startswith("state-trunc") else (list(OPS)[k % 5], "refresh")):
            later.append(([first, (OPS[opname], 0)], ex1 + [[]] * (n1 - 1) + [[gstate], [gprops], [gstate], [gstate]], k % 256))
            lmeta.append((name, f, opname))
    nl = ctx.n(600, 6000)
    lres = D.compare(ctx, rep, later[:nl], tag="ops-after-hostile") + [D.run_impl(*c) for c in later[nl:]]
    for (name, f, opname), c, r in zip(lmeta, later, lres):
        rep.case(("later", opname, tuple(f)), "later-op:" + opname)
        if r[0] != 0:
            rep.fail("oracle", f"operation-raises:{opname}:{r[0]}:after-an-earlier-frame", {"kind": name, "earlier_frame": bytes(f).hex(), "ops": c[0]},
                     {"exception_code": r[0]})
    rep.sample({"frame": bytes(frames[5][1]).hex(), "kind": frames[5][0]})
    rep.sample({"frame": bytes(frames[-20][1]).hex(), "kind": frames[-20][0]})
