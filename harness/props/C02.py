"""C02: V2 packet codec interoperates. Correspondence of _Packet.encode/_Packet.decode/_timestamp with the model; oracle:
the extracted reference parser (coq/spec/RefLan.ref_v2_parse) decodes what the implementation encodes to the same id and
frame, and the implementation decodes every packet the reference builder produces."""
import lanfn as F
from common import rbytes

F_ENC, F_DEC, F_TS, F_PARSE, F_BUILD = 40, 41, 46, 51, 52
IDS = [0, 1, 255, 256, 65535, 65536, 2 ** 24 - 1, 2 ** 24, 2 ** 32 - 1, 2 ** 32, 2 ** 40, 2 ** 48 - 1, 2 ** 48, 2 ** 56, 2 ** 63,
       2 ** 64 - 1, 123456, 0x0102030405060708]
TIMES = [(2024, 1, 2, 3, 4, 5, 670000), (1999, 12, 31, 23, 59, 59, 999999), (2000, 1, 1, 0, 0, 0, 0), (2099, 2, 28, 12, 30, 1, 9999),
         (2100, 6, 15, 1, 1, 1, 10000), (1, 1, 1, 0, 0, 0, 0), (9999, 12, 31, 23, 59, 59, 990000)]


def run(ctx, rep):
    rng = ctx.rng
    rep.rule = ("frames of every length 0..255 (plus longer ones) x device ids at every byte boundary and random x timestamps incl. "
                "century / second / centisecond edges; reference-built packets with random message ids and header bytes. "
                "non-trivial = distinct packet")
    cases = []
    lengths = list(range(0, 256)) + ([300, 511, 512, 1000, 2000, 4095] if ctx.deep else [300, 1000])
    for n in lengths:
        for k in range(ctx.n(2, 12)):
            did = IDS[(n + k) % len(IDS)] if k % 2 == 0 else rng.randrange(2 ** 64)
            cases.append((rbytes(rng, n), did, TIMES[(n + k) % len(TIMES)]))
    for did in IDS + [2 ** 64, 2 ** 70]:                      # ids beyond 8 bytes raise OverflowError
        cases.append((rbytes(rng, 20), did, TIMES[0]))
    # ---- encode: impl vs model, then reference parser on the implementation's bytes --------------
    impl, mcases = [], []
    for frame, did, t in cases:
        F.set_time(*t)
        impl.append(F.v2_encode(did, frame))
        mcases.append((F_TS, [list(t)]))
    ts = ctx.model.batch(mcases)
    mo = ctx.model.batch([(F_ENC, [ts[i][1][0], F.le(did), frame]) for i, (frame, did, t) in enumerate(cases)])
    parse_in = []
    for (frame, did, t), im, m in zip(cases, impl, mo):
        rep.case((tuple(frame), did, t), f"encode-len{len(frame) // 64 * 64}+")
        F.cmp_res(rep, "v2-encode", {"frame": bytes(frame).hex(), "id": did, "time": t}, im, m)
        if im[0] == 0:
            parse_in.append(((frame, did, t), im[1]))
        elif did < 2 ** 64:
            rep.fail("oracle", "encode-raised", {"frame": bytes(frame).hex(), "id": did}, {"exception": im[0]})
    po = ctx.model.batch([(F_PARSE, [p]) for _, p in parse_in])
    for ((frame, did, t), p), (st, outs) in zip(parse_in, po):
        if st != 0 or outs[1] != frame or outs[0] != F.le(did, 8):
            rep.fail("oracle", "reference-parser-disagrees", {"frame": bytes(frame).hex(), "id": did, "time": t},
                     {"packet": bytes(p).hex(), "parsed": [st, outs]})
        if len(p) % 16 != 8:
            rep.fail("oracle", "length-not-8-mod-16", {"frame": bytes(frame).hex()}, {"len": len(p)})
    rep.sample({"frame": bytes(cases[5][0]).hex(), "id": cases[5][1], "packet": bytes(impl[5][1]).hex()})
    # ---- decode: packets built by the reference ------------------------------------------------
    bcases = []
    for n in lengths:
        for k in range(ctx.n(1, 6)):
            frame = rbytes(rng, n)
            bcases.append((rbytes(rng, 4), rbytes(rng, 8), rng.choice(IDS[:-1] + [rng.randrange(2 ** 64)]), rbytes(rng, 12), frame))
    # frames whose own last byte(s) equal the PKCS7 pad value of their length (an unpadder that strips greedily eats them)
    for n in range(1, 256 if ctx.deep else 130):
        pad = 16 - n % 16
        for k in (1, min(n, 3), min(n, pad)):
            frame = rbytes(rng, n - k) + [pad] * k
            bcases.append((rbytes(rng, 4), rbytes(rng, 8), rng.choice(IDS[:-1]), rbytes(rng, 12), frame))
    bo = ctx.model.batch([(F_BUILD, [m, t, F.le(did), h, f]) for m, t, did, h, f in bcases])
    pkts = [o[1][0] for o in bo]
    dm = ctx.model.batch([(F_DEC, [p]) for p in pkts])
    for (m, t, did, h, frame), p, md in zip(bcases, pkts, dm):
        rep.case(("dec", tuple(p)), "decode-ref-built")
        im = F.v2_decode(p)
        F.cmp_res(rep, "v2-decode", {"packet": bytes(p).hex()}, im, md)
        if im[0] != 0 or im[1] != frame:
            rep.fail("oracle", "reference-packet-not-decoded", {"frame": bytes(frame).hex(), "id": did},
                     {"packet": bytes(p).hex(), "result": [im[0], im[1] if im[0] == 0 else str(im[1])[:80]]})
    # trailing bytes after the packet are ignored by the length slice; also compared
    extra = [(p + rbytes(rng, rng.randrange(1, 20))) for p in pkts[:: max(1, len(pkts) // 60)]]
    dm = ctx.model.batch([(F_DEC, [p]) for p in extra])
    for p, md in zip(extra, dm):
        rep.case(("dec+", tuple(p)), "decode-trailing")
        F.cmp_res(rep, "v2-decode-trailing", {"packet": bytes(p).hex()}, F.v2_decode(p), md)
    # ---- on the wire, retransmissions included: LAN.send against the reference appliance that leaves the first 1..2 copies of the
    # request unanswered; EVERY packet the client writes must be decoded by the reference to the same frame and device id
    import acresp as A
    import refpeer
    import simnet
    for version in (2, 3):
        for drop in (1, 2):
            for n in ([0, 7, 16, 40] if not ctx.deep else [0, 1, 7, 15, 16, 17, 40, 100, 255]):
                frame, did = rbytes(rng, n), rng.choice([1, 123456, 2 ** 48 - 1, 0x00005A5A0001, 0x5A5A5A5A5A5A])     # ids that put 5A 5A inside the packet
                dev = refpeer.RefDevice(ctx.model, rng, version=version, device_id=did)
                reply = A.mk_frame(A.state_body(rng, n=24))
                dev.on_frame = lambda f, reply=reply: [reply]
                seen = {"n": 0}

                def fault(conn, view, seen=seen, drop=drop):
                    if view[0] in ("data", "undecodable"):
                        seen["n"] += 1
                        if seen["n"] <= drop:
                            return []
                    return None
                dev.fault = fault
                net = simnet.Net(responder=dev)
                L = simnet.install(net, rnd=lambda k: bytes(rng.randrange(256) for _ in range(k)))
                lan = L.LAN("10.0.0.1", 6444, did)
                code, val = 0, None
                try:
                    if version == 3:
                        net.run(lan.authenticate(bytes(dev.token), bytes(dev.key)))
                    val = net.run(lan.send(bytes(frame)))
                except BaseException as e:  # noqa: BLE001
                    from common import exn_code
                    code, val = exn_code(e), e
                net.close()
                views = [v for vs in dev.views.values() for v in vs if v[0] != "hs"]
                rep.case(("retx", version, drop, tuple(frame), did), f"retransmission-v{version}")
                inp = {"version": version, "unanswered_copies": drop, "frame": bytes(frame).hex(), "device_id": did}
                bad = [v for v in views if v[0] != "data" or v[3] != frame or v[2] != did]
                if code != 0 or len(views) != drop + 1:
                    rep.fail("oracle", "exchange-with-retransmission-failed", inp, {"status": code, "error": repr(val)[:120], "packets_written": len(views)})
                elif bad:
                    rep.fail("oracle", "retransmitted-packet-not-the-frame", inp,
                             {"packet_index": views.index(bad[0]), "reference_reads": [bad[0][0]] + [bytes(x).hex() if isinstance(x, list) else x for x in bad[0][1:]]})
