"""C19: cloud token retrieval follows the API contract and returns only matching credentials.

Oracle (judged by the EXTRACTED reference cloud coq/spec/RefCloud.v, never by the model of the code): the real NetHomePlusCloud /
Discover are driven through get_async_client -> httpx.MockTransport; every request the model cloud server receives is verified
by RefCloud.ref_step with its form fields in a random order (signature over all fields, app id, account, password derivation for
the issued login id, issued session id); the (token, key) returned must belong to an entry of the answered list whose udpId is
the requested one; API error codes / HTTP failures / exhausted timeouts must surface as CloudError after at most the configured
number of attempts; a V3 device served by the reference device on the simulated network and registered at the reference cloud under
the udpid of its id in little OR big endian order must end up authenticated with exactly those credentials.
Correspondence: sign / encrypt_password / _build_request_body / _post_request / login / get_token / Discover._authenticate_device /
Discover.connect against coq/model/Cloud.v on the same inputs."""
import itertools
from urllib.parse import unquote_plus, urlencode

import acresp as A
import cloudsim as CS
import refpeer
import simnet
from cloudsim import B, S
from common import exn_code

ASSUMPTIONS = [
    "C19: TLS, the real HTTP transport and JSON text parsing are not modelled: the model cloud server is injected through "
    "get_async_client as httpx.MockTransport and a response is the parsed (errorCode, result) pair; urlencode/parse_qsl carry the form",
    "C19: strings are ASCII (msg.encode('ASCII') raises otherwise); unquote_plus(urlencode(.)) is checked to be the identity on every "
    "ASCII code point each run; urlparse(endpoint).path is the endpoint for the three endpoints of the flow",
    "C19: the device side of dev.authenticate is abstract in the model (a function parameter); on the implementation side it is the "
    "real Device/LAN stack against refpeer.RefDevice on the simulated network (oracle) and a scripted stub (correspondence of the "
    "control flow of Discover._authenticate_device / connect)",
    "C19: the discovery datagram exchange of Discover.discover is replaced by an in-memory datagram endpoint that delivers one V3 "
    "discovery reply built with msmart's own Security (parsing of discovery replies is C17's subject)",
    "C19: the reference cloud (coq/spec/RefCloud.v) is written from the property text and the public API description; the real "
    "service is not contacted",
]

HEX = "0123456789abcdef"
ALNUM = "abcdefghijklmnopqrstuvwxyzABCDEFGHIJKLMNOPQRSTUVWXYZ0123456789"
PRINTABLE = "".join(chr(c) for c in range(32, 127))
ENDPOINTS = ["/v1/user/login/id/get", "/v1/user/login", "/v1/iot/secure/getToken"]
IDS = [0, 1, 255, 256, 0x0000FFFFFFFF, 0x010203040506, 0x060504030201, 123456, 0xAABBCCDDEEFF, 2 ** 47, 2 ** 48 - 1,
       0x111111111111, 0x7F0000000001, 151732604998913, 0x0000DEADBEEF]


def rstr(rng, alphabet, lo=0, hi=12):
    return "".join(rng.choice(alphabet) for _ in range(rng.randrange(lo, hi + 1)))


def rhex(rng, nbytes):
    return "".join(rng.choice(HEX) for _ in range(2 * nbytes))


def cloud_error_classes():
    from msmart.cloud import ApiError, CloudError
    return CloudError, ApiError


# ---------------------------------------------------------------------------------------------------------------------
def check_constants(ctx, rep):
    """what the generated constants do not cover is compared here on every run"""
    import msmart.cloud as C
    rep.case(("const",), "constants")
    if C.NetHomePlusCloud.BASE_URL != "https://mapp.appsmb.com" or C.NetHomePlusCloud._Security.APP_KEY != "3742e9e5842d4ad59c2db887e12449f9" \
            or C.NetHomePlusCloud.APP_ID != "1017":
        rep.fail("oracle", "constants-differ-from-api", {"base_url": C.NetHomePlusCloud.BASE_URL}, {})
    bad = []
    for c in range(128):
        for s in (chr(c), "a" + chr(c) + "b", chr(c) * 2):
            d = {"k" + s: s, "x": s + "=" + s + "&"}
            if unquote_plus(urlencode(sorted(d.items()))) != "&".join(f"{k}={v}" for k, v in sorted(d.items())):
                bad.append(c)
    if bad:
        rep.fail("corr", "unquote-urlencode-not-identity", {"code_points": bad[:10]}, {})


def corr_sign(ctx, rep):
    rng = ctx.rng
    import msmart.cloud as C
    sec = C.NetHomePlusCloud._Security()
    cases = []
    for i in range(ctx.n(300, 4000)):
        nk = rng.randrange(0, 9)
        alpha = [ALNUM, PRINTABLE, "ab", HEX][i % 4]
        keys = set()
        while len(keys) < nk:
            keys.add(rstr(rng, alpha, 0 if i % 7 == 0 else 1, 6))
        items = [(k, rstr(rng, PRINTABLE if i % 3 else ALNUM, 0, 10)) for k in keys]
        if i % 5 == 0 and items:       # integer values are sent as str()
            k, _ = items[0]
            items[0] = (k, rng.randrange(0, 1000))
        rng.shuffle(items)
        path = ENDPOINTS[i % 3] if i % 2 else "/" + rstr(rng, ALNUM, 1, 3) + rstr(rng, ALNUM + "/_", 0, 10)   # not "//x": that is a netloc for urlparse
        cases.append((path, items))
    # prefix-related and case-related keys: the order of "a" < "aa" < "ab" < "b", "Z" < "a"
    for ks in (["a", "aa", "ab", "b", "B", "", "a0"], ["sessionId", "session", "sessionIdx", "sign", "Sign"], ["~", "}", "0", "/", " "]):
        for perm in itertools.islice(itertools.permutations(ks), 0, 40, 3):
            cases.append(("/v1/x", [(k, "v" + k) for k in perm]))
    mo = CS.pbatch(ctx.model, [(CS.F_SIGN, [B(p)] + CS.flat_fields([(k, str(v)) for k, v in items])) for p, items in cases])
    for (p, items), (st, outs) in zip(cases, mo):
        rep.case(("sign", p, tuple(items)), f"sign-{len(items)}fields")
        impl = sec.sign(p, dict(items))
        if st != 0 or S(outs[0]) != impl:
            rep.fail("corr", "sign", {"path": p, "items": items}, {"impl": impl, "model": S(outs[0]) if st == 0 else st})
        # a different insertion order of the same dict must give the same signature (and the reference must accept it)
        other = list(items)
        rng.shuffle(other)
        if sec.sign(p, dict(other)) != impl:
            rep.fail("oracle", "signature-depends-on-field-order", {"path": p, "items": items, "other": other}, {})
    # the reference verifier on the implementation's signature, fields in a random order
    vcases = []
    for p, items in cases[:: max(1, len(cases) // ctx.n(120, 1500))]:
        if any(k == "sign" for k, _ in items):
            continue
        sg = sec.sign(p, dict(items))
        rec = [(k, str(v)) for k, v in items] + [("sign", sg)]
        rng.shuffle(rec)
        vcases.append((p, items, rec))
    vo = CS.pbatch(ctx.model, [(CS.F_SIGOK, [B(p)] + CS.flat_fields(rec)) for p, _, rec in vcases])
    for (p, items, rec), (st, outs) in zip(vcases, vo):
        rep.case(("sigok", p, tuple(rec)), "reference-verifies-signature")
        if outs[0] != [1]:
            rep.fail("oracle", "request-rejected-by-reference-server", {"path": p, "fields": rec},
                     {"reason": "signature", "expected": S(outs[1])})
    rep.sample({"sign": {"path": cases[1][0], "items": cases[1][1], "signature": sec.sign(cases[1][0], dict(cases[1][1]))}})
    # encrypt_password
    pcases = [(rstr(rng, PRINTABLE, 0, 40), rstr(rng, PRINTABLE, 0, 30)) for _ in range(ctx.n(150, 2000))]
    pcases += [("", ""), ("a" * 64, "b" * 64), ("x" * 200, "y" * 119)]
    po = CS.pbatch(ctx.model, [(CS.F_ENCPW, [B(l), B(p)]) for l, p in pcases])
    for (l, p), (st, outs) in zip(pcases, po):
        rep.case(("encpw", l, p), "encrypt_password")
        impl = sec.encrypt_password(l, p)
        if st != 0 or S(outs[0]) != impl:
            rep.fail("corr", "encrypt_password", {"login_id": l, "password": p}, {"impl": impl, "model": outs})


def corr_body(ctx, rep):
    rng = ctx.rng
    cases = []
    for i in range(ctx.n(80, 800)):
        data = {}
        for _ in range(rng.randrange(0, 4)):
            k = rng.choice(["udpid", "loginAccount", "password", "stamp", "sessionId", "appId", "format", "x", rstr(rng, ALNUM, 1, 5)])
            data[k] = rstr(rng, PRINTABLE, 0, 12)
        cases.append((rstr(rng, ALNUM, 0, 12), rhex(rng, 8), rng.randrange(0, 100000), data))
    mo = CS.pbatch(ctx.model, [(CS.F_BODY, [B(sid), B(dev), B(CS.stamp(n))] + CS.flat_fields(list(data.items()))) for sid, dev, n, data in cases])
    for (sid, dev, n, data), (st, outs) in zip(cases, mo):
        rep.case(("body", sid, dev, n, tuple(data.items())), "build_request_body")
        C = CS.cloud_mod(dev, lambda n=n: n)
        cloud = C.NetHomePlusCloud("US")
        cloud._session_id = sid
        impl = [(k, str(v)) for k, v in cloud._build_request_body(dict(data)).items()]
        model = [(S(outs[2 * j]), S(outs[2 * j + 1])) for j in range(len(outs) // 2)]
        if impl != model:
            rep.fail("corr", "build_request_body", {"session": sid, "device": dev, "data": data}, {"impl": impl, "model": model})
    # constructor: regions / account / password
    ncases = []
    for region in ("US", "DE", "KR", "XX", "", "us", None):
        for acct in (None, "", "me@x.y"):
            for pw in (None, "", "secret"):
                ncases.append((region, acct, pw))
    no = CS.pbatch(ctx.model, [(CS.F_NEW, [B(r or ""), B(a or ""), B(p or "")]) for r, a, p in ncases])
    import msmart.cloud as C
    for (r, a, p), (st, outs) in zip(ncases, no):
        rep.case(("new", r, a, p), "constructor")
        try:
            c = C.NetHomePlusCloud(r, account=a, password=p)
            impl = (0, c._account, c._password)
        except Exception as e:  # noqa: BLE001
            impl = (exn_code(e), None, None)
        model = (st, S(outs[0]) if st == 0 else None, S(outs[1]) if st == 0 else None)
        if impl != model:
            rep.fail("corr", "constructor", {"region": r, "account": a, "password": p}, {"impl": impl, "model": model})


# ---------------------------------------------------------------------------------------------------------------------
def retry_sweep(ctx, rep):
    """ALL outcome scripts up to the budget, retries 0..4 and the default"""
    rng = ctx.rng
    CloudError, ApiError = cloud_error_classes()
    ok = ("resp", 0, 0, "lid")
    alphabet = [("timeout",), ("http",), ok, ("resp", 3101, 3, None)]
    cases = [(0, [ok]), (0, []), (None, []), (None, [("timeout",)] * 2 + [ok]), (None, [("timeout",)] * 3 + [ok])]
    for r in (1, 2, 3, 4):
        for n in range(0, r + 1):
            for script in itertools.product(alphabet, repeat=n):
                cases.append((r, list(script) + ([ok] if n == r else [])))
    for _ in range(ctx.n(40, 600)):
        r = rng.randrange(1, 7)
        kind = rng.randrange(4)
        extra = [("resp", rng.choice([1, -1, 40002, 3004]), kind, [("aa", "bb", "cc")] if kind == 2 else "zz"),
                 ("resp", 0, 1, "sid"), ("resp", 0, 3, None), ("resp", 0, 2, [])]
        cases.append((r, [rng.choice(alphabet + extra) for _ in range(rng.randrange(0, r + 2))]))
    import msmart.cloud as C
    default = C.BaseCloud.RETRIES
    mo = CS.pbatch(ctx.model, [(CS.F_POST, [[default if r is None else r]] + [CS.outcome_arg(o) for o in script]) for r, script in cases])
    for (r, script), (mst, mouts) in zip(cases, mo):
        rep.case(("post", r, tuple(map(str, script))), f"post-retries{r}")
        st, outs, exc = CS.impl_post(rng, r, script)
        inp = {"retries": r, "script": [list(map(str, o)) for o in script]}
        if (st, outs) != (mst, mouts):
            rep.fail("corr", "post_request", inp, {"impl": [st, outs], "model": [mst, mouts]})
        # ---- oracle, from the property text ------------------------------------------------------------------
        budget = default if r is None else r
        attempts = outs[0][0]
        if attempts > max(budget, 0):
            rep.fail("oracle", "too-many-attempts", inp, {"attempts": attempts, "budget": budget})
        if exc is not None and not isinstance(exc, CloudError):
            rep.fail("oracle", "error-not-cloud-error", inp, {"exception": repr(exc)[:120]})
        if budget >= 1:
            seen = (script + [("timeout",)] * budget)[:budget]
            first = next((o for o in seen if o[0] != "timeout"), None)
            if first is None:
                want = ("CloudError", budget)
            else:
                idx = seen.index(first) + 1
                want = ("CloudError" if first[0] == "http" else ("ApiError" if first[1] != 0 else "ok"), idx)
            got = ("ok" if exc is None else ("ApiError" if isinstance(exc, ApiError) else type(exc).__name__), attempts)
            if got != want:
                rep.fail("oracle", "retry-contract-violated", inp, {"got": got, "want": want})
    rep.sample({"retry": {"retries": 3, "script": "timeout,timeout,ok", "result": CS.impl_post(rng, 3, [("timeout",)] * 2 + [ok])[:2]}})


# ---------------------------------------------------------------------------------------------------------------------
def token_lists(rng, u, deep):
    """token lists around the requested udpid u: absent / first / middle / last / duplicates / near-miss ids"""
    def e(x):
        return (x, rhex(rng, 64), rhex(rng, 32))
    near = [u[:-1], u + "0", u.upper() if u.upper() != u else u[::-1], u[1:], u[:-1] + ("0" if u[-1] != "0" else "1"), "", " " + u, u + " ",
            u[: len(u) // 2], u[::-1] if u[::-1] != u else u + u]
    near = [x for x in near if x != u]
    other = [rhex(rng, 16) for _ in range(4)]
    out = [("empty", []), ("absent", [e(x) for x in other]), ("absent-near", [e(x) for x in near]),
           ("only", [e(u)]), ("first", [e(u)] + [e(x) for x in other]), ("last", [e(x) for x in other] + [e(u)]),
           ("middle", [e(other[0]), e(near[0]), e(u), e(near[1]), e(other[1])]),
           ("among-near", [e(x) for x in near[:5]] + [e(u)] + [e(x) for x in near[5:]]),
           ("duplicates", [e(other[0]), e(u), e(near[2]), e(u), e(u)]),
           ("near-then-match", [e(near[i]) for i in range(len(near))] + [e(u)])]
    for _ in range(6 if deep else 2):
        l = [e(rng.choice(near + other + [u])) for _ in range(rng.randrange(0, 9))]
        out.append(("random", l))
    return out


def token_cases(ctx, rep):
    rng = ctx.rng
    CloudError, ApiError = cloud_error_classes()
    cases = []
    for i in range(ctx.n(12, 150)):
        u = rhex(rng, 16) if i % 4 else rstr(rng, HEX, 1, 6)
        for name, tl in token_lists(rng, u, ctx.deep):
            pre = [("timeout",)] * rng.choice([0, 0, 0, 1, 2])
            cases.append((name, u, tl, pre))
    args = []
    for name, u, tl, pre in cases:
        script = pre + [("resp", 0, 2, tl)]
        args.append(("acct", "pw", "00112233aabbccdd", "SID", True, "LID", False, 1, u, script))
    mo = CS.pbatch(ctx.model, [(CS.F_FLOW, CS.model_flow_args(*a)) for a in args])
    for (name, u, tl, pre), a, (mst, mouts) in zip(cases, args, mo):
        rep.case(("tok", u, tuple(tl), len(pre)), "tokenlist-" + name)
        st, outs, exc, srv = CS.impl_flow(rng, *a)
        inp = {"udpid": u, "tokenlist": tl, "timeouts_before": len(pre), "list": name}
        if (st, outs) != (mst, mouts):
            rep.fail("corr", "get_token", inp, {"impl": [st, outs[:6]], "model": [mst, mouts[:6]]})
        matching = [(t, k) for x, t, k in tl if x == u]
        if st == 0:
            got = (S(outs[3]), S(outs[4]))
            if got not in matching:
                rep.fail("oracle", "wrong-credentials-returned", inp, {"returned": got, "matching_entries": matching[:3]})
        elif matching:
            rep.fail("oracle", "matching-entry-not-returned", inp, {"exception": repr(exc)[:120]})
        elif not isinstance(exc, CloudError):
            rep.fail("oracle", "error-not-cloud-error", inp, {"exception": repr(exc)[:120]})
    rep.sample({"get_token": {"udpid": cases[4][1], "list": cases[4][0], "entries": len(cases[4][2])}})


def login_flow_corr(ctx, rep):
    """login / get_token against scripted servers: faults in every position, wrong-shaped results, existing sessions, force"""
    rng = ctx.rng
    ok_lid, ok_sid = ("resp", 0, 0, "theLoginId"), ("resp", 0, 1, "theSession")
    faults = [("timeout",), ("http",), ("resp", 3101, 3, None), ("resp", 0, 3, None), ("resp", 0, 2, []), ok_sid, ok_lid]
    cases = []
    u = "aabbccdd00112233aabbccdd00112233"
    tl = ("resp", 0, 2, [(u, "t" * 8, "k" * 4)])
    for has_session, login_id, force, op in itertools.product([False, True], [None, "oldLid"], [False, True], [0, 2]):
        cases.append((has_session, login_id, force, op, [ok_lid, ok_sid, tl]))
        cases.append((has_session, login_id, force, op, [ok_sid, tl]))
        for pos in range(3):
            for f in faults:
                script = [ok_lid, ok_sid, tl]
                script.insert(pos, f)
                cases.append((has_session, login_id, force, op, script))
    for _ in range(ctx.n(60, 1200)):
        script = [rng.choice(faults + [ok_lid, ok_sid, tl, ("timeout",), ("timeout",)]) for _ in range(rng.randrange(0, 9))]
        cases.append((rng.random() < 0.3, rng.choice([None, "L"]), rng.random() < 0.3, rng.choice([0, 1, 2]), script))
    args = []
    for has_session, login_id, force, op, script in cases:
        acct, pw = rstr(rng, ALNUM + "@.+", 1, 14), rstr(rng, PRINTABLE, 1, 12)
        args.append((acct, pw, rhex(rng, 8), rstr(rng, ALNUM, 0, 8) if has_session else "", has_session, login_id, force, op, u, script))
    mo = CS.pbatch(ctx.model, [(CS.F_FLOW, CS.model_flow_args(*a)) for a in args])
    CloudError, _ = cloud_error_classes()
    for a, (mst, mouts) in zip(args, mo):
        rep.case(("flow",) + tuple(map(str, a)), f"flow-op{a[7]}")
        st, outs, exc, srv = CS.impl_flow(rng, *a)
        inp = {"account": a[0], "password": a[1], "has_session": a[4], "login_id": a[5], "force": a[6], "op": a[7],
               "script": [list(map(str, o)) for o in a[9]]}
        if (st, outs) != (mst, mouts):
            rep.fail("corr", "login-get_token-flow", inp, {"impl": [st, outs], "model": [mst, mouts]})
        for m, url, ctype in srv.urls:
            if m != "POST" or not url.startswith("https://mapp.appsmb.com/v1/") or "x-www-form-urlencoded" not in ctype:
                rep.fail("oracle", "request-not-a-form-post-to-the-api", inp, {"method": m, "url": url, "content_type": ctype})


# ---------------------------------------------------------------------------------------------------------------------
def conforming_flow(ctx, rep):
    """login + get_token against the reference cloud: accounts / passwords / regions, fields shuffled, faults up to the budget"""
    rng = ctx.rng
    CloudError, ApiError = cloud_error_classes()
    import msmart.cloud as C
    retries = C.BaseCloud.RETRIES
    regions = list(C.NetHomePlusCloud.CLOUD_CREDENTIALS)
    fault_kinds = [("timeout",), ("http",), ("api", 3101), ("none",)]
    scripts = [[]]
    for n in (1, 2, 3):
        scripts += [list(p) for p in itertools.product(fault_kinds, repeat=n)]
    for _ in range(ctx.n(20, 400)):
        scripts.append([rng.choice(fault_kinds + [("none",)] * 3) for _ in range(rng.randrange(1, 10))])
    if not ctx.deep:
        scripts = scripts[:1] + scripts[1::2]
    for i, faults in enumerate(scripts):
        if i % 3 == 0:
            region = regions[i // 3 % len(regions)]
            acct, pw = C.NetHomePlusCloud.CLOUD_CREDENTIALS[region]
            kw = {}
        else:
            region = "US"
            acct, pw = rstr(rng, ALNUM + "@.+_-", 1, 20), rstr(rng, PRINTABLE, 1, 16)
            kw = {"account": acct, "password": pw}
        u = rhex(rng, 16)
        good = (rhex(rng, 64), rhex(rng, 32))
        name, tl = rng.choice(token_lists(rng, u, False))
        registry = [(x, t, k) if x != u else (x,) + good for x, t, k in tl]
        policy = rng.choice([("noentry",), ("bogus", rhex(rng, 64), rhex(rng, 32)), ("api", 3004)])
        srv = CS.RefCloudServer(ctx.model, rng, acct, pw, login_id=rstr(rng, ALNUM, 4, 24), session_id=rstr(rng, ALNUM, 4, 24),
                                registry=registry, policy=policy, faults=faults)
        # the clock: either a function of the attempts made so far, or a clock on which EVERY reading is a second later than the
        # one before (time passes between building, signing and posting a request)
        ticking = i % 2 == 1
        ticks = itertools.count()
        Cm = CS.cloud_mod(rhex(rng, 8), (lambda ticks=ticks: next(ticks)) if ticking else (lambda srv=srv: len(srv.log)))
        cloud = Cm.NetHomePlusCloud(region, get_async_client=srv.factory, **kw)
        rep.case(("conf", acct, pw, tuple(faults), name, policy[0], ticking), f"conforming-{policy[0]}" + ("-ticking-clock" if ticking else ""))
        inp = {"region": region, "account": acct, "password": pw, "faults": faults, "udpid": u, "list": name, "policy": policy,
               "clock": "every reading one second later than the previous" if ticking else "constant between attempts"}
        res, exc = None, None

        async def go():
            await cloud.login()
            return await cloud.get_token(u)
        try:
            res = CS.run(go())
        except Exception as e:  # noqa: BLE001
            exc = e
        if srv.rejected:
            r = srv.rejected[0]
            rep.fail("oracle", "request-rejected-by-reference-server", inp, {"path": r["path"], "reason_code": r["check"], "fields_as_received": r["seen"]})
        if exc is not None and not isinstance(exc, CloudError):
            rep.fail("oracle", "error-not-cloud-error", inp, {"exception": repr(exc)[:160]})
        # every run of identical consecutive requests is one request's attempts
        runs = [len(list(g)) for _, g in itertools.groupby((e["path"], tuple(e["fields"])) for e in srv.log)]
        if any(n > retries for n in runs):
            rep.fail("oracle", "too-many-attempts", inp, {"attempts_per_request": runs, "budget": retries})
        if res is not None:
            matching = [(t, k) for x, t, k in registry if x == u] or ([policy[1:]] if policy[0] == "bogus" else [])
            if tuple(res) not in [tuple(m) for m in matching]:
                rep.fail("oracle", "wrong-credentials-returned", inp, {"returned": res, "registered": matching[:2]})
        elif not faults and any(x == u for x, _, _ in registry):
            rep.fail("oracle", "matching-entry-not-returned", inp, {"exception": repr(exc)[:160]})
        # a session id the server did not issue / a stale login id must be refused by the reference (the oracle can fail)
    srv = CS.RefCloudServer(ctx.model, rng, "me@x.y", "pw", registry=[], policy=("noentry",))
    st, outs, exc, _ = CS.impl_flow(rng, "me@x.y", "pw", "00", "not-the-issued-session", True, "LID", False, 1, "aa", [], server=srv)
    rep.case(("conf-neg",), "conforming-negative-control")
    if not srv.rejected or srv.rejected[0]["check"] != 5:
        rep.fail("oracle", "reference-accepts-foreign-session", {}, {"log": srv.log})
    rep.sample({"conforming": {"requests": [(e["path"], e["check"]) for e in srv.log]}})


# ---------------------------------------------------------------------------------------------------------------------
def auth_corr(ctx, rep):
    """Discover._authenticate_device / connect: control flow against the model, scripted server and scripted device"""
    rng = ctx.rng
    ok_lid, ok_sid = ("resp", 0, 0, "lid"), ("resp", 0, 1, "sid")

    def tok(u, match=True):
        return ("resp", 0, 2, [(u if match else u + "0", "aa" * 4, "bb" * 2)])
    st0, outs0 = ctx.model.one(CS.F_EXPECT, [[], CS.le(123456)])
    cases = []
    dev_ids = [123456, 0, 2 ** 48 - 1, 2 ** 48, 2 ** 60, 0x010203040506]
    ids_udp = {}
    for d in dev_ids:
        st, outs = ctx.model.one(CS.F_EXPECT, [[], CS.le(d)])
        ids_udp[d] = (S(outs[0]), S(outs[1]))
    token_answers = ["match", "nomatch", "api", "http", "timeouts", "empty"]
    for d in (dev_ids[:3] + dev_ids[5:] if ctx.deep else [dev_ids[0], dev_ids[5]]):
        ule, ube = ids_udp[d]
        for a1, a2 in itertools.product(token_answers, repeat=2):
            for devs in ([0], [11, 0], [11, 11], [10], [12, 0], [2]):
                def ans(kind, u):
                    return {"match": [tok(u)], "nomatch": [tok(u, False)], "api": [("resp", 3004, 3, None)], "http": [("http",)],
                            "timeouts": [("timeout",)] * 3, "empty": [("resp", 0, 2, [])]}[kind]
                script = [ok_lid, ok_sid] + ans(a1, ule) + ans(a2, ube)
                cases.append((rng.choice([0, 1]), True, "US", None, None, d, "00aa", devs, rng.choice([0, 0, 16, 10]), script, None))
    # login failures, constructor failures, V2 devices, an existing cloud, ids that do not fit 6 bytes
    for script in ([("http",)], [("timeout",)] * 3, [("resp", 3101, 3, None)], [ok_lid, ("http",)], [ok_lid, ("resp", 3102, 3, None)],
                   [ok_lid, ("resp", 0, 3, None)], [("resp", 0, 3, None)], [ok_lid, ok_sid], [("timeout",), ok_lid, ("timeout",), ("timeout",), ok_sid]):
        for mode in (0, 1):
            cases.append((mode, True, "US", None, None, 123456, "00aa", [0], 0, list(script), None))
    for region, acct, pw in (("XX", None, None), ("US", "me", None), ("US", None, "pw"), ("DE", "me", "pw"), (None, None, None), ("KR", "", "")):
        cases.append((0, True, region, acct, pw, 123456, "00aa", [0], 0, [ok_lid, ok_sid, tok(ids_udp[123456][0])], None))
    for d in dev_ids[3:5]:
        cases.append((0, True, "US", None, None, d, "00aa", [0], 0, [ok_lid, ok_sid], None))
        cases.append((1, True, "US", None, None, d, "00aa", [0], 0, [ok_lid, ok_sid], ("L", "S")))
    for refresh in (0, 16, 10, 12):
        cases.append((1, False, "US", None, None, 123456, "00aa", [], refresh, [], None))
        cases.append((1, True, "US", None, None, 123456, "00aa", [0], refresh, [tok(ids_udp[123456][0])], ("L", "S")))
    for _ in range(ctx.n(60, 1500)):
        d = rng.choice(dev_ids[:3] + dev_ids[5:])
        pool = [ok_lid, ok_sid, tok(ids_udp[d][0]), tok(ids_udp[d][1]), tok(ids_udp[d][0], False), ("timeout",), ("timeout",), ("http",),
                ("resp", 3004, 3, None), ("resp", 0, 2, [])]
        script = [ok_lid, ok_sid] * (rng.random() < 0.7) + [rng.choice(pool) for _ in range(rng.randrange(0, 8))]
        cases.append((rng.choice([0, 1]), rng.random() < 0.9, "US", None, None, d, rhex(rng, 8), [rng.choice([0, 11, 11, 10, 12]) for _ in range(3)],
                      rng.choice([0, 0, 16]), script, rng.choice([None, None, ("L", "S")])))
    mo = CS.pbatch(ctx.model, [(CS.F_AUTH, CS.model_auth_args(*c)) for c in cases])
    for c, (mst, mouts) in zip(cases, mo):
        rep.case(("auth",) + tuple(map(str, c)), f"authenticate-device-mode{c[0]}")
        st, outs, exc = CS.impl_auth(rng, *c)
        if (st, outs) != (mst, mouts):
            inp = {"mode": ["_authenticate_device", "connect"][c[0]], "v3": c[1], "region": c[2], "account": c[3], "password": c[4], "device_id": c[5],
                   "device_script": c[7], "refresh": c[8], "server_script": [list(map(str, o)) for o in c[9]], "existing_cloud": c[10]}
            rep.fail("corr", "authenticate_device", inp, {"impl": [st, outs[:4], CS.dec_requests(outs[4 + 2 * outs[3][0]:])[-2:]],
                                                          "model": [mst, mouts[:4], CS.dec_requests(mouts[4 + 2 * mouts[3][0]:])[-2:]],
                                                          "exception": repr(exc)[:160]})


# ---------------------------------------------------------------------------------------------------------------------
def autoconnect(ctx, dev_id, registered, other, policy, via, faults=(), position="middle", seed_tag=0):
    """A V3 air conditioner served by the reference device on the simulated network and registered at the reference cloud.
    registered: 'little' | 'big' (byte order of the udpid the credentials are registered under) | 'none';
    other: what is registered under the other byte order: 'absent' | 'wrong' (credentials the device rejects)."""
    from msmart.device.AC.device import AirConditioner as AC
    rng = ctx.rng
    peer = refpeer.RefDevice(ctx.model, rng, version=3, device_id=dev_id)
    state = A.mk_frame(A.state_body(rng, n=24))
    peer.on_frame = lambda f: [state]
    good = (bytes(peer.token).hex(), bytes(peer.key).hex())
    st, outs = ctx.model.one(CS.F_EXPECT, [[], CS.le(dev_id)])
    ule, ube = S(outs[0]), S(outs[1])
    u_good, u_other = (ule, ube) if registered != "big" else (ube, ule)
    near = [u_good[:-1], u_good + "0", rhex(rng, 16), u_other[:-1], rhex(rng, 16)]
    entries = [(x, rhex(rng, 64), rhex(rng, 32)) for x in near]
    mine = []
    if registered != "none":
        mine.append((u_good,) + good)
    if other == "wrong" and u_other != u_good:
        mine.append((u_other, rhex(rng, 64), rhex(rng, 32)))
    registry = {"first": mine + entries, "last": entries + mine, "middle": entries[:2] + mine + entries[2:]}[position]
    # the reference's own statement of which credentials the device may be registered under
    st, outs = ctx.model.one(CS.F_EXPECT, [CS.lp([x for e in registry for x in e]), CS.le(dev_id)])
    expected = [(S(outs[2 + 2 * i]), S(outs[3 + 2 * i])) for i in range((len(outs) - 2) // 2)]
    acct, pw = "user+" + rstr(rng, ALNUM, 1, 6) + "@example.com", rstr(rng, PRINTABLE, 4, 12)
    cloud = CS.RefCloudServer(ctx.model, rng, acct, pw, login_id=rstr(rng, ALNUM, 8, 16), session_id=rstr(rng, ALNUM, 8, 16),
                              registry=registry, policy=policy, faults=faults)
    CS.cloud_mod(rhex(rng, 8), lambda: len(cloud.log))
    net = simnet.Net(responder=peer)
    simnet.install(net, rnd=lambda n: bytes(rng.randrange(256) for _ in range(n)))
    ip, port = "10.0.0.1", 6444
    from msmart.discover import Discover
    result, exc, dev = None, None, None
    try:
        if via == "discover":
            CS.install_datagram(net, [(0.05, CS.discovery_reply(ip, port, dev_id), (ip, 6445))])
            Discover._lock = None
            devs = net.run(Discover.discover(target=ip, timeout=2, account=acct, password=pw, auto_connect=True,
                                             get_async_client=cloud.factory))
            dev = devs[0] if devs else None
            result = dev is not None and dev.token is not None
        else:
            dev = AC(ip=ip, port=port, device_id=dev_id, version=3, name="net_ac_F7B4", sn="0" * 32)

            async def go():
                D = CS.reset_discover(cloud.factory, "US", acct, pw)
                if via == "twice":
                    # one discovery session, two devices/attempts: the first one meets a failing cloud (the faults), the
                    # second one - same Discover state - a healthy cloud
                    try:
                        await D._authenticate_device(dev)
                    except Exception:  # noqa: BLE001
                        pass
                    cloud.faults = []
                    return await D._authenticate_device(dev)
                return await (D.connect(dev) if via == "connect" else D._authenticate_device(dev))
            result = net.run(go())
    except Exception as e:  # noqa: BLE001
        exc = e
    finally:
        Discover._cloud = None
        Discover._lock = None
        net.close()
    requested = [dict(e["fields"]).get("udpid") for e in cloud.log if e["path"].endswith("getToken")]
    return {"good": good, "expected": expected, "result": result, "exc": exc, "token": getattr(dev, "token", None),
            "key": getattr(dev, "key", None), "online": getattr(dev, "online", None), "cloud": cloud, "requested": requested,
            "udpids": {"little": ule, "big": ube}}


def autoconnect_cases(ctx, rep):
    rng = ctx.rng
    CloudError, _ = cloud_error_classes()
    combos = []
    for registered in ("little", "big"):
        for other in ("absent", "wrong"):
            for pol in ("noentry", "bogus", "api"):
                combos.append((registered, other, pol))
    vias = ["connect", "_authenticate_device", "discover"]
    n = 0
    reps = ctx.n(1, 6)
    for rnd in range(reps):
        for i, (registered, other, pol) in enumerate(combos):
            dev_id = IDS[(n * 7 + rnd) % len(IDS)] if rnd else [123456, 0x010203040506, 151732604998913][i % 3]
            policy = {"noentry": ("noentry",), "bogus": ("bogus", rhex(rng, 64), rhex(rng, 32)), "api": ("api", rng.choice([3004, 1, 40002]))}[pol]
            via = vias[n % 3]
            position = ["first", "middle", "last"][n % 3]
            faults = [] if n % 4 else [("timeout",), ("none",), ("timeout",), ("timeout",), ("none",), ("none",), ("timeout",)]
            n += 1
            r = autoconnect(ctx, dev_id, registered, other, policy, via, faults=faults, position=position)
            rep.case(("auto", dev_id, registered, other, pol, via, position, bool(faults)), f"autoconnect-{registered}-{pol}")
            inp = {"device_id": dev_id, "registered_under": registered, "udpid_" + registered: r["udpids"][registered], "other_byte_order": other,
                   "unknown_id_policy": list(policy), "via": via, "entry_position": position, "transient_timeouts": bool(faults),
                   "udpids_requested": r["requested"]}
            if r["cloud"].rejected:
                x = r["cloud"].rejected[0]
                rep.fail("oracle", "request-rejected-by-reference-server", inp, {"path": x["path"], "reason_code": x["check"], "fields_as_received": x["seen"]})
            if r["good"] not in r["expected"]:
                rep.fail("corr", "harness-registry-inconsistent", inp, {"expected": r["expected"]})
            ok = r["exc"] is None and r["result"] and (r["token"], r["key"]) == r["good"]
            if not ok:
                rep.fail("oracle", "either-endian-not-authenticated", inp,
                         {"result": r["result"], "exception": repr(r["exc"])[:200], "device_token": r["token"], "registered_token": r["good"][0],
                          "device_key": r["key"]})
            elif via != "_authenticate_device" and r["online"] is not True:
                rep.fail("oracle", "connected-device-not-refreshed", inp, {"online": r["online"]})
    # one session, the cloud fails during the FIRST login (HTTP error / timeouts / API error at the login id, the login or the first
    # getToken), then is healthy: the second attempt in the same session must authenticate and every request must verify
    for k, faults in enumerate([[("http",)], [("none",), ("http",)], [("timeout",)] * 3, [("none",), ("api", 3004)],
                                [("none",), ("none",), ("http",)]]):
        registered = ("little", "big")[k % 2]
        r = autoconnect(ctx, 123456 + k, registered, "absent", ("noentry",), "twice", faults=list(faults))
        rep.case(("auto-twice", k), "session-after-failed-login")
        inp = {"device_id": 123456 + k, "registered_under": registered, "faults_during_first_attempt": [list(map(str, f)) for f in faults],
               "via": "two _authenticate_device calls in one discovery session"}
        rejected = [x for x in r["cloud"].rejected]
        if rejected:
            x = rejected[0]
            rep.fail("oracle", "request-rejected-by-reference-server", inp, {"path": x["path"], "reason_code": x["check"], "fields_as_received": x["seen"]})
        if not (r["exc"] is None and r["result"] and (r["token"], r["key"]) == r["good"]):
            rep.fail("oracle", "session-not-recovered-after-failed-login", inp,
                     {"result": r["result"], "exception": repr(r["exc"])[:200], "device_token": r["token"]})
    # controls: nothing registered under either byte order -> not authenticated, a cloud error or False, never foreign credentials
    for pol in (("noentry",), ("bogus", rhex(rng, 64), rhex(rng, 32)), ("api", 3004)):
        for via in ("connect", "discover"):
            r = autoconnect(ctx, 123456, "none", "absent", pol, via)
            rep.case(("auto-none", pol[0], via), "autoconnect-unregistered")
            inp = {"device_id": 123456, "registered_under": "none", "unknown_id_policy": list(pol), "via": via}
            if r["token"] is not None or r["result"] is True:
                rep.fail("oracle", "authenticated-with-unregistered-credentials", inp, {"token": r["token"]})
            if r["exc"] is not None and not isinstance(r["exc"], CloudError):
                rep.fail("oracle", "error-not-cloud-error", inp, {"exception": repr(r["exc"])[:200]})
            if r["cloud"].rejected:
                rep.fail("oracle", "request-rejected-by-reference-server", inp, {"log": r["cloud"].rejected[0]})
            if sorted(set(r["requested"])) != sorted(set(r["udpids"].values())) and pol[0] == "bogus":
                rep.fail("oracle", "byte-order-not-tried", inp, {"requested": r["requested"], "udpids": r["udpids"]})
    rep.sample({"autoconnect": {"device_id": 123456, "udpids": r["udpids"]}})


def run(ctx, rep):
    rep.rule = ("sign / encrypt_password over random ASCII field dicts (all printable characters, integer values, prefix- and case-related "
                "keys, every insertion order re-signed and verified by the reference in a shuffled order); request bodies incl. data keys "
                "that collide with base keys; constructor over regions x account x password; _post_request over ALL outcome scripts "
                "(timeout | HTTP error / bad status | API error | ok) up to the budget for retries 0..4 and the default, exception classes "
                "varied; get_token over token lists with the match absent / only / first / middle / last / duplicated / among near-miss ids, "
                "after 0-2 timeouts; login/get_token flows with a fault or a wrong-shaped result in every position, existing sessions, force; "
                "flows against the reference cloud for the built-in regions and random accounts with every fault script of length <= 3; "
                "Discover._authenticate_device / connect with every pair of answers to the two byte orders x device reactions; auto-connect "
                "of a V3 device (reference device on the simulated network) registered under the little / big endian udpid x what the "
                "cloud does with the other id x entry position x connect / _authenticate_device / discover. non-trivial = distinct input")
    log0 = len(ctx.model.log)
    check_constants(ctx, rep)
    corr_sign(ctx, rep)
    corr_body(ctx, rep)
    retry_sweep(ctx, rep)
    token_cases(ctx, rep)
    login_flow_corr(ctx, rep)
    conforming_flow(ctx, rep)
    auth_corr(ctx, rep)
    autoconnect_cases(ctx, rep)
    CS.prune_log(ctx.model, log0, 40 if not ctx.deep else 160)
    ctx.model.close()


def replay(ctx, data):
    """re-run a recorded auto-connect input (class either-endian-not-authenticated and relatives) on the current tree"""
    inp = data.get("failure", data).get("input", {})
    if "registered_under" not in inp or "device_id" not in inp:
        return {"replayable": False, "recorded": data.get("failure", data)}
    pol = inp.get("unknown_id_policy", ["noentry"])
    faults = [("timeout",), ("none",), ("timeout",), ("timeout",), ("none",), ("none",), ("timeout",)] if inp.get("transient_timeouts") else []
    r = autoconnect(ctx, inp["device_id"], inp["registered_under"], inp.get("other_byte_order", "absent"), tuple(pol), inp.get("via", "connect"),
                    faults=faults, position=inp.get("entry_position", "middle"))
    ok = r["exc"] is None and bool(r["result"]) and (r["token"], r["key"]) == r["good"]
    ctx.model.close()
    return {"input": inp, "authenticated_with_registered_credentials": ok, "result": r["result"], "exception": repr(r["exc"])[:200],
            "udpids": r["udpids"], "udpids_requested": r["requested"], "requests_rejected_by_reference": len(r["cloud"].rejected)}
