"""C12: correspondence of crc8 / checksum / every command's tobytes with the model, and the property oracle
(reference device parser, extracted from coq/spec/RefFrame.v) on the frames the implementation emits."""
from common import call, rbytes

ASSUMPTIONS = ["device-side acceptance = spec/RefFrame.dev_accepts (bit-serial CRC-8/MAXIM, two's complement checksum)"]

F_CRC, F_SUM, F_FRAME, F_EMIT, F_ACCEPT, F_CRCBIT = 1, 2, 3, 4, 5, 6


def impl():
    import msmart.crc8 as crc8
    from msmart.frame import Frame
    from msmart.device.AC import command as C
    return crc8, Frame, C


CTRL_FIELDS = ["beep_on", "power_on", None, None, "operational_mode", "fan_speed", "swing_mode", "eco", "turbo",
               "fahrenheit", "sleep", "freeze_protection", "follow_me", "purifier", "target_humidity", "aux_heat",
               "force_aux_heat", "independent_aux_heat"]


def make_cmd(C, kind, p):
    if kind == 0:
        return C.GetCapabilitiesCommand(bool(p[0]))
    if kind == 1:
        return C.GetStateCommand()
    if kind == 2:
        return C.GetEnergyUsageCommand()
    if kind == 3:
        return C.GetHumidityCommand()
    if kind == 4:
        c = C.SetStateCommand()
        for i, name in enumerate(CTRL_FIELDS):
            if name is None:
                continue
            v = p[i]
            setattr(c, name, bool(v) if name not in ("operational_mode", "fan_speed", "swing_mode", "target_humidity") else v)
        c.target_temperature = p[2] + (0.5 if p[3] else 0.0)
        return c
    if kind == 5:
        c = C.ToggleDisplayCommand()
        c.beep_on = bool(p[0])
        return c
    if kind == 6:
        return C.GetPropertiesCommand([C.PropertyId(x) for x in p])
    if kind == 7:
        return C.SetPropertiesCommand({C.PropertyId(p[i]): p[i + 1] for i in range(0, len(p), 2)})
    raise ValueError(kind)


def doc_type(kind):
    return 2 if kind in (4, 7) else 3


def gen_cases(ctx, C):
    rng = ctx.rng
    cases = []   # (counter, kind, params)
    counters = [0, 1, 253, 254, 255, 256, 509, 510, 511, 65534, 65535, 2 ** 40 + 254]
    for n in counters:
        for kind, p in [(0, [0]), (0, [1]), (1, []), (2, []), (3, []), (5, [0]), (5, [1])]:
            cases.append((n, kind, p))
    # every starting id for the fixed commands (checksum byte takes every value incl. 0)
    for n in range(0, 512 if ctx.deep else 256):
        for kind, p in [(0, [0]), (0, [1]), (1, []), (2, []), (3, []), (5, [1])]:
            cases.append((n, kind, p))
    # GetProps: every subset of the known ids (4096) in thorough, sampled in quick
    pids = [int(x) for x in C.PropertyId]
    subsets = range(1 << len(pids)) if ctx.deep else [rng.randrange(1 << len(pids)) for _ in range(300)] + [0, (1 << len(pids)) - 1]
    for m in subsets:
        cases.append((rng.randrange(1024), 6, [pids[i] for i in range(len(pids)) if m >> i & 1]))
    for k in (119, 120):
        cases.append((7, 6, [pids[i % len(pids)] for i in range(k)]))
    # SetProps: every supported id x interesting values; multi-record
    sup = [int(x) for x in C.PropertyId if x._supported]
    for pid in pids:
        for v in [0, 1, 2, 3, 4, 25, 50, 75, 100, 255] + ([256, 1000] if ctx.deep else [256]):
            cases.append((rng.randrange(1024), 7, [pid, v]))
    for _ in range(ctx.n(100, 2000)):
        k = rng.randrange(1, 6)
        ids = rng.sample(sup, k)
        p = []
        for i in ids:
            p += [i, rng.choice([0, 1, 2, 50, 100, rng.randrange(256)])]
        cases.append((rng.randrange(100000), 7, p))
    # SetState: every value of each field with others random; random
    def rctrl():
        return [rng.randrange(2), rng.randrange(2), rng.choice([rng.randrange(13, 44), rng.randrange(0, 60)]),
                rng.randrange(2), rng.randrange(8), rng.randrange(1, 103), rng.choice([0, 3, 12, 15, rng.randrange(64)]),
                rng.randrange(2), rng.randrange(2), rng.randrange(2), rng.randrange(2), rng.randrange(2), rng.randrange(2),
                rng.randrange(2), rng.randrange(128), rng.randrange(2), rng.randrange(2), rng.randrange(2)]
    for t in range(0, 61):
        for h in (0, 1):
            c = rctrl(); c[2], c[3] = t, h
            cases.append((rng.randrange(1024), 4, c))
    for fan in range(0, 258):
        c = rctrl(); c[5] = fan
        cases.append((rng.randrange(1024), 4, c))
    for mode in range(0, 10):
        c = rctrl(); c[4] = mode
        cases.append((rng.randrange(1024), 4, c))
    for hum in list(range(0, 130)) + [255, 256]:
        c = rctrl(); c[14] = hum
        cases.append((rng.randrange(1024), 4, c))
    for sw in range(0, 66):
        c = rctrl(); c[6] = sw
        cases.append((rng.randrange(1024), 4, c))
    for _ in range(ctx.n(1000, 20000)):
        cases.append((rng.randrange(1 << 20), 4, rctrl()))
    return cases


def run(ctx, rep):
    crc8, Frame, C = impl()
    rng = ctx.rng
    rep.rule = ("crc8/checksum on all single bytes, all lengths 0..64 and random strings; every command class with "
                "boundary counters, all 256 starting ids, property-id subsets, all supported ids x values, every value "
                "of every set-state field, random set-states; one sequence of 600 commands through the class counter. "
                "non-trivial = distinct emitted frame (or distinct error class)")
    # ---- crc8 / checksum correspondence ------------------------------------------------------
    inputs = [[b] for b in range(256)] + [rbytes(rng, n) for n in range(0, 65)] + [rbytes(rng, rng.randrange(1, 300)) for _ in range(ctx.n(200, 3000))]
    inputs += [[0] * k for k in (1, 2, 255, 256)] + [[255] * 256, [128, 128], [1] * 256]
    mo = ctx.model.batch([(F_CRC, [x]) for x in inputs] + [(F_SUM, [x]) for x in inputs] + [(F_CRCBIT, [x]) for x in inputs])
    n = len(inputs)
    for i, x in enumerate(inputs):
        ic, isum = crc8.calculate(bytes(x)), Frame.checksum(bytes(x))
        rep.case(("crc", ic, len(x)), "crc8/checksum")
        if mo[i][1][0][0] != ic:
            rep.fail("corr", "crc8", {"data": x}, {"impl": ic, "model": mo[i][1][0][0]})
        if mo[n + i][1][0][0] != isum:
            rep.fail("corr", "checksum", {"data": x}, {"impl": isum, "model": mo[n + i][1][0][0]})
        if mo[2 * n + i][1][0][0] != ic:   # oracle: implementation CRC vs the bit-serial reference
            rep.fail("oracle", "crc-not-maxim", {"data": x}, {"impl": ic, "reference": mo[2 * n + i][1][0][0]})
    # ---- commands ---------------------------------------------------------------------------
    cases = gen_cases(ctx, C)
    impl_out = []
    for (n0, kind, p) in cases:
        C.Command._message_id = n0
        code, val = call(lambda: make_cmd(C, kind, p).tobytes())
        impl_out.append((code, list(val) if code == 0 else None, C.Command._message_id))
    mo = ctx.model.batch([(F_EMIT, [[n0], [kind], p]) for (n0, kind, p) in cases])
    acc_cases, acc_idx = [], []
    for i, ((n0, kind, p), (code, frame, n1)) in enumerate(zip(cases, impl_out)):
        mst, mouts = mo[i]
        rep.case((kind, tuple(frame) if frame else code), f"cmd{kind}" + ("" if code == 0 else "-err"))
        if i % 997 == 0:
            rep.sample({"counter": n0, "kind": kind, "params": p, "frame": bytes(frame).hex() if frame else f"exception {code}"})
        if code != mst or (code == 0 and (frame != mouts[0] or n1 != mouts[1][0])):
            rep.fail("corr", "emit", {"counter": n0, "kind": kind, "params": p},
                     {"impl": [code, frame, n1], "model": [mst, mouts]})
        if code == 0:
            acc_cases.append((F_ACCEPT, [[doc_type(kind)], frame]))
            acc_idx.append(i)
        elif in_domain(C, kind, p):
            rep.fail("oracle", "in-domain-command-not-emitted", {"counter": n0, "kind": kind, "params": p},
                     {"exception": code, "text": str(val)[:200]})
    ao = ctx.model.batch(acc_cases)
    for j, i in enumerate(acc_idx):
        n0, kind, p = cases[i]
        ok, mid = ao[j][1][0][0], ao[j][1][1][0]
        if not ok:
            rep.fail("oracle", "frame-rejected-by-reference-parser", {"counter": n0, "kind": kind, "params": p},
                     {"frame": bytes(impl_out[i][1]).hex()})
        elif mid != (n0 + 1) % 256:
            rep.fail("oracle", "message-id", {"counter": n0, "kind": kind, "params": p},
                     {"id": mid, "expected": (n0 + 1) % 256})
    # ---- one long sequence through the real class-level counter --------------------------------
    C.Command._message_id = start = rng.randrange(256)
    seq, frames = [], []
    for k in range(600 if not ctx.deep else 2000):
        kind, p = rng.choice([(0, [0]), (1, []), (2, []), (3, []), (5, [1]), (6, [9, 10])])
        seq.append((kind, p))
        frames.append(list(make_cmd(C, kind, p).tobytes()))
    ao = ctx.model.batch([(F_ACCEPT, [[doc_type(k)], f]) for (k, _), f in zip(seq, frames)])
    for k, (o, f) in enumerate(zip(ao, frames)):
        rep.case(("seq", k % 256, tuple(f)), "sequence")
        if not o[1][0][0] or o[1][1][0] != (start + 1 + k) % 256:
            rep.fail("oracle", "sequence-id", {"start": start, "index": k, "kind": seq[k][0]},
                     {"frame": bytes(f).hex(), "accepted": o[1][0][0], "id": o[1][1][0], "expected": (start + 1 + k) % 256})
            break

    # ---- emission order != construction order; a command object emitted again after its attributes changed ---------------
    # (commands are built in batches, emitted shuffled, set-state objects are modified and emitted once more: every EMITTED
    #  frame is the model's frame for the attributes and the counter at emission time, ids advance by one per emission)
    C.Command._message_id = start = rng.randrange(256)
    emitted = []     # (kind, params at emission, frame)
    for batch in range(ctx.n(40, 400)):
        objs = []
        for _ in range(rng.randrange(2, 6)):
            kind, p = rng.choice([(0, [0]), (0, [1]), (1, []), (2, []), (3, []), (5, [1]), (6, [9, 10]), (4, None), (4, None)])
            if kind == 4:
                p = [rng.randrange(2), rng.randrange(2), rng.randrange(17, 31), rng.randrange(2), rng.randrange(1, 6), rng.choice([20, 40, 60, 80, 102]),
                     rng.choice([0, 3, 12, 15]), rng.randrange(2), rng.randrange(2), rng.randrange(2), rng.randrange(2), rng.randrange(2), rng.randrange(2),
                     rng.randrange(2), rng.randrange(30, 100), rng.randrange(2), rng.randrange(2), rng.randrange(2)]
            objs.append([kind, list(p), make_cmd(C, kind, p)])
        rng.shuffle(objs)
        for kind, p, o in objs:
            emitted.append((kind, list(p), list(o.tobytes())))
        for kind, p, o in objs:
            if kind == 4 and rng.random() < 0.6:      # change the object, emit it again
                p[2] = rng.randrange(17, 31); p[4] = rng.randrange(1, 6); p[1] = 1 - p[1]
                o.target_temperature = p[2] + (0.5 if p[3] else 0.0); o.operational_mode = p[4]; o.power_on = bool(p[1])
                emitted.append((kind, list(p), list(o.tobytes())))
    mo = ctx.model.batch([(F_EMIT, [[(start + k) % 65536], [kind], p]) for k, (kind, p, f) in enumerate(emitted)])
    ao = ctx.model.batch([(F_ACCEPT, [[doc_type(kind)], f]) for kind, p, f in emitted])
    for k, ((kind, p, f), m, a) in enumerate(zip(emitted, mo, ao)):
        rep.case(("reorder", k % 256, tuple(f)), "reordered-sequence")
        inp = {"start": start, "emission_index": k, "kind": kind, "params": p,
               "note": "objects built in batches, emitted in another order, set-state objects changed and emitted again"}
        if not a[1][0][0] or a[1][1][0] != (start + 1 + k) % 256:
            rep.fail("oracle", "sequence-id:emission-order" if a[1][0][0] else "frame-rejected-by-reference-parser:re-emitted", inp,
                     {"frame": bytes(f).hex(), "accepted": a[1][0][0], "id": a[1][1][0], "expected": (start + 1 + k) % 256})
            break
        if m[0] != 0 or m[1][0] != f:
            rep.fail("corr", "emit-reordered", inp, {"impl": f, "model": m})
            break

    # ---- through the device object (Device._send_command), with DEBUG logging to a formatting handler on and off: what reaches the
    # transport is accepted by the reference parser and numbered consecutively
    import io
    import logging
    import acdev as D
    import acresp as A
    Cm, AC = D.mods()
    for debug in (False, True):
        lg = logging.getLogger("msmart")
        old_level, handler = lg.level, logging.StreamHandler(io.StringIO())
        handler.setFormatter(logging.Formatter("%(asctime)s %(name)s %(message)s"))
        if debug:
            lg.addHandler(handler); lg.setLevel(logging.DEBUG); logging.disable(logging.NOTSET)   # the harness runs with logging disabled
        try:
            Cm.Command._message_id = start = rng.randrange(256)
            dev = AC(ip="10.0.0.1", device_id=123456, port=6444)
            wire = []

            async def fake_send(data, retries=3, wire=wire):
                wire.append(list(data))
                return [bytes(A.mk_frame(A.state_body(rng, n=24)))]
            dev._lan.send = fake_send
            ops = [rng.choice([(1, 0), (2, 0), (3, 0), (4, 0), (11, 1), (12, 40)]) for _ in range(ctx.n(60, 400))]
            for op, a in ops:
                try:
                    D.do_op(dev, AC, Cm, op, a)
                except Exception:  # noqa: BLE001
                    pass
        finally:
            if debug:
                lg.removeHandler(handler); lg.setLevel(old_level); logging.disable(logging.CRITICAL)
        ao = ctx.model.batch([(F_ACCEPT, [[f[9]], f]) for f in wire])
        for k, (f, a) in enumerate(zip(wire, ao)):
            rep.case(("device-seq", debug, k % 256, tuple(f)), "device-sequence" + ("-debug-logging" if debug else ""))
            if not a[1][0][0] or a[1][1][0] != (start + 1 + k) % 256:
                rep.fail("oracle", "sequence-id:device-level" if a[1][0][0] else "frame-rejected-by-reference-parser:device-level",
                         {"start": start, "index_on_wire": k, "debug_logging_enabled": debug, "ops": ops[:12]},
                         {"frame": bytes(f).hex(), "accepted": a[1][0][0], "id": a[1][1][0], "expected": (start + 1 + k) % 256})
                break


def in_domain(C, kind, p):
    """The documented parameter domain on which a frame must be produced (C12_total's hypotheses)."""
    if kind in (0, 1, 2, 3, 5):
        return True
    if kind == 4:
        return 0 <= p[5] <= 255
    if kind == 6:
        return len(p) <= 120
    if kind == 7:
        sup = {int(x) for x in C.PropertyId if x._supported}
        return len(p) // 2 <= 15 and all(p[i] in sup and 0 <= p[i + 1] <= 255 for i in range(0, len(p), 2))
    return False
