"""C07: V3 session discipline. History-level correspondence of the real LAN / Device objects with the Coq session model
(outcomes, virtual time, every write decoded with the device's keys, connects / closes), and the property evaluated on the
implementation's own trace: per-connection counters k mod 4096, every data packet decodable under the key of the latest
accepted handshake of its connection, nothing but handshakes before the first accepted handshake, and an exchange that starts
with a missing / expired authentication or an expired connection starts with a handshake (on a new connection)."""
import itertools

import sess
import sessgen

H12 = 12 * 3600 * 1000


def check_trace(rep, case, events, outcomes, opinfo, etimes=None):
    """the discipline, on the implementation's trace"""
    counters, key, ok = {}, {}, True
    for e in events:
        if e[0] == 9:
            rep.fail("oracle", "write-not-decodable-with-device-keys", case_dict(case), {"event": e, "events": events}); return
        if e[0] == 1:
            counters[e[1]] = 0 if e[2] else None
        elif e[0] == 4:
            key[e[1]] = e[2]
        elif e[0] in (2, 3) and counters.get(e[1]) is not None:
            cid, pid = e[1], e[2]
            if pid != counters[cid] % 4096:
                rep.fail("oracle", "counter-not-successor", case_dict(case), {"event": e, "expected": counters[cid] % 4096, "events": events}); return
            counters[cid] += 1
            if e[0] == 3:
                if cid not in key:
                    rep.fail("oracle", "data-before-handshake", case_dict(case), {"event": e, "events": events}); return
                if e[3] != key[cid]:
                    rep.fail("oracle", "data-under-stale-key", case_dict(case), {"event": e, "latest": key[cid], "events": events}); return
    # every handshake carries the CONFIGURED token: the one given to this call, else the one of the last successful authentication
    ops = case[3]
    configured = None
    for i, (op, info) in enumerate(zip(ops, opinfo)):
        end = opinfo[i + 1]["nevents"] if i + 1 < len(opinfo) else len(events)
        hs = [e for e in events[info["nevents"]:end] if e[0] == 2]
        explicit = op[0] in (2, 4) and op[1] in (1, 2)
        want = (op[1] == 1) if explicit else configured
        if want is not None and any(bool(e[3]) != want for e in hs):
            rep.fail("oracle", "handshake-carries-unconfigured-token", case_dict(case),
                     {"op_index": i, "op": op, "configured_good": want, "handshakes": hs}); return
        if explicit and outcomes[i][0] in (0, -1):
            configured = (op[1] == 1)
    # a configured connection lifetime, judged from the wire: an exchange that STARTS after connect time + lifetime (the lifetime in
    # force when that connection was made) writes nothing on that connection
    if etimes:
        life, born, lifeof, last_cid = None, {}, {}, None
        for i, (op, info) in enumerate(zip(ops, opinfo)):
            end = opinfo[i + 1]["nevents"] if i + 1 < len(opinfo) else len(events)
            if op[0] == 6:
                life = None if op[1] < 0 else op[1] / 1000.0
            if op[0] in (1, 2, 3, 4) and last_cid is not None and lifeof.get(last_cid) is not None \
                    and info["time"] > born[last_cid] + lifeof[last_cid] + 1e-6:
                late = [e for e in events[info["nevents"]:end] if e[0] in (2, 3) and e[1] == last_cid]
                if late:
                    rep.fail("oracle", "write-on-connection-older-than-its-lifetime", case_dict(case),
                             {"op_index": i, "connection": last_cid, "connected_at": round(born[last_cid], 3), "lifetime_s": lifeof[last_cid],
                              "exchange_started_at": round(info["time"], 3), "writes": late}); return
            for k in range(info["nevents"], end):
                if events[k][0] == 1:
                    last_cid = events[k][1]
                    born[last_cid], lifeof[last_cid] = etimes[k], life
    # expiry / missing authentication at the start of an exchange
    for i, (op, info) in enumerate(zip(ops, opinfo)):
        if op[0] not in (1, 3) or not info["v3"]:
            continue
        end = opinfo[i + 1]["nevents"] if i + 1 < len(opinfo) else len(events)
        new = events[info["nevents"]:end]
        writes = [e for e in new if e[0] in (2, 3)]
        # independent judgement of 'authentication older than 12 h': time of the handshake request whose reply was accepted last
        stale = False
        if etimes:
            before = events[:info["nevents"]]
            cids = [e[1] for e in before if e[0] == 1]
            if cids:
                cid = cids[-1]
                idx = [k for k, e in enumerate(before) if e[0] == 4 and e[1] == cid]
                if idx:
                    hs = [k for k in range(idx[-1]) if before[k][0] == 2 and before[k][1] == cid]
                    if hs and info["time"] - etimes[hs[-1]] > 12 * 3600 + 5:
                        stale = True
        if (not info["alive"] or not info["authed"] or stale) and writes and writes[0][0] != 2:
            rep.fail("oracle", "exchange-without-handshake", case_dict(case), {"op_index": i, "entry": info, "new_events": new}); return
        if info["has_proto"] and not info["alive"] and writes:
            old = [e[1] for e in events[:info["nevents"]] if e[0] == 1]
            if writes[0][1] in old:
                rep.fail("oracle", "write-on-expired-connection", case_dict(case), {"op_index": i, "new_events": new}); return


def case_dict(c):
    return {"connects": c[0], "hs_replies": c[1], "replies": c[2], "ops": c[3]}


EVENT_KINDS = {
    "send": lambda: ([(1, 5, 3)], [], [[(0, 0, 7)]]),
    "auth-good": lambda: ([(2, 1, 3)], [[(0, 1, 0)]], []),
    "auth-bad": lambda: ([(2, 2, 3)], [[(0, 1, 0)]], []),
    "silent": lambda: ([(1, 6, 2)], [], [[], []]),
    "error-packet": lambda: ([(1, 6, 3)], [], [[(0, 3, 0)]]),
    "peer-close": lambda: ([(1, 6, 3)], [], [[(0, 4, 0)]]),
    "jump-12h": lambda: ([(5, H12 + 5000, 0)], [], []),
    "jump-lifetime": lambda: ([(6, 30000, 0), (5, 31000, 0)], [], []),
    "refused": lambda: ([(1, 6, 3)], [], []),
}


def exhaustive_histories(depth):
    """all sequences of the nine event kinds up to the given depth, after an initial good authentication"""
    names = list(EVENT_KINDS)
    for n in range(1, depth + 1):
        for combo in itertools.product(names, repeat=n):
            ops, hs, data, conns = [(2, 1, 3)], [[(0, 1, 0)]], [], [0]
            for k in combo:
                o, h, d = EVENT_KINDS[k]()
                ops += o
                # every handshake the history may trigger is answered genuinely unless the kind says otherwise
                hs += h if h else []
                data += d
                conns += [1] if k == "refused" else []
            hs += [[(0, 1, 0)]] * 12
            data += [[(0, 0, 9)]] * 12
            conns = [0] + ([1] if "refused" in combo else []) + [0] * 12
            yield (conns, hs, data, ops), combo


def run(ctx, rep):
    rng = ctx.rng
    rep.rule = ("histories: all sequences of depth <= 3 (4 in thorough) over {send, good/bad explicit authenticate, device silent, error "
                "packet, peer close, 12 h jump, connection-lifetime jump, connect refused} after an initial authentication; random "
                "histories with random fault scripts and delays; one long session (5 000 / 70 000 packets) crossing the 12-bit "
                "counter wrap and the 16-bit boundary. non-trivial = distinct (history, script)")
    cases = []
    for c, combo in exhaustive_histories(3 if not ctx.deep else 4):
        cases.append(c)
    cases = cases if ctx.deep else cases[::2] + cases[:120]
    cases += [sessgen.rand_history(rng, v3=True) for _ in range(ctx.n(500, 6000))]
    cases += sessgen.late_hs_histories(rng, ctx.n(60, 1200))          # handshake replies arriving after the read timeout
    cases += sessgen.lifetime_histories(rng, ctx.n(30, 400))          # re-handshake on a connection about to reach its lifetime
    cases += sessgen.key_age_histories(rng, ctx.n(30, 300))           # exchanges between a handshake and its 12 h expiry
    cases += sessgen.reauth_on_live_session(rng, ctx.n(30, 400))      # other credentials offered on a live authenticated session
    mo = ctx.model.batch([sess.model_case(*c) for c in cases])
    for c, (st, outs) in zip(cases, mo):
        im = sess.run_impl(ctx.model, rng, *c)
        md = sess.decode_model(outs)
        rep.case((str(c[3]), str(c[1][:4]), str(c[2][:4]), str(c[0][:3])), f"history-{min(len(c[3]), 6)}ops")
        if tuple(im) != tuple(md):
            diff = [n for n, x, y in zip(("now", "lan", "outcomes", "events"), im, md) if x != y]
            rep.fail("corr", "session:" + ",".join(diff), case_dict(c), {"impl": im, "model": md})
        check_trace(rep, c, im[3], im[2], sess.run_impl.last_opinfo, sess.run_impl.last_event_times)
        # the same discipline judged from the appliance's side: the key of the latest handshake IT answered on that connection
        for klass, detail in sess.device_key_discipline(c, im[3], sess.run_impl.last_event_times):
            rep.fail("oracle", klass, case_dict(c), detail)
    rep.sample({"ops": cases[5][3], "events": "see correspondence"})
    # the K4 witness of props/C07.v (C07_handshake_replies_not_correlated) on the real LAN: same outcomes and events as the model
    k4 = ([0, 0], [[(2499, 1, 0)], [(4501, 1, 0)], [(0, 1, 0)]], [[(0, 0, 7)], [(0, 0, 8)]], [(2, 1, 2), (5, 607, 0), (1, 19, 3), (1, 20, 3)])
    res = sess.compare(ctx, rep, [k4], tag="k4-witness")
    rep.case(None, "k4-witness")
    if res and res[0][0][2] != [[-1], [-1], [10], [0, 8]]:
        rep.fail("corr", "k4-witness-outcomes", {"history": "authenticate(retries=2) with the first reply 2.499 s late"}, {"impl": res[0][0][2]})
    # ---- a long session: counters wrap at 4096 again and again; authentication expires in between -----------------
    n = ctx.n(5000, 70000)
    ops = [(2, 1, 3)] + [(1, i % 200 + 1, 3) for i in range(n)]
    hs = [[(0, 1, 0)]] * 4
    data = [[(0, 0, i % 250 + 1)] for i in range(n)]
    c = ([0, 0], hs, data, ops)
    im = sess.run_impl(ctx.model, rng, *c, fast=True)
    rep.case(("long", n), "long-session")
    check_trace(rep, c, im[3], im[2], sess.run_impl.last_opinfo)
    bad = [o for o in im[2][1:] if o[0] != 0]
    if bad:
        rep.fail("oracle", "long-session-exchange-failed", {"packets": n}, {"first_bad": bad[0]})
    ndata = sum(1 for e in im[3] if e[0] == 3)
    rep.notes.append(f"long session: {ndata} data packets, last counter {im[3][-1][2]}")
    st, outs = ctx.model.one(sess.F_SESSION, sess.model_case(*c)[1]) if n <= 5000 else (None, None)
    if st is not None and tuple(sess.decode_model(outs)) != tuple(im):
        rep.fail("corr", "session:long", {"packets": n}, {"note": "long session differs"})
