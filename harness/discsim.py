"""Discovery on the simulated network: reference replies (extracted coq/spec/RefDiscover), bad-reply classes, the real
Discover.discover() on simnet's datagram endpoint, and the same datagram list through the Coq model (fid 92)."""
import xml.etree.ElementTree as ET

import simnet
from common import exn_code

F_INFO, F_VERSION, F_DISCOVER, F_INT16, F_UTF8, F_REPLY, F_PROBE_OK, F_PROBES, F_NAME = 90, 91, 92, 93, 94, 95, 96, 97, 98


def le(n, k=8):
    return [(n >> (8 * i)) & 0xFF for i in range(k)]


def ip_of(host):
    return f"10.0.{host // 256}.{host % 256}"


def host_of(ip):
    a = [int(x) for x in ip.split(".")]
    return a[2] * 256 + a[3]


def xml_class(data):
    """what xml.etree makes of a datagram: 0 not XML; 1 no body/device; 2 no port attribute; 3 port not an int; 4 V1 reply"""
    try:
        root = ET.fromstring(memoryview(bytes(data)))
    except ET.ParseError:
        return 0
    dev = root.find("body/device")
    if dev is None:
        return 1
    if "port" not in dev.attrib:
        return 2
    try:
        int(dev.attrib["port"])
    except ValueError:
        return 3
    return 4


def ref_reply(model, rng, ver, device_id, port, sn, name, rip=None, extra=None, hdr12=None, hdr14=None, tail=None):
    """a well-formed reply as an appliance builds it (reference builder)"""
    rip = rip if rip is not None else [rng.randrange(256) for _ in range(4)]
    extra = extra if extra is not None else [rng.randrange(256) for _ in range(rng.choice([0, 0, 5, 70]))]
    hdr12 = hdr12 if hdr12 is not None else [rng.randrange(256) for _ in range(12)]
    hdr14 = hdr14 if hdr14 is not None else [rng.randrange(256) for _ in range(14)]
    tail = tail if tail is not None else [rng.randrange(256) for _ in range(16)]
    st, outs = model.call(F_REPLY, [[ver], hdr12, hdr14, le(device_id), list(rip), [port], list(sn), list(name), list(extra), tail])
    assert st == 0, "reference builder failed"
    return bytes(outs[0])


def envelope(model, rng, ver, payload_cipher, device_id=0x112233445566):
    """a signed V2/V3 envelope around arbitrary 'ciphertext' bytes (for the undecryptable class)"""
    import hashlib
    from msmart.lan import Security  # only for the constant key; the signature itself is not checked by the parser
    head = bytes([0x5A, 0x5A, 0x01, 0x11]) + (56 + len(payload_cipher)).to_bytes(2, "little") + bytes([0x7A, 0x80]) \
        + bytes(12) + device_id.to_bytes(6, "little") + bytes(14) + bytes(payload_cipher)
    inner = head + hashlib.md5(head + Security.SIGN_KEY).digest()
    if ver == 2:
        return inner
    return bytes([0x83, 0x70]) + (len(inner) + 16).to_bytes(2, "big") + bytes([0x20, 0x0F, 0, 0]) + inner + bytes(16)


def reply_with_payload(model, rng, ver, payload, device_id=0x112233445566):
    """valid envelope (reference encryption + signature) around an arbitrary payload"""
    # F_REPLY builds payload = rev(rip) ++ le4(port) ++ sn ++ [len name] ++ name ++ extra; to place arbitrary bytes we use the
    # packet layer reference (fid 52, V2 build) shape instead: encrypt with the reference ECB/PKCS7 (fid 49 mode 0 after pad 4)
    st, outs = model.call(49, [[4], [], list(payload)])           # pkcs7_pad
    st2, outs2 = model.call(49, [[0], v2key(model), outs[0]])      # ecb_enc under MD5(SIGN_KEY)
    assert st == 0 and st2 == 0
    return envelope(model, rng, ver, outs2[0], device_id)


_V2KEY = []


def v2key(model):
    if not _V2KEY:
        from msmart.lan import Security
        st, outs = model.call(47, [list(Security.SIGN_KEY)])
        _V2KEY.append(outs[0])
    return _V2KEY[0]


def good_sn(rng):
    return [rng.choice(b"0123456789ABCDEFPQ") for _ in range(32)]


def good_name(model, rng, ty, suffix=None):
    suffix = suffix if suffix is not None else [rng.choice(b"0123456789ABCDEF") for _ in range(rng.choice([0, 4, 4, 8]))]
    st, outs = model.call(F_NAME, [[ty], list(suffix)])
    return outs[0]


BAD_CLASSES = ["random", "random-v2-start", "random-v3-start", "short-body", "nontext-sn", "nontext-name", "no-separator",
               "nonhex-type", "empty-type", "xml-no-attrib", "xml-no-device", "xml-bad-port", "xml-v1", "undecryptable-len",
               "undecryptable-pad", "empty", "marker-only"]


def bad_reply(model, rng, klass):
    r = rng
    ver = r.choice([2, 3])
    if klass == "random":
        return bytes(r.randrange(256) for _ in range(r.choice([1, 7, 60, 120, 200])))
    if klass == "random-v2-start":
        return bytes([0x5A, 0x5A]) + bytes(r.randrange(256) for _ in range(r.choice([0, 5, 54, 110, 118])))
    if klass == "random-v3-start":
        return bytes([0x83, 0x70]) + bytes(r.randrange(256) for _ in range(r.choice([0, 5, 62, 110, 206])))
    if klass == "empty":
        return b""
    if klass == "marker-only":
        return bytes([0x5A, 0x5A]) if ver == 2 else bytes([0x83, 0x70])
    if klass == "short-body":
        n = r.choice([0, 1, 3, 4, 6, 8, 39, 40, 41])
        body = [r.choice(b"0123456789abcdef_") for _ in range(n)]
        if n == 41:
            body[40] = 5                                     # name length beyond the data: empty name -> no separator
        return reply_with_payload(model, r, ver, body)
    sn, name = good_sn(r), good_name(model, r, 0xAC)
    if klass == "nontext-sn":
        sn[r.randrange(32)] = r.choice([0x80, 0xC0, 0xFF, 0xED])
        if sn[-1] in (0xED,):
            sn[-1] = 0xFF
    elif klass == "nontext-name":
        name = list(name)
        name[r.randrange(len(name))] = r.choice([0x80, 0xC1, 0xFE])
    elif klass == "no-separator":
        name = list(b"netac" + bytes(r.choice(b"0123456789") for _ in range(r.randrange(5))))
    elif klass == "nonhex-type":
        name = list(b"net_" + r.choice([b"zz", b"g1", b"0x", b"a c", b"-", b"+", b"1.0", b"0x-1"]) + b"_F7B4")
    elif klass == "empty-type":
        name = list(b"net__F7B4")
    elif klass.startswith("xml"):
        return {"xml-no-attrib": b"<root><body><device/></body></root>",
                "xml-no-device": b"<root><body/></root>",
                "xml-bad-port": b"<root><body><device port='abc'/></body></root>",
                "xml-v1": b"<root><body><device port='6444' apc_type='0xac'/></body></root>"}[klass]
    elif klass == "undecryptable-len":
        return envelope(model, r, ver, bytes(r.randrange(256) for _ in range(r.choice([1, 15, 17, 40]))))
    elif klass == "undecryptable-pad":
        return envelope(model, r, ver, bytes(r.randrange(256) for _ in range(r.choice([16, 48, 64]))))
    return ref_reply(model, r, ver, r.randrange(1 << 48), 6444, sn, name)


def canon_dev(dev, AC):
    return (host_of(dev.ip), dev.port, dev.version, int(dev.type), int(type(dev) is AC), dev.id,
            tuple((dev.name or "").encode()), tuple((dev.sn or "").encode()))


def run_impl(dgrams, timeout=5.0, packets=3, target="255.255.255.255", auto_connect=False, single=None):
    """dgrams: [(time_ms, host, port, data)] -> (status, sorted devices, probes [(port, data, target)], socket options)"""
    import msmart.discover as DM
    from msmart.device import AirConditioner as AC
    net = simnet.Net()
    net.dgrams = [(t / 1000.0, bytes(d), (ip_of(h), p)) for t, h, p, d in dgrams]
    simnet.install(net)
    DM.Discover._lock = None
    status, devs = 0, []
    try:
        if single is not None:       # Discover.discover_single(hostname or IP): the one device answering, or None
            one = net.run(DM.Discover.discover_single(single, timeout=timeout, discovery_packets=packets, auto_connect=auto_connect))
            devs = [] if one is None else [one]
        else:
            devs = net.run(DM.Discover.discover(target=target, timeout=timeout, discovery_packets=packets, auto_connect=auto_connect))
    except BaseException as e:  # noqa: BLE001
        status = exn_code(e)
    probes = [(addr[1], data, addr[0]) for ep in net.endpoints for data, addr, _ in ep.sent]
    opts = [o for ep in net.endpoints for o in ep.sock.opts]
    delivered = [x[1] for x in net.log if x[0] == "dgram"]
    try:
        # let the remaining tasks of an aborted run finish so that closing the loop is quiet
        net.tick(10)
    except BaseException:  # noqa: BLE001
        pass
    net.close()
    run_impl.delivered = delivered
    return status, sorted(canon_dev(d, AC) for d in devs), probes, opts


def model_case(dgrams, timeout_ms=5000):
    args = []
    for t, h, p, d in sorted(dgrams, key=lambda x: x[0]):      # stable: ties keep scripting order
        if t < timeout_ms:
            args += [[h, p, xml_class(d)], list(d)]
    return (F_DISCOVER, args)


def decode_model(st, outs):
    codes = outs[1] if len(outs) > 1 else []
    devs = []
    rest = outs[2:]
    for k in range(0, len(rest), 4):
        h, i, nm, sn = rest[k:k + 4]
        devs.append((h[0], h[1], h[2], h[3], h[4], int.from_bytes(bytes(i), "little"), tuple(nm), tuple(sn)))
    return st, sorted(devs), [c for c in codes if c > 0]


def compare(ctx, rep, cases, tag="discover", auto_connect=False):
    """cases: list of datagram lists. Returns [(impl, model)]"""
    mo = ctx.model.batch([model_case(c) for c in cases])
    res = []
    for c, (st, outs) in zip(cases, mo):
        im = run_impl(c, auto_connect=auto_connect)
        mst, mdevs, merrs = decode_model(st, outs)
        res.append((im, (mst, mdevs, merrs)))
        ok = (im[0] == 0 and mst == 0 and im[1] == mdevs) or (im[0] != 0 and mst != 0 and im[0] in merrs)
        if not ok:
            rep.fail("corr", tag, {"dgrams": [(t, h, p, bytes(d).hex()) for t, h, p, d in c], "auto_connect": auto_connect},
                     {"impl": [im[0], im[1]], "model": [mst, mdevs, merrs]})
    return res
