#!/venv/bin/python
"""./check Cxx quick|thorough [--replay file]   (DESIGN.md section 4)"""
import importlib
import json
import os
import random
import re
import subprocess
import sys
import time
import traceback

ROOT = os.path.dirname(os.path.dirname(os.path.abspath(__file__)))
sys.path.insert(0, os.path.join(ROOT, "harness"))
REPO = os.environ.get("MSMART_REPO", "/repo")
sys.path.insert(0, REPO)
os.environ.setdefault("PYTHONHASHSEED", "0")

import logging  # noqa: E402
logging.disable(logging.CRITICAL)
import build as buildmod  # noqa: E402
from model import Model  # noqa: E402

COQ = os.path.join(ROOT, "coq")
ALLOWED_AXIOMS = set()   # none: every property theorem must be closed under the global context

TRUSTED_BASE = [
    "Coq 8.16.1 kernel and vm_compute (no native_compute)",
    "axioms: none (Print Assumptions of every property theorem: Closed under the global context)",
    "translator harness/gen_constants.py (fail-closed ast) for constants/tables/enums",
    "extraction: ExtrOcamlBasic only (its Extract Inductive for bool, option, unit, list, prod, sumbool, sumor); no Extract Constant; OCaml 4.13.1; ocaml/driver.ml; cross-checked each run against vm_compute on a sample",
    "correspondence harness (harness/*.py): generators, canonicalisers, simulated network/clock; CPython 3.12, pycryptodome, httpx",
    "specs in coq/spec written from the property text, source comments and the vendor Lua reference",
]


class Report:
    def __init__(self, pid):
        self.pid = pid
        self.evaluations = 0
        self.nontrivial = set()
        self.samples = []
        self.failures = []      # dicts: kind, klass, input, detail
        self.dist = {}
        self.rule = ""
        self.notes = []

    def case(self, key=None, bucket=None, n=1):
        self.evaluations += n
        if key is not None:
            self.nontrivial.add(key)
        if bucket is not None:
            self.dist[bucket] = self.dist.get(bucket, 0) + n

    def sample(self, x, cap=6):
        if len(self.samples) < cap:
            self.samples.append(x)

    def fail(self, kind, klass, inp, detail):
        # capped per kind: a flood of correspondence disagreements must not crowd out the oracle failures (the failing inputs)
        if sum(1 for f in self.failures if f["kind"] == kind) < (400 if kind == "corr" else 2000):
            self.failures.append({"kind": kind, "klass": klass, "input": inp, "detail": detail})


class Ctx:
    def __init__(self, pid, tier, seed, model):
        self.pid, self.tier, self.seed, self.model = pid, tier, seed, model
        self.rng = random.Random(seed)
        self.search = False       # set when re-running with the thorough budget to look for a failing input

    def n(self, quick, thorough):
        if self.tier == "thorough":
            return thorough
        return min(thorough, 4 * quick) if self.search else quick

    @property
    def deep(self):
        return self.tier == "thorough"


def compile_props(pid):
    """Recompile props/Cxx.v; count Theorem statements and closed Print Assumptions blocks."""
    path = os.path.join(COQ, "props", pid + ".v")
    if not os.path.exists(path):
        return {"obligations": 0, "discharged": 0, "error": "no props file", "axioms": []}
    src = open(path).read()
    src_nc = re.sub(r"\(\*.*?\*\)", "", src, flags=re.S)
    theorems = re.findall(r"^\s*Theorem\s+(\w+)", src_nc, flags=re.M)
    printed = re.findall(r"^\s*Print Assumptions\s+(\w+)\s*\.", src_nc, flags=re.M)
    cmd = ["timeout", "900", "coqc", "-Q", COQ, "MS", path]
    p = subprocess.run(cmd, stdout=subprocess.PIPE, stderr=subprocess.STDOUT, text=True, cwd=COQ)
    out = p.stdout
    res = {"obligations": len(theorems), "theorems": theorems, "checker_cmd": " ".join(cmd), "axioms": []}
    if p.returncode != 0:
        res["discharged"] = 0
        res["error"] = out[-1500:]
        return res
    closed = out.count("Closed under the global context")
    axioms = []
    for m in re.finditer(r"Axioms:\n((?:.+\n?)+?)(?=\n|Closed|Axioms:|\Z)", out):
        for line in m.group(1).splitlines():
            mm = re.match(r"^(\S+)\s*:", line)
            if mm:
                axioms.append(mm.group(1))
    res["axioms"] = sorted(set(axioms))
    bad = [a for a in res["axioms"] if a not in ALLOWED_AXIOMS]
    unprinted = [t for t in theorems if t not in printed]
    if bad:
        res["discharged"] = 0
        res["error"] = "axioms outside the allowed list: " + ", ".join(bad)
    elif unprinted:
        res["discharged"] = len(theorems) - len(unprinted)
        res["error"] = "theorems without Print Assumptions: " + ", ".join(unprinted)
    else:
        res["discharged"] = len(theorems) if closed + 0 >= len(printed) else closed
        if res["discharged"] != len(theorems):
            res["error"] = f"only {closed} of {len(printed)} assumption blocks are closed"
    return res


def load_known():
    p = os.path.join(ROOT, "known_findings.json")
    if not os.path.exists(p):
        return []
    return json.load(open(p)).get("findings", [])


def write_replay(pid, payload):
    d = os.path.join(ROOT, "replays")
    os.makedirs(d, exist_ok=True)
    k = 0
    while os.path.exists(os.path.join(d, f"{pid}-{k}.json")):
        k += 1
    path = os.path.join(d, f"{pid}-{k}.json")
    json.dump(payload, open(path, "w"), indent=1, default=str)
    return path


def main():
    argv = sys.argv[1:]
    pid = argv[0]
    if "--replay" in argv:
        rp = argv[argv.index("--replay") + 1]
        mod = importlib.import_module("props." + pid)
        st = buildmod.build()
        data = json.load(open(rp))
        ctx = Ctx(pid, "quick", 0, Model())
        if hasattr(mod, "replay"):
            print(json.dumps(mod.replay(ctx, data), indent=1, default=str))
            return 0
        print(json.dumps(data, indent=1)[:6000])
        if data.get("kind") != "failing-input":
            return 0
        # generic replay: run the property's generators again with the recorded seed / tier and look for the recorded input
        ctx = Ctx(pid, data.get("tier", "quick"), int(data.get("seed", 0)), ctx.model)
        rep = Report(pid)
        mod.run(ctx, rep)
        want = json.dumps(data["failure"]["input"], sort_keys=True, default=str)
        again = [f for f in rep.failures if f["kind"] == "oracle" and f["klass"] == data["failure"]["klass"]
                 and json.dumps(f["input"], sort_keys=True, default=str) == want]
        same_class = [f for f in rep.failures if f["kind"] == "oracle" and f["klass"] == data["failure"]["klass"]]
        print("REPLAY:", "the recorded input fails again on the current tree" if again else
              (f"the recorded input no longer fails ({len(same_class)} other failures of class {data['failure']['klass']})"))
        return 1 if again else 0
    tier = argv[1] if len(argv) > 1 else os.environ.get("VERIF_TIER", "quick")
    if tier not in ("quick", "thorough"):
        tier = "quick"
    seed = int(os.environ.get("VERIF_SEED", "0") or 0)
    t0 = time.time()
    broken = []          # (what, detail) proof / correspondence / build breakages

    st = buildmod.build()
    if not st["gen_ok"]:
        broken.append(("translator", st.get("gen_error", "generation failed")))
    if st["forbidden"]:
        broken.append(("forbidden-token", "; ".join(st["forbidden"])))
    proof = compile_props(pid)
    if proof["obligations"] == 0 or proof["discharged"] != proof["obligations"]:
        broken.append(("proof", f"props/{pid}.v: {proof.get('error', 'not all obligations discharged')}"))
    coqchk = None
    if tier == "thorough" and not broken:
        p = subprocess.run(f"timeout 1500 coqchk -silent -o -Q {COQ} MS MS.props.{pid} 2>&1 | tail -15", shell=True,
                           stdout=subprocess.PIPE, text=True, cwd=COQ)
        coqchk = p.stdout.strip()
        if "Axioms: <none>" not in coqchk.replace("\n", " ") and "* Axioms: <none>" not in coqchk:
            if re.search(r"Axioms:\s*\n\s*\S", coqchk) and "<none>" not in coqchk:
                broken.append(("coqchk", coqchk[-600:]))

    rep = Report(pid)
    mod = None
    if not st["driver_ok"]:
        broken.append(("model-build", "the model/spec/extraction did not build: " + st["log"][-800:]))
    else:
        try:
            mod = importlib.import_module("props." + pid)
            ctx = Ctx(pid, tier, seed, Model())
            mod.run(ctx, rep)
            if (broken or any(f["kind"] == "corr" for f in rep.failures)) and tier == "quick" \
                    and not any(f["kind"] == "oracle" for f in rep.failures):
                # something no longer checks: search harder for a concrete failing input
                ctx2 = Ctx(pid, tier, seed + 1, ctx.model)
                ctx2.search = True
                rep2 = Report(pid)
                mod.run(ctx2, rep2)
                rep.failures += rep2.failures
                rep.evaluations += rep2.evaluations
                rep.nontrivial |= rep2.nontrivial
            n, err = ctx.model.kernel_crosscheck(limit=100 if tier == "quick" else 600)
            rep.kernel_checked = n
            if err:
                broken.append(("extraction-vs-kernel", err))
        except Exception:
            broken.append(("harness", traceback.format_exc()[-1500:]))

    # ---- decide -------------------------------------------------------------------------------
    known = [k for k in load_known() if k.get("property") == pid and k.get("status") == "known"]
    oracle_fail = [f for f in rep.failures if f["kind"] == "oracle"]
    corr_fail = [f for f in rep.failures if f["kind"] == "corr"]
    known_hit, unknown = {}, []
    for f in oracle_fail:
        k = next((k for k in known if k["class"] == f["klass"]), None)
        if k:
            known_hit.setdefault(k["class"], (k, f))
        else:
            unknown.append(f)
    for cls, (k, f) in known_hit.items():
        print(f"KNOWN-FINDING: property={pid} {k['what']}")
    for what, detail in [(c["klass"], c["detail"]) for c in corr_fail[:1]]:
        broken.append(("correspondence:" + str(what), json.dumps(corr_fail[0], default=str)[:1500]))

    violations = 0
    exit_code = 0
    if unknown:
        violations = len(unknown)
        path = write_replay(pid, {"property": pid, "kind": "failing-input", "tier": tier, "seed": seed,
                                  "failure": unknown[0], "more": unknown[1:5], "broken": broken})
        print(f"VIOLATION property={pid} replay={path}")
        exit_code = 1
    elif broken:
        violations = 1
        path = write_replay(pid, {"property": pid, "kind": "no-failing-input-found",
                                  "no_longer_checks": [{"what": w, "detail": d} for w, d in broken]})
        print(f"VIOLATION property={pid} replay={path} no-failing-input-found")
        exit_code = 1

    ev = {
        "property_id": pid, "tier": tier, "seed": seed, "level": "proof",
        "coverage": {
            "obligations": proof["obligations"], "discharged": proof["discharged"],
            "checker_cmd": proof.get("checker_cmd", "coqc"), "trusted_base": TRUSTED_BASE,
            "theorems": proof.get("theorems", []), "axioms": proof.get("axioms", []),
            "evaluations": rep.evaluations, "distinct_nontrivial": len(rep.nontrivial),
            "rule": rep.rule, "samples": rep.samples or ["(no correspondence cases ran)"],
            "input_distribution": rep.dist,
            "kernel_crosschecked_cases": getattr(rep, "kernel_checked", 0),
            "correspondence_disagreements": len(corr_fail), "oracle_failures": len(oracle_fail),
            "known_findings_hit": sorted(known_hit), "broken": [w for w, _ in broken],
            "build_wall_s": st.get("wall_s"), "notes": rep.notes,
        },
        "assumptions": TRUSTED_BASE + getattr(mod, "ASSUMPTIONS", []) if mod else TRUSTED_BASE,
        "wall_s": round(time.time() - t0, 2), "violations": violations,
    }
    if coqchk is not None:
        ev["coverage"]["coqchk"] = coqchk[-400:]
    if proof["obligations"] == 0 or proof["discharged"] != proof["obligations"]:
        # this run did NOT establish the theorems: what it offers is exploration-level evidence only (and a VIOLATION line)
        ev["level"] = "exploration"
        ev["coverage"]["proof_obligations_stated"] = ev["coverage"].pop("obligations")
        ev["coverage"]["proof_obligations_discharged"] = ev["coverage"].pop("discharged")
        ev["coverage"]["explanation"] = "the property theorems did not all check on this run: " + str(proof.get("error", ""))[:600]
    os.makedirs(os.path.join(ROOT, "evidence"), exist_ok=True)
    json.dump(ev, open(os.path.join(ROOT, "evidence", pid + ".json"), "w"), indent=1, default=str)
    print(f"{pid} {tier}: obligations {proof['discharged']}/{proof['obligations']}, "
          f"{rep.evaluations} evaluations ({len(rep.nontrivial)} distinct non-trivial), "
          f"{len(corr_fail)} correspondence disagreements, {len(oracle_fail)} oracle failures "
          f"({len(known_hit)} known classes), {ev['wall_s']} s")
    return exit_code


if __name__ == "__main__":
    sys.exit(main())
