"""C19 helpers: model cloud servers injected through get_async_client (httpx.MockTransport), a deterministic clock and
DEVICE_ID for msmart.cloud, implementation-side runners producing the same observation records as coq/extract/RunCloud.v,
and a discovery responder so that Discover.discover(auto_connect=True) runs on the simulated network."""
import asyncio
import datetime as _dt
import json
from urllib.parse import parse_qsl

import httpx

from common import exn_code

F_SIGN, F_ENCPW, F_BODY, F_POST, F_FLOW, F_REFSTEP, F_EXPECT, F_AUTH, F_NEW, F_SIGOK = range(70, 80)
EPOCH = _dt.datetime(2024, 1, 2, 3, 4, 5, tzinfo=_dt.timezone.utc)


def B(s):
    return list(s.encode("ascii")) if isinstance(s, str) else list(s)


def S(l):
    return bytes(l).decode("ascii")


def lp(strs):
    out = []
    for s in strs:
        b = B(s)
        out += [len(b)] + b
    return out


def le(n):
    out = []
    while n:
        out.append(n & 0xFF)
        n >>= 8
    return out


def flat_fields(fields):
    out = []
    for k, v in fields:
        out += [B(k), B(v)]
    return out


def enc_requests(reqs):
    out = [[len(reqs)]]
    for path, fields in reqs:
        out += [B(path), [len(fields)]] + flat_fields(fields)
    return out


def dec_requests(outs):
    """inverse of enc_requests on a model output tail -> [(path, [(k, v)])]"""
    n = outs[0][0]
    pos, reqs = 1, []
    for _ in range(n):
        path, nf = S(outs[pos]), outs[pos + 1][0]
        fs = [(S(outs[pos + 2 + 2 * i]), S(outs[pos + 3 + 2 * i])) for i in range(nf)]
        reqs.append((path, fs))
        pos += 2 + 2 * nf
    return reqs


def pbatch(model, cases, workers=12):
    """Model.batch split over several driver processes (SHA-256 in the extracted evaluator costs milliseconds per block)"""
    if len(cases) < 4 * workers:
        return model.batch(cases)
    from concurrent.futures import ThreadPoolExecutor
    size = (len(cases) + workers - 1) // workers
    chunks = [cases[i:i + size] for i in range(0, len(cases), size)]
    with ThreadPoolExecutor(max_workers=workers) as ex:
        parts = list(ex.map(model.batch, chunks))
    return [r for part in parts for r in part]


def prune_log(model, start, keep):
    """keep an evenly spread sample of the evaluator log entries added since `start` (each is re-run inside the Coq kernel, where
    SHA-256 costs ~0.1 s per block), cheapest inputs first"""
    mine = model.log[start:]
    mine.sort(key=lambda c: sum(len(a) for a in c[1]))
    by_fid = {}
    for c in mine:
        by_fid.setdefault(c[0], []).append(c)
    kept = []
    per = max(1, keep // max(1, len(by_fid)))
    for fid, cs in sorted(by_fid.items()):
        kept += cs[:per]
    model.log[start:] = kept


# ---- clock / DEVICE_ID ---------------------------------------------------------------------------------------------
class CloudClock:
    """stands in for msmart.cloud.datetime: the time is a function of the number of POST attempts made so far"""
    count = staticmethod(lambda: 0)

    @classmethod
    def now(cls, tz=None):
        return EPOCH + _dt.timedelta(seconds=cls.count())


def stamp(n):
    return (EPOCH + _dt.timedelta(seconds=n)).strftime("%Y%m%d%H%M%S")


def cloud_mod(device_id=None, counter=None):
    import msmart.cloud as C
    C.datetime = CloudClock
    if device_id is not None:
        C.BaseCloud.DEVICE_ID = device_id
    if counter is not None:
        CloudClock.count = staticmethod(counter)
    return C


_loop = None


def run(coro):
    """run a coroutine on a persistent plain event loop (nothing in these cases sleeps or touches a socket)"""
    global _loop
    if _loop is None or _loop.is_closed():
        _loop = asyncio.new_event_loop()
    asyncio.set_event_loop(_loop)
    return _loop.run_until_complete(coro)


# ---- outcomes ----------------------------------------------------------------------------------------------------
TIMEOUTS = [httpx.ReadTimeout, httpx.ConnectTimeout, httpx.WriteTimeout, httpx.PoolTimeout]
TRANSPORT_ERRORS = [httpx.ConnectError, httpx.ReadError, httpx.WriteError, httpx.RemoteProtocolError, httpx.DecodingError,
                    httpx.TooManyRedirects, httpx.ProxyError, httpx.UnsupportedProtocol, httpx.CloseError]
BAD_STATUS = [500, 502, 503, 400, 401, 403, 404, 429, 301, 302, 100]


def result_json(kind, payload):
    if kind == 0:
        return {"loginId": payload}
    if kind == 1:
        return {"sessionId": payload, "userId": "1234"}
    if kind == 2:
        return {"tokenlist": [{"udpId": u, "token": t, "key": k} for u, t, k in payload]}
    return {"unrelated": 1}


def outcome_arg(o):
    """harness outcome -> the integer list RunCloud.outcome_of decodes.  o = ('timeout',) | ('http',) | ('resp', code, kind, payload)"""
    if o[0] == "timeout":
        return [0]
    if o[0] == "http":
        return [1]
    _, code, kind, payload = o
    if kind in (0, 1):
        return [2, code, kind] + B(payload)
    if kind == 2:
        return [2, code, 2] + lp([x for e in payload for x in e])
    return [2, code, 3]


def realise(o, request, rng):
    """turn an outcome into what the MockTransport handler does"""
    if o[0] == "timeout":
        raise rng.choice(TIMEOUTS)("simulated timeout", request=request)
    if o[0] == "http":
        if rng.random() < 0.5:
            return httpx.Response(rng.choice(BAD_STATUS), json={"errorCode": "0", "result": {"loginId": "never-read"}})
        raise rng.choice(TRANSPORT_ERRORS)("simulated transport failure", request=request)
    _, code, kind, payload = o
    body = {"errorCode": str(code) if rng.random() < 0.7 else code, "msg": "simulated"}
    if code == 0 or rng.random() < 0.3:
        body["result"] = result_json(kind, payload)
    return httpx.Response(200, json=body)


def parse_form(request):
    return parse_qsl(request.content.decode("ascii"), keep_blank_values=True, strict_parsing=bool(request.content))


class ScriptServer:
    """answers the k-th POST attempt with the k-th outcome of a script; an exhausted script keeps timing out"""

    def __init__(self, rng, script):
        self.rng, self.script, self.requests, self.urls = rng, list(script), [], []

    def handler(self, request):
        self.requests.append((request.url.path, parse_form(request)))
        self.urls.append((request.method, str(request.url), request.headers.get("content-type", "")))
        o = self.script.pop(0) if self.script else ("timeout",)
        return realise(o, request, self.rng)

    def factory(self, *a, **k):
        return httpx.AsyncClient(transport=httpx.MockTransport(self.handler))


class RefCloudServer:
    """the model cloud server: every received request is judged and answered by the EXTRACTED reference (RefCloud.ref_step,
    fid 75), with the form fields handed over in a random order; a fault script may replace the reply."""

    def __init__(self, model, rng, account, password, login_id="L0gin1d", session_id="5e55ion", registry=(), policy=("noentry",),
                 faults=(), shuffle=True):
        self.m, self.rng = model, rng
        self.account, self.password, self.login_id, self.session_id = account, password, login_id, session_id
        self.registry, self.policy, self.faults, self.shuffle = list(registry), policy, list(faults), shuffle
        self.state = [0, 0, 0]
        self.log = []            # per attempt: dict(path, fields (arrival order), check, reply kind)
        self.urls = []

    def cfg_args(self):
        p = self.policy
        pol = [0] if p[0] == "bogus" else ([1] if p[0] == "noentry" else [2, p[1]])
        bt, bk = (p[1], p[2]) if p[0] == "bogus" else ("", "")
        return [B(self.account), B(self.password), B(self.login_id), B(self.session_id), pol, B(bt), B(bk),
                lp([x for e in self.registry for x in e])]

    def handler(self, request):
        fields = parse_form(request)
        seen = list(fields)
        if self.shuffle:
            self.rng.shuffle(seen)
        path = request.url.path
        st, outs = self.m.call(F_REFSTEP, self.cfg_args() + [self.state, B(path)] + flat_fields(seen))
        assert st == 0
        self.state = outs[0]
        check, kind = outs[1][0], outs[2][0]
        self.log.append({"path": path, "fields": fields, "seen": seen, "check": check, "reply": kind})
        self.urls.append((request.method, str(request.url), request.headers.get("content-type", "")))
        fault = self.faults.pop(0) if self.faults else None
        if fault is not None and fault[0] != "none":
            if fault[0] == "api":
                return httpx.Response(200, json={"errorCode": str(fault[1]), "msg": "simulated"})
            return realise(fault, request, self.rng)
        if kind == 0:
            return httpx.Response(200, json={"errorCode": "0", "result": {"loginId": S(outs[3])}})
        if kind == 1:
            return httpx.Response(200, json={"errorCode": "0", "result": {"sessionId": S(outs[3]), "userId": "77", "nickName": "x"}})
        if kind == 2:
            strs = [S(o) for o in outs[3:]]
            tl = [{"udpId": strs[i], "token": strs[i + 1], "key": strs[i + 2]} for i in range(0, len(strs), 3)]
            self.log[-1]["tokenlist"] = tl
            return httpx.Response(200, json={"errorCode": "0", "result": {"tokenlist": tl}})
        return httpx.Response(200, json={"errorCode": str(outs[2][1]), "msg": "rejected or refused"})

    def factory(self, *a, **k):
        return httpx.AsyncClient(transport=httpx.MockTransport(self.handler))

    @property
    def rejected(self):
        return [e for e in self.log if e["check"] != 0]


# ---- implementation-side runners ---------------------------------------------------------------------------------
def kind_of_result(r):
    if r is None:
        return [0]
    if "loginId" in r:
        return [1] + B(r["loginId"])
    if "sessionId" in r:
        return [2] + B(r["sessionId"])
    if "tokenlist" in r:
        return [3, len(r["tokenlist"])]
    return [4]


def impl_post(rng, retries, script):
    """BaseCloud._post_request(retries=...) against a script -> (status, [[attempts], [left], result], exception)"""
    C = cloud_mod()
    srv = ScriptServer(rng, script)
    cloud = C.NetHomePlusCloud("US", get_async_client=srv.factory)
    kw = {} if retries is None else {"retries": retries}
    try:
        r = run(cloud._post_request("https://mapp.appsmb.com/v1/x", form_data={"a": "b"}, **kw))
        return 0, [[len(srv.requests)], [len(srv.script)], kind_of_result(r)], None
    except Exception as e:  # noqa: BLE001
        return exn_code(e), [[len(srv.requests)], [len(srv.script)], []], e


def impl_flow(rng, account, password, device_id, session_id, has_session, login_id, force, op, udpid, script, server=None):
    """login (op 0), get_token (op 1) or both (op 2) on a NetHomePlusCloud -> (status, outs like fid 74, exception, server)"""
    srv = server or ScriptServer(rng, script)
    C = cloud_mod(device_id, lambda: len(srv.requests) if server is None else len(srv.log))
    cloud = C.NetHomePlusCloud("US", account=account, password=password, get_async_client=srv.factory)
    cloud._session_id = session_id
    cloud._session = {"sessionId": session_id} if has_session else {}
    cloud._login_id = login_id
    tok = key = ""
    exc = None

    async def go():
        if op != 1:
            await cloud.login(force)
        if op != 0:
            return await cloud.get_token(udpid)
        return "", ""
    try:
        tok, key = run(go())
        st = 0
    except Exception as e:  # noqa: BLE001
        st, exc = exn_code(e), e
    reqs = srv.requests if server is None else [(e["path"], e["fields"]) for e in srv.log]
    outs = [[int(bool(cloud._session)), int(cloud._login_id is not None)], B(cloud._login_id or ""), B(cloud._session_id),
            B(tok), B(key), [len(srv.script) if server is None else 0]] + enc_requests(reqs)
    return st, outs, exc, srv


def model_flow_args(account, password, device_id, session_id, has_session, login_id, force, op, udpid, script, nstamps=16):
    return [B(account), B(password), B(device_id), B(session_id), [int(has_session), int(login_id is not None), int(force), op],
            B(login_id or ""), B(udpid), lp([stamp(i) for i in range(nstamps)])] + [outcome_arg(o) for o in script]


def exc_of(code):
    from msmart.cloud import CloudError
    from msmart.lan import AuthenticationError, ProtocolError
    return {2: ValueError("x"), 10: ProtocolError("x"), 11: AuthenticationError("x"), 12: TimeoutError("x"), 16: NotImplementedError("x"),
            17: CloudError("x"), 19: OSError("x"), 4: KeyError("x")}[code]


class StubDevice:
    """a device whose authenticate()/refresh() follow a script of exception codes (0 = success)"""

    def __init__(self, device_id, version, script, refresh_code=0):
        self.id, self.version, self.script, self.refresh_code, self.calls = device_id, version, list(script), refresh_code, []

    async def authenticate(self, token, key):
        self.calls.append((token, key))
        c = self.script.pop(0) if self.script else 11
        if c:
            raise exc_of(c)

    async def refresh(self):
        if self.refresh_code:
            raise exc_of(self.refresh_code)


def reset_discover(factory, region, account, password, cloud=None):
    """class-level state of Discover as discover() leaves it; the lock must belong to the running loop"""
    from msmart.discover import Discover
    Discover._lock = asyncio.Lock()
    Discover._cloud = cloud
    Discover._get_async_client = factory
    Discover._region, Discover._account, Discover._password = region, account, password
    Discover._auto_connect = True
    return Discover


def impl_auth(rng, mode, v3, region, account, password, dev_id, device_id, dev_script, refresh_code, script, dc=None):
    """Discover._authenticate_device (mode 0) / Discover.connect (mode 1) with a stub device against a scripted server
    -> (status, outs like fid 77, exception)"""
    srv = ScriptServer(rng, script)
    C = cloud_mod(device_id, lambda: len(srv.requests))
    dev = StubDevice(dev_id, 3 if v3 else 2, dev_script, refresh_code)
    cloud0 = None
    if dc is not None:
        cloud0 = C.NetHomePlusCloud("US", account=account or "a", password=password or "p", get_async_client=srv.factory)
        cloud0._login_id, cloud0._session_id, cloud0._session = dc[0], dc[1], {"sessionId": dc[1]}
    from msmart.discover import Discover

    async def go():
        D = reset_discover(srv.factory, region, account, password, cloud0)
        return await (D.connect(dev) if mode else D._authenticate_device(dev))
    exc = None
    try:
        r = run(go())
        st, rv = 0, int(bool(r))
    except Exception as e:  # noqa: BLE001
        st, rv, exc = exn_code(e), -1, e
    c = Discover._cloud
    dcv = [0] if c is None else [1, int(bool(c._session))] + B(c._session_id)
    outs = [[rv], dcv, [len(srv.script)], [len(dev.calls)]]
    for t, k in dev.calls:
        outs += [B(t), B(k)]
    outs += enc_requests(srv.requests)
    Discover._cloud = None
    return st, outs, exc


def model_auth_args(mode, v3, region, account, password, dev_id, device_id, dev_script, refresh_code, script, dc=None, nstamps=16):
    return [[int(dc is not None), int(v3), mode, refresh_code], B(region or ""), B(account or ""), B(password or ""), le(dev_id),
            B(device_id), lp([stamp(i) for i in range(nstamps)]), list(dev_script), B(dc[0]) if dc else [], B(dc[1]) if dc else []] \
        + [outcome_arg(o) for o in script]


# ---- discovery on simnet ----------------------------------------------------------------------------------------------
def discovery_reply(ip, port, device_id, sn="000000P0000000Q1F0A1B2C3D4E50000", name="net_ac_F7B4"):
    """a V3 discovery response for the given device (layout read by Discover._get_device_info)"""
    import ipaddress
    from msmart.lan import Security
    plain = bytes(reversed(ipaddress.IPv4Address(ip).packed)) + port.to_bytes(4, "little") + sn.encode() + bytes([len(name)]) + name.encode()
    plain += bytes(14)
    enc = Security.encrypt_aes(plain)
    v2 = bytes([0x5A, 0x5A, 0x01, 0x11]) + (40 + len(enc) + 16).to_bytes(2, "little") + bytes([0x20, 0x00]) + bytes(12) \
        + device_id.to_bytes(6, "little") + bytes(14) + enc
    v2 += Security.sign(v2)
    return bytes([0x83, 0x70]) + len(v2).to_bytes(2, "big") + bytes([0x20, 0x0F, 0, 0]) + v2 + bytes(16)


class FakeDatagramTransport(asyncio.DatagramTransport):
    def __init__(self, loop, proto, replies):
        super().__init__()
        self._loop, self._proto, self._replies, self.sent, self.closed = loop, proto, replies, [], False

    def get_extra_info(self, name, default=None):
        return default

    def sendto(self, data, addr=None):
        self.sent.append((bytes(data), addr))
        if len(self.sent) == 1:
            for delay, payload, src in self._replies:
                self._loop.call_later(delay, self._deliver, payload, src)

    def _deliver(self, payload, src):
        if not self.closed:
            self._proto.datagram_received(payload, src)

    def close(self):
        self.closed = True

    def is_closing(self):
        return self.closed


def install_datagram(net, replies):
    """make loop.create_datagram_endpoint of the simulated loop answer the discovery broadcast with `replies`"""
    async def create_datagram_endpoint(protocol_factory, local_addr=None, remote_addr=None, **kw):
        proto = protocol_factory()
        tr = FakeDatagramTransport(net.loop, proto, replies)
        proto.connection_made(tr)
        return tr, proto
    net.loop.create_datagram_endpoint = create_datagram_endpoint
