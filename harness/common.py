"""Shared helpers: exception canonicalisation, deterministic generators."""
import asyncio

EXN = {"IndexError": 1, "ValueError": 2, "struct.error": 3, "KeyError": 4, "AssertionError": 5, "TypeError": 6,
       "OverflowError": 7, "InvalidFrameException": 8, "InvalidResponseException": 9, "ProtocolError": 10,
       "AuthenticationError": 11, "TimeoutError": 12, "CancelledError": 13, "QueueEmpty": 14, "DiscoverError": 15,
       "NotImplementedError": 16, "CloudError": 17, "ApiError": 18, "OSError": 19, "UnicodeDecodeError": 20,
       "AddressValueError": 21, "SyntaxError": 22, "AttributeError": 23}
EXN_NAME = {v: k for k, v in EXN.items()}
EXN_NAME[0] = "Ok"


def exn_code(e):
    """Most specific modelled class of a Python exception (mirrors Base.exn / exn_code)."""
    import struct
    name = type(e).__name__
    if isinstance(e, struct.error):
        return 3
    if name in EXN:
        return EXN[name]
    if isinstance(e, asyncio.TimeoutError) or isinstance(e, TimeoutError):
        return 12
    for klass in type(e).__mro__:
        if klass.__name__ in EXN:
            return EXN[klass.__name__]
    return 99


def call(f, *a, **k):
    """-> (0, value) or (code, exception)"""
    try:
        return 0, f(*a, **k)
    except Exception as e:  # noqa: BLE001
        return exn_code(e), e


def rbytes(rng, n):
    return [rng.randrange(256) for _ in range(n)]
