"""End to end: the real AirConditioner over the simulated network against an IDEAL APPLIANCE assembled from the extracted
references: LAN layer = refpeer.RefDevice (coq/spec/RefLan), frame layer = RefFrame (fid 5) / RefDevice.ref_response_frame
(fid 112), AC layer = RefDevice.ref_ac_step (fid 110).  The device's reply stream can be cut into arbitrary TCP segments
and padded with unsolicited / duplicated status frames."""
import acresp as A
import refpeer
import simnet
from common import exn_code

F_ACCEPT, F_STEP, F_STATUS, F_FRAME, F_STATE0 = 5, 110, 111, 112, 113
FIELDS = ["power", "target", "mode", "fan", "swing", "turbo", "eco", "sleep", "fahrenheit", "follow_me", "purifier", "aux",
          "indep_aux", "humidity", "freeze", "display", "indoor", "outdoor"]


class IdealAC:
    """AC-level behaviour of the ideal appliance (frame in -> frames out), state = list in FIELDS order"""

    def __init__(self, model, state=None):
        self.m = model
        self.state = list(state) if state is not None else list(model.call(F_STATE0, [])[1][0])
        self.history = [list(self.state)]   # every state the appliance has been in
        self.requests = []          # (frame type, body) accepted by the reference frame parser
        self.rejected = []          # frames the reference frame parser does not accept

    def status_frame(self, ftype=3, state=None):
        st, outs = self.m.call(F_STATUS, [self.state if state is None else state])
        st, o2 = self.m.call(F_FRAME, [[ftype], outs[0]])
        return bytes(o2[0])

    def handle(self, frame):
        frame = list(frame)
        ftype = frame[9] if len(frame) > 9 else 0
        st, outs = self.m.call(F_ACCEPT, [[ftype], frame])
        if outs[0][0] != 1:
            self.rejected.append(bytes(frame))
            return []
        body = outs[2]
        self.requests.append((ftype, list(body)))
        if body and body[0] == 0xB5:
            return [bytes(A.mk_frame(A.caps_body([])))]
        st, outs = self.m.call(F_STEP, [self.state, body])
        self.state = list(outs[0])
        if self.state != self.history[-1]:
            self.history.append(list(self.state))
        if outs[1][0] != 1:
            return []
        st, o2 = self.m.call(F_FRAME, [[ftype], outs[2]])
        return [bytes(o2[0])]


def cut(data, cuts):
    """split bytes at the given offsets"""
    out, last = [], 0
    for c in sorted(set(c for c in cuts if 0 < c < len(data))):
        out.append(data[last:c])
        last = c
    out.append(data[last:])
    return [x for x in out if x]


class Appliance:
    """simnet responder: RefDevice + IdealAC + a plan how each reply stream is padded and segmented"""

    def __init__(self, model, rng, version, state=None, device_id=123456, plan=None):
        self.lan = refpeer.RefDevice(model, rng, version=version, device_id=device_id)
        self.ac = IdealAC(model, state)
        self.lan.on_frame = self.ac.handle
        self.rng = rng
        self.plan = plan or {}        # {"extra": "none|before|after|dup", "seg": "whole|bytes|random|coalesce|two", "gap_ms": n}
        self.version = version
        self.token, self.key = bytes(self.lan.token), bytes(self.lan.key)

    def __call__(self, conn, data):
        view = self.lan.decode_write(conn, data)
        self.lan.views.setdefault(conn.cid, []).append(view)
        if view[0] == "hs":
            if view[2] != self.lan.token:
                return [(0.0, bytes(self.lan.error_packet()))]
            pkt, skey = self.lan.handshake_reply(conn)
            conn.state["session_key"] = skey
            return self.segments(conn, [bytes(pkt)])
        if view[0] != "data":
            return []
        extra = self.plan.get("extra", "none")
        before = [self.ac.status_frame()] if extra == "before" else []
        frames = self.ac.handle(view[3])
        if not frames:
            return []
        after = [self.ac.status_frame()] if extra == "after" else (list(frames) if extra == "dup" else [])
        if extra == "sandwich" and len(self.ac.history) > 1:
            # a repeat of the answer, a (late) report of the state the appliance was in before, then the answer: the LAST report is current
            before = list(frames) + [self.ac.status_frame(state=self.ac.history[-2])]
        pkts = [bytes(self.lan.response_packet(conn, f)) for f in before + frames + after]
        return self.segments(conn, pkts)

    def segments(self, conn, pkts):
        seg, gap = self.plan.get("seg", "whole"), self.plan.get("gap_ms", 0) / 1000.0
        stream = b"".join(pkts)
        if seg == "whole":                      # one segment per packet
            parts = pkts
        elif seg == "coalesce":                 # everything in one segment
            parts = [stream]
        elif seg == "bytes":
            parts = [stream[i:i + 1] for i in range(len(stream))]
        elif seg == "two":
            parts = cut(stream, [self.plan.get("at", len(stream) // 2)])
        else:
            n = self.rng.randrange(1, 6)
            parts = cut(stream, [self.rng.randrange(1, len(stream)) for _ in range(n)])
        # one TCP stream per connection: a later reply starts after the last segment of the earlier ones
        now = simnet.Clock.net.loop.time()
        start = max(0.0, round(conn.state.get("busy_until", 0.0) - now, 6))
        conn.state["busy_until"] = now + start + gap * len(parts)
        return [(start + gap * i, p) for i, p in enumerate(parts)]


def client_view(ac):
    """the attributes a user reads, in the order of coq/extract/Run.v enc_view (reference: fid 32)"""
    def opt(x, f=int):
        return [0, 0] if x is None else [1, f(x)]
    return ([int(bool(ac.power_state)), int(round(ac.target_temperature * 2)), int(ac.operational_mode), int(ac.fan_speed),
             int(ac.swing_mode), int(bool(ac.eco)), int(bool(ac.turbo))] + opt(ac.freeze_protection, lambda v: int(bool(v)))
            + [int(bool(ac.sleep)), int(bool(ac.fahrenheit)), int(bool(ac.display_on)), int(bool(ac.filter_alert)),
               int(bool(ac.follow_me)), int(bool(ac.purifier))] + opt(ac.target_humidity) + [int(ac.aux_mode)])


def expected_client_view(model, device_state, custom_fan):
    """reference reading (RefAC.ref_report + expected_view) of the status body the ideal appliance sends for its state"""
    st, outs = model.call(F_STATUS, [list(device_state)])
    st, o2 = model.call(32, [outs[0], [int(custom_fan)]])
    assert st == 0
    return list(o2[0])


def set_attributes(ac, AC, st):
    """st: dict over the settable FIELDS"""
    from acdev import enum_or_int
    ac.power_state = bool(st["power"])
    ac.target_temperature = st["target"] / 2
    ac.operational_mode = enum_or_int(AC.OperationalMode, st["mode"])
    ac.fan_speed = enum_or_int(AC.FanSpeed, st["fan"])
    ac.swing_mode = enum_or_int(AC.SwingMode, st["swing"])
    ac.turbo, ac.eco, ac.sleep = bool(st["turbo"]), bool(st["eco"]), bool(st["sleep"])
    ac.fahrenheit, ac.follow_me, ac.purifier = bool(st["fahrenheit"]), bool(st["follow_me"]), bool(st["purifier"])
    ac.aux_mode = AC.AuxHeatMode(2 if st["indep_aux"] else 1 if st["aux"] else 0)
    ac.target_humidity = st["humidity"]
    ac.freeze_protection = bool(st["freeze"])


def record_returns(ac):
    """wrap this client's LAN.send: collect every frame it returns from now on"""
    got, orig = [], ac._lan.send

    async def send(data, retries=3):
        r = await orig(data, retries=retries)
        got.extend(bytes(f) for f in r)
        return r
    ac._lan.send = send
    return got


def has_report_of(model, frames, state):
    """did the exchange hand the client a status report of exactly this appliance state?"""
    st, outs = model.call(F_STATUS, [list(state)])
    body = bytes(outs[0])
    return any(bytes(f[10:-2]) == body for f in frames)


def session(model, rng, version, plan, device_state=None, device_id=123456):
    """-> (net, appliance, new_client())"""
    from msmart.device.AC.device import AirConditioner as AC
    app = Appliance(model, rng, version, state=device_state, device_id=device_id, plan=plan)
    net = simnet.Net(responder=app)
    simnet.install(net, rnd=lambda n: bytes(rng.randrange(256) for _ in range(n)))

    def new_client():
        ac = AC(ip="10.0.0.1", device_id=device_id, port=6444)
        if version == 3:
            net.run(ac.authenticate(app.token, app.key))
        return ac
    return net, app, new_client, AC


def run_case(model, rng, version, plan, want, device_id=123456):
    """apply `want` from one client, then refresh from a fresh client. -> dict of observations"""
    obs = {"status": 0}
    net, app, new_client, AC = session(model, rng, version, plan, device_id=device_id)
    try:
        ac = new_client()
        net.run(ac.refresh())
        obs["online1"] = ac.online
        set_attributes(ac, AC, want)
        from msmart.device.AC import command as C
        obs["counter_before_apply"] = C.Command._message_id
        n_writes = len([t for t in net.log if t[0] == "write"])
        net.run(ac.apply())
        # the bytes written for the control command: the V2 packet itself, or the V2 packet inside the encrypted request
        wr = [t for t in net.log if t[0] == "write"][n_writes:]
        if wr:
            raw = bytes(wr[0][3])
            if version == 3:
                conn = net.conns[wr[0][1]]
                st3, o3 = model.call(refpeer.F_V3PARSE, [conn.state.get("session_key") or [], list(raw)])
                raw = bytes(o3[1]) if st3 == 0 else b""
            obs["control_packet_v2"] = raw
            obs["beep"] = int(bool(ac.beep))
        obs["device_after_apply"] = list(app.ac.state)
        obs["client_after_apply"] = client_view(ac)          # informational: may still show an unsolicited older report
        returned = record_returns(ac)
        net.run(ac.refresh())
        obs["same_client_after_refresh"] = client_view(ac)
        obs["same_client_got_current_report"] = has_report_of(model, returned, app.ac.state)
        ac2 = new_client()
        net.run(ac2.refresh())
        obs["online2"] = ac2.online and ac.online
        obs["fresh_client_after_refresh"] = client_view(ac2)
        obs["device_final"] = list(app.ac.state)
        obs["expected_view"] = expected_client_view(model, app.ac.state, ac2.supports_custom_fan_speed)
        obs["earlier_views"] = [expected_client_view(model, h, ac2.supports_custom_fan_speed) for h in app.ac.history[:-1]]
        if plan.get("idle_push"):
            # the appliance reports on its own while client A is idle; client B then changes the state; A refreshes
            conn = ac._lan._protocol._transport._conn
            if plan.get("drop"):
                net.inject(conn, 0.05, "close")              # the appliance closes client A's connection while it is idle
            else:
                net.inject(conn, 0.05, bytes(app.lan.response_packet(conn, app.ac.status_frame())))
            net.tick(0.3)
            acb = new_client()
            net.run(acb.refresh())
            set_attributes(acb, AC, plan["idle_push"])
            net.run(acb.apply())
            returned = record_returns(ac)
            net.run(ac.refresh())
            obs["idle_push"] = {"read": client_view(ac), "got_current_report": has_report_of(model, returned, app.ac.state),
                                "expected": expected_client_view(model, app.ac.state, ac.supports_custom_fan_speed),
                                "device": list(app.ac.state)}
            obs["earlier_views"] = [expected_client_view(model, h, ac2.supports_custom_fan_speed) for h in app.ac.history[:-1]]
        if plan.get("local_edit"):
            # the user changes attributes locally and does NOT apply them; a refresh must show the appliance's state again
            set_attributes(ac, AC, plan["local_edit"])
            net.run(ac.refresh())
            obs["local_edit"] = {"read": client_view(ac), "expected": expected_client_view(model, app.ac.state, ac.supports_custom_fan_speed)}
        obs["rejected_frames"] = len(app.ac.rejected)
    except BaseException as e:  # noqa: BLE001
        obs["status"] = exn_code(e)
        obs["error"] = repr(e)[:200]
    net.close()
    return obs
