#!/bin/bash
# tools/allquick.sh [seed] [tier] : run every claimed check on the unchanged tree and summarise (exit 1 if any check exits non-zero)
cd "$(dirname "$0")/.."
export VERIF_SEED=${1:-0}
tier=${2:-quick}
bad=0
for i in 01 02 03 04 05 06 07 08 09 10 11 12 13 14 15 16 17 18 19 20; do
  out=$(./check C$i $tier 2>&1); rc=$?
  echo "$out" | grep -E "^VIOLATION|^KNOWN-FINDING|$tier:" | cut -c1-200
  [ $rc -ne 0 ] && { echo "C$i EXIT $rc"; bad=1; }
done
exit $bad
