#!/usr/bin/env python3
"""Regenerate the seeded-change table in DESIGN.md (between the SEEDTABLE markers) from seeded/*/*/meta.json."""
import glob
import json
import os
import re

ROOT = os.path.dirname(os.path.dirname(os.path.abspath(__file__)))
rows = ["| seed | change (one line) | confirmed on current tree | `./check <id> quick` on the changed /repo |", "|---|---|---|---|"]
for mp in sorted(glob.glob(os.path.join(ROOT, "seeded", "C[0-9][0-9]", "m*", "meta.json"))):
    m = json.load(open(mp))
    d = os.path.dirname(mp)
    title = ""
    notes = os.path.join(d, "notes.md")
    if os.path.exists(notes):
        first = open(notes).read().strip().splitlines()[0]
        title = re.sub(r"^#+\s*", "", first)
        title = re.sub(r"^C\d\d\s*/\s*m\d\s*[-—–:]*\s*", "", title)[:110]
    conf = "yes" if m.get("confirmed") else ("no longer breaks the property (neutralised by a fix)" if m.get("expected_detected") is False else "no")
    if "check_on_changed_repo" not in m:
        verdict = "(not run)"
    else:
        lines = [l for ls in m["check_on_changed_repo"].values() for l in ls if l.startswith("VIOLATION")]
        if lines:
            verdict = "VIOLATION with failing input" if m.get("detected_with_failing_input") else "VIOLATION … no-failing-input-found"
        else:
            verdict = "passes (expected)" if m.get("expected_detected") is False else "**missed**"
    rows.append(f"| {m['property']}/{m['seed']} | {title} | {conf} | {verdict} |")
table = "\n".join(rows)
p = os.path.join(ROOT, "DESIGN.md")
s = open(p).read()
if "<!-- SEEDTABLE-BEGIN -->" in s:
    s = re.sub(r"<!-- SEEDTABLE-BEGIN -->.*?<!-- SEEDTABLE-END -->", "<!-- SEEDTABLE-BEGIN -->\n" + table + "\n<!-- SEEDTABLE-END -->", s, flags=re.S)
else:
    s = s.replace("\nSEEDTABLE\n", "\n<!-- SEEDTABLE-BEGIN -->\n" + table + "\n<!-- SEEDTABLE-END -->\n")
open(p, "w").write(s)
print(table)
