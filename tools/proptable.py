#!/usr/bin/env python3
"""Regenerate the per-property table in DESIGN.md §0.7 from coq/props/*.v, tools/claimed.json and evidence/*.json."""
import json
import os
import re

ROOT = os.path.dirname(os.path.dirname(os.path.abspath(__file__)))
claimed = json.load(open(os.path.join(ROOT, "tools", "claimed.json")))
rows = ["| id | property theorems (`coq/props/Cxx.v`, all closed) | last run: evaluations / distinct / wall | findings |", "|---|---|---|---|"]
kf = json.load(open(os.path.join(ROOT, "known_findings.json")))["findings"]
for i in range(1, 21):
    pid = f"C{i:02d}"
    src = open(os.path.join(ROOT, "coq", "props", pid + ".v")).read()
    src = re.sub(r"\(\*.*?\*\)", "", src, flags=re.S)
    ths = re.findall(r"^\s*Theorem\s+(\w+)", src, flags=re.M)
    ths = [t.replace(pid + "_", "") for t in ths]
    ev = {}
    p = os.path.join(ROOT, "evidence", pid + ".json")
    if os.path.exists(p):
        ev = json.load(open(p))
    cov = ev.get("coverage", {})
    run = f"{cov.get('evaluations', '?')} / {cov.get('distinct_nontrivial', '?')} / {ev.get('wall_s', '?')} s ({ev.get('tier', '?')})"
    fs = ", ".join(f"{f['id']} ({'fixed ' + f['commit'] if f['status'] == 'fixed' else 'known'})" for f in kf if f["property"] == pid) or "—"
    rows.append(f"| {pid} | {len(ths)}: " + ", ".join(ths) + f" | {run} | {fs} |")
table = "\n".join(rows)
p = os.path.join(ROOT, "DESIGN.md")
s = open(p).read()
s = re.sub(r"<!-- PROPTABLE-BEGIN -->.*?<!-- PROPTABLE-END -->", "<!-- PROPTABLE-BEGIN -->\n" + table + "\n<!-- PROPTABLE-END -->", s, flags=re.S)
open(p, "w").write(s)
print(table[:600])
