#!/usr/bin/env python3
"""Regenerate MANIFEST.json from the table below (claimed checks) + properties.jsonl (the rest -> not_applicable)."""
import json, os
ROOT = os.path.dirname(os.path.dirname(os.path.abspath(__file__)))
CLAIMED = json.load(open(os.path.join(ROOT, "tools", "claimed.json")))
props = [json.loads(l) for l in open(os.path.join(ROOT, "properties.jsonl"))]
NOTE = ("Trusted: Coq 8.16.1 kernel + vm_compute (no native_compute); no axioms (every property theorem prints 'Closed under the "
        "global context'); the fail-closed ast translator for constants; ExtrOcamlBasic extraction + driver (cross-checked "
        "against vm_compute each run); the Python correspondence harness; the hand-written specs in coq/spec. ")
checks = []
for p in props:
    c = CLAIMED.get(p["id"])
    if not c:
        continue
    checks.append({
        "property_id": p["id"], "quick_cmd": f"./check {p['id']} quick", "thorough_cmd": f"./check {p['id']} thorough",
        "evidence_file": f"evidence/{p['id']}.json", "replay_cmd_template": f"./check {p['id']} --replay {{path}}",
        "engine": "coq-msmart",
        "level_claimed": {"category": "proof", "text": c["text"], "design_ref": c.get("design_ref", "DESIGN.md section 7")},
        "level_note": NOTE + c.get("note", ""),
        "technique": c.get("technique", "machine-checked proof in Coq about a model tied to the code by regenerated constants and a differential correspondence check"),
    })
m = {"version": 1, "setup_cmd": "./setup.sh",
     "hooks": {"guard": "MSMART_VERIF", "enable": "no source hooks are needed: the harness substitutes clock, randomness, event loop and HTTP client from outside (DESIGN.md section 3b); the guard variable is reserved and guards nothing",
               "baseline_off_cmd": "cd /repo && /venv/bin/python -m pytest -ra -q -p no:cacheprovider --timeout=900 --continue-on-collection-errors",
               "source_commits": [], "add_only": True},
     "engines": [{"name": "coq-msmart", "path": "coq/", "serves_properties": sorted(CLAIMED),
                  "kind_free_text": "Coq 8.16 development (model, spec, proofs, props) + generated constants + extracted OCaml evaluator + Python correspondence/oracle harness"}],
     "checks": checks,
     "notes": "Machine-checked proof in Coq 8.16.1; see DESIGN.md. ./check Cxx quick|thorough; known findings in known_findings.json.",
     "not_applicable": [{"property_id": p["id"], "reason": "check not built yet at this commit (build in progress, order in DESIGN.md section 9); not a claim that the technique cannot apply"} for p in props if p["id"] not in CLAIMED]}
json.dump(m, open(os.path.join(ROOT, "MANIFEST.json"), "w"), indent=1)
print("claimed:", sorted(CLAIMED))
