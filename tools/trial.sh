#!/bin/sh
# tools/trial.sh <patch.diff> <Cxx> [tier]  : apply a seeded change to /repo, run the check, undo it.
patch="$1"; pid="$2"; tier="${3:-quick}"
cd /verif
git -C /repo diff --quiet || { echo "/repo not clean"; exit 2; }
git -C /repo apply "$patch" || { echo "patch does not apply"; exit 2; }
./check "$pid" "$tier"; rc=$?
git -C /repo checkout -- .
echo "exit=$rc"
