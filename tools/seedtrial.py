#!/usr/bin/env python3
"""Confirm and record seeded (property-breaking) changes.

phase A  (tools/seedtrial.py A <seeds-root>): for every <seeds-root>/<Cxx>/<mN>/ with patch.diff (or patch.rebased.diff) and
         demo.py: in a scratch git worktree of /repo under /tmp - demo on the unchanged tree must exit 0, the patch must apply,
         the demo on the changed tree must exit non-zero, the repository's test-suite must still give the baseline result.
         Confirmed seeds are copied to /verif/seeded/<Cxx>/<mN>/ with a meta.json.
phase B  (tools/seedtrial.py B): for every /verif/seeded/<Cxx>/<mN>/ apply the patch to /repo, run ./check <Cxx> quick,
         undo the change straight away, and record the verdict line in meta.json.
Nothing is ever committed to /repo."""
import glob
import json
import os
import re
import shutil
import subprocess
import sys

ROOT = os.path.dirname(os.path.dirname(os.path.abspath(__file__)))
WT = "/tmp/seedwt"
PY = "/venv/bin/python"
BASELINE = "6 failed, 65 passed"


def sh(cmd, cwd=None, env=None, timeout=1800):
    p = subprocess.run(cmd, shell=True, cwd=cwd, env=env, stdout=subprocess.PIPE, stderr=subprocess.STDOUT, text=True, timeout=timeout)
    return p.returncode, p.stdout


def worktree():
    sh(f"git -C /repo worktree remove --force {WT}")
    shutil.rmtree(WT, ignore_errors=True)
    rc, out = sh(f"git -C /repo worktree add --detach {WT} HEAD")
    assert rc == 0, out


def drop_worktree():
    sh(f"git -C /repo worktree remove --force {WT}")
    shutil.rmtree(WT, ignore_errors=True)
    sh("git -C /repo worktree prune")


def run_demo(demo, tree):
    env = dict(os.environ, PYTHONPATH=tree, PYTHONHASHSEED="0")
    rc, out = sh(f"{PY} {demo}", cwd=os.path.dirname(demo), env=env, timeout=900)
    return rc, out[-600:]


def phase_a(root):
    for d in sorted(glob.glob(os.path.join(root, "C[0-9][0-9]", "m*"))):
        pid, name = d.split(os.sep)[-2:]
        patch = os.path.join(d, "patch.rebased.diff") if os.path.exists(os.path.join(d, "patch.rebased.diff")) else os.path.join(d, "patch.diff")
        demo = os.path.join(d, "demo.py")
        if not (os.path.exists(patch) and os.path.exists(demo)):
            print(pid, name, "SKIP (no patch/demo)")
            continue
        meta = {"property": pid, "seed": name, "source": "fresh sub-agent given only the property text and a scratch worktree",
                "patch": os.path.basename(patch), "repo_head": sh("git -C /repo rev-parse --short HEAD")[1].strip()}
        worktree()
        rc0, out0 = run_demo(demo, WT)
        meta["demo_unchanged_tree"] = {"exit": rc0, "tail": out0[-300:]}
        rc, out = sh(f"git -C {WT} apply {patch}")
        meta["applies"] = rc == 0
        if rc != 0:
            meta["apply_error"] = out[-300:]
            meta["confirmed"] = False
        else:
            rc1, out1 = run_demo(demo, WT)
            meta["demo_changed_tree"] = {"exit": rc1, "tail": out1[-400:]}
            rct, outt = sh(f"{PY} -m pytest -q -p no:cacheprovider --timeout=900 --continue-on-collection-errors 2>&1 | tail -1", cwd=WT,
                           env=dict(os.environ, PYTHONPATH=WT))
            meta["test_suite_changed_tree"] = outt.strip()[-80:]
            meta["confirmed"] = rc0 == 0 and rc1 != 0 and BASELINE in outt
            meta["breaks_property_on_current_tree"] = rc1 != 0
        drop_worktree()
        notes = os.path.join(d, "notes.md")
        if os.path.exists(notes):
            txt = open(notes).read()
            m = re.search(r"(?:Condition to manifest|Needs to manifest|Condition)[^\n]*:?\s*(.+?)(?:\n\n|\n- |\nCommands|\Z)", txt, flags=re.S | re.I)
            meta["needs_to_manifest"] = (m.group(1).strip()[:600] if m else "see notes.md")
        meta["ran"] = [f"git -C /repo worktree add --detach {WT} HEAD", f"PYTHONPATH={WT} {PY} demo.py  (unchanged tree)",
                       f"git -C {WT} apply {os.path.basename(patch)}", f"PYTHONPATH={WT} {PY} demo.py  (changed tree)",
                       f"cd {WT} && {PY} -m pytest -q -p no:cacheprovider --timeout=900 --continue-on-collection-errors",
                       f"git -C /repo worktree remove --force {WT}"]
        out = os.path.join(ROOT, "seeded", pid, name)
        os.makedirs(out, exist_ok=True)
        shutil.copy(patch, os.path.join(out, "patch.diff"))
        shutil.copy(demo, os.path.join(out, "demo.py"))
        if os.path.exists(notes):
            shutil.copy(notes, os.path.join(out, "notes.md"))
        json.dump(meta, open(os.path.join(out, "meta.json"), "w"), indent=1)
        print(pid, name, "confirmed" if meta.get("confirmed") else "NOT-CONFIRMED", meta.get("demo_unchanged_tree", {}).get("exit"),
              meta.get("demo_changed_tree", {}).get("exit"), meta.get("test_suite_changed_tree"), "" if meta["applies"] else "PATCH DOES NOT APPLY")


def phase_b(only=None):
    rc, out = sh("git -C /repo status --porcelain")
    assert out.strip() == "", "/repo is not clean"
    for d in sorted(glob.glob(os.path.join(ROOT, "seeded", "C[0-9][0-9]", "m*"))):
        pid, name = d.split(os.sep)[-2:]
        if only and pid not in only and f"{pid}/{name}" not in only:
            continue
        mp = os.path.join(d, "meta.json")
        meta = json.load(open(mp))
        if not meta.get("applies"):
            print(pid, name, "skipped (patch does not apply)")
            continue
        checks = meta.get("also_check", []) + [pid]
        verdicts = {}
        try:
            rc, out = sh(f"git -C /repo apply {os.path.join(d, 'patch.diff')}")
            assert rc == 0, out
            for c in checks:
                rc, out = sh(f"./check {c} quick 2>&1 | grep -E '^VIOLATION|^KNOWN|quick:' | cut -c1-260", cwd=ROOT, timeout=3000)
                verdicts[c] = out.strip().splitlines()
        finally:
            sh("git -C /repo checkout -- .")
        meta["check_on_changed_repo"] = verdicts
        meta["detected"] = any(l.startswith("VIOLATION") for ls in verdicts.values() for l in ls)
        meta["detected_with_failing_input"] = any(l.startswith("VIOLATION") and "no-failing-input-found" not in l
                                                  for ls in verdicts.values() for l in ls)
        json.dump(meta, open(mp, "w"), indent=1)
        print(pid, name, "DETECTED" if meta["detected"] else "MISSED", "(failing input)" if meta["detected_with_failing_input"] else "",
              "" if meta.get("confirmed") else "[seed not confirmed on current tree]")
    rc, out = sh("git -C /repo status --porcelain")
    assert out.strip() == "", "/repo left dirty!"


if __name__ == "__main__":
    if sys.argv[1] == "A":
        phase_a(sys.argv[2])
    else:
        phase_b(set(sys.argv[2:]) or None)
