(* Generic line-oriented evaluator over the extracted model.
   input line :  fid;a,b,c;d,e;...      (decimal integers, possibly negative; empty field = empty list)
   output line:  status;a,b;c;...                                                              *)
open Model

let rec pos_of_int n = if n = 1 then XH else if n land 1 = 0 then XO (pos_of_int (n lsr 1)) else XI (pos_of_int (n lsr 1))
let z_of_int n = if n = 0 then Z0 else if n > 0 then Zpos (pos_of_int n) else Zneg (pos_of_int (- n))
let rec int_of_pos = function XH -> 1 | XO p -> 2 * int_of_pos p | XI p -> 2 * int_of_pos p + 1
let int_of_z = function Z0 -> 0 | Zpos p -> int_of_pos p | Zneg p -> - (int_of_pos p)

let parse_list s = if s = "" then [] else List.map (fun t -> z_of_int (int_of_string t)) (String.split_on_char ',' s)
let show_list l = String.concat "," (List.map (fun z -> string_of_int (int_of_z z)) l)

let () =
  let interactive = Array.length Sys.argv > 1 && Sys.argv.(1) = "-i" in
  let ic = if Array.length Sys.argv > 1 && not interactive then open_in Sys.argv.(1) else stdin in
  let buf = Buffer.create (1 lsl 20) in
  (try
    while true do
      let line = input_line ic in
      (match String.split_on_char ';' line with
       | [] -> ()
       | fid :: args ->
         let (st, outs) = run (z_of_int (int_of_string fid)) (List.map parse_list args) in
         Buffer.add_string buf (string_of_int (int_of_z st));
         List.iter (fun o -> Buffer.add_char buf ';'; Buffer.add_string buf (show_list o)) outs;
         Buffer.add_char buf '\n');
      if interactive || Buffer.length buf > (1 lsl 19) then (Stdlib.print_string (Buffer.contents buf); Stdlib.flush Stdlib.stdout; Buffer.clear buf)
    done
  with End_of_file -> ());
  Stdlib.print_string (Buffer.contents buf)
