#!/bin/sh
# Build the whole framework from files on disk only (offline).
cd "$(dirname "$0")" && exec /venv/bin/python harness/build.py --full
