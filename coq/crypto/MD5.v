(* MD5 (RFC 1321) as an executable Gallina function on byte lists.
   Definitions and test vectors only; no proofs live here. *)
From MS Require Import lib.Base.

(* floor(2^32 * |sin(i + 1)|) *)
Definition md5_k : list N := [
  0xd76aa478; 0xe8c7b756; 0x242070db; 0xc1bdceee; 0xf57c0faf; 0x4787c62a; 0xa8304613; 0xfd469501;
  0x698098d8; 0x8b44f7af; 0xffff5bb1; 0x895cd7be; 0x6b901122; 0xfd987193; 0xa679438e; 0x49b40821;
  0xf61e2562; 0xc040b340; 0x265e5a51; 0xe9b6c7aa; 0xd62f105d; 0x02441453; 0xd8a1e681; 0xe7d3fbc8;
  0x21e1cde6; 0xc33707d6; 0xf4d50d87; 0x455a14ed; 0xa9e3e905; 0xfcefa3f8; 0x676f02d9; 0x8d2a4c8a;
  0xfffa3942; 0x8771f681; 0x6d9d6122; 0xfde5380c; 0xa4beea44; 0x4bdecfa9; 0xf6bb4b60; 0xbebfbc70;
  0x289b7ec6; 0xeaa127fa; 0xd4ef3085; 0x04881d05; 0xd9d4d039; 0xe6db99e5; 0x1fa27cf8; 0xc4ac5665;
  0xf4292244; 0x432aff97; 0xab9423a7; 0xfc93a039; 0x655b59c3; 0x8f0ccc92; 0xffeff47d; 0x85845dd1;
  0x6fa87e4f; 0xfe2ce6e0; 0xa3014314; 0x4e0811a1; 0xf7537e82; 0xbd3af235; 0x2ad7d2bb; 0xeb86d391].

(* per-round left-rotation amounts *)
Definition md5_s : list N := [
  7; 12; 17; 22; 7; 12; 17; 22; 7; 12; 17; 22; 7; 12; 17; 22;
  5; 9; 14; 20; 5; 9; 14; 20; 5; 9; 14; 20; 5; 9; 14; 20;
  4; 11; 16; 23; 4; 11; 16; 23; 4; 11; 16; 23; 4; 11; 16; 23;
  6; 10; 15; 21; 6; 10; 15; 21; 6; 10; 15; 21; 6; 10; 15; 21].

Definition md5_add (a b : N) : N := (a + b) mod 4294967296.
Definition md5_rotl (x n : N) : N :=
  (N.lor (N.shiftl x n) (N.shiftr x (32 - n))) mod 4294967296.
Definition md5_not (x : N) : N := N.lxor (x mod 4294967296) 4294967295.

(* message padding: 0x80, zeros up to 56 mod 64, then the bit length on 8 bytes little-endian *)
Definition md5_pad (m : bytes) : bytes :=
  let n := length m in
  m ++ 128 :: zeros ((119 - n mod 64) mod 64)
    ++ le_bytes 8 ((8 * N.of_nat n) mod 18446744073709551616).

(* little-endian 32-bit words *)
Fixpoint md5_words (l : bytes) : list N :=
  match l with
  | a :: b :: c :: d :: t => (a + 256 * (b + 256 * (c + 256 * d))) :: md5_words t
  | _ => []
  end.

Definition md5_state := (N * N * N * N)%type.

(* one of the 64 operations; i is the operation index, k and s its constant and shift *)
Definition md5_step (m : list N) (st : md5_state) (iks : N * (N * N)) : md5_state :=
  let '(a, b, c, d) := st in
  let '(i, (k, s)) := iks in
  let '(f, g) :=
    if i <? 16 then (N.lxor d (N.land b (N.lxor c d)), i)
    else if i <? 32 then (N.lxor c (N.land d (N.lxor b c)), (5 * i + 1) mod 16)
    else if i <? 48 then (N.lxor (N.lxor b c) d, (3 * i + 5) mod 16)
    else (N.lxor c (N.lor b (md5_not d)), (7 * i) mod 16) in
  let x := (f + a + k + nth (N.to_nat g) m 0) mod 4294967296 in
  (d, md5_add b (md5_rotl x s), b, c).

Definition md5_idx : list N := map N.of_nat (seq 0 64).
Definition md5_ops : list (N * (N * N)) := combine md5_idx (combine md5_k md5_s).

Definition md5_compress (st : md5_state) (blk : bytes) : md5_state :=
  let m := md5_words blk in
  let '(a, b, c, d) := fold_left (md5_step m) md5_ops st in
  let '(a0, b0, c0, d0) := st in
  (md5_add a0 a, md5_add b0 b, md5_add c0 c, md5_add d0 d).

Fixpoint md5_blocks (fuel : nat) (st : md5_state) (l : bytes) : md5_state :=
  match fuel with
  | O => st
  | S f => md5_blocks f (md5_compress st (firstn 64 l)) (skipn 64 l)
  end.

Definition md5_init : md5_state := (0x67452301, 0xefcdab89, 0x98badcfe, 0x10325476).

Definition md5 (m : bytes) : bytes :=
  let p := md5_pad m in
  let '(a, b, c, d) := md5_blocks (length p / 64) md5_init p in
  le_bytes 4 a ++ le_bytes 4 b ++ le_bytes 4 c ++ le_bytes 4 d.

(* Test vectors: hashlib.md5 on inputs of 0, 3 ("abc"), 55, 56, 64 and 100 bytes. *)
Example md5_tv_0 :
  md5 []
  = [212; 29; 140; 217; 143; 0; 178; 4; 233; 128; 9; 152; 236; 248; 66; 126].
Proof. vm_compute. reflexivity. Qed.
Example md5_tv_3 :
  md5 [97; 98; 99]
  = [144; 1; 80; 152; 60; 210; 79; 176; 214; 150; 63; 125; 40; 225; 127; 114].
Proof. vm_compute. reflexivity. Qed.
Example md5_tv_55 :
  md5 [213; 5; 152; 188; 99; 138; 223; 82; 191; 63; 221; 133; 89; 95; 181; 46; 211; 85; 75; 105; 39; 97; 174; 164; 12; 234; 173; 13; 212; 1; 3; 83; 91; 146; 50; 212; 54; 93; 192; 119; 168; 20; 118; 61; 255; 110; 95; 131; 222; 66; 21; 84; 154; 4; 76]
  = [13; 203; 46; 121; 194; 245; 7; 0; 184; 191; 171; 18; 156; 84; 248; 115].
Proof. vm_compute. reflexivity. Qed.
Example md5_tv_56 :
  md5 [117; 179; 175; 80; 197; 165; 6; 25; 31; 227; 40; 198; 91; 5; 188; 110; 62; 246; 31; 7; 251; 166; 215; 103; 186; 61; 76; 40; 253; 84; 171; 118; 104; 83; 83; 147; 76; 46; 1; 75; 1; 253; 94; 49; 135; 207; 33; 235; 213; 93; 124; 94; 13; 190; 169; 90]
  = [242; 104; 255; 148; 94; 78; 141; 56; 91; 151; 83; 194; 189; 236; 45; 162].
Proof. vm_compute. reflexivity. Qed.
Example md5_tv_64 :
  md5 [202; 91; 91; 127; 211; 213; 166; 61; 34; 235; 99; 103; 69; 119; 169; 149; 64; 30; 133; 218; 22; 186; 55; 34; 79; 190; 18; 140; 227; 188; 205; 157; 229; 135; 159; 252; 245; 25; 135; 228; 15; 112; 176; 69; 1; 42; 15; 56; 96; 203; 251; 93; 139; 178; 106; 153; 161; 198; 38; 154; 188; 20; 214; 97]
  = [227; 208; 42; 20; 191; 243; 192; 91; 114; 150; 202; 59; 36; 251; 224; 50].
Proof. vm_compute. reflexivity. Qed.
Example md5_tv_100 :
  md5 [82; 41; 73; 156; 118; 170; 217; 102; 7; 76; 58; 16; 174; 200; 163; 20; 123; 51; 248; 76; 105; 132; 183; 81; 145; 19; 46; 48; 106; 209; 7; 77; 166; 83; 234; 212; 225; 12; 190; 14; 198; 181; 8; 163; 240; 224; 23; 163; 160; 199; 152; 64; 194; 29; 56; 248; 60; 49; 89; 17; 26; 158; 110; 49; 235; 255; 240; 30; 216; 112; 113; 168; 83; 196; 123; 241; 92; 106; 109; 81; 233; 7; 99; 37; 35; 62; 48; 135; 120; 109; 142; 115; 254; 189; 228; 206; 127; 230; 55; 15]
  = [152; 159; 92; 179; 89; 211; 49; 131; 52; 2; 43; 44; 230; 75; 67; 179].
Proof. vm_compute. reflexivity. Qed.
