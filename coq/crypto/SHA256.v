(* SHA-256 (FIPS 180-4) as an executable Gallina function on byte lists.
   Definitions and test vectors only; no proofs live here. *)
From MS Require Import lib.Base.

Definition sha256_k : list N := [
  0x428a2f98; 0x71374491; 0xb5c0fbcf; 0xe9b5dba5; 0x3956c25b; 0x59f111f1; 0x923f82a4; 0xab1c5ed5;
  0xd807aa98; 0x12835b01; 0x243185be; 0x550c7dc3; 0x72be5d74; 0x80deb1fe; 0x9bdc06a7; 0xc19bf174;
  0xe49b69c1; 0xefbe4786; 0x0fc19dc6; 0x240ca1cc; 0x2de92c6f; 0x4a7484aa; 0x5cb0a9dc; 0x76f988da;
  0x983e5152; 0xa831c66d; 0xb00327c8; 0xbf597fc7; 0xc6e00bf3; 0xd5a79147; 0x06ca6351; 0x14292967;
  0x27b70a85; 0x2e1b2138; 0x4d2c6dfc; 0x53380d13; 0x650a7354; 0x766a0abb; 0x81c2c92e; 0x92722c85;
  0xa2bfe8a1; 0xa81a664b; 0xc24b8b70; 0xc76c51a3; 0xd192e819; 0xd6990624; 0xf40e3585; 0x106aa070;
  0x19a4c116; 0x1e376c08; 0x2748774c; 0x34b0bcb5; 0x391c0cb3; 0x4ed8aa4a; 0x5b9cca4f; 0x682e6ff3;
  0x748f82ee; 0x78a5636f; 0x84c87814; 0x8cc70208; 0x90befffa; 0xa4506ceb; 0xbef9a3f7; 0xc67178f2].

Definition sha256_mask (x : N) : N := x mod 4294967296.
Definition sha256_add (a b : N) : N := (a + b) mod 4294967296.
Definition sha256_rotr (x n : N) : N :=
  (N.lor (N.shiftr x n) (N.shiftl x (32 - n))) mod 4294967296.

Definition sha256_ch (e f g : N) : N := N.lxor g (N.land e (N.lxor f g)).
Definition sha256_maj (a b c : N) : N :=
  N.lxor (N.lxor (N.land a b) (N.land a c)) (N.land b c).
Definition sha256_bsig0 (x : N) : N :=
  N.lxor (N.lxor (sha256_rotr x 2) (sha256_rotr x 13)) (sha256_rotr x 22).
Definition sha256_bsig1 (x : N) : N :=
  N.lxor (N.lxor (sha256_rotr x 6) (sha256_rotr x 11)) (sha256_rotr x 25).
Definition sha256_ssig0 (x : N) : N :=
  N.lxor (N.lxor (sha256_rotr x 7) (sha256_rotr x 18)) (N.shiftr x 3).
Definition sha256_ssig1 (x : N) : N :=
  N.lxor (N.lxor (sha256_rotr x 17) (sha256_rotr x 19)) (N.shiftr x 10).

(* message padding: 0x80, zeros up to 56 mod 64, then the bit length on 8 bytes big-endian *)
Definition sha256_pad (m : bytes) : bytes :=
  let n := length m in
  m ++ 128 :: zeros ((119 - n mod 64) mod 64)
    ++ be_bytes 8 ((8 * N.of_nat n) mod 18446744073709551616).

(* big-endian 32-bit words *)
Fixpoint sha256_words (l : bytes) : list N :=
  match l with
  | a :: b :: c :: d :: t => (((a * 256 + b) * 256 + c) * 256 + d) :: sha256_words t
  | _ => []
  end.

(* message schedule, most recent word first *)
Fixpoint sha256_sched (n : nat) (r : list N) : list N :=
  match n with
  | O => r
  | S n' =>
    let w := sha256_add (sha256_add (sha256_ssig1 (nth 1 r 0)) (nth 6 r 0))
                        (sha256_add (sha256_ssig0 (nth 14 r 0)) (nth 15 r 0)) in
    sha256_sched n' (w :: r)
  end.
Definition sha256_schedule (w16 : list N) : list N := rev (sha256_sched 48 (rev w16)).

Definition sha256_state := (N * N * N * N * N * N * N * N)%type.

Definition sha256_round (s : sha256_state) (kw : N * N) : sha256_state :=
  let '(a, b, c, d, e, f, g, h) := s in
  let '(k, w) := kw in
  let t1 := (h + sha256_bsig1 e + sha256_ch e f g + k + w) mod 4294967296 in
  let t2 := (sha256_bsig0 a + sha256_maj a b c) mod 4294967296 in
  (sha256_add t1 t2, a, b, c, sha256_add d t1, e, f, g).

Definition sha256_compress (s : sha256_state) (blk : bytes) : sha256_state :=
  let w := sha256_schedule (sha256_words blk) in
  let '(a, b, c, d, e, f, g, h) := fold_left sha256_round (combine sha256_k w) s in
  let '(a0, b0, c0, d0, e0, f0, g0, h0) := s in
  (sha256_add a0 a, sha256_add b0 b, sha256_add c0 c, sha256_add d0 d,
   sha256_add e0 e, sha256_add f0 f, sha256_add g0 g, sha256_add h0 h).

Fixpoint sha256_blocks (fuel : nat) (s : sha256_state) (l : bytes) : sha256_state :=
  match fuel with
  | O => s
  | S f => sha256_blocks f (sha256_compress s (firstn 64 l)) (skipn 64 l)
  end.

Definition sha256_init : sha256_state :=
  (0x6a09e667, 0xbb67ae85, 0x3c6ef372, 0xa54ff53a, 0x510e527f, 0x9b05688c, 0x1f83d9ab, 0x5be0cd19).

Definition sha256 (m : bytes) : bytes :=
  let p := sha256_pad m in
  let '(a, b, c, d, e, f, g, h) := sha256_blocks (length p / 64) sha256_init p in
  be_bytes 4 a ++ be_bytes 4 b ++ be_bytes 4 c ++ be_bytes 4 d ++
  be_bytes 4 e ++ be_bytes 4 f ++ be_bytes 4 g ++ be_bytes 4 h.

(* Test vectors: hashlib.sha256 on inputs of 0, 3 ("abc"), 55, 56, 64 and 100 bytes. *)
Example sha256_tv_0 :
  sha256 []
  = [227; 176; 196; 66; 152; 252; 28; 20; 154; 251; 244; 200; 153; 111; 185; 36; 39; 174; 65; 228; 100; 155; 147; 76; 164; 149; 153; 27; 120; 82; 184; 85].
Proof. vm_compute. reflexivity. Qed.
Example sha256_tv_3 :
  sha256 [97; 98; 99]
  = [186; 120; 22; 191; 143; 1; 207; 234; 65; 65; 64; 222; 93; 174; 34; 35; 176; 3; 97; 163; 150; 23; 122; 156; 180; 16; 255; 97; 242; 0; 21; 173].
Proof. vm_compute. reflexivity. Qed.
Example sha256_tv_55 :
  sha256 [213; 5; 152; 188; 99; 138; 223; 82; 191; 63; 221; 133; 89; 95; 181; 46; 211; 85; 75; 105; 39; 97; 174; 164; 12; 234; 173; 13; 212; 1; 3; 83; 91; 146; 50; 212; 54; 93; 192; 119; 168; 20; 118; 61; 255; 110; 95; 131; 222; 66; 21; 84; 154; 4; 76]
  = [10; 112; 10; 252; 240; 81; 170; 138; 40; 161; 115; 69; 158; 20; 40; 5; 84; 120; 44; 211; 239; 92; 42; 76; 157; 98; 131; 1; 154; 14; 70; 11].
Proof. vm_compute. reflexivity. Qed.
Example sha256_tv_56 :
  sha256 [117; 179; 175; 80; 197; 165; 6; 25; 31; 227; 40; 198; 91; 5; 188; 110; 62; 246; 31; 7; 251; 166; 215; 103; 186; 61; 76; 40; 253; 84; 171; 118; 104; 83; 83; 147; 76; 46; 1; 75; 1; 253; 94; 49; 135; 207; 33; 235; 213; 93; 124; 94; 13; 190; 169; 90]
  = [201; 172; 156; 128; 6; 158; 193; 238; 137; 49; 35; 91; 235; 74; 27; 172; 199; 142; 255; 119; 229; 127; 27; 119; 122; 125; 89; 239; 87; 200; 87; 103].
Proof. vm_compute. reflexivity. Qed.
Example sha256_tv_64 :
  sha256 [202; 91; 91; 127; 211; 213; 166; 61; 34; 235; 99; 103; 69; 119; 169; 149; 64; 30; 133; 218; 22; 186; 55; 34; 79; 190; 18; 140; 227; 188; 205; 157; 229; 135; 159; 252; 245; 25; 135; 228; 15; 112; 176; 69; 1; 42; 15; 56; 96; 203; 251; 93; 139; 178; 106; 153; 161; 198; 38; 154; 188; 20; 214; 97]
  = [227; 99; 96; 83; 90; 59; 9; 3; 140; 151; 221; 194; 219; 175; 3; 220; 254; 0; 247; 173; 97; 10; 20; 99; 108; 179; 241; 156; 60; 234; 8; 204].
Proof. vm_compute. reflexivity. Qed.
Example sha256_tv_100 :
  sha256 [82; 41; 73; 156; 118; 170; 217; 102; 7; 76; 58; 16; 174; 200; 163; 20; 123; 51; 248; 76; 105; 132; 183; 81; 145; 19; 46; 48; 106; 209; 7; 77; 166; 83; 234; 212; 225; 12; 190; 14; 198; 181; 8; 163; 240; 224; 23; 163; 160; 199; 152; 64; 194; 29; 56; 248; 60; 49; 89; 17; 26; 158; 110; 49; 235; 255; 240; 30; 216; 112; 113; 168; 83; 196; 123; 241; 92; 106; 109; 81; 233; 7; 99; 37; 35; 62; 48; 135; 120; 109; 142; 115; 254; 189; 228; 206; 127; 230; 55; 15]
  = [167; 14; 94; 173; 230; 114; 211; 140; 60; 113; 115; 120; 244; 23; 41; 227; 231; 218; 177; 19; 70; 195; 24; 49; 204; 154; 226; 255; 185; 82; 67; 221].
Proof. vm_compute. reflexivity. Qed.
