(* AES-128 / AES-256 block cipher (FIPS 197) as executable Gallina functions.
   A state is a list of 16 bytes in the FIPS-197 input order (column-major:
   byte 4*c + r is row r of column c), so block bytes map to state bytes in order.
   Definitions and test vectors only; the inverse theorems are in proofs/AESInv.v. *)
From MS Require Import lib.Base.

Definition sbox : list N := [
  0x63; 0x7c; 0x77; 0x7b; 0xf2; 0x6b; 0x6f; 0xc5; 0x30; 0x01; 0x67; 0x2b; 0xfe; 0xd7; 0xab; 0x76;
  0xca; 0x82; 0xc9; 0x7d; 0xfa; 0x59; 0x47; 0xf0; 0xad; 0xd4; 0xa2; 0xaf; 0x9c; 0xa4; 0x72; 0xc0;
  0xb7; 0xfd; 0x93; 0x26; 0x36; 0x3f; 0xf7; 0xcc; 0x34; 0xa5; 0xe5; 0xf1; 0x71; 0xd8; 0x31; 0x15;
  0x04; 0xc7; 0x23; 0xc3; 0x18; 0x96; 0x05; 0x9a; 0x07; 0x12; 0x80; 0xe2; 0xeb; 0x27; 0xb2; 0x75;
  0x09; 0x83; 0x2c; 0x1a; 0x1b; 0x6e; 0x5a; 0xa0; 0x52; 0x3b; 0xd6; 0xb3; 0x29; 0xe3; 0x2f; 0x84;
  0x53; 0xd1; 0x00; 0xed; 0x20; 0xfc; 0xb1; 0x5b; 0x6a; 0xcb; 0xbe; 0x39; 0x4a; 0x4c; 0x58; 0xcf;
  0xd0; 0xef; 0xaa; 0xfb; 0x43; 0x4d; 0x33; 0x85; 0x45; 0xf9; 0x02; 0x7f; 0x50; 0x3c; 0x9f; 0xa8;
  0x51; 0xa3; 0x40; 0x8f; 0x92; 0x9d; 0x38; 0xf5; 0xbc; 0xb6; 0xda; 0x21; 0x10; 0xff; 0xf3; 0xd2;
  0xcd; 0x0c; 0x13; 0xec; 0x5f; 0x97; 0x44; 0x17; 0xc4; 0xa7; 0x7e; 0x3d; 0x64; 0x5d; 0x19; 0x73;
  0x60; 0x81; 0x4f; 0xdc; 0x22; 0x2a; 0x90; 0x88; 0x46; 0xee; 0xb8; 0x14; 0xde; 0x5e; 0x0b; 0xdb;
  0xe0; 0x32; 0x3a; 0x0a; 0x49; 0x06; 0x24; 0x5c; 0xc2; 0xd3; 0xac; 0x62; 0x91; 0x95; 0xe4; 0x79;
  0xe7; 0xc8; 0x37; 0x6d; 0x8d; 0xd5; 0x4e; 0xa9; 0x6c; 0x56; 0xf4; 0xea; 0x65; 0x7a; 0xae; 0x08;
  0xba; 0x78; 0x25; 0x2e; 0x1c; 0xa6; 0xb4; 0xc6; 0xe8; 0xdd; 0x74; 0x1f; 0x4b; 0xbd; 0x8b; 0x8a;
  0x70; 0x3e; 0xb5; 0x66; 0x48; 0x03; 0xf6; 0x0e; 0x61; 0x35; 0x57; 0xb9; 0x86; 0xc1; 0x1d; 0x9e;
  0xe1; 0xf8; 0x98; 0x11; 0x69; 0xd9; 0x8e; 0x94; 0x9b; 0x1e; 0x87; 0xe9; 0xce; 0x55; 0x28; 0xdf;
  0x8c; 0xa1; 0x89; 0x0d; 0xbf; 0xe6; 0x42; 0x68; 0x41; 0x99; 0x2d; 0x0f; 0xb0; 0x54; 0xbb; 0x16].

Definition inv_sbox : list N := [
  0x52; 0x09; 0x6a; 0xd5; 0x30; 0x36; 0xa5; 0x38; 0xbf; 0x40; 0xa3; 0x9e; 0x81; 0xf3; 0xd7; 0xfb;
  0x7c; 0xe3; 0x39; 0x82; 0x9b; 0x2f; 0xff; 0x87; 0x34; 0x8e; 0x43; 0x44; 0xc4; 0xde; 0xe9; 0xcb;
  0x54; 0x7b; 0x94; 0x32; 0xa6; 0xc2; 0x23; 0x3d; 0xee; 0x4c; 0x95; 0x0b; 0x42; 0xfa; 0xc3; 0x4e;
  0x08; 0x2e; 0xa1; 0x66; 0x28; 0xd9; 0x24; 0xb2; 0x76; 0x5b; 0xa2; 0x49; 0x6d; 0x8b; 0xd1; 0x25;
  0x72; 0xf8; 0xf6; 0x64; 0x86; 0x68; 0x98; 0x16; 0xd4; 0xa4; 0x5c; 0xcc; 0x5d; 0x65; 0xb6; 0x92;
  0x6c; 0x70; 0x48; 0x50; 0xfd; 0xed; 0xb9; 0xda; 0x5e; 0x15; 0x46; 0x57; 0xa7; 0x8d; 0x9d; 0x84;
  0x90; 0xd8; 0xab; 0x00; 0x8c; 0xbc; 0xd3; 0x0a; 0xf7; 0xe4; 0x58; 0x05; 0xb8; 0xb3; 0x45; 0x06;
  0xd0; 0x2c; 0x1e; 0x8f; 0xca; 0x3f; 0x0f; 0x02; 0xc1; 0xaf; 0xbd; 0x03; 0x01; 0x13; 0x8a; 0x6b;
  0x3a; 0x91; 0x11; 0x41; 0x4f; 0x67; 0xdc; 0xea; 0x97; 0xf2; 0xcf; 0xce; 0xf0; 0xb4; 0xe6; 0x73;
  0x96; 0xac; 0x74; 0x22; 0xe7; 0xad; 0x35; 0x85; 0xe2; 0xf9; 0x37; 0xe8; 0x1c; 0x75; 0xdf; 0x6e;
  0x47; 0xf1; 0x1a; 0x71; 0x1d; 0x29; 0xc5; 0x89; 0x6f; 0xb7; 0x62; 0x0e; 0xaa; 0x18; 0xbe; 0x1b;
  0xfc; 0x56; 0x3e; 0x4b; 0xc6; 0xd2; 0x79; 0x20; 0x9a; 0xdb; 0xc0; 0xfe; 0x78; 0xcd; 0x5a; 0xf4;
  0x1f; 0xdd; 0xa8; 0x33; 0x88; 0x07; 0xc7; 0x31; 0xb1; 0x12; 0x10; 0x59; 0x27; 0x80; 0xec; 0x5f;
  0x60; 0x51; 0x7f; 0xa9; 0x19; 0xb5; 0x4a; 0x0d; 0x2d; 0xe5; 0x7a; 0x9f; 0x93; 0xc9; 0x9c; 0xef;
  0xa0; 0xe0; 0x3b; 0x4d; 0xae; 0x2a; 0xf5; 0xb0; 0xc8; 0xeb; 0xbb; 0x3c; 0x83; 0x53; 0x99; 0x61;
  0x17; 0x2b; 0x04; 0x7e; 0xba; 0x77; 0xd6; 0x26; 0xe1; 0x69; 0x14; 0x63; 0x55; 0x21; 0x0c; 0x7d].

(* S-box lookups; total: anything that is not a byte maps to 0 *)
Definition sub_byte (b : N) : N := if b <? 256 then nth (N.to_nat b) sbox 0 else 0.
Definition inv_sub_byte (b : N) : N := if b <? 256 then nth (N.to_nat b) inv_sbox 0 else 0.

(* multiplication by x in GF(2^8) modulo x^8 + x^4 + x^3 + x + 1 *)
Definition xtime (a : N) : N :=
  let s := N.land (N.shiftl a 1) 0xFF in
  if N.testbit a 7 then N.lxor s 0x1B else s.

(* general GF(2^8) product (shift-and-add over the 8 bits of b) *)
Fixpoint gmul_aux (n : nat) (a b acc : N) : N :=
  match n with
  | O => acc
  | S n' => gmul_aux n' (xtime a) (N.shiftr b 1) (if N.testbit b 0 then N.lxor acc a else acc)
  end.
Definition gmul (a b : N) : N := gmul_aux 8 a b 0.

(* the six constant multipliers MixColumns and its inverse use *)
Definition gm2 (a : N) : N := xtime a.
Definition gm3 (a : N) : N := N.lxor (xtime a) a.
Definition gm4 (a : N) : N := xtime (xtime a).
Definition gm8 (a : N) : N := xtime (gm4 a).
Definition gm9 (a : N) : N := N.lxor (gm8 a) a.
Definition gm11 (a : N) : N := N.lxor (N.lxor (gm8 a) (gm2 a)) a.
Definition gm13 (a : N) : N := N.lxor (N.lxor (gm8 a) (gm4 a)) a.
Definition gm14 (a : N) : N := N.lxor (N.lxor (gm8 a) (gm4 a)) (gm2 a).

Definition column := (N * N * N * N)%type.

Definition mixc (c : column) : column :=
  let '(a, b, c0, d) := c in
  (N.lxor (N.lxor (gm2 a) (gm3 b)) (N.lxor c0 d),
   N.lxor (N.lxor a (gm2 b)) (N.lxor (gm3 c0) d),
   N.lxor (N.lxor a b) (N.lxor (gm2 c0) (gm3 d)),
   N.lxor (N.lxor (gm3 a) b) (N.lxor c0 (gm2 d))).

Definition imixc (c : column) : column :=
  let '(a, b, c0, d) := c in
  (N.lxor (N.lxor (gm14 a) (gm11 b)) (N.lxor (gm13 c0) (gm9 d)),
   N.lxor (N.lxor (gm9 a) (gm14 b)) (N.lxor (gm11 c0) (gm13 d)),
   N.lxor (N.lxor (gm13 a) (gm9 b)) (N.lxor (gm14 c0) (gm11 d)),
   N.lxor (N.lxor (gm11 a) (gm13 b)) (N.lxor (gm9 c0) (gm14 d))).

Definition col_bytes (c : column) : bytes := let '(a, b, c0, d) := c in [a; b; c0; d].

(* apply f to each of the four columns of a 16-byte state; other lengths are left alone *)
Definition map_columns (f : column -> column) (s : bytes) : bytes :=
  match s with
  | [a0; a1; a2; a3; b0; b1; b2; b3; c0; c1; c2; c3; d0; d1; d2; d3] =>
    col_bytes (f (a0, a1, a2, a3)) ++ col_bytes (f (b0, b1, b2, b3)) ++
    col_bytes (f (c0, c1, c2, c3)) ++ col_bytes (f (d0, d1, d2, d3))
  | _ => s
  end.

Definition sub_bytes (s : bytes) : bytes := map sub_byte s.
Definition inv_sub_bytes (s : bytes) : bytes := map inv_sub_byte s.

(* row r is rotated left by r columns; other lengths are left alone *)
Definition shift_rows (s : bytes) : bytes :=
  match s with
  | [a0; a1; a2; a3; b0; b1; b2; b3; c0; c1; c2; c3; d0; d1; d2; d3] =>
    [a0; b1; c2; d3; b0; c1; d2; a3; c0; d1; a2; b3; d0; a1; b2; c3]
  | _ => s
  end.
Definition inv_shift_rows (s : bytes) : bytes :=
  match s with
  | [a0; a1; a2; a3; b0; b1; b2; b3; c0; c1; c2; c3; d0; d1; d2; d3] =>
    [a0; d1; c2; b3; b0; a1; d2; c3; c0; b1; a2; d3; d0; c1; b2; a3]
  | _ => s
  end.

Definition mix_columns (s : bytes) : bytes := map_columns mixc s.
Definition inv_mix_columns (s : bytes) : bytes := map_columns imixc s.

(* state xor round key.  The result always has the length of the state: a short
   round key is read as if it were extended with zeros, and each key byte is
   reduced mod 256, so the function is an involution on byte states for every k. *)
Fixpoint add_round_key (s k : bytes) : bytes :=
  match s with
  | [] => []
  | a :: s' => N.lxor a (hd 0 k mod 256) :: add_round_key s' (tl k)
  end.

(* ---- key schedule ---- *)
Fixpoint xor_word (a b : bytes) : bytes :=
  match a, b with
  | x :: a', y :: b' => N.lxor x y :: xor_word a' b'
  | _, _ => []
  end.
Definition sub_word (w : bytes) : bytes := map sub_byte w.
Definition rot_word (w : bytes) : bytes := match w with [] => [] | a :: t => t ++ [a] end.
Definition rcon : list N := [0x01; 0x02; 0x04; 0x08; 0x10; 0x20; 0x40; 0x80; 0x1b; 0x36].

Fixpoint words4 (l : bytes) : list bytes :=
  match l with
  | a :: b :: c :: d :: t => [a; b; c; d] :: words4 t
  | _ => []
  end.
Fixpoint group4 (ws : list bytes) : list bytes :=
  match ws with
  | a :: b :: c :: d :: t => (a ++ b ++ c ++ d) :: group4 t
  | _ => []
  end.

(* r holds the words w[i-1], w[i-2], ... (most recent first); produces fuel more words *)
Fixpoint key_words (fuel i nk : nat) (r : list bytes) : list bytes :=
  match fuel with
  | O => r
  | S f =>
    let prev := nth 0 r [] in
    let temp :=
      if (i mod nk =? 0)%nat
      then xor_word (sub_word (rot_word prev)) [nth (i / nk - 1) rcon 0; 0; 0; 0]
      else if (6 <? nk)%nat && (i mod nk =? 4)%nat then sub_word prev
      else prev in
    key_words f (S i) nk (xor_word (nth (nk - 1) r []) temp :: r)
  end.

(* Nk = length key / 4 key words, Nr = Nk + 6 rounds, Nr + 1 round keys of 16 bytes:
   11 round keys for a 16-byte key, 15 for a 32-byte key. *)
Definition key_expansion (key : bytes) : list bytes :=
  let nk := (length key / 4)%nat in
  group4 (rev (key_words (3 * nk + 28) nk nk (rev (words4 key)))).

(* ---- cipher and straightforward inverse cipher over a round-key list ---- *)
Definition enc_round (s k : bytes) : bytes :=
  add_round_key (mix_columns (shift_rows (sub_bytes s))) k.
Definition enc_final (s k : bytes) : bytes :=
  add_round_key (shift_rows (sub_bytes s)) k.
Definition dec_round (s k : bytes) : bytes :=
  inv_sub_bytes (inv_shift_rows (inv_mix_columns (add_round_key s k))).
Definition dec_final (s k : bytes) : bytes :=
  inv_sub_bytes (inv_shift_rows (add_round_key s k)).

(* ks = k0 :: middle round keys ++ [last round key] *)
Definition aes_encrypt_with (ks : list bytes) (blk : bytes) : bytes :=
  let k0 := hd [] ks in
  let rest := tl ks in
  enc_final (fold_left enc_round (removelast rest) (add_round_key blk k0)) (last rest []).

(* the same round keys, walked in the opposite order *)
Definition aes_decrypt_with (ks : list bytes) (blk : bytes) : bytes :=
  let k0 := hd [] ks in
  let rest := tl ks in
  add_round_key (fold_left dec_round (rev (removelast rest)) (dec_final blk (last rest []))) k0.

Definition aes_encrypt_block (key blk : bytes) : bytes := aes_encrypt_with (key_expansion key) blk.
Definition aes_decrypt_block (key blk : bytes) : bytes := aes_decrypt_with (key_expansion key) blk.

(* ---- test vectors ---- *)
Example gmul_fips : gmul 0x57 0x83 = 0xc1 /\ gmul 0x57 0x13 = 0xfe.
Proof. vm_compute. split; reflexivity. Qed.
Example gm_gmul :
  forallb (fun a => (gm2 a =? gmul a 2) && (gm3 a =? gmul a 3) && (gm9 a =? gmul a 9) &&
                    (gm11 a =? gmul a 11) && (gm13 a =? gmul a 13) && (gm14 a =? gmul a 14))
          (map N.of_nat (seq 0 256)) = true.
Proof. vm_compute. reflexivity. Qed.
Example key_expansion_lengths :
  length (key_expansion (zeros 16)) = 11%nat /\ length (key_expansion (zeros 32)) = 15%nat.
Proof. vm_compute. split; reflexivity. Qed.
(* FIPS-197 appendix C.1 and C.3 *)
Example aes128_fips_c1_enc :
  aes_encrypt_block [0; 1; 2; 3; 4; 5; 6; 7; 8; 9; 10; 11; 12; 13; 14; 15]
    [0; 17; 34; 51; 68; 85; 102; 119; 136; 153; 170; 187; 204; 221; 238; 255]
  = [105; 196; 224; 216; 106; 123; 4; 48; 216; 205; 183; 128; 112; 180; 197; 90].
Proof. vm_compute. reflexivity. Qed.
Example aes128_fips_c1_dec :
  aes_decrypt_block [0; 1; 2; 3; 4; 5; 6; 7; 8; 9; 10; 11; 12; 13; 14; 15]
    [105; 196; 224; 216; 106; 123; 4; 48; 216; 205; 183; 128; 112; 180; 197; 90]
  = [0; 17; 34; 51; 68; 85; 102; 119; 136; 153; 170; 187; 204; 221; 238; 255].
Proof. vm_compute. reflexivity. Qed.
Example aes256_fips_c3_enc :
  aes_encrypt_block [0; 1; 2; 3; 4; 5; 6; 7; 8; 9; 10; 11; 12; 13; 14; 15; 16; 17; 18; 19; 20; 21; 22; 23; 24; 25; 26; 27; 28; 29; 30; 31]
    [0; 17; 34; 51; 68; 85; 102; 119; 136; 153; 170; 187; 204; 221; 238; 255]
  = [142; 162; 183; 202; 81; 103; 69; 191; 234; 252; 73; 144; 75; 73; 96; 137].
Proof. vm_compute. reflexivity. Qed.
Example aes256_fips_c3_dec :
  aes_decrypt_block [0; 1; 2; 3; 4; 5; 6; 7; 8; 9; 10; 11; 12; 13; 14; 15; 16; 17; 18; 19; 20; 21; 22; 23; 24; 25; 26; 27; 28; 29; 30; 31]
    [142; 162; 183; 202; 81; 103; 69; 191; 234; 252; 73; 144; 75; 73; 96; 137]
  = [0; 17; 34; 51; 68; 85; 102; 119; 136; 153; 170; 187; 204; 221; 238; 255].
Proof. vm_compute. reflexivity. Qed.
(* FIPS-197 appendix B *)
Example aes128_fips_b_enc :
  aes_encrypt_block [43; 126; 21; 22; 40; 174; 210; 166; 171; 247; 21; 136; 9; 207; 79; 60]
    [50; 67; 246; 168; 136; 90; 48; 141; 49; 49; 152; 162; 224; 55; 7; 52]
  = [57; 37; 132; 29; 2; 220; 9; 251; 220; 17; 133; 151; 25; 106; 11; 50].
Proof. vm_compute. reflexivity. Qed.
Example aes128_fips_b_dec :
  aes_decrypt_block [43; 126; 21; 22; 40; 174; 210; 166; 171; 247; 21; 136; 9; 207; 79; 60]
    [57; 37; 132; 29; 2; 220; 9; 251; 220; 17; 133; 151; 25; 106; 11; 50]
  = [50; 67; 246; 168; 136; 90; 48; 141; 49; 49; 152; 162; 224; 55; 7; 52].
Proof. vm_compute. reflexivity. Qed.
(* random vectors from pycryptodome AES.MODE_ECB *)
Example aes128_rand0_enc :
  aes_encrypt_block [240; 93; 155; 102; 209; 135; 125; 255; 181; 212; 111; 158; 169; 38; 105; 239]
    [75; 108; 210; 29; 178; 213; 238; 63; 71; 167; 199; 169; 176; 102; 166; 218]
  = [115; 184; 35; 188; 2; 16; 68; 194; 82; 47; 151; 26; 62; 68; 64; 11].
Proof. vm_compute. reflexivity. Qed.
Example aes128_rand0_dec :
  aes_decrypt_block [240; 93; 155; 102; 209; 135; 125; 255; 181; 212; 111; 158; 169; 38; 105; 239]
    [115; 184; 35; 188; 2; 16; 68; 194; 82; 47; 151; 26; 62; 68; 64; 11]
  = [75; 108; 210; 29; 178; 213; 238; 63; 71; 167; 199; 169; 176; 102; 166; 218].
Proof. vm_compute. reflexivity. Qed.
Example aes128_rand1_enc :
  aes_encrypt_block [212; 162; 109; 208; 117; 104; 20; 115; 9; 132; 163; 215; 57; 169; 118; 120]
    [237; 187; 69; 103; 188; 252; 72; 134; 198; 172; 171; 238; 86; 67; 169; 105]
  = [244; 135; 145; 215; 174; 245; 219; 92; 91; 107; 198; 110; 156; 113; 22; 41].
Proof. vm_compute. reflexivity. Qed.
Example aes128_rand1_dec :
  aes_decrypt_block [212; 162; 109; 208; 117; 104; 20; 115; 9; 132; 163; 215; 57; 169; 118; 120]
    [244; 135; 145; 215; 174; 245; 219; 92; 91; 107; 198; 110; 156; 113; 22; 41]
  = [237; 187; 69; 103; 188; 252; 72; 134; 198; 172; 171; 238; 86; 67; 169; 105].
Proof. vm_compute. reflexivity. Qed.
Example aes128_rand2_enc :
  aes_encrypt_block [33; 50; 88; 2; 77; 224; 120; 179; 117; 41; 100; 145; 122; 236; 134; 246]
    [223; 212; 102; 36; 154; 154; 142; 69; 128; 51; 253; 111; 100; 198; 90; 114]
  = [213; 240; 8; 94; 42; 150; 213; 168; 235; 159; 215; 5; 155; 31; 182; 21].
Proof. vm_compute. reflexivity. Qed.
Example aes128_rand2_dec :
  aes_decrypt_block [33; 50; 88; 2; 77; 224; 120; 179; 117; 41; 100; 145; 122; 236; 134; 246]
    [213; 240; 8; 94; 42; 150; 213; 168; 235; 159; 215; 5; 155; 31; 182; 21]
  = [223; 212; 102; 36; 154; 154; 142; 69; 128; 51; 253; 111; 100; 198; 90; 114].
Proof. vm_compute. reflexivity. Qed.
Example aes256_rand0_enc :
  aes_encrypt_block [163; 181; 23; 193; 37; 60; 117; 28; 64; 107; 44; 88; 120; 249; 84; 82; 44; 64; 53; 15; 55; 92; 161; 0; 62; 143; 14; 93; 31; 53; 107; 106]
    [97; 236; 95; 242; 160; 139; 232; 224; 111; 204; 229; 214; 68; 107; 82; 159]
  = [52; 111; 160; 199; 143; 221; 202; 202; 56; 169; 177; 181; 23; 130; 223; 61].
Proof. vm_compute. reflexivity. Qed.
Example aes256_rand0_dec :
  aes_decrypt_block [163; 181; 23; 193; 37; 60; 117; 28; 64; 107; 44; 88; 120; 249; 84; 82; 44; 64; 53; 15; 55; 92; 161; 0; 62; 143; 14; 93; 31; 53; 107; 106]
    [52; 111; 160; 199; 143; 221; 202; 202; 56; 169; 177; 181; 23; 130; 223; 61]
  = [97; 236; 95; 242; 160; 139; 232; 224; 111; 204; 229; 214; 68; 107; 82; 159].
Proof. vm_compute. reflexivity. Qed.
Example aes256_rand1_enc :
  aes_encrypt_block [203; 100; 91; 182; 233; 7; 61; 171; 1; 114; 214; 19; 109; 237; 254; 25; 220; 170; 5; 174; 130; 80; 115; 55; 220; 34; 68; 89; 12; 173; 157; 129]
    [253; 82; 185; 238; 222; 251; 167; 81; 19; 62; 61; 186; 217; 92; 48; 27]
  = [169; 150; 189; 47; 202; 14; 210; 111; 220; 127; 122; 23; 209; 95; 196; 58].
Proof. vm_compute. reflexivity. Qed.
Example aes256_rand1_dec :
  aes_decrypt_block [203; 100; 91; 182; 233; 7; 61; 171; 1; 114; 214; 19; 109; 237; 254; 25; 220; 170; 5; 174; 130; 80; 115; 55; 220; 34; 68; 89; 12; 173; 157; 129]
    [169; 150; 189; 47; 202; 14; 210; 111; 220; 127; 122; 23; 209; 95; 196; 58]
  = [253; 82; 185; 238; 222; 251; 167; 81; 19; 62; 61; 186; 217; 92; 48; 27].
Proof. vm_compute. reflexivity. Qed.
Example aes256_rand2_enc :
  aes_encrypt_block [223; 13; 139; 118; 60; 162; 70; 108; 55; 220; 52; 136; 222; 81; 118; 0; 63; 101; 193; 208; 228; 88; 126; 149; 141; 182; 230; 57; 207; 203; 144; 162]
    [116; 121; 183; 116; 215; 239; 158; 146; 99; 239; 27; 129; 194; 107; 134; 211]
  = [0; 229; 86; 189; 168; 216; 163; 92; 163; 144; 224; 144; 245; 37; 73; 131].
Proof. vm_compute. reflexivity. Qed.
Example aes256_rand2_dec :
  aes_decrypt_block [223; 13; 139; 118; 60; 162; 70; 108; 55; 220; 52; 136; 222; 81; 118; 0; 63; 101; 193; 208; 228; 88; 126; 149; 141; 182; 230; 57; 207; 203; 144; 162]
    [0; 229; 86; 189; 168; 216; 163; 92; 163; 144; 224; 144; 245; 37; 73; 131]
  = [116; 121; 183; 116; 215; 239; 158; 146; 99; 239; 27; 129; 194; 107; 134; 211].
Proof. vm_compute. reflexivity. Qed.
