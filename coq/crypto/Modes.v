(* ECB and CBC (all-zero IV) over the AES model, and PKCS#7 padding with block size 16,
   following pycryptodome 3.23 (Crypto.Cipher.AES MODE_ECB / MODE_CBC, Crypto.Util.Padding).
   Definitions and test vectors only; the round-trip theorems are in proofs/ModesInv.v. *)
From MS Require Import lib.Base crypto.AES.

(* split into 16-byte blocks; [length l] is always enough fuel *)
Fixpoint chunks16 (fuel : nat) (l : bytes) : list bytes :=
  match fuel with
  | O => []
  | S f =>
    match l with
    | [] => []
    | _ => firstn 16 l :: chunks16 f (skipn 16 l)
    end
  end.

(* pointwise xor, as long as the shorter argument *)
Fixpoint xor_bytes (a b : bytes) : bytes :=
  match a, b with
  | x :: a', y :: b' => N.lxor x y :: xor_bytes a' b'
  | _, _ => []
  end.

Definition aligned16 (l : bytes) : bool := (length l mod 16 =? 0)%nat.

(* ---- ECB: ValueError "Data must be aligned to block boundary in ECB mode" ---- *)
Definition ecb_blocks (f : bytes -> bytes) (data : bytes) : bytes :=
  concat (map f (chunks16 (length data) data)).

Definition ecb_enc (key data : bytes) : res bytes :=
  if aligned16 data
  then let ks := key_expansion key in Ok (ecb_blocks (aes_encrypt_with ks) data)
  else Err EValue.

Definition ecb_dec (key data : bytes) : res bytes :=
  if aligned16 data
  then let ks := key_expansion key in Ok (ecb_blocks (aes_decrypt_with ks) data)
  else Err EValue.

(* ---- CBC, IV = 16 zero bytes: ValueError "Data must be padded to 16 byte boundary in CBC mode" ---- *)
Fixpoint cbc_enc_blocks (e : bytes -> bytes) (prev : bytes) (bs : list bytes) : bytes :=
  match bs with
  | [] => []
  | b :: t => let c := e (xor_bytes b prev) in c ++ cbc_enc_blocks e c t
  end.

Fixpoint cbc_dec_blocks (d : bytes -> bytes) (prev : bytes) (cs : list bytes) : bytes :=
  match cs with
  | [] => []
  | c :: t => xor_bytes (d c) prev ++ cbc_dec_blocks d c t
  end.

Definition cbc_enc (key data : bytes) : res bytes :=
  if aligned16 data
  then let ks := key_expansion key in
       Ok (cbc_enc_blocks (aes_encrypt_with ks) (zeros 16) (chunks16 (length data) data))
  else Err EValue.

Definition cbc_dec (key data : bytes) : res bytes :=
  if aligned16 data
  then let ks := key_expansion key in
       Ok (cbc_dec_blocks (aes_decrypt_with ks) (zeros 16) (chunks16 (length data) data))
  else Err EValue.

(* ---- PKCS#7, block size 16 ---- *)
(* Crypto.Util.Padding.pad(data, 16): always appends k = 16 - len mod 16 bytes of value k *)
Definition pkcs7_pad (l : bytes) : bytes :=
  let k := (16 - length l mod 16)%nat in l ++ repeat (N.of_nat k) k.

(* Crypto.Util.Padding.unpad(data, 16).  Every failure is a ValueError:
   - "Zero-length input cannot be unpadded"   (pycryptodome 3.23 tests this first,
     so empty input is a ValueError, not the IndexError of older releases)
   - "Input data is not padded"               (length not a multiple of 16)
   - "Padding is incorrect."                  (last byte p < 1 or p > min(16, len))
   - "PKCS#7 padding is incorrect."           (last p bytes not all equal to p) *)
Definition pkcs7_unpad (l : bytes) : res bytes :=
  let n := length l in
  if (n =? 0)%nat then Err EValue else
  if negb (n mod 16 =? 0)%nat then Err EValue else
  let p := last l 0 in
  if (p <? 1) || (N.min 16 (N.of_nat n) <? p) then Err EValue else
  let k := N.to_nat p in
  if forallb (N.eqb p) (skipn (n - k) l) then Ok (firstn (n - k) l) else Err EValue.

(* ---- test vectors ---- *)
Example pkcs7_pad_empty : pkcs7_pad [] = repeat 16 16.
Proof. vm_compute. reflexivity. Qed.
Example pkcs7_pad_3 : pkcs7_pad [1; 2; 3] = [1; 2; 3] ++ repeat 13 13.
Proof. vm_compute. reflexivity. Qed.
Example pkcs7_unpad_empty : pkcs7_unpad [] = Err EValue.
Proof. vm_compute. reflexivity. Qed.
Example pkcs7_unpad_full : pkcs7_unpad (repeat 16 16) = Ok [].
Proof. vm_compute. reflexivity. Qed.
Example ecb_empty : ecb_enc (zeros 16) [] = Ok [] /\ ecb_dec (zeros 16) [] = Ok [].
Proof. vm_compute. split; reflexivity. Qed.
Example cbc_empty : cbc_enc (zeros 16) [] = Ok [] /\ cbc_dec (zeros 16) [] = Ok [].
Proof. vm_compute. split; reflexivity. Qed.
Example ecb_unaligned : ecb_enc (zeros 16) [1] = Err EValue /\ cbc_dec (zeros 16) (zeros 17) = Err EValue.
Proof. vm_compute. split; reflexivity. Qed.
