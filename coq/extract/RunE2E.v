(* evaluation interface for the ideal air conditioner (fids 110-119) *)
From MS Require Import lib.Base model.Command model.Device model.Lan spec.RefAC spec.RefDevice extract.Run.
Open Scope Z_scope.

Definition astate_of (l : list Z) : astate :=
  let g k := nth k l 0 in let b k := zbool (g k) in let n k := Z.to_N (g k) in
  mkAstate (b 0%nat) (n 1%nat) (n 2%nat) (n 3%nat) (n 4%nat) (b 5%nat) (b 6%nat) (b 7%nat) (b 8%nat) (b 9%nat) (b 10%nat)
           (b 11%nat) (b 12%nat) (n 13%nat) (b 14%nat) (b 15%nat) (n 16%nat) (n 17%nat).
Definition enc_astate (s : astate) : list Z :=
  [boolz (a_power s); Z.of_N (a_target s); Z.of_N (a_mode s); Z.of_N (a_fan s); Z.of_N (a_swing s); boolz (a_turbo s);
   boolz (a_eco s); boolz (a_sleep s); boolz (a_fahrenheit s); boolz (a_follow_me s); boolz (a_purifier s); boolz (a_aux s);
   boolz (a_indep_aux s); Z.of_N (a_humidity s); boolz (a_freeze s); boolz (a_display s); Z.of_N (a_indoor s); Z.of_N (a_outdoor s)].

Definition run_e2e (fid : Z) (a : list (list Z)) : option out :=
  match fid with
  | 110 => let '(s', r) := ref_ac_step (astate_of (arg a 0)) (zb (arg a 1)) in
           Some (ok [enc_astate s'; match r with Some _ => [1] | None => [0] end; match r with Some b => bz b | None => [] end])
  | 111 => Some (ok [bz (status_body (astate_of (arg a 0)))])
  | 112 => Some (ok [bz (ref_response_frame (argn a 0) (zb (arg a 1)))])
  | 113 => Some (ok [enc_astate astate0])
  (* the client pipeline of C01_apply_v2: setter ops on a fresh device, then the V2 packet apply() writes for its control command *)
  | 114 => let w0 := mkWorld dev_init ([] : list (list bytes)) (argn a 0) [] in
           let '(w, _) := do_ops w0 (arg a 1) in
           Some (of_res (do fn <- emit (argn a 0) (SetState (apply_ctrl (w_dev w))); v2_encode (zb (arg a 2)) (bigz (arg a 3)) (fst fn))
                        (fun p => [bz p]))
  | _ => None
  end.
