(* evaluation interface for the discovery model / reference (fids 90-99) *)
From MS Require Import lib.Base gen.GenConst gen.GenDisc model.Lan model.Discover spec.RefDiscover extract.Run.
Open Scope Z_scope.

Definition enc_info (i : info) : list (list Z) :=
  [[Z.of_N (i_ip i); Z.of_N (i_port i); Z.of_N (i_version i); i_type i; boolz (is_ac (i_type i))]; bz (le_bytes 8 (i_id i)); bz (i_name i); bz (i_sn i)].

Fixpoint dgrams_of (a : list (list Z)) : list dgram :=
  match a with
  | h :: d :: t => mkDgram (Z.to_N (nth 0 h 0)) (Z.to_N (nth 1 h 0)) (Z.to_N (nth 2 h 0)) (zb d) :: dgrams_of t
  | _ => []
  end.

Definition task_code (t : task) : Z := match run_task t with Ok (Some _) => 0 | Ok None => -1 | Err e => exn_code e end.

Definition run_disc (fid : Z) (a : list (list Z)) : option out :=
  match fid with
  | 90 => Some (of_res (get_device_info (argn a 0) (argn a 1) (argn a 2) (zb (arg a 3))) enc_info)
  | 91 => Some (of_res (get_device_version (argn a 0) (zb (arg a 1))) (fun v => [[Z.of_N v]]))
  | 92 => let ds := dgrams_of a in
          let ts := tasks (fold_left datagram_received ds dstate0) in
          let codes := map task_code ts in
          Some (match discover ds with
                | Ok l => (0, [Z.of_nat (length l)] :: codes :: flat_map enc_info l)
                | Err e => (exn_code e, [[0]; codes])
                end)
  | 93 => Some (of_res (parse_int16 (zb (arg a 0))) (fun v => [[v]]))
  | 94 => Some (ok [[boolz (utf8_valid (zb (arg a 0)))]])
  | 95 => Some (of_opt (ref_discovery_reply (argn a 0) (zb (arg a 1)) (zb (arg a 2)) (bigz (arg a 3)) (zb (arg a 4)) (argn a 5)
                                            (zb (arg a 6)) (zb (arg a 7)) (zb (arg a 8)) (zb (arg a 9))) (fun p => [bz p]))
  | 96 => Some (ok [[boolz (ref_probe_ok (zb (arg a 0)))]])
  | 97 => Some (ok (flat_map (fun pm => [[Z.of_N (fst pm)]; bz (snd pm)]) (probes (Z.to_nat (argz a 0)))))
  | 98 => Some (ok [bz (ref_name (argn a 0) (zb (arg a 1)))])
  | _ => None
  end.
