(* Evaluation interface for the cloud model / reference (fids 70-79). *)
From MS Require Import lib.Base gen.GenCloud model.Lan model.Cloud spec.RefCloud spec.CloudSim extract.Run.
Open Scope Z_scope.

Fixpoint fields_of (l : list (list Z)) : list field :=
  match l with k :: v :: t => (zb k, zb v) :: fields_of t | _ => [] end.
Definition enc_fields (d : list field) : list (list Z) := flat_map (fun f => [bz (fst f); bz (snd f)]) d.

(* a list of strings inside one integer list: length, bytes, length, bytes, ... *)
Fixpoint lp_strs (fuel : nat) (l : list Z) : list bytes :=
  match fuel, l with
  | S f, n :: t => zb (firstn (Z.to_nat n) t) :: lp_strs f (skipn (Z.to_nat n) t)
  | _, _ => []
  end.
Definition lps (l : list Z) : list bytes := lp_strs (length l) l.
Fixpoint entries_of (l : list bytes) : list entry :=
  match l with u :: t :: k :: r => mkEntry u t k :: entries_of r | _ => [] end.
Fixpoint regs_of (l : list bytes) : list reg_entry :=
  match l with u :: t :: k :: r => mkReg u t k :: regs_of r | _ => [] end.

(* [0] timeout | [1] http error | [2; errorCode; result kind; payload...] *)
Definition outcome_of (l : list Z) : outcome :=
  match l with
  | 0 :: _ => OTimeout
  | 1 :: _ => OHttpErr
  | _ :: code :: kind :: p =>
    OResp (mkResp code (match kind with
                        | 0 => RLoginId (zb p) | 1 => RSession (zb p) | 2 => RTokens (entries_of (lps p)) | _ => ROther
                        end))
  | _ => OTimeout
  end.

Definition exn_of_code (z : Z) : exn :=
  match z with
  | 1 => EIndex | 2 => EValue | 3 => EStruct | 4 => EKey | 5 => EAssert | 6 => EType | 7 => EOverflow
  | 8 => EInvalidFrame | 9 => EInvalidResponse | 10 => EProtocol | 11 => EAuth | 12 => ETimeout | 13 => ECancelled
  | 14 => EQueueEmpty | 15 => EDiscover | 16 => ENotImpl | 17 => ECloud | 18 => EApi | 19 => EOS | 20 => EUnicode
  | 21 => EAddr | 22 => ESyntax | _ => EAttr
  end.

Definition enc_requests (l : list request) : list (list Z) :=
  [Z.of_nat (length l)] :: flat_map (fun rq => bz (fst rq) :: [Z.of_nat (length (snd rq))] :: enc_fields (snd rq)) l.

Definition stamps_of (l : list Z) (n : nat) : str := nth n (lps l) [].
Definition status {A} (r : res A) : Z := match r with Ok _ => 0 | Err e => exn_code e end.

(* the device script: one code per dev.authenticate call (0 = accepted) *)
Definition dev_state := (list Z * list (str * str))%type.
Definition script_dev (d : dev_state) (t k : str) : dev_state * res unit :=
  match fst d with
  | [] => (([], snd d ++ [(t, k)]), Err EAuth)
  | c :: rest => ((rest, snd d ++ [(t, k)]), if c =? 0 then Ok tt else Err (exn_of_code c))
  end.

Definition policy_of (l : list Z) (t k : bytes) : unknown_policy :=
  match l with
  | 0 :: _ => UBogus t k
  | 1 :: _ => UNoEntry
  | _ :: code :: _ => UApiError (Z.to_pos code)
  | _ => UNoEntry
  end.
Definition cfg_of (a : list (list Z)) : cloud_cfg :=
  mkCfg (zb (arg a 0)) (zb (arg a 1)) (zb (arg a 2)) (zb (arg a 3)) (regs_of (lps (arg a 7)))
        (policy_of (arg a 4) (zb (arg a 5)) (zb (arg a 6))).
Definition enc_reply (r : ref_reply) : list (list Z) :=
  match r with
  | RpLoginId l => [[0]; bz l]
  | RpSession s => [[1]; bz s]
  | RpTokens l => [2] :: flat_map (fun e => [bz (g_udpid e); bz (g_token e); bz (g_key e)]) l
  | RpError code => [[3; Zpos code]]
  end.

Definition run_cloud (fid : Z) (a : list (list Z)) : option out :=
  match fid with
  | 70 => Some (ok [bz (sign (zb (arg a 0)) (fields_of (skipn 1 a)))])
  | 71 => Some (ok [bz (encrypt_password (zb (arg a 0)) (zb (arg a 1)))])
  | 72 => (* build_request_body session device stamp data *)
    Some (ok (enc_fields (build_request_body (zb (arg a 0)) (zb (arg a 1)) (zb (arg a 2)) (fields_of (skipn 3 a)))))
  | 73 => (* post_request retries script *)
    let '(r, w) := post_request _ script_srv (Z.to_nat (argz a 0)) (map outcome_of (skipn 1 a), []) ([], []) in
    Some (status r,
          [[Z.of_nat (length (snd w))]; [Z.of_nat (length (fst w))];
           match r with
           | Ok None => [0] | Ok (Some (RLoginId l)) => 1 :: bz l | Ok (Some (RSession s)) => 2 :: bz s
           | Ok (Some (RTokens l)) => [3; Z.of_nat (length l)] | Ok (Some ROther) => [4] | Err _ => []
           end])
  | 74 => (* login / get_token against the scripted server *)
    let f := arg a 4 in
    let c := mkC (zb (arg a 0)) (zb (arg a 1)) (if zbool (nth 1 f 0) then Some (zb (arg a 5)) else None)
                 (zbool (nth 0 f 0)) (zb (arg a 3)) in
    let dev := zb (arg a 2) in
    let st := stamps_of (arg a 7) in
    let w0 : world (list outcome) := (map outcome_of (skipn 8 a), []) in
    let op := nth 3 f 0 in
    let '(r1, c1, w1) := if op =? 1 then (Ok tt, c, w0) else login _ script_srv dev st (zbool (nth 2 f 0)) c w0 in
    let '(r2, w2) :=
      match r1 with
      | Err e => (Err e, w1)
      | Ok _ => if op =? 0 then (Ok ([], []), w1) else get_token _ script_srv dev st c1 w1 (zb (arg a 6))
      end in
    Some (status r2,
          [[boolz (c_has_session c1); match c_login_id c1 with Some _ => 1 | None => 0 end];
           match c_login_id c1 with Some l => bz l | None => [] end; bz (c_session_id c1);
           match r2 with Ok tk => bz (fst tk) | Err _ => [] end; match r2 with Ok tk => bz (snd tk) | Err _ => [] end;
           [Z.of_nat (length (fst w2))]] ++ enc_requests (snd w2))
  | 75 => (* one request at the reference cloud *)
    let st := arg a 8 in
    let s0 := mkRS (zbool (nth 0 st 0)) (zbool (nth 1 st 0)) (Z.to_nat (nth 2 st 0)) in
    let path := zb (arg a 9) in
    let fs := fields_of (skipn 10 a) in
    let chk := ref_check (cfg_of a) s0 path fs in
    let '(s1, rep) := ref_step (cfg_of a) s0 (path, fs) in
    Some (ok ([[boolz (rs_issued s1); boolz (rs_open s1); Z.of_nat (rs_rejected s1)]; [Z.of_N chk]] ++ enc_reply rep))
  | 76 => (* udpids of a device id and the credentials registered for them *)
    let c := mkCfg [] [] [] [] (regs_of (lps (arg a 0))) UNoEntry in
    let id := bigz (arg a 1) in
    Some (ok ([bz (ref_udpid_hex false id); bz (ref_udpid_hex true id)]
              ++ flat_map (fun tk => [bz (fst tk); bz (snd tk)]) (ref_expected_credentials c id)))
  | 77 => (* Discover._authenticate_device / connect against the scripted server and a scripted device *)
    let f := arg a 0 in
    let acct := zb (arg a 2) in let pw := zb (arg a 3) in
    let dc := if zbool (nth 0 f 0) then Some (mkC acct pw (Some (zb (arg a 8))) true (zb (arg a 9))) else None in
    let refresh (d : dev_state) : dev_state * res unit :=
      (d, let c := nth 3 f 0 in if c =? 0 then Ok tt else Err (exn_of_code c)) in
    let w0 : world (list outcome) := (map outcome_of (skipn 10 a), []) in
    let d0 : dev_state := (arg a 7, []) in
    let '(r, dc1, d1, w1) :=
      if zbool (nth 2 f 0)
      then connect _ script_srv (zb (arg a 5)) (stamps_of (arg a 6)) _ script_dev refresh (zbool (nth 1 f 0)) dc
                   (zb (arg a 1)) acct pw (bigz (arg a 4)) d0 w0
      else authenticate_device _ script_srv (zb (arg a 5)) (stamps_of (arg a 6)) _ script_dev dc
                   (zb (arg a 1)) acct pw (bigz (arg a 4)) d0 w0 in
    Some (status r,
          [[match r with Ok b => boolz b | Err _ => -1 end];
           match dc1 with Some c => 1 :: boolz (c_has_session c) :: bz (c_session_id c) | None => [0] end;
           [Z.of_nat (length (fst w1))]; [Z.of_nat (length (snd d1))]]
          ++ flat_map (fun tk => [bz (fst tk); bz (snd tk)]) (snd d1) ++ enc_requests (snd w1))
  | 78 => Some (of_res (cloud_new (zb (arg a 0)) (zb (arg a 1)) (zb (arg a 2)))
                       (fun c => [bz (c_account c); bz (c_password c)]))
  | 79 => let path := zb (arg a 0) in let fs := fields_of (skipn 1 a) in
          Some (ok [[boolz (ref_signature_ok path fs)]; bz (expected_sign path fs)])
  | _ => None
  end.
