(* Evaluation interface for the CLI model (model/Cli.v), the literal classifier (lib/PyLit.v) and the documented meaning
   (spec/RefCli.v): fids 80-89. Integers of unbounded size travel as [sign; little-endian bytes...]. *)
From MS Require Import lib.Base lib.PyLit gen.GenConst gen.GenCmd gen.GenDev gen.GenCli model.Frame model.Command
  model.Response model.Device model.Cli spec.RefAC spec.RefCli extract.Run.
Open Scope Z_scope.

Fixpoint le_all (fuel : nat) (v : N) : list Z :=
  match fuel with
  | O => []
  | S k => if (v =? 0)%N then [] else Z.of_N (v mod 256) :: le_all k (v / 256)
  end.
Definition enc_big (z : Z) : list Z :=
  (if z <? 0 then 1 else 0) :: le_all (N.to_nat (N.size (Z.abs_N z))) (Z.abs_N z).
Definition dec_big (l : list Z) : Z :=
  match l with
  | s :: b => let m := Z.of_N (from_le (zb b)) in if s =? 0 then m else - m
  | [] => 0
  end.

Definition exn_of_code (c : Z) : exn :=
  match c with
  | 1 => EIndex | 2 => EValue | 3 => EStruct | 4 => EKey | 5 => EAssert | 6 => EType | 7 => EOverflow
  | 8 => EInvalidFrame | 9 => EInvalidResponse | 10 => EProtocol | 11 => EAuth | 12 => ETimeout | 13 => ECancelled
  | 14 => EQueueEmpty | 15 => EDiscover | 16 => ENotImpl | 17 => ECloud | 18 => EApi | 19 => EOS | 20 => EUnicode
  | 21 => EAddr | 22 => ESyntax | _ => EAttr
  end.

(* class rows: [0; big z] | [1; b] | [2; n; big num (n items); den bytes] | [3; str] | [4] | [5; truthy] | [6; exn code] *)
Definition class_of (l : list Z) : lit_class :=
  match l with
  | 0 :: r => LInt (dec_big r)
  | 1 :: b :: _ => LBool (zbool b)
  | 2 :: n :: r => LFloat (dec_big (firstn (Z.to_nat n) r))
                          (Z.to_pos (Z.of_N (from_le (zb (skipn (Z.to_nat n) r)))))
  | 3 :: s => LStr (zb s)
  | 4 :: _ => LNone
  | 5 :: t :: _ => LObj (zbool t)
  | 6 :: c :: _ => LRaise (exn_of_code c)
  | _ => LRaise ESyntax
  end.
Definition enc_class (c : lit_class) : list Z :=
  match c with
  | LInt z => 0 :: enc_big z
  | LBool b => [1; boolz b]
  | LFloat n d => let e := enc_big n in 2 :: Z.of_nat (length e) :: e ++ le_all (Pos.to_nat (Pos.size d)) (Npos d)
  | LStr s => 3 :: bz s
  | LNone => [4]
  | LObj t => [5; boolz t]
  | LRaise e => [6; exn_code e]
  end.

(* the literal evaluator handed over by the harness: a finite table, [lit] elsewhere *)
Fixpoint table_of (rows : list (list Z)) : list (bytes * lit_class) :=
  match rows with s :: c :: t => (zb s, class_of c) :: table_of t | _ => [] end.
Definition eval_of (tbl : list (bytes * lit_class)) (s : bytes) : lit_class :=
  match assoc s tbl with
  | Some c => c
  | None => match lit s with Some c => c | None => LRaise ESyntax end
  end.

Definition enc_tval (v : tval) : list Z :=
  match v with
  | TEnum z => 0 :: enc_big z
  | TBool b => [1; boolz b]
  | TInt z => 2 :: enc_big z
  | TFloat n d => let e := enc_big n in 3 :: Z.of_nat (length e) :: e ++ le_all (Pos.to_nat (Pos.size d)) (Npos d)
  end.
Definition enc_stop (s : stop) : list Z :=
  match s with SExit c => [1; c] | SRaise e => [2; exn_code e] end.

Definition enc_value (v : value) : list Z :=
  match v with VB b => [0; boolz b] | VN z => 1 :: enc_big z | VHalf h => [2; Z.of_N h] end.

Definition request_of (l : list Z) : request :=
  let g k := nth k l 0 in
  {| q_power := zbool (g 0%nat); q_beep := zbool (g 1%nat); q_mode := Z.to_N (g 2%nat); q_target := Z.to_N (g 3%nat);
     q_fan := Z.to_N (g 4%nat); q_swing := Z.to_N (g 5%nat); q_turbo := zbool (g 6%nat); q_follow_me := zbool (g 7%nat);
     q_eco := zbool (g 8%nat); q_purifier := zbool (g 9%nat); q_aux_heat := zbool (g 10%nat); q_sleep := zbool (g 11%nat);
     q_fahrenheit := zbool (g 12%nat); q_humidity := Z.to_N (g 13%nat); q_freeze := zbool (g 14%nat);
     q_indep_aux := zbool (g 15%nat) |}.

Fixpoint judge_rows (rows : list (list Z)) : list judged :=
  match rows with s :: c :: t => judge_setting (zb s) (class_of c) :: judge_rows t | _ => [] end.

Definition enc_dkind (k : dkind) : list Z :=
  match k with
  | DEnum names raw => 0 :: boolz raw :: map (fun nv => Z.of_N (snd nv)) names
  | DBool => [1] | DTemp => [2] | DPercent => [3]
  end.

Definition CW := world (list (list bytes)).

Definition run_cli (fid : Z) (a : list (list Z)) : option out :=
  match fid with
  | 80 => Some (match lit (zb (arg a 0)) with Some c => ok [enc_class c] | None => (1, []) end)
  | 81 =>
    let ns := Z.to_nat (argz a 0) in
    let L := eval_of (table_of (skipn (1 + ns) a)) in
    Some (ok (match parse_all L (map zb (firstn ns (skipn 1 a))) [] with
              | COk props => [0; 0] :: flat_map (fun nv => [bz (fst nv); enc_tval (snd nv)]) props
              | CStop s => [enc_stop s]
              end))
  | 82 =>
    let h := arg a 0 in
    let ns := Z.to_nat (nth 2 h 0) in let nt := Z.to_nat (nth 3 h 0) in
    let settings := map zb (firstn ns (skipn 1 a)) in
    let L := eval_of (table_of (firstn (2 * nt) (skipn (1 + ns) a))) in
    let rest := skipn (1 + ns + 2 * nt) a in
    let script := group (nth 0 rest []) (skipn 1 rest) in
    let w0 : CW := mkWorld dev_init script (Z.to_N (nth 0 h 0)) [] in
    let '(w, s) := control script_peer L (zbool (nth 1 h 0)) settings w0 in
    Some (ok ([enc_stop s; [Z.of_N (w_counter w)]] ++ map cmd_body_z (w_sent w)))
  | 83 =>
    let reported := request_of (arg a 0) in
    let display := zbool (argz a 1) in
    Some (ok (match verdict_of (judge_rows (skipn 2 a)) with
              | MustReject => [[0]]
              | NotJudged => [[2]]
              | MustApply l => [[1]; enc_request (override_all reported l); [boolz (display_after display l)]]
                               ++ map (fun fv => Z.of_N (field_code (fst fv)) :: enc_value (snd fv)) l
              end))
  | 84 => Some (ok (flat_map (fun r => [bz (fst r); Z.of_N (field_code (fst (snd r))) :: enc_dkind (snd (snd r))])
                             doc_settings))
  | 85 => Some (ok (flat_map (fun r => [bz (fst r); [Z.of_N (fst (snd r)); boolz (snd (snd r))]]) CLI_settings))
  | 86 => Some (ok (flat_map (fun nv => [bz (fst nv); [Z.of_N (snd nv)]]) (enum_names (argn a 0))))
  | 87 => Some (ok [bz (upper (zb (arg a 0))); bz (lower (zb (arg a 0))); bz (capitalize (zb (arg a 0)))])
  | _ => None
  end.
