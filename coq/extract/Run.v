(* Uniform evaluation interface used by the correspondence harness: every model / spec function is
   reachable as  run fid args  over lists of integers, so the OCaml driver and the in-kernel
   cross-check are generic. *)
From MS Require Import lib.Base gen.GenConst gen.GenCmd model.Frame model.Command spec.RefFrame.
Open Scope Z_scope.

Definition zb (l : list Z) : bytes := map Z.to_N l.
Definition bz (l : bytes) : list Z := map Z.of_N l.
Definition zbool (z : Z) : bool := negb (z =? 0).
Definition boolz (b : bool) : Z := if b then 1 else 0.
Definition arg (args : list (list Z)) (k : nat) : list Z := nth k args [].
Definition argz (args : list (list Z)) (k : nat) : Z := nth 0 (arg args k) 0.
Definition argn (args : list (list Z)) (k : nat) : N := Z.to_N (argz args k).

Definition out := (Z * list (list Z))%type.
Definition ok (l : list (list Z)) : out := (0, l).
Definition of_res {A} (r : res A) (f : A -> list (list Z)) : out :=
  match r with Ok a => (0, f a) | Err e => (exn_code e, []) end.

Fixpoint pairs (l : list Z) : list (N * N) :=
  match l with a :: b :: t => (Z.to_N a, Z.to_N b) :: pairs t | _ => [] end.

Definition ctrl_of (l : list Z) : ctrl :=
  let g k := nth k l 0 in
  {| c_beep := zbool (g 0%nat); c_power := zbool (g 1%nat); c_tint := g 2%nat; c_tfrac := zbool (g 3%nat);
     c_mode := Z.to_N (g 4%nat); c_fan := Z.to_N (g 5%nat); c_swing := Z.to_N (g 6%nat);
     c_eco := zbool (g 7%nat); c_turbo := zbool (g 8%nat); c_fahrenheit := zbool (g 9%nat);
     c_sleep := zbool (g 10%nat); c_freeze := zbool (g 11%nat); c_follow_me := zbool (g 12%nat);
     c_purifier := zbool (g 13%nat); c_humidity := Z.to_N (g 14%nat);
     c_aux_heat := zbool (g 15%nat); c_force_aux := zbool (g 16%nat); c_indep_aux := zbool (g 17%nat) |}.

Definition cmd_of (kind : Z) (p : list Z) : cmd :=
  match kind with
  | 0 => GetCaps (zbool (nth 0 p 0))
  | 1 => GetState
  | 2 => GetEnergy
  | 3 => GetHumidity
  | 4 => SetState (ctrl_of p)
  | 5 => ToggleDisplay (zbool (nth 0 p 0))
  | 6 => GetProps (map Z.to_N p)
  | _ => SetProps (pairs p)
  end.

Definition run_frame (fid : Z) (a : list (list Z)) : option out :=
  match fid with
  | 1 => Some (ok [[Z.of_N (crc8 (zb (arg a 0)))]])
  | 2 => Some (ok [[Z.of_N (checksum (zb (arg a 0)))]])
  | 3 => Some (of_res (frame_tobytes (argn a 0) (argn a 1) (zb (arg a 2))) (fun f => [bz f]))
  | 4 => Some (of_res (emit (argn a 0) (cmd_of (argz a 1) (arg a 2)))
                      (fun '(f, n) => [bz f; [Z.of_N n]]))
  | 5 => let f := zb (arg a 1) in
         Some (ok [[boolz (dev_accepts (argn a 0) f)]; [Z.of_N (msg_id f)]; bz (frame_body f)])
  | 6 => Some (ok [[Z.of_N (crc8_bitwise (zb (arg a 0)))]])
  | 7 => Some (of_res (frame_validate (zb (arg a 0))) (fun _ => []))
  | _ => None
  end.
