(* Uniform evaluation interface used by the correspondence harness: every model / spec function is
   reachable as  run fid args  over lists of integers, so the OCaml driver and the in-kernel
   cross-check are generic. *)
From MS Require Import lib.Base gen.GenConst gen.GenCmd model.Session.
From MS Require Import model.Frame model.Command model.Response model.Device model.Lan spec.RefFrame spec.RefAC spec.RefLan
  crypto.MD5 crypto.SHA256 crypto.AES crypto.Modes.
From RecordUpdate Require Import RecordSet.
Import RecordSetNotations.
Open Scope Z_scope.

Definition zb (l : list Z) : bytes := map Z.to_N l.
Definition bz (l : bytes) : list Z := map Z.of_N l.
Definition zbool (z : Z) : bool := negb (z =? 0).
Definition boolz (b : bool) : Z := if b then 1 else 0.
Definition arg (args : list (list Z)) (k : nat) : list Z := nth k args [].
Definition argz (args : list (list Z)) (k : nat) : Z := nth 0 (arg args k) 0.
Definition argn (args : list (list Z)) (k : nat) : N := Z.to_N (argz args k).

Definition out := (Z * list (list Z))%type.
Definition ok (l : list (list Z)) : out := (0, l).
Definition of_res {A} (r : res A) (f : A -> list (list Z)) : out :=
  match r with Ok a => (0, f a) | Err e => (exn_code e, []) end.

Fixpoint pairs (l : list Z) : list (N * N) :=
  match l with a :: b :: t => (Z.to_N a, Z.to_N b) :: pairs t | _ => [] end.

Definition ctrl_of (l : list Z) : ctrl :=
  let g k := nth k l 0 in
  {| c_beep := zbool (g 0%nat); c_power := zbool (g 1%nat); c_tint := g 2%nat; c_tfrac := zbool (g 3%nat);
     c_mode := Z.to_N (g 4%nat); c_fan := Z.to_N (g 5%nat); c_swing := Z.to_N (g 6%nat);
     c_eco := zbool (g 7%nat); c_turbo := zbool (g 8%nat); c_fahrenheit := zbool (g 9%nat);
     c_sleep := zbool (g 10%nat); c_freeze := zbool (g 11%nat); c_follow_me := zbool (g 12%nat);
     c_purifier := zbool (g 13%nat); c_humidity := Z.to_N (g 14%nat);
     c_aux_heat := zbool (g 15%nat); c_force_aux := zbool (g 16%nat); c_indep_aux := zbool (g 17%nat) |}.

Definition cmd_of (kind : Z) (p : list Z) : cmd :=
  match kind with
  | 0 => GetCaps (zbool (nth 0 p 0))
  | 1 => GetState
  | 2 => GetEnergy
  | 3 => GetHumidity
  | 4 => SetState (ctrl_of p)
  | 5 => ToggleDisplay (zbool (nth 0 p 0))
  | 6 => GetProps (map Z.to_N p)
  | _ => SetProps (pairs p)
  end.

Definition run_frame (fid : Z) (a : list (list Z)) : option out :=
  match fid with
  | 1 => Some (ok [[Z.of_N (crc8 (zb (arg a 0)))]])
  | 2 => Some (ok [[Z.of_N (checksum (zb (arg a 0)))]])
  | 3 => Some (of_res (frame_tobytes (argn a 0) (argn a 1) (zb (arg a 2))) (fun f => [bz f]))
  | 4 => Some (of_res (emit (argn a 0) (cmd_of (argz a 1) (arg a 2)))
                      (fun '(f, n) => [bz f; [Z.of_N n]]))
  | 5 => let f := zb (arg a 1) in
         Some (ok [[boolz (dev_accepts (argn a 0) f)]; [Z.of_N (msg_id f)]; bz (frame_body f)])
  | 6 => Some (ok [[Z.of_N (crc8_bitwise (zb (arg a 0)))]])
  | 7 => Some (of_res (frame_validate (zb (arg a 0))) (fun _ => []))
  | _ => None
  end.

(* ---------------- responses ---------------- *)
Definition optz (o : option Z) : list Z := match o with Some z => [1; z] | None => [0; 0] end.
Definition optn (o : option N) : list Z := match o with Some n => [1; Z.of_N n] | None => [0; 0] end.
Definition optb (o : option bool) : list Z := match o with Some b => [1; boolz b] | None => [0; 0] end.

Definition enc_state (s : state_resp) : list Z :=
  [boolz (s_power s); Z.of_N (s_target s); Z.of_N (s_mode s); Z.of_N (s_fan s); Z.of_N (s_swing s);
   boolz (s_turbo s); boolz (s_indep_aux s); boolz (s_follow_me s); boolz (s_eco s); boolz (s_purifier s);
   boolz (s_aux s); boolz (s_sleep s); boolz (s_fahrenheit s)]
  ++ optz (s_indoor s) ++ optz (s_outdoor s) ++ [boolz (s_filter s); boolz (s_display s)]
  ++ optn (s_humidity s) ++ optb (s_freeze s).

Definition enc_capval (v : capval) : list Z :=
  match v with CBool b => [0; boolz b] | CHalf h => [1; Z.of_N h] end.
Definition enc_cdict (d : cdict) : list (list Z) :=
  flat_map (fun kv => [bz (fst kv); enc_capval (snd kv)]) d.
Definition enc_pdict (d : pdict) : list Z := flat_map (fun kv => [Z.of_N (fst kv); Z.of_N (snd kv)]) d.

Definition enc_response (r : response) : list (list Z) :=
  match r with
  | RState i s => [[1; Z.of_N i]; enc_state s]
  | RCaps i d more => [[2; Z.of_N i]; [boolz more]] ++ enc_cdict d
  | RProps i d => [[3; Z.of_N i]; enc_pdict d]
  | REnergy i e => [[4; Z.of_N i]; [boolz (e_valid e); Z.of_N (e_total e); Z.of_N (e_current e); Z.of_N (e_power e);
                                    Z.of_N (e_total_bin e); Z.of_N (e_current_bin e); Z.of_N (e_power_bin e)]]
  | RHumidity i h => [[5; Z.of_N i]; optn h]
  | RBase i => [[6; Z.of_N i]]
  end.

Definition run_resp (fid : Z) (a : list (list Z)) : option out :=
  match fid with
  | 10 => Some (of_res (construct (zb (arg a 0))) enc_response)
  | 11 => Some (ok [optz (parse_temperature (argn a 0) (argn a 1) (zbool (argz a 2)))])
  | 12 => Some (of_res (response_validate (zb (arg a 0))) (fun _ => []))
  | _ => None
  end.

(* ---------------- device operations against a scripted peer ---------------- *)
Definition optbz (o : option bool) : list Z := optb o.
Definition nl (l : list N) : list Z := map Z.of_N l.

Definition enc_dev (d : dev) : list (list Z) :=
  [ [boolz (d_beep d); boolz (d_power d); Z.of_N (d_target d); Z.of_N (d_mode d); Z.of_N (d_fan d); Z.of_N (d_swing d);
     boolz (d_eco d); boolz (d_turbo d)] ++ optb (d_freeze d) ++ [boolz (d_sleep d); boolz (d_fahrenheit d);
     boolz (d_display d); boolz (d_filter d); boolz (d_follow_me d); boolz (d_purifier d)] ++ optn (d_humidity d)
     ++ optz (d_indoor d) ++ optz (d_outdoor d) ++ optn (d_indoor_humidity d) ++ [Z.of_N (d_aux_mode d)]
     ++ optn (d_total_energy d) ++ optn (d_current_energy d) ++ optn (d_power_usage d)
     ++ [boolz (d_use_binary d); boolz (d_request_energy d)];
    nl (d_sup_op_modes d); nl (d_sup_swing_modes d); nl (d_sup_fan_speeds d);
    [boolz (d_sup_custom_fan d); boolz (d_sup_eco d); boolz (d_sup_turbo d); boolz (d_sup_freeze d);
     boolz (d_sup_display d); boolz (d_sup_filter d); boolz (d_sup_purifier d); boolz (d_sup_humidity d);
     boolz (d_sup_target_humidity d); Z.of_N (d_min_temp d); Z.of_N (d_max_temp d)];
    nl (d_sup_rates d); nl (d_sup_aux_modes d); nl (d_sup_props d); nl (d_upd_props d);
    [Z.of_N (d_hangle d); Z.of_N (d_vangle d); boolz (d_self_clean d); Z.of_N (d_rate d); Z.of_N (d_breeze d);
     boolz (d_ieco d); boolz (d_online d); boolz (d_supported d)] ].

(* one step of a history over ANY peer: the five public operations and the setters, by op code *)
Section History.
  Variable P : Type.
  Variable peer : P -> bytes -> P * list bytes.
Definition do_op_gen (w : world P) (op a : Z) : world P * option exn :=
  let sd (f : dev -> dev) : world P * option exn := (upd_dev w f, None) in
  let n := Z.to_N a in let b := zbool a in
  match op with
  | 1 => refresh peer w
  | 2 => apply_op peer w
  | 3 => get_capabilities peer w
  | 4 => toggle_display peer w
  | 5 => start_self_clean peer w
  | 10 => sd (fun d => d <| d_beep := b |>)
  | 11 => sd (fun d => d <| d_power := b |>)
  | 12 => sd (fun d => d <| d_target := n |>)
  | 13 => sd (fun d => d <| d_mode := n |>)
  | 14 => sd (fun d => d <| d_fan := n |>)
  | 15 => sd (fun d => d <| d_swing := n |>)
  | 16 => sd (fun d => d <| d_eco := b |>)
  | 17 => sd (fun d => d <| d_turbo := b |>)
  | 18 => sd (fun d => d <| d_freeze := Some b |>)
  | 19 => sd (fun d => d <| d_sleep := b |>)
  | 20 => sd (fun d => d <| d_fahrenheit := b |>)
  | 21 => sd (fun d => d <| d_follow_me := b |>)
  | 22 => sd (fun d => d <| d_purifier := b |>)
  | 23 => sd (fun d => d <| d_humidity := Some n |>)
  | 24 => sd (fun d => d <| d_aux_mode := n |>)
  | 25 => sd (fun d => set_breeze_away d b)
  | 26 => sd (fun d => set_breeze_mild d b)
  | 27 => sd (fun d => set_breezeless d b)
  | 28 => sd (fun d => set_hangle d n)
  | 29 => sd (fun d => set_vangle d n)
  | 30 => sd (fun d => set_ieco d b)
  | 31 => sd (fun d => set_rate d n)
  | 32 => sd (fun d => d <| d_use_binary := b |>)
  | 33 => sd (fun d => d <| d_request_energy := b |>)
  | _ => (w, None)
  end.

Fixpoint do_ops_gen (w : world P) (ops : list Z) : world P * Z :=
  match ops with
  | op :: a :: t =>
    match do_op_gen w op a with
    | (w', Some e) => (w', exn_code e)
    | (w', None) => do_ops_gen w' t
    end
  | _ => (w, 0)
  end.
End History.
Arguments do_op_gen {P}. Arguments do_ops_gen {P}.

Definition W := world (list (list bytes)).
Definition do_op : W -> Z -> Z -> W * option exn := do_op_gen script_peer.
Definition do_ops : W -> list Z -> W * Z := do_ops_gen script_peer.


(* split a flat list of frames into exchanges of the given sizes *)
Fixpoint group (sizes : list Z) (frames : list (list Z)) : list (list bytes) :=
  match sizes with
  | [] => []
  | k :: t => map zb (firstn (Z.to_nat k) frames) :: group t (skipn (Z.to_nat k) frames)
  end.

Definition cmd_body_z (c : cmd) : list Z :=
  match cmd_body c with Ok b => bz b | Err _ => [] end.

Definition run_dev (fid : Z) (a : list (list Z)) : option out :=
  match fid with
  | 20 =>
    let script := group (arg a 2) (skipn 3 a) in
    let w0 := mkWorld dev_init script (argn a 0) [] in
    let '(w, st) := do_ops w0 (arg a 1) in
    Some (st, enc_dev (w_dev w) ++ [[Z.of_N (w_counter w)]] ++ map cmd_body_z (w_sent w))
  | _ => None
  end.

(* ---------------- reference AC codecs ---------------- *)
Definition enc_request (q : request) : list Z :=
  [boolz (q_power q); boolz (q_beep q); Z.of_N (q_mode q); Z.of_N (q_target q); Z.of_N (q_fan q); Z.of_N (q_swing q);
   boolz (q_turbo q); boolz (q_follow_me q); boolz (q_eco q); boolz (q_purifier q); boolz (q_aux_heat q);
   boolz (q_sleep q); boolz (q_fahrenheit q); Z.of_N (q_humidity q); boolz (q_freeze q); boolz (q_indep_aux q)].

Definition run_refac (fid : Z) (a : list (list Z)) : option out :=
  match fid with
  | 30 => Some (match ref_decode_control (zb (arg a 0)) with Some q => ok [enc_request q] | None => (1, []) end)
  | 31 => Some (of_res (set_state_body (ctrl_of (arg a 0))) (fun b => [bz b]))
  | _ => None
  end.

Definition enc_view (v : view) : list Z :=
  [boolz (v_power v); Z.of_N (v_target v); Z.of_N (v_mode v); Z.of_N (v_fan v); Z.of_N (v_swing v); boolz (v_eco v);
   boolz (v_turbo v)] ++ optb (v_freeze v) ++ [boolz (v_sleep v); boolz (v_fahrenheit v); boolz (v_display v);
   boolz (v_filter v); boolz (v_follow_me v); boolz (v_purifier v)] ++ optn (v_humidity v) ++ [Z.of_N (v_aux_mode v)].

Definition run_refac2 (fid : Z) (a : list (list Z)) : option out :=
  match fid with
  | 32 => Some (match ref_report (zb (arg a 0)) with
                | Some r => ok [enc_view (expected_view (zbool (argz a 1)) r);
                                [Z.of_N (p_indoor_raw r); Z.of_N (p_indoor_digit r); Z.of_N (p_outdoor_raw r);
                                 Z.of_N (p_outdoor_digit r); boolz (p_fahrenheit r)]]
                | None => (1, []) end)
  | _ => None
  end.

(* ---------------- LAN packet layer ---------------- *)
Definition optkey (l : list Z) : option bytes := match l with [] => None | _ => Some (zb l) end.
Definition of_opt {A} (o : option A) (f : A -> list (list Z)) : out :=
  match o with Some a => (0, f a) | None => (1, []) end.
Definition bigz (l : list Z) : N := from_le (zb l).      (* integers beyond 62 bits travel as LE byte lists *)

Definition run_lan (fid : Z) (a : list (list Z)) : option out :=
  match fid with
  | 40 => Some (of_res (v2_encode (zb (arg a 0)) (bigz (arg a 1)) (zb (arg a 2))) (fun p => [bz p]))
  | 41 => Some (of_res (v2_decode (zb (arg a 0))) (fun f => [bz f]))
  | 42 => Some (of_res (v3_encode_request (optkey (arg a 0)) (argn a 1) (zb (arg a 2)) (zb (arg a 3))) (fun p => [bz p]))
  | 43 => Some (of_res (v3_process_packet (optkey (arg a 0)) (zb (arg a 1))) (fun f => [bz f]))
  | 44 => Some (of_res (get_local_key (zb (arg a 0)) (zb (arg a 1))) (fun k => [bz k]))
  | 45 => let '(buf, q) := fold_left data_received (map zb (skipn 1 a)) (zb (arg a 0), []) in
          Some (ok (bz buf :: map bz q))
  | 46 => let g k := Z.to_N (nth k (arg a 0) 0) in
          Some (ok [bz (timestamp (g 0%nat) (g 1%nat) (g 2%nat) (g 3%nat) (g 4%nat) (g 5%nat) (g 6%nat))])
  | 47 => Some (ok [bz (md5 (zb (arg a 0)))])
  | 48 => Some (ok [bz (sha256 (zb (arg a 0)))])
  | 49 => let key := zb (arg a 1) in let d := zb (arg a 2) in
          Some (of_res (match argz a 0 with 0 => ecb_enc key d | 1 => ecb_dec key d | 2 => encrypt_aes_cbc key d
                        | 3 => decrypt_aes_cbc key d | 4 => Ok (pkcs7_pad d) | _ => pkcs7_unpad d end) (fun x => [bz x]))
  | 50 => Some (of_res (v3_encode_handshake (argn a 0) (zb (arg a 1))) (fun p => [bz p]))
  | 51 => Some (of_opt (ref_v2_parse (zb (arg a 0))) (fun '(id, f) => [bz (le_bytes 8 id); bz f]))
  | 52 => Some (of_opt (ref_v2_build (zb (arg a 0)) (zb (arg a 1)) (bigz (arg a 2)) (zb (arg a 3)) (zb (arg a 4))) (fun p => [bz p]))
  | 53 => Some (of_opt (ref_v3_parse_request (zb (arg a 0)) (zb (arg a 1))) (fun '(c, d) => [[Z.of_N c]; bz d]))
  | 54 => Some (of_opt (ref_v3_build (argn a 0) (zb (arg a 1)) (argn a 2) (zb (arg a 3)) (zb (arg a 4))) (fun p => [bz p]))
  | 55 => Some (of_opt (ref_handshake_reply (zb (arg a 0)) (zb (arg a 1))) (fun r => [bz r; bz (ref_session_key (zb (arg a 0)) (zb (arg a 1)))]))
  | 56 => Some (ok [bz (ref_handshake_packet (argn a 0) (zb (arg a 1)))])
  | 57 => Some (of_opt (ref_parse_handshake_request (zb (arg a 0))) (fun '(c, t) => [[Z.of_N c]; bz t]))
  | 58 => Some (ok [bz (udpid (zb (arg a 0)))])
  | _ => None
  end.

(* ---------------- session histories ---------------- *)
Definition cout_of (z : Z) : Session.cout := match z with 1 => ConnRefused | 2 => ConnHang | _ => ConnOk end.
Definition ritem_of (k f : Z) : Session.ritem :=
  match k with 0 => RFrame (Z.to_N f) | 1 => RHsOk | 2 => RHsBad | 3 => RErr | _ => RClose end.
Fixpoint take_items (n : nat) (l : list Z) : Session.reply * list Z :=
  match n, l with
  | S n', d :: k :: f :: t => let '(r, rest) := take_items n' t in ((Z.to_N d, ritem_of k f) :: r, rest)
  | _, _ => ([], l)
  end.
Fixpoint replies_of (fuel : nat) (l : list Z) : list Session.reply :=
  match fuel, l with
  | S fu, n :: t => let '(r, rest) := take_items (Z.to_nat n) t in r :: replies_of fu rest
  | _, _ => []
  end.
Definition given_of (z : Z) : option bool := match z with 1 => Some true | 2 => Some false | _ => None end.
Fixpoint ops_of (l : list Z) : list Session.op :=
  match l with
  | o :: a :: b :: t =>
    (match o with
     | 1 => OSend (Z.to_N a) (Z.to_nat b)
     | 2 => OAuth (given_of a) (Z.to_nat b)
     | 3 => ODevSend (Z.to_N a)
     | 4 => ODevAuth (zbool (2 - a))
     | 5 => OTick (Z.to_N a)
     | _ => OSetLife (if a <? 0 then None else Some (Z.to_N a))
     end) :: ops_of t
  | _ => []
  end.
Definition enc_outcome (o : Session.outcome) : list Z :=
  match o with OutFrames l => 0 :: map Z.of_N l | OutUnit => [-1] | OutErr e => [exn_code e] end.
Definition enc_event (e : Session.event) : list Z :=
  match e with
  | EvConnect c v3 => [1; Z.of_nat c; boolz v3]
  | EvHs c p g => [2; Z.of_nat c; Z.of_N p; boolz g]
  | EvData c p k f => [3; Z.of_nat c; Z.of_N p; Z.of_nat k; Z.of_N f]
  | EvData2 c f => [3; Z.of_nat c; 0; 0; Z.of_N f]
  | EvAuthOk c k => [4; Z.of_nat c; Z.of_nat k]
  | EvClose c => [5; Z.of_nat c]
  end.
Definition enc_lan (l : Session.lan) : list Z :=
  [match l_proto l with Some c => if c_closing c then 2 else 1 | None => 0 end; boolz (l_v3 l);
   match l_creds l with None => 0 | Some true => 1 | Some false => 2 end;
   match l_proto l with Some c => match c_key c with Some k => Z.of_nat k | None => 0 end | None => -1 end].

Definition run_session (fid : Z) (a : list (list Z)) : option out :=
  match fid with
  | 60 =>
    let w0 := Session.world_init (map cout_of (arg a 0)) (replies_of (length (arg a 1)) (arg a 1))
                                 (replies_of (length (arg a 3)) (arg a 3)) in
    let '(outs, w) := Session.run_ops (ops_of (arg a 2)) w0 in
    Some (ok ([[Z.of_N (Session.w_now w)]; enc_lan (Session.w_lan w); [Z.of_nat (length outs)]] ++ map enc_outcome outs ++ map enc_event (Session.w_log w)))
  | _ => None
  end.
