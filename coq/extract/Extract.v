From Coq Require Import Extraction ExtrOcamlBasic.
From MS Require Import extract.RunAll.
Extraction Language OCaml.
Extraction "model.ml" run.
