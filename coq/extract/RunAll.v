From MS Require Import lib.Base extract.Run extract.RunDisc extract.RunProps extract.RunE2E extract.RunCloud extract.RunCli.
Open Scope Z_scope.

Definition run (fid : Z) (a : list (list Z)) : out :=
  match run_frame fid a with Some o => o | None =>
  match run_resp fid a with Some o => o | None =>
  match run_dev fid a with Some o => o | None =>
  match run_refac fid a with Some o => o | None =>
  match run_refac2 fid a with Some o => o | None =>
  match run_lan fid a with Some o => o | None =>
  match run_session fid a with Some o => o | None =>
  match run_disc fid a with Some o => o | None =>
  match run_props fid a with Some o => o | None =>
  match run_e2e fid a with Some o => o | None =>
  match run_cloud fid a with Some o => o | None =>
  match run_cli fid a with Some o => o | None =>
  (-1, [])
  end end end end end end end end end end end end.

(* in-kernel cross-check of the extracted evaluator: every recorded (fid, args, result) triple must be
   reproduced by vm_compute *)
Fixpoint lz_eqb (a b : list Z) : bool :=
  match a, b with [], [] => true | x :: a', y :: b' => (x =? y) && lz_eqb a' b' | _, _ => false end.
Fixpoint llz_eqb (a b : list (list Z)) : bool :=
  match a, b with [], [] => true | x :: a', y :: b' => lz_eqb x y && llz_eqb a' b' | _, _ => false end.
Definition case_ok (c : Z * list (list Z) * (Z * list (list Z))) : bool :=
  let '(fid, a, (st, o)) := c in
  let '(st', o') := run fid a in (st =? st') && llz_eqb o o'.
Fixpoint first_bad (n : nat) (cs : list (Z * list (list Z) * (Z * list (list Z)))) : option nat :=
  match cs with [] => None | c :: t => if case_ok c then first_bad (S n) t else Some n end.
