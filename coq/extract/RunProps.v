(* evaluation interface for the property-protocol reference (fids 100-109) *)
From MS Require Import lib.Base spec.RefProps extract.Run.
Open Scope Z_scope.

Fixpoint store_of (a : list (list Z)) : store :=
  match a with
  | k :: v :: t => (Z.to_N (nth 0 k 0), zb v) :: store_of t
  | _ => []
  end.
Definition enc_store (s : store) : list (list Z) := flat_map (fun kv => [[Z.of_N (fst kv)]; bz (snd kv)]) s.
Definition setting_of (k v : Z) : setting :=
  match k with
  | 0 => SBreezeAway (zbool v) | 1 => SBreezeless (zbool v) | 2 => SBreezeControl (Z.to_N v) | 3 => SIeco (zbool v)
  | 4 => SRate (Z.to_N v) | 5 => SLrAngle (Z.to_N v) | 6 => SUdAngle (Z.to_N v) | 7 => SSelfClean (zbool v) | _ => SBuzzer (zbool v)
  end.

Definition run_props (fid : Z) (a : list (list Z)) : option out :=
  match fid with
  | 100 => let '(s', r) := ref_props_step (store_of (skipn 1 a)) (zb (arg a 0)) in
           Some (ok ((match r with Some b => [1] :: [bz b] | None => [0] :: [[]] end) ++ enc_store s'))
  | 101 => let v := expected_pview (store_of a) in
           Some (ok [[boolz (pv_breeze_away v); boolz (pv_breeze_mild v); boolz (pv_breezeless v)]
                     ++ optb (pv_ieco v) ++ optn (pv_rate v) ++ optn (pv_lr v) ++ optn (pv_ud v) ++ optb (pv_self_clean v)])
  | 102 => let s := setting_of (argz a 0) (argz a 1) in Some (ok [[Z.of_N (vendor_id s)]; bz (vendor_value s)])
  | 103 => Some (of_opt (ref_parse_set (zb (arg a 0))) (fun recs => flat_map (fun kv => [[Z.of_N (fst kv)]; bz (snd kv)]) recs))
  | _ => None
  end.
