(* Reference reading of capability records: one record interpreted ALONE, from its own bytes only (C15). *)
From MS Require Import lib.Base gen.GenCmd model.Response.

Record rec := { r_id : N; r_vals : bytes }.

(* record on the wire: id (LE16), size, value bytes *)
Definition enc_rec (r : rec) : bytes := le_bytes 2 (r_id r) ++ [N.of_nat (length (r_vals r))] ++ r_vals r.
(* a capabilities payload as Response.construct hands it to the parser: B5, count, records, then whatever trails
   (normally the 'more' flag and the message id) *)
Definition page (rs : list rec) (trailer : bytes) : bytes :=
  [181; N.of_nat (length rs)] ++ flat_map enc_rec rs ++ trailer.

(* the dictionary entries one record contributes *)
Definition updates_of (r : rec) : list (bytes * capval) :=
  match r_vals r with
  | [] => []
  | v0 :: _ =>
    if negb (capid_known (r_id r)) then [] else
    match readers_for capability_readers (r_id r) with
    | Some rs => map (fun rd => (fst rd, CBool (rpred_eval (snd rd) v0))) rs
    | None =>
      if r_id r =? CapabilityId_TEMPERATURES then
        match r_vals r with
        | c3 :: c4 :: c5 :: c6 :: c7 :: c8 :: tl =>
          let dec := match tl with d :: _ => d | [] => 6 end in
          [(s_cool_min, CHalf c3); (s_cool_max, CHalf c4); (s_auto_min, CHalf c5); (s_auto_max, CHalf c6);
           (s_heat_min, CHalf c7); (s_heat_max, CHalf c8); (s_decimals, CBool (negb (dec =? 0)))]
        | _ => []
        end
      else []
    end
  end.

Definition upd (d : cdict) (kv : bytes * capval) : cdict := cdict_update d (fst kv) (snd kv).
Definition apply_rec (acc : cdict) (r : rec) : cdict := fold_left upd (updates_of r) acc.
(* "interpreting a record alone" *)
Definition interp1 (r : rec) : cdict := apply_rec [] r.
(* "... and merging in order" *)
Definition merge_all (ds : list cdict) : cdict := fold_left cdict_merge ds [].

Definition cequiv (a b : cdict) : Prop := forall k, cdict_get a k = cdict_get b k.
