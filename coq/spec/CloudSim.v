(* Environments for the cloud client model: (1) a scripted server (one outcome per POST attempt), (2) the reference cloud of
   RefCloud.v behind a fault injector and an arbitrary re-ordering of the form fields. Definitions only. *)
From MS Require Import lib.Base model.Cloud spec.RefCloud.
Local Open Scope N_scope.

(* (1) the attempt outcomes are a script; an exhausted script keeps timing out *)
Definition script_srv (s : list outcome) (_ : request) : list outcome * outcome :=
  match s with [] => ([], OTimeout) | o :: t => (t, o) end.

(* (2) *)
Inductive fault :=
| FNone                      (* the reply gets through *)
| FTimeout                   (* the request is processed, the reply is lost *)
| FHttp                      (* a transport error / an error status instead of the reply *)
| FApi (code : positive).    (* an API error instead of the reply *)

Definition entry_of_reg (e : reg_entry) : entry := mkEntry (g_udpid e) (g_token e) (g_key e).
Definition resp_of_reply (r : ref_reply) : api_resp :=
  match r with
  | RpLoginId l => mkResp 0 (RLoginId l)
  | RpSession s => mkResp 0 (RSession s)
  | RpTokens l => mkResp 0 (RTokens (map entry_of_reg l))
  | RpError code => mkResp (Zpos code) ROther
  end.

Definition sim_state := (list fault * ref_state)%type.
Definition sim_srv (shuffle : list field -> list field) (c : cloud_cfg) (s : sim_state) (rq : request)
  : sim_state * outcome :=
  let '(st', rep) := ref_step c (snd s) (fst rq, shuffle (snd rq)) in
  match fst s with
  | [] => (([], st'), OResp (resp_of_reply rep))
  | FNone :: t => ((t, st'), OResp (resp_of_reply rep))
  | FTimeout :: t => ((t, st'), OTimeout)
  | FHttp :: t => ((t, st'), OHttpErr)
  | FApi code :: t => ((t, st'), OResp (mkResp (Zpos code) ROther))
  end.

(* a device that accepts exactly the credentials `good`; its state is the credentials it stored *)
Definition creds_eqb (a b : str * str) : bool := beqb (fst a) (fst b) && beqb (snd a) (snd b).
Definition exact_device (good : str * str) (d : option (str * str)) (t k : str) : option (str * str) * res unit :=
  if creds_eqb (t, k) good then (Some (t, k), Ok tt) else (d, Err EAuth).
