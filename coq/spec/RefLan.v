(* Independent reference of the LAN packet formats, written from the header comments of msmart/lan.py
   (DESIGN.md Appendix B), i.e. what a device-side implementation of the format does. *)
From MS Require Import lib.Base gen.GenLan crypto.MD5 crypto.SHA256 crypto.AES crypto.Modes.

Definition v2_key : bytes := md5 SIGN_KEY.
Definition ok_or_none {A} (r : res A) : option A := match r with Ok a => Some a | Err _ => None end.

(* ---------------- V2 ----------------
   5A5A | 0111 | total length LE16 | 2000 | message id x4 | timestamp x8 | device id LE64 | 12 bytes |
   AES-128-ECB(PKCS7(frame)) under MD5(SIGN_KEY) | MD5(everything before || SIGN_KEY) *)
Definition ref_v2_build (msgid ts : bytes) (device_id : N) (hdr12 : bytes) (frame : bytes) : option bytes :=
  match ok_or_none (ecb_enc v2_key (pkcs7_pad frame)) with
  | None => None
  | Some payload =>
    let total := (40 + length payload + 16)%nat in
    let head := [90; 90; 1; 17] ++ le_bytes 2 (N.of_nat total) ++ [32; 0] ++ msgid ++ ts ++ le_bytes 8 device_id ++ hdr12
                ++ payload in
    Some (head ++ md5 (head ++ SIGN_KEY))
  end.

(* device-side parse: -> (device id, frame) *)
Definition ref_v2_parse (p : bytes) : option (N * bytes) :=
  let n := length p in
  if (n <? 56)%nat then None
  else if negb (beqb (firstn 4 p) [90; 90; 1; 17]) then None
  else if negb (from_le (firstn 2 (skipn 4 p)) =? N.of_nat n) then None
  else if negb (beqb (firstn 2 (skipn 6 p)) [32; 0]) then None
  else
    let signed := firstn (n - 16) p in
    if negb (beqb (md5 (signed ++ SIGN_KEY)) (skipn (n - 16) p)) then None
    else
      let device_id := from_le (firstn 8 (skipn 20 p)) in
      match ok_or_none (ecb_dec v2_key (skipn 40 signed)) with
      | None => None
      | Some padded =>
        match ok_or_none (pkcs7_unpad padded) with
        | None => None
        | Some frame => Some (device_id, frame)
        end
      end.

(* ---------------- V3 ----------------
   8370 | size BE16 | 20 | pad<<4 | type | [ counter BE16 | payload | pad ] | SHA-256(header || counter || payload || pad)
   size = |payload| + pad + 32 ; bracketed part AES-256-CBC (zero IV) under the session key for types 3 / 6 *)
Definition v3_pad (n : nat) : nat := ((16 - (n + 2) mod 16) mod 16)%nat.

Definition ref_v3_build (ptype : N) (key : bytes) (counter : N) (payload rnd : bytes) : option bytes :=
  let pad := v3_pad (length payload) in
  let header := [131; 112] ++ be_bytes 2 (N.of_nat (length payload + pad + 32)) ++ [32; N.of_nat pad * 16 + ptype] in
  let plain := be_bytes 2 counter ++ payload ++ firstn pad rnd in
  match ok_or_none (cbc_enc key plain) with
  | None => None
  | Some c => Some (header ++ c ++ sha256 (header ++ plain))
  end.
Definition ref_v3_build_response := ref_v3_build 3.

(* device-side parse of an encrypted request: -> (counter, payload) *)
Definition ref_v3_parse_request (key : bytes) (p : bytes) : option (N * bytes) :=
  let n := length p in
  if (n <? 40)%nat then None
  else if negb (beqb (firstn 2 p) [131; 112]) then None
  else if negb (from_be (firstn 2 (skipn 2 p)) + 8 =? N.of_nat n) then None
  else if negb (nthb p 4 =? 32) then None
  else if negb (nthb p 5 mod 16 =? 6) then None
  else
    let pad := N.to_nat (nthb p 5 / 16) in
    let header := firstn 6 p in
    let c := firstn (n - 38) (skipn 6 p) in
    match ok_or_none (cbc_dec key c) with
    | None => None
    | Some plain =>
      if negb (beqb (sha256 (header ++ plain)) (skipn (n - 32) p)) then None
      else if (length plain <? 2 + pad)%nat then None
      else
        let payload := firstn (length plain - 2 - pad) (skipn 2 plain) in
        if negb (Nat.eqb pad (v3_pad (length payload))) then None
        else Some (from_be (firstn 2 plain), payload)
    end.

(* handshake: reply payload = CBC(key, nonce32) || SHA-256(nonce32); session key = nonce xor key *)
Definition ref_handshake_reply (key nonce : bytes) : option bytes :=
  match ok_or_none (cbc_enc key nonce) with Some c => Some (c ++ sha256 nonce) | None => None end.
Definition ref_session_key (key nonce : bytes) : bytes := xor_bytes nonce key.
(* the handshake reply as a V3 packet of type 1 *)
Definition ref_handshake_packet (counter : N) (reply : bytes) : bytes :=
  [131; 112] ++ be_bytes 2 (N.of_nat (length reply)) ++ [32; 1] ++ be_bytes 2 counter ++ reply.
(* device-side parse of a handshake request: -> (counter, token) *)
Definition ref_parse_handshake_request (p : bytes) : option (N * bytes) :=
  if (length p <? 8)%nat then None
  else if negb (beqb (firstn 2 p) [131; 112]) then None
  else if negb (from_be (firstn 2 (skipn 2 p)) + 8 =? N.of_nat (length p)) then None
  else if negb (beqb (firstn 2 (skipn 4 p)) [32; 0]) then None
  else Some (from_be (firstn 2 (skipn 6 p)), skipn 8 p).
