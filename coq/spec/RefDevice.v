(* An ideal air conditioner, device side: it keeps a state, adopts what a 0x40 control body asks for (as decoded by the
   vendor layout in RefAC), and reports its state in a 0xC0 status body laid out as the vendor's status decoder reads it
   (RefAC.ref_report).  Also the device-side frame builder (AA | len | AC | 0 x6 | type | body | CRC-8 | checksum). *)
From MS Require Import lib.Base gen.GenDev spec.RefFrame spec.RefAC.
Open Scope N_scope.

Record astate := mkAstate {
  a_power : bool; a_target : N (* half degrees *); a_mode : N; a_fan : N; a_swing : N;
  a_turbo : bool; a_eco : bool; a_sleep : bool; a_fahrenheit : bool; a_follow_me : bool; a_purifier : bool;
  a_aux : bool; a_indep_aux : bool; a_humidity : N; a_freeze : bool; a_display : bool;
  a_indoor : N; a_outdoor : N                      (* raw sensor bytes, not settable *)
}.

Definition astate0 : astate :=
  mkAstate false 48 2 102 0 false false false false false false false false 40 false true 100 120.

(* the device adopts the request; display and sensors are not part of a control command *)
Definition adopt (s : astate) (q : request) : astate :=
  mkAstate (q_power q) (q_target q) (q_mode q) (q_fan q) (q_swing q) (q_turbo q) (q_eco q) (q_sleep q) (q_fahrenheit q)
           (q_follow_me q) (q_purifier q) (q_aux_heat q) (q_indep_aux q) (q_humidity q) (q_freeze q) (a_display s)
           (a_indoor s) (a_outdoor s).

Definition bit_at (b : bool) (k : N) : N := if b then 2 ^ k else 0.

(* 24-byte status body.  Setpoint: whole degrees 16..31 in the low nibble of byte 2 (+16), others in the 5-bit field of byte
   13 (+12); half degree in bit 4 of byte 2 *)
Definition status_body (s : astate) : bytes :=
  let whole := a_target s / 2 in
  let primary := (16 <=? whole) && (whole <=? 31) in
  let b2 := a_mode s * 32 + bit_at (negb (a_target s mod 2 =? 0)) 4 + (if primary then whole - 16 else 0) in
  let b13 := if primary then 0 else whole - 12 in
  [192;
   bit_at (a_power s) 0;
   b2;
   a_fan s;
   0; 0; 0;
   48 + a_swing s;
   bit_at (a_turbo s) 5 + bit_at (a_indep_aux s) 6 + bit_at (a_follow_me s) 7;
   bit_at (a_aux s) 3 + bit_at (a_eco s) 4 + bit_at (a_purifier s) 5;
   bit_at (a_sleep s) 0 + bit_at (a_fahrenheit s) 2;
   a_indoor s; a_outdoor s;
   b13;
   if a_display s then 0 else 112;
   0; 0; 0; 0;
   a_humidity s;
   0;
   bit_at (a_freeze s) 7;
   0; 0].

Definition valid_astate (s : astate) : Prop :=
  26 <= a_target s <= 87 /\ a_mode s < 8 /\ a_fan s < 128 /\ a_swing s < 16 /\ a_humidity s < 128
  /\ a_indoor s < 256 /\ a_outdoor s < 256.

(* what the vendor's status decoder must read from the body *)
Definition report_of (s : astate) : report :=
  {| p_power := a_power s; p_target := a_target s; p_mode := a_mode s; p_fan := a_fan s; p_swing := a_swing s;
     p_turbo := a_turbo s; p_eco := a_eco s; p_sleep := a_sleep s; p_fahrenheit := a_fahrenheit s;
     p_follow_me := a_follow_me s; p_purifier := a_purifier s; p_filter := false; p_display_on := a_display s;
     p_aux := a_aux s; p_indep_aux := a_indep_aux s;
     p_indoor_raw := a_indoor s; p_indoor_digit := 0; p_outdoor_raw := a_outdoor s; p_outdoor_digit := 0;
     p_humidity := Some (a_humidity s); p_freeze := Some (a_freeze s) |}.

(* one AC-level request body -> new state and the status body it answers with (None: not a state request) *)
Definition is_toggle_display (b : bytes) : bool :=
  match b with 65 :: _ :: _ :: _ :: 2 :: _ :: 2 :: _ => true | _ => false end.
Definition ref_ac_step (s : astate) (body : bytes) : astate * option bytes :=
  match body with
  | 64 :: _ =>
    match ref_decode_control body with
    | Some q => let s' := adopt s q in (s', Some (status_body s'))
    | None => (s, None)
    end
  | 65 :: _ =>
    if is_toggle_display body then
      let s' := mkAstate (a_power s) (a_target s) (a_mode s) (a_fan s) (a_swing s) (a_turbo s) (a_eco s) (a_sleep s)
                         (a_fahrenheit s) (a_follow_me s) (a_purifier s) (a_aux s) (a_indep_aux s) (a_humidity s)
                         (a_freeze s) (negb (a_display s)) (a_indoor s) (a_outdoor s) in
      (s', Some (status_body s'))
    else (s, Some (status_body s))
  | _ => (s, None)
  end.

(* device -> client frame *)
Definition ref_response_frame (ftype : N) (body : bytes) : bytes :=
  let data := body ++ [crc8_bitwise body] in
  let hdr := [170; N.of_nat (length data) + 10; 172; 0; 0; 0; 0; 0; 0; ftype] in
  let f := hdr ++ data in
  f ++ [(256 - sumN (skipn 1 f) mod 256) mod 256].
