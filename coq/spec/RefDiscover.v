(* Independent reference for discovery: what a V2 / V3 appliance puts into its reply to the broadcast probe, and what
   makes a probe acceptable to an appliance.  Written from the two captured replies in the repository's tests and the
   packet layout in DESIGN.md Appendix B (not from the parser under test):

   reply (V2)   5A5A | 0111 | total length LE16 | 7A80 | 12 bytes | device id LE48 | 14 bytes |
                AES-128-ECB(PKCS7(payload)) under MD5(SIGN_KEY) | MD5(everything before || SIGN_KEY)
   payload      IPv4 address, least significant byte first | port LE32 | serial number (32 chars) |
                name length | name "net_<type hex>_<suffix>" | further bytes
   reply (V3)   8370 | length BE16 | 20 0F 00 00 | V2 reply | 16 bytes
   probe        a V2 packet of type 0x0092 ("broadcast"), length-consistent and correctly signed. *)
From MS Require Import lib.Base gen.GenLan crypto.MD5 crypto.AES crypto.Modes spec.RefLan.
Open Scope N_scope.

Definition hexdigit (n : N) : N := if n <? 10 then 48 + n else 87 + n.      (* lower case *)
Definition hex2 (ty : N) : bytes := [hexdigit (ty / 16); hexdigit (ty mod 16)].
Definition ref_name (ty : N) (suffix : bytes) : bytes := [110; 101; 116; 95] ++ hex2 ty ++ [95] ++ suffix.

Definition ref_payload (rip : bytes) (port : N) (sn name extra : bytes) : bytes :=
  rev rip ++ le_bytes 4 port ++ sn ++ [N.of_nat (length name)] ++ name ++ extra.

Definition ref_reply_v2 (hdr12 hdr14 : bytes) (device_id : N) (payload : bytes) : option bytes :=
  match ok_or_none (ecb_enc v2_key (pkcs7_pad payload)) with
  | None => None
  | Some c =>
    let total := (40 + length c + 16)%nat in
    let head := [90; 90; 1; 17] ++ le_bytes 2 (N.of_nat total) ++ [122; 128] ++ hdr12 ++ le_bytes 6 device_id ++ hdr14 ++ c in
    Some (head ++ md5 (head ++ SIGN_KEY))
  end.

Definition ref_reply_v3 (hdr12 hdr14 : bytes) (device_id : N) (payload tail16 : bytes) : option bytes :=
  match ref_reply_v2 hdr12 hdr14 device_id payload with
  | None => None
  | Some inner => Some ([131; 112] ++ be_bytes 2 (N.of_nat (length inner + 16)) ++ [32; 15; 0; 0] ++ inner ++ tail16)
  end.

Definition ref_discovery_reply (ver : N) (hdr12 hdr14 : bytes) (device_id : N) (rip : bytes) (port : N)
           (sn name extra tail16 : bytes) : option bytes :=
  if ver =? 3 then ref_reply_v3 hdr12 hdr14 device_id (ref_payload rip port sn name extra) tail16
  else ref_reply_v2 hdr12 hdr14 device_id (ref_payload rip port sn name extra).

(* an appliance answers a probe that is a well-formed, correctly signed broadcast packet *)
Definition ref_probe_ok (p : bytes) : bool :=
  let n := length p in
  (56 <=? n)%nat
  && beqb (firstn 4 p) [90; 90; 1; 17]
  && (from_le (firstn 2 (skipn 4 p)) =? N.of_nat n)
  && beqb (firstn 2 (skipn 6 p)) [146; 0]
  && beqb (md5 (firstn (n - 16) p ++ SIGN_KEY)) (skipn (n - 16) p)
  && match ok_or_none (ecb_dec v2_key (skipn 40 (firstn (n - 16) p))) with
     | Some padded => match ok_or_none (pkcs7_unpad padded) with Some _ => true | None => false end
     | None => false
     end.
Definition ref_probe_ports : list N := [6445; 20086].
