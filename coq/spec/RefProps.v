(* Independent reference for the property protocol ("new protocol", 0xB0 set / 0xB1 get), written from the vendor Lua
   (reference/T_0000_AC_00000Q14_2024013001.lua: the B0/B1 branches of the json->binary and binary->json conversions):

   set body      B0 | n | n x ( id lo | id hi | len | value bytes )
   get body      B1 | n | n x ( id lo | id hi )
   response      B0/B1 | n | n x ( id lo | id hi | result | len | value bytes )

   vendor value encodings: prevent_straight_wind (0x0042) 2 = on, 1 = off; no_wind_sense (0x0018) 1 / 0;
   fa_no_wind_sense (0x0043) 1 off, 2 breeze away, 3 breeze mild, 4 breezeless; self_clean (0x0039) 1 / 0;
   buzzer (0x001A) 1 / 0; wind_swing_ud_angle (0x0009) and wind_swing_lr_angle (0x000A) the raw position;
   rate_select (0x0048) the raw level; ieco (0x00E3) set: 13 bytes frame | number | switch | 10 more, reported as number | switch.

   The ideal appliance keeps one stored value per advertised id, answers a set with the stored values of the ids written
   and a get with the stored values of the ids asked for; the three breeze settings are mutually exclusive on it. *)
From MS Require Import lib.Base.
Open Scope N_scope.

Definition ID_UD_ANGLE := 9. Definition ID_LR_ANGLE := 10. Definition ID_NO_WIND_SENSE := 24. Definition ID_BUZZER := 26.
Definition ID_SELF_CLEAN := 57. Definition ID_PREVENT_STRAIGHT := 66. Definition ID_FA_NO_WIND := 67.
Definition ID_RATE_SELECT := 72. Definition ID_IECO := 227.

(* ---- what the user asked for, in vendor terms ---- *)
Inductive setting :=
| SBreezeAway (on : bool) | SBreezeless (on : bool) | SBreezeControl (mode : N)      (* mode: 1 off .. 4 breezeless *)
| SIeco (on : bool) | SRate (level : N) | SLrAngle (pos : N) | SUdAngle (pos : N) | SSelfClean (on : bool) | SBuzzer (on : bool).

Definition vendor_id (s : setting) : N :=
  match s with
  | SBreezeAway _ => ID_PREVENT_STRAIGHT | SBreezeless _ => ID_NO_WIND_SENSE | SBreezeControl _ => ID_FA_NO_WIND
  | SIeco _ => ID_IECO | SRate _ => ID_RATE_SELECT | SLrAngle _ => ID_LR_ANGLE | SUdAngle _ => ID_UD_ANGLE
  | SSelfClean _ => ID_SELF_CLEAN | SBuzzer _ => ID_BUZZER
  end.
Definition vendor_value (s : setting) : bytes :=
  match s with
  | SBreezeAway on => [if on then 2 else 1]
  | SBreezeless on | SSelfClean on | SBuzzer on => [b2n on]
  | SBreezeControl m | SRate m | SLrAngle m | SUdAngle m => [m]
  | SIeco on => [0; 1; b2n on] ++ zeros 10
  end.

(* ---- wire formats, device side ---- *)
Fixpoint parse_set_records (n : nat) (l : bytes) : option (list (N * bytes)) :=
  match n with
  | O => match l with [] => Some [] | _ => None end
  | S k =>
    match l with
    | lo :: hi :: len :: rest =>
      if (length rest <? N.to_nat len)%nat then None
      else match parse_set_records k (skipn (N.to_nat len) rest) with
           | Some recs => Some ((lo + 256 * hi, firstn (N.to_nat len) rest) :: recs)
           | None => None
           end
    | _ => None
    end
  end.
Definition ref_parse_set (body : bytes) : option (list (N * bytes)) :=
  match body with 176 :: n :: recs => parse_set_records (N.to_nat n) recs | _ => None end.

Fixpoint parse_get_ids (n : nat) (l : bytes) : option (list N) :=
  match n with
  | O => match l with [] => Some [] | _ => None end
  | S k => match l with lo :: hi :: rest => option_map (cons (lo + 256 * hi)) (parse_get_ids k rest) | _ => None end
  end.
Definition ref_parse_get (body : bytes) : option (list N) :=
  match body with 177 :: n :: ids => parse_get_ids (N.to_nat n) ids | _ => None end.

(* ---- the ideal appliance ---- *)
Definition store := list (N * bytes).          (* advertised id -> value as reported *)
Fixpoint lookup (s : store) (id : N) : option bytes :=
  match s with [] => None | (k, v) :: t => if k =? id then Some v else lookup t id end.
Fixpoint put (s : store) (id : N) (v : bytes) : store :=       (* only advertised ids are stored *)
  match s with [] => [] | (k, v0) :: t => if k =? id then (k, v) :: t else (k, v0) :: put t id v end.

(* the value the appliance reports after being sent [v] *)
Definition reported_value (id : N) (v : bytes) : bytes := if id =? ID_IECO then slice v 1 3 else v.

(* mutual exclusion of the breeze settings on the legacy pair *)
Definition exclude (s : store) (id : N) (v : bytes) : store :=
  if (id =? ID_PREVENT_STRAIGHT) && beqb v [2] then put s ID_NO_WIND_SENSE [0]
  else if (id =? ID_NO_WIND_SENSE) && negb (beqb v [0]) then put s ID_PREVENT_STRAIGHT [1]
  else s.

Definition ref_write (s : store) (rec : N * bytes) : store :=
  let '(id, v) := rec in put (exclude s id v) id (reported_value id v).

Definition resp_record (s : store) (id : N) : bytes :=
  match lookup s id with
  | Some v => [id mod 256; id / 256; 0; N.of_nat (length v)] ++ v
  | None => []
  end.
Definition answered (s : store) (ids : list N) : list N := filter (fun id => match lookup s id with Some _ => true | None => false end) ids.
Definition response_body (tag : N) (s : store) (ids : list N) : bytes :=
  let ids := answered s ids in [tag; N.of_nat (length ids)] ++ flat_map (resp_record s) ids.

(* one property-protocol request: new store and the response body (None: not a property request / malformed) *)
Definition ref_props_step (s : store) (body : bytes) : store * option bytes :=
  match body with
  | 176 :: _ =>
    match ref_parse_set body with
    | Some recs => let s' := fold_left ref_write recs s in (s', Some (response_body 176 s' (map fst recs)))
    | None => (s, None)
    end
  | 177 :: _ =>
    match ref_parse_get body with
    | Some ids => (s, Some (response_body 177 s ids))
    | None => (s, None)
    end
  | _ => (s, None)
  end.

(* ---- what a user should read back from a store ---- *)
Record pview := mkPview { pv_breeze_away : bool; pv_breeze_mild : bool; pv_breezeless : bool; pv_ieco : option bool;
                          pv_rate : option N; pv_lr : option N; pv_ud : option N; pv_self_clean : option bool }.
Definition first_byte (o : option bytes) : option N := match o with Some (b :: _) => Some b | _ => None end.
Definition second_byte (o : option bytes) : option N := match o with Some (_ :: b :: _) => Some b | _ => None end.
Definition expected_pview (s : store) : pview :=
  let fa := first_byte (lookup s ID_FA_NO_WIND) in
  let away := first_byte (lookup s ID_PREVENT_STRAIGHT) in
  let nws := first_byte (lookup s ID_NO_WIND_SENSE) in
  let nonzero o := match o with Some b => negb (b =? 0) | None => false end in
  {| pv_breeze_away := match fa with Some m => m =? 2 | None => negb (nonzero nws) && match away with Some a => a =? 2 | None => false end end;
     pv_breeze_mild := match fa with Some m => m =? 3 | None => false end;
     pv_breezeless := match fa with Some m => m =? 4 | None => nonzero nws end;
     pv_ieco := option_map (fun b => negb (b =? 0)) (second_byte (lookup s ID_IECO));
     pv_rate := first_byte (lookup s ID_RATE_SELECT);
     pv_lr := first_byte (lookup s ID_LR_ANGLE);
     pv_ud := first_byte (lookup s ID_UD_ANGLE);
     pv_self_clean := option_map (fun b => negb (b =? 0)) (first_byte (lookup s ID_SELF_CLEAN)) |}.
