(* Independent reference for C19: a conforming NetHome Plus cloud server, written from the property text and the public
   description of the API (not from msmart/cloud.py):

   * every request is a form post to one of three paths; it carries a field `sign` that must equal the lowercase hex SHA-256
     of  path || k1=v1&k2=v2&... (ALL other fields, ascending by key) || app key.  The server recomputes it from the fields
     it received, in whatever order they arrived;
   * /v1/user/login/id/get  names the account (`loginAccount`) and is answered with the login id;
   * /v1/user/login  carries `password` = hex SHA-256 (login id || hex SHA-256 (password) || app key) for the login id that
     was issued, and is answered with the session id;
   * /v1/iot/secure/getToken  must present that session id (`sessionId`) and names a `udpid`; it is answered with the
     registered token list. What is answered for an id nobody registered is a policy of the cloud (made-up credentials, the
     list without a match, or an API error);
   * the udpid of a device is the hex of the two halves of SHA-256(six id bytes) xor-ed together; the id bytes may be taken
     in either byte order. *)
From MS Require Import lib.Base crypto.SHA256.
Local Open Scope N_scope.

Definition rstr := list N.
Definition rfield := (rstr * rstr)%type.

Definition s_sign : rstr := [115; 105; 103; 110].   (* "sign" *)
Definition s_app_id_key : rstr := [97; 112; 112; 73; 100].   (* "appId" *)
Definition s_login_account : rstr := [108; 111; 103; 105; 110; 65; 99; 99; 111; 117; 110; 116].   (* "loginAccount" *)
Definition s_password : rstr := [112; 97; 115; 115; 119; 111; 114; 100].   (* "password" *)
Definition s_session_id : rstr := [115; 101; 115; 115; 105; 111; 110; 73; 100].   (* "sessionId" *)
Definition s_udpid : rstr := [117; 100; 112; 105; 100].   (* "udpid" *)
Definition p_login_id : rstr := [47; 118; 49; 47; 117; 115; 101; 114; 47; 108; 111; 103; 105; 110; 47; 105; 100; 47; 103; 101; 116].   (* "/v1/user/login/id/get" *)
Definition p_login : rstr := [47; 118; 49; 47; 117; 115; 101; 114; 47; 108; 111; 103; 105; 110].   (* "/v1/user/login" *)
Definition p_get_token : rstr := [47; 118; 49; 47; 105; 111; 116; 47; 115; 101; 99; 117; 114; 101; 47; 103; 101; 116; 84; 111; 107; 101; 110].   (* "/v1/iot/secure/getToken" *)
Definition nethome_app_id : rstr := [49; 48; 49; 55].   (* "1017" *)
Definition nethome_app_key : rstr := [51; 55; 52; 50; 101; 57; 101; 53; 56; 52; 50; 100; 52; 97; 100; 53; 57; 99; 50; 100; 98; 56; 56; 55; 101; 49; 50; 52; 52; 57; 102; 57].   (* "3742e9e5842d4ad59c2db887e12449f9" *)
Definition hex_digits : rstr := [48; 49; 50; 51; 52; 53; 54; 55; 56; 57; 97; 98; 99; 100; 101; 102].   (* "0123456789abcdef" *)

(* ---------------- strings ---------------- *)
Fixpoint str_cmp (a b : rstr) : comparison :=
  match a, b with
  | [], [] => Eq
  | [], _ :: _ => Lt
  | _ :: _, [] => Gt
  | x :: a', y :: b' => match N.compare x y with Eq => str_cmp a' b' | c => c end
  end.
Definition str_eq (a b : rstr) : bool := match str_cmp a b with Eq => true | _ => false end.
Definition opt_is (o : option rstr) (v : rstr) : bool := match o with Some x => str_eq x v | None => false end.

Definition hex_lower (l : list N) : rstr :=
  flat_map (fun b => [nth (N.to_nat (b / 16)) hex_digits 0; nth (N.to_nat (b mod 16)) hex_digits 0]) l.

(* value of a received field (first occurrence) *)
Fixpoint lookup (k : rstr) (fs : list rfield) : option rstr :=
  match fs with [] => None | f :: t => if str_eq (fst f) k then Some (snd f) else lookup k t end.

(* ---------------- the signature ---------------- *)
(* put a field into an ascending list *)
Fixpoint place (f : rfield) (acc : list rfield) : list rfield :=
  match acc with
  | [] => [f]
  | h :: t => match str_cmp (fst f) (fst h) with Lt => f :: acc | _ => h :: place f t end
  end.
Definition ascending (fs : list rfield) : list rfield := fold_left (fun acc f => place f acc) fs [].
Definition kv (f : rfield) : rstr := fst f ++ 61 :: snd f.
Fixpoint query (l : list rfield) : rstr :=
  match l with
  | [] => []
  | [f] => kv f
  | f :: t => kv f ++ 38 :: query t
  end.
Definition signed_fields (fs : list rfield) : list rfield := filter (fun f => negb (str_eq (fst f) s_sign)) fs.
Definition expected_sign (path : rstr) (fs : list rfield) : rstr :=
  hex_lower (sha256 (path ++ query (ascending (signed_fields fs)) ++ nethome_app_key)).
Definition ref_signature_ok (path : rstr) (fs : list rfield) : bool :=
  opt_is (lookup s_sign fs) (expected_sign path fs).

Definition ref_password_derivation (login_id password : rstr) : rstr :=
  hex_lower (sha256 (login_id ++ hex_lower (sha256 password) ++ nethome_app_key)).

(* ---------------- the cloud ---------------- *)
Record reg_entry := mkReg { g_udpid : rstr; g_token : rstr; g_key : rstr }.
Inductive unknown_policy :=
| UBogus (token key : rstr)       (* made-up credentials for an id nobody registered *)
| UNoEntry                        (* the list, without an entry for that id *)
| UApiError (code : positive).    (* an API error *)
Record cloud_cfg := mkCfg {
  cf_account : rstr; cf_password : rstr;
  cf_login_id : rstr;              (* the login id it issues for the account *)
  cf_session_id : rstr;            (* the session id it issues on login *)
  cf_registry : list reg_entry;    (* the registered token list *)
  cf_unknown : unknown_policy }.
Record ref_state := mkRS { rs_issued : bool; rs_open : bool; rs_rejected : nat }.
Definition ref_init : ref_state := mkRS false false 0.

Inductive ref_reply :=
| RpLoginId (l : rstr) | RpSession (s : rstr) | RpTokens (l : list reg_entry) | RpError (code : positive).

(* 0 = the request verifies; otherwise the reason: 1 signature, 2 unknown path, 3 account, 4 password derivation / no
   login id issued, 5 session id, 6 no udpid, 7 app id *)
Definition ref_check (c : cloud_cfg) (st : ref_state) (path : rstr) (fs : list rfield) : N :=
  if negb (ref_signature_ok path fs) then 1
  else if negb (opt_is (lookup s_app_id_key fs) nethome_app_id) then 7
  else if str_eq path p_login_id then
    if opt_is (lookup s_login_account fs) (cf_account c) then 0 else 3
  else if str_eq path p_login then
    if negb (opt_is (lookup s_login_account fs) (cf_account c)) then 3
    else if negb (rs_issued st) then 4
    else if opt_is (lookup s_password fs) (ref_password_derivation (cf_login_id c) (cf_password c)) then 0 else 4
  else if str_eq path p_get_token then
    if negb (rs_open st && opt_is (lookup s_session_id fs) (cf_session_id c)) then 5
    else match lookup s_udpid fs with Some _ => 0 | None => 6 end
  else 2.

(* the credentials registered for a udpid *)
Definition ref_registered (c : cloud_cfg) (u : rstr) : option (rstr * rstr) :=
  match find (fun e => str_eq (g_udpid e) u) (cf_registry c) with
  | Some e => Some (g_token e, g_key e)
  | None => None
  end.

Definition ref_token_answer (c : cloud_cfg) (u : rstr) : ref_reply :=
  match ref_registered c u with
  | Some _ => RpTokens (cf_registry c)
  | None =>
    match cf_unknown c with
    | UBogus t k => RpTokens (cf_registry c ++ [mkReg u t k])
    | UNoEntry => RpTokens (cf_registry c)
    | UApiError code => RpError code
    end
  end.

Definition ref_step (c : cloud_cfg) (st : ref_state) (rq : rstr * list rfield) : ref_state * ref_reply :=
  let '(path, fs) := rq in
  match ref_check c st path fs with
  | 0 =>
    if str_eq path p_login_id then (mkRS true (rs_open st) (rs_rejected st), RpLoginId (cf_login_id c))
    else if str_eq path p_login then (mkRS (rs_issued st) true (rs_rejected st), RpSession (cf_session_id c))
    else (st, match lookup s_udpid fs with Some u => ref_token_answer c u | None => RpError 6 end)
  | Npos code => (mkRS (rs_issued st) (rs_open st) (S (rs_rejected st)), RpError code)
  end.

(* ---------------- device ids ---------------- *)
Definition ref_udpid (id_bytes : list N) : list N :=
  let h := sha256 id_bytes in map (fun i => N.lxor (nth i h 0) (nth (16 + i) h 0)) (seq 0 16).
Definition ref_udpid_hex (big_endian : bool) (device_id : N) : rstr :=
  hex_lower (ref_udpid (if big_endian then be_bytes 6 device_id else le_bytes 6 device_id)).

(* the credentials a V3 device with this id may be registered under: for the id bytes in either order *)
Definition ref_expected_credentials (c : cloud_cfg) (device_id : N) : list (rstr * rstr) :=
  let cand b := match ref_registered c (ref_udpid_hex b device_id) with Some x => [x] | None => [] end in
  cand false ++ cand true.
