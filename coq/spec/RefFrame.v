(* Independent device-side reference for the AC frame format (DESIGN Appendix B).
   Written from the frame documentation, not from the Python: bitwise CRC-8/MAXIM
   (reflected polynomial 0x8C, init 0), two's complement checksum. *)
From MS Require Import lib.Base.

Definition crc_bit (c : N) : N :=
  if N.testbit c 0 then N.lxor (N.shiftr c 1) 140 else N.shiftr c 1.
Definition crc_byte (x : N) : N :=
  crc_bit (crc_bit (crc_bit (crc_bit (crc_bit (crc_bit (crc_bit (crc_bit x))))))).
Definition crc8_bitwise (l : bytes) : N :=
  fold_left (fun c m => crc_byte (N.lxor c m)) l 0.

(* what a spec-conforming device parser demands of a received command frame *)
Definition dev_accepts (ft : N) (f : bytes) : bool :=
  let n := length f in
  wfbb f
  && (13 <=? n)%nat
  && (nthb f 0 =? 170)
  && (nthb f 1 =? N.of_nat (n - 1))
  && (nthb f 2 =? 172)
  && (nthb f 9 =? ft)
  && (crc8_bitwise (slice f 10 (n - 2)) =? nthb f (n - 2))
  && (sumN (skipn 1 f) mod 256 =? 0).

(* message id carried by a frame: the byte before the CRC *)
Definition msg_id (f : bytes) : N := nthb f (length f - 3).
(* the command body proper (without id, crc, checksum) *)
Definition frame_body (f : bytes) : bytes := slice f 10 (length f - 3).
