(* The DOCUMENTED meaning of  msmart-ng control HOST setting=value ...  written from README.md ("Control": enumerated
   settings accept integer or string values, number settings floating point or integer values, boolean settings integer or
   string values), the public attribute API of AirConditioner (setter annotations: bool / float / int / the
   enumerations; the deprecated *_mode aliases name their replacement) and the property text of C20 - NOT from cli.py.
   Three-valued: a setting is DOCUMENTED (must be accepted with exactly this meaning), INVALID (unknown, read-only or
   ill-typed: must be rejected before anything is sent) or neither (not judged, see the interpretation notes in
   harness/props/C20.py). *)
From MS Require Import lib.Base lib.PyLit gen.GenDev spec.RefAC.
From RecordUpdate Require Import RecordSet.
Import RecordSetNotations.

#[export] Instance etaRequest : Settable _ := settable! Build_request
  <q_power; q_beep; q_mode; q_target; q_fan; q_swing; q_turbo; q_follow_me; q_eco; q_purifier; q_aux_heat; q_sleep;
   q_fahrenheit; q_humidity; q_freeze; q_indep_aux>.

(* what a setting acts on *)
Inductive field :=
| FBeep | FPower | FFahrenheit | FTarget | FMode | FFan | FSwing | FEco | FTurbo | FFreeze | FSleep | FFollowMe
| FPurifier | FHumidity | FAux                                       (* carried by the set-state command *)
| FDisplay                                                           (* the display toggle *)
| FHAngle | FVAngle | FRate | FBreezeAway | FBreezeMild | FBreezeless | FIeco      (* property protocol *)
| FAltEnergy | FEnergyRequests.                                      (* client-side switches, no device state *)

Inductive dkind :=
| DEnum (names : list (bytes * N)) (raw_int : bool)   (* member names (any letter case) or member values *)
| DBool                                               (* True / False in any letter case, 1 / 0 *)
| DTemp                                               (* a temperature in Celsius, int or float *)
| DPercent.                                           (* an integer percentage *)

Definition s_DEFAULT : bytes := [68; 69; 70; 65; 85; 76; 84].
Definition members (m : list (bytes * N)) (default : N) : list (bytes * N) := m ++ [(s_DEFAULT, default)].

(* the settable attributes of AirConditioner plus display_on (README) *)
Definition doc_settings : list (bytes * (field * dkind)) :=
  [(* beep *) ([98; 101; 101; 112], (FBeep, DBool));
   (* power_state *) ([112; 111; 119; 101; 114; 95; 115; 116; 97; 116; 101], (FPower, DBool));
   (* fahrenheit *) ([102; 97; 104; 114; 101; 110; 104; 101; 105; 116], (FFahrenheit, DBool));
   (* target_temperature *) ([116; 97; 114; 103; 101; 116; 95; 116; 101; 109; 112; 101; 114; 97; 116; 117; 114; 101], (FTarget, DTemp));
   (* operational_mode *) ([111; 112; 101; 114; 97; 116; 105; 111; 110; 97; 108; 95; 109; 111; 100; 101], (FMode, DEnum (members OperationalMode_members OperationalMode_DEFAULT) false));
   (* fan_speed *) ([102; 97; 110; 95; 115; 112; 101; 101; 100], (FFan, DEnum (members FanSpeed_members FanSpeed_DEFAULT) true));
   (* breeze_away *) ([98; 114; 101; 101; 122; 101; 95; 97; 119; 97; 121], (FBreezeAway, DBool));
   (* breeze_mild *) ([98; 114; 101; 101; 122; 101; 95; 109; 105; 108; 100], (FBreezeMild, DBool));
   (* breezeless *) ([98; 114; 101; 101; 122; 101; 108; 101; 115; 115], (FBreezeless, DBool));
   (* swing_mode *) ([115; 119; 105; 110; 103; 95; 109; 111; 100; 101], (FSwing, DEnum (members SwingMode_members SwingMode_DEFAULT) false));
   (* horizontal_swing_angle *) ([104; 111; 114; 105; 122; 111; 110; 116; 97; 108; 95; 115; 119; 105; 110; 103; 95; 97; 110; 103; 108; 101], (FHAngle, DEnum (members SwingAngle_members SwingAngle_DEFAULT) false));
   (* vertical_swing_angle *) ([118; 101; 114; 116; 105; 99; 97; 108; 95; 115; 119; 105; 110; 103; 95; 97; 110; 103; 108; 101], (FVAngle, DEnum (members SwingAngle_members SwingAngle_DEFAULT) false));
   (* eco *) ([101; 99; 111], (FEco, DBool));
   (* ieco *) ([105; 101; 99; 111], (FIeco, DBool));
   (* turbo *) ([116; 117; 114; 98; 111], (FTurbo, DBool));
   (* freeze_protection *) ([102; 114; 101; 101; 122; 101; 95; 112; 114; 111; 116; 101; 99; 116; 105; 111; 110], (FFreeze, DBool));
   (* sleep *) ([115; 108; 101; 101; 112], (FSleep, DBool));
   (* follow_me *) ([102; 111; 108; 108; 111; 119; 95; 109; 101], (FFollowMe, DBool));
   (* purifier *) ([112; 117; 114; 105; 102; 105; 101; 114], (FPurifier, DBool));
   (* display_on *) ([100; 105; 115; 112; 108; 97; 121; 95; 111; 110], (FDisplay, DBool));
   (* use_alternate_energy_format *) ([117; 115; 101; 95; 97; 108; 116; 101; 114; 110; 97; 116; 101; 95; 101; 110; 101; 114; 103; 121; 95; 102; 111; 114; 109; 97; 116], (FAltEnergy, DBool));
   (* enable_energy_usage_requests *) ([101; 110; 97; 98; 108; 101; 95; 101; 110; 101; 114; 103; 121; 95; 117; 115; 97; 103; 101; 95; 114; 101; 113; 117; 101; 115; 116; 115], (FEnergyRequests, DBool));
   (* target_humidity *) ([116; 97; 114; 103; 101; 116; 95; 104; 117; 109; 105; 100; 105; 116; 121], (FHumidity, DPercent));
   (* rate_select *) ([114; 97; 116; 101; 95; 115; 101; 108; 101; 99; 116], (FRate, DEnum (members RateSelect_members RateSelect_DEFAULT) false));
   (* aux_mode *) ([97; 117; 120; 95; 109; 111; 100; 101], (FAux, DEnum (members AuxHeatMode_members AuxHeatMode_DEFAULT) false));
   (* eco_mode *) ([101; 99; 111; 95; 109; 111; 100; 101], (FEco, DBool));
   (* freeze_protection_mode *) ([102; 114; 101; 101; 122; 101; 95; 112; 114; 111; 116; 101; 99; 116; 105; 111; 110; 95; 109; 111; 100; 101], (FFreeze, DBool));
   (* sleep_mode *) ([115; 108; 101; 101; 112; 95; 109; 111; 100; 101], (FSleep, DBool));
   (* turbo_mode *) ([116; 117; 114; 98; 111; 95; 109; 111; 100; 101], (FTurbo, DBool))].

Inductive value := VB (b : bool) | VN (z : Z) | VHalf (halves : N).

Fixpoint lookup {A} (k : bytes) (l : list (bytes * A)) : option A :=
  match l with [] => None | (k', v) :: t => if beqb k k' then Some v else lookup k t end.

Definition s_true : bytes := [116; 114; 117; 101].
Definition s_false : bytes := [102; 97; 108; 115; 101].

Definition doc_bool (raw : bytes) : option bool :=
  if beqb (lower raw) s_true then Some true else if beqb (lower raw) s_false then Some false
  else if beqb raw [49] then Some true else if beqb raw [48] then Some false else None.

Definition has_value (names : list (bytes * N)) (z : Z) : bool := existsb (fun nv => Z.eqb z (Z.of_N (snd nv))) names.

(* raw fan percentages live in the 7-bit field of the vendor layout *)
Definition raw_fan_ok (z : Z) : bool := (0 <=? z)%Z && (z <? 128)%Z.

Definition doc_value (k : dkind) (raw : bytes) : option value :=
  match k with
  | DEnum names raw_int =>
    match (if ascii raw then lookup (upper raw) names else None) with
    | Some v => Some (VN (Z.of_N v))
    | None => match lit raw with
              | Some (LInt z) => if has_value names z || (raw_int && raw_fan_ok z) then Some (VN z) else None
              | _ => None
              end
    end
  | DBool => option_map VB (doc_bool raw)
  | DTemp =>
    match lit raw with
    | Some (LInt z) => if (0 <=? z)%Z then Some (VHalf (2 * Z.to_N z)) else None
    | Some (LFloat n d) =>                    (* devices resolve half degrees: only grid values have a documented meaning *)
      if (0 <=? n)%Z && ((2 * n) mod Zpos d =? 0)%Z then Some (VHalf (Z.to_N ((2 * n) / Zpos d))) else None
    | _ => None
    end
  | DPercent =>
    match lit raw with
    | Some (LInt z) => if (0 <=? z)%Z && (z <=? 100)%Z then Some (VN z) else None
    | _ => None
    end
  end.

Definition documented (name raw : bytes) : option (field * value) :=
  match lookup name doc_settings with
  | Some (f, k) => match doc_value k raw with Some v => Some (f, v) | None => None end
  | None => None
  end.

(* ill-typed for the kind, given what the value is as a Python literal (class c) *)
Definition ill_typed (k : dkind) (raw : bytes) (c : lit_class) : bool :=
  match k with
  | DEnum names raw_int =>
    match c with
    | LRaise e => if exn_eqb e EValue then ascii raw && (match lookup (upper raw) names with Some _ => false | None => true end)
                  else true                                         (* a bare word that is no member / not a value at all *)
    | LInt z => negb (has_value names z) && negb raw_int
    | LNone | LObj _ => true
    | LBool _ | LFloat _ _ | LStr _ => false
    end
  | DBool =>
    match doc_bool raw with
    | Some _ => false
    | None => match c with LStr _ | LNone | LObj _ | LRaise _ => true | _ => false end
    end
  | DTemp | DPercent =>
    match c with LStr _ | LNone | LObj _ | LRaise _ => true | _ => false end
  end.

(* unknown, read-only (not in the table of settable attributes) or ill-typed *)
Definition invalid (name raw : bytes) (c : lit_class) : bool :=
  match lookup name doc_settings with
  | None => true
  | Some (_, k) => ill_typed k raw c
  end.

(* ---------------- the device-side effect ---------------- *)
Definition override (q : request) (f : field) (v : value) : request :=
  let b := match v with VB b => b | _ => false end in
  let n := match v with VN z => Z.to_N z | VHalf h => h | VB _ => 0 end in
  match f with
  | FBeep => q <| q_beep := b |>
  | FPower => q <| q_power := b |>
  | FFahrenheit => q <| q_fahrenheit := b |>
  | FTarget => q <| q_target := n |>
  | FMode => q <| q_mode := n |>
  | FFan => q <| q_fan := n |>
  | FSwing => q <| q_swing := n |>
  | FEco => q <| q_eco := b |>
  | FTurbo => q <| q_turbo := b |>
  | FFreeze => q <| q_freeze := b |>
  | FSleep => q <| q_sleep := b |>
  | FFollowMe => q <| q_follow_me := b |>
  | FPurifier => q <| q_purifier := b |>
  | FHumidity => q <| q_humidity := n |>
  | FAux => q <| q_aux_heat := (n =? AuxHeatMode_AUX_HEAT) |> <| q_indep_aux := (n =? AuxHeatMode_AUX_ONLY) |>
  | _ => q
  end.

(* after the command the device holds what it reported, overridden by exactly the given settings (in order) *)
Definition override_all (q : request) (l : list (field * value)) : request :=
  fold_left (fun q fv => override q (fst fv) (snd fv)) l q.

Definition display_after (reported : bool) (l : list (field * value)) : bool :=
  fold_left (fun d fv => match fv with (FDisplay, VB b) => b | _ => d end) l reported.

(* two settings that act on the same attribute (an alias and its replacement, the three breeze switches) have no
   documented combined meaning *)
Definition breeze (f : field) : bool := match f with FBreezeAway | FBreezeMild | FBreezeless => true | _ => false end.
Definition field_code (f : field) : N :=
  match f with
  | FBeep => 0 | FPower => 1 | FFahrenheit => 2 | FTarget => 3 | FMode => 4 | FFan => 5 | FSwing => 6 | FEco => 7
  | FTurbo => 8 | FFreeze => 9 | FSleep => 10 | FFollowMe => 11 | FPurifier => 12 | FHumidity => 13 | FAux => 14
  | FDisplay => 15 | FHAngle => 16 | FVAngle => 17 | FRate => 18 | FBreezeAway => 19 | FBreezeMild => 20
  | FBreezeless => 21 | FIeco => 22 | FAltEnergy => 23 | FEnergyRequests => 24
  end.

(* ---------------- a whole command line ---------------- *)
Inductive judged := JInvalid | JDocumented (name : bytes) (f : field) (v : value) | JUnjudged.

Definition count_eq (s : bytes) : nat := length (filter (fun c => c =? 61) s).

(* one "name=value" word; c = what the value part is as a Python literal *)
Definition judge_setting (s : bytes) (c : lit_class) : judged :=
  match split_on (fun ch => ch =? 61) s with
  | None => JInvalid                                   (* no '=' *)
  | Some (name, raw) =>
    if negb (Nat.eqb (count_eq s) 1) then JInvalid     (* "a=b=c" *)
    else if invalid name raw c then JInvalid
    else match documented name raw with
         | Some (f, v) => JDocumented name f v
         | None => JUnjudged
         end
  end.

Inductive verdict := MustReject | MustApply (l : list (field * value)) | NotJudged.

Definition conflict (a b : bytes * field) : bool :=
  negb (beqb (fst a) (fst b)) && ((field_code (snd a) =? field_code (snd b)) || (breeze (snd a) && breeze (snd b))).

Fixpoint has_conflict (l : list (bytes * field)) : bool :=
  match l with [] => false | a :: t => existsb (conflict a) t || has_conflict t end.

Fixpoint collect (js : list judged) : option (list (bytes * field * value)) :=
  match js with
  | [] => Some []
  | JDocumented n f v :: t => match collect t with Some r => Some ((n, f, v) :: r) | None => None end
  | _ :: _ => None
  end.

Definition verdict_of (js : list judged) : verdict :=
  if existsb (fun j => match j with JInvalid => true | _ => false end) js then MustReject
  else match collect js with
       | Some l => if has_conflict (map (fun x => (fst (fst x), snd (fst x))) l) then NotJudged
                   else MustApply (map (fun x => (snd (fst x), snd x)) l)
       | None => NotJudged
       end.
