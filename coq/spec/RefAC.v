(* Independent reference side for the AC bodies, transcribed from the vendor layout
   (reference/T_0000_AC_00000Q14_2024013001.lua: control encoder 3286-3445 with the keyB constants 221-311,
   status decoder 1664-1836; DESIGN.md Appendix B), NOT from the Python. *)
From MS Require Import lib.Base.

Definition bitb (v : N) (k : N) : bool := N.testbit v k.

(* ---------------- what a device understands from a 0x40 control body ---------------- *)
Record request := {
  q_power : bool; q_beep : bool;
  q_mode : N;
  q_target : N;          (* half degrees *)
  q_fan : N; q_swing : N;
  q_turbo : bool; q_follow_me : bool; q_eco : bool; q_purifier : bool;
  q_aux_heat : bool;     (* PTC together with the heat pump *)
  q_sleep : bool; q_fahrenheit : bool;
  q_humidity : N; q_freeze : bool;
  q_indep_aux : bool     (* independent PTC = aux only *)
}.

Definition ref_decode_control (b : bytes) : option request :=
  match b with
  | [b0; b1; b2; b3; _; _; _; b7; b8; b9; b10; _; _; _; _; _; _; _; b18; b19; _; b21; b22; _] =>
    if negb (b0 =? 64) then None else
    let alt := N.land b18 31 in
    let whole := if alt =? 0 then N.land b2 15 + 16 else alt + 12 in
    Some {| q_power := bitb b1 0; q_beep := bitb b1 6;
            q_mode := N.shiftr b2 5;
            q_target := 2 * whole + (if bitb b2 4 then 1 else 0);
            q_fan := N.land b3 127; q_swing := N.land b7 15;
            q_turbo := bitb b8 5 || bitb b10 1; q_follow_me := bitb b8 7;
            q_eco := bitb b9 7; q_purifier := bitb b9 5; q_aux_heat := bitb b9 3;
            q_sleep := bitb b10 0; q_fahrenheit := bitb b10 2;
            q_humidity := N.land b19 127; q_freeze := bitb b21 7; q_indep_aux := bitb b22 3 |}
  | _ => None
  end.

Definition request_eqb (a b : request) : bool :=
  Bool.eqb (q_power a) (q_power b) && Bool.eqb (q_beep a) (q_beep b) && (q_mode a =? q_mode b)
  && (q_target a =? q_target b) && (q_fan a =? q_fan b) && (q_swing a =? q_swing b)
  && Bool.eqb (q_turbo a) (q_turbo b) && Bool.eqb (q_follow_me a) (q_follow_me b) && Bool.eqb (q_eco a) (q_eco b)
  && Bool.eqb (q_purifier a) (q_purifier b) && Bool.eqb (q_aux_heat a) (q_aux_heat b)
  && Bool.eqb (q_sleep a) (q_sleep b) && Bool.eqb (q_fahrenheit a) (q_fahrenheit b)
  && (q_humidity a =? q_humidity b) && Bool.eqb (q_freeze a) (q_freeze b) && Bool.eqb (q_indep_aux a) (q_indep_aux b).
