(* Independent reference side for the AC bodies, transcribed from the vendor layout
   (reference/T_0000_AC_00000Q14_2024013001.lua: control encoder 3286-3445 with the keyB constants 221-311,
   status decoder 1664-1836; DESIGN.md Appendix B), NOT from the Python. *)
From MS Require Import lib.Base gen.GenDev.

Definition bitb (v : N) (k : N) : bool := N.testbit v k.

(* ---------------- what a device understands from a 0x40 control body ---------------- *)
Record request := {
  q_power : bool; q_beep : bool;
  q_mode : N;
  q_target : N;          (* half degrees *)
  q_fan : N; q_swing : N;
  q_turbo : bool; q_follow_me : bool; q_eco : bool; q_purifier : bool;
  q_aux_heat : bool;     (* PTC together with the heat pump *)
  q_sleep : bool; q_fahrenheit : bool;
  q_humidity : N; q_freeze : bool;
  q_indep_aux : bool     (* independent PTC = aux only *)
}.

Definition ref_decode_control (b : bytes) : option request :=
  match b with
  | [b0; b1; b2; b3; _; _; _; b7; b8; b9; b10; _; _; _; _; _; _; _; b18; b19; _; b21; b22; _] =>
    if negb (b0 =? 64) then None else
    let alt := N.land b18 31 in
    let whole := if alt =? 0 then N.land b2 15 + 16 else alt + 12 in
    Some {| q_power := bitb b1 0; q_beep := bitb b1 6;
            q_mode := N.shiftr b2 5;
            q_target := 2 * whole + (if bitb b2 4 then 1 else 0);
            q_fan := N.land b3 127; q_swing := N.land b7 15;
            q_turbo := bitb b8 5 || bitb b10 1; q_follow_me := bitb b8 7;
            q_eco := bitb b9 7; q_purifier := bitb b9 5; q_aux_heat := bitb b9 3;
            q_sleep := bitb b10 0; q_fahrenheit := bitb b10 2;
            q_humidity := N.land b19 127; q_freeze := bitb b21 7; q_indep_aux := bitb b22 3 |}
  | _ => None
  end.

Definition request_eqb (a b : request) : bool :=
  Bool.eqb (q_power a) (q_power b) && Bool.eqb (q_beep a) (q_beep b) && (q_mode a =? q_mode b)
  && (q_target a =? q_target b) && (q_fan a =? q_fan b) && (q_swing a =? q_swing b)
  && Bool.eqb (q_turbo a) (q_turbo b) && Bool.eqb (q_follow_me a) (q_follow_me b) && Bool.eqb (q_eco a) (q_eco b)
  && Bool.eqb (q_purifier a) (q_purifier b) && Bool.eqb (q_aux_heat a) (q_aux_heat b)
  && Bool.eqb (q_sleep a) (q_sleep b) && Bool.eqb (q_fahrenheit a) (q_fahrenheit b)
  && (q_humidity a =? q_humidity b) && Bool.eqb (q_freeze a) (q_freeze b) && Bool.eqb (q_indep_aux a) (q_indep_aux b).

(* ---------------- what a 0xC0 status body reports (vendor decode, Lua 1664-1836; Appendix B) ---------------- *)
Record report := {
  p_power : bool; p_target : N (* half degrees *); p_mode : N; p_fan : N; p_swing : N;
  p_turbo : bool; p_eco : bool; p_sleep : bool; p_fahrenheit : bool; p_follow_me : bool; p_purifier : bool;
  p_filter : bool; p_display_on : bool; p_aux : bool; p_indep_aux : bool;
  p_indoor_raw : N; p_indoor_digit : N; p_outdoor_raw : N; p_outdoor_digit : N;
  p_humidity : option N;     (* present from 20 bytes *)
  p_freeze : option bool     (* present from 22 bytes *)
}.

Definition ref_report (b : bytes) : option report :=
  if (length b <? 16)%nat then None else
  let g := nthb b in
  let alt := N.land (g 13%nat) 31 in
  let whole := if alt =? 0 then N.land (g 2%nat) 15 + 16 else alt + 12 in
  Some {| p_power := bitb (g 1%nat) 0;
          p_target := 2 * whole + (if bitb (g 2%nat) 4 then 1 else 0);
          p_mode := N.shiftr (g 2%nat) 5;
          p_fan := N.land (g 3%nat) 127;
          p_swing := N.land (g 7%nat) 15;
          p_turbo := bitb (g 8%nat) 5 || bitb (g 10%nat) 1;
          p_eco := bitb (g 9%nat) 4; p_sleep := bitb (g 10%nat) 0; p_fahrenheit := bitb (g 10%nat) 2;
          p_follow_me := bitb (g 8%nat) 7; p_purifier := bitb (g 9%nat) 5;
          p_filter := bitb (g 13%nat) 5;
          p_display_on := negb (N.land (N.shiftr (g 14%nat) 4) 7 =? 7);
          p_aux := bitb (g 9%nat) 3; p_indep_aux := bitb (g 8%nat) 6;
          p_indoor_raw := g 11%nat; p_indoor_digit := N.land (g 15%nat) 15;
          p_outdoor_raw := g 12%nat; p_outdoor_digit := N.shiftr (g 15%nat) 4;
          p_humidity := if (length b <? 20)%nat then None else Some (N.land (g 19%nat) 127);
          p_freeze := if (length b <? 22)%nat then None else Some (bitb (g 21%nat) 7) |}.

(* the attributes a client must expose for a report (documented enum defaulting: an unknown mode / swing code is
   shown as the enumeration's default; devices with custom fan speeds expose the raw percentage) *)
Record view := {
  v_power : bool; v_target : N; v_mode : N; v_fan : N; v_swing : N;
  v_eco : bool; v_turbo : bool; v_freeze : option bool; v_sleep : bool; v_fahrenheit : bool;
  v_display : bool; v_filter : bool; v_follow_me : bool; v_purifier : bool;
  v_humidity : option N; v_aux_mode : N
}.

Definition member (x : N) (l : list N) : bool := existsb (N.eqb x) l.

(* what the reference says must be exposed for a report *)
Definition expected_view (custom_fan : bool) (r : report) : view := {|
  v_power := p_power r; v_target := p_target r;
  v_mode := if member (p_mode r) OperationalMode_values then p_mode r else OperationalMode_DEFAULT;
  v_fan := if custom_fan then p_fan r else if member (p_fan r) FanSpeed_values then p_fan r else FanSpeed_DEFAULT;
  v_swing := if member (p_swing r) SwingMode_values then p_swing r else SwingMode_DEFAULT;
  v_eco := p_eco r; v_turbo := p_turbo r; v_freeze := p_freeze r; v_sleep := p_sleep r;
  v_fahrenheit := p_fahrenheit r; v_display := p_display_on r; v_filter := p_filter r;
  v_follow_me := p_follow_me r; v_purifier := p_purifier r; v_humidity := p_humidity r;
  v_aux_mode := if p_indep_aux r then AuxHeatMode_AUX_ONLY else if p_aux r then AuxHeatMode_AUX_HEAT else AuxHeatMode_OFF |}.
