(* C08, sentence 1 after fix F10: on a live (V3: authenticated) connection LAN.send transmits the request at least once,
   whatever waits in the receive queue and whatever the environment does. *)
From MS Require Import lib.Base gen.GenLan model.Session proofs.SessionProofs proofs.SessionHoare.
From Coq Require Import Lia.
Local Open Scope N_scope.

(* a connection on which a data packet can be written *)
Definition ready (w : world) : Prop :=
  exists c, l_proto (w_lan w) = Some c /\ c_closing c = false /\ (c_v3 c = true -> c_key c <> None).

Lemma ready_set_conn f : (forall c, c_closing (f c) = c_closing c /\ c_v3 (f c) = c_v3 c /\ c_key (f c) = c_key c) ->
  forall w, ready w -> ready (snd (set_conn f w)).
Proof.
  intros Hf w (c & E & Hc & Hk). unfold set_conn, set_lan, upd. cbn. rewrite E. cbn. eexists. split; [reflexivity|].
  destruct (Hf c) as (H1 & H2 & H3). rewrite H1, H2, H3. auto.
Qed.

Lemma rk_the_conn ok : keeps ready the_conn ok.
Proof. intros w Hp. unfold the_conn, mbind, get. destruct Hp as (c & E & H). rewrite E. exists c. auto. Qed.

Lemma rk_pop : keeps ready pop_queue (fun e => e = EQueueEmpty).
Proof.
  unfold pop_queue. apply keeps_bind; [apply rk_the_conn|]. intros c. destruct (c_q c).
  - apply keeps_raise. reflexivity.
  - apply keeps_bind; [apply keeps_set_conn, ready_set_conn; intros c0; repeat split|]. intros _. apply keeps_ret.
Qed.

Lemma rk_read_nowait : keeps ready (read_queue false) (fun e => e = EQueueEmpty).
Proof.
  unfold read_queue. apply keeps_bind; [apply rk_the_conn|]. intros c. destruct (c_q c); [apply keeps_raise; reflexivity|apply rk_pop].
Qed.

Lemma as_data_err' c p e : as_data c p = Err e -> e = EProtocol.
Proof.
  unfold as_data. destruct p; try (intros H; injection H as <-; reflexivity).
  destruct (c_v3 c); [|discriminate]. destruct (match c_key c with Some k => Nat.eqb k kid | None => false end); [discriminate|].
  intros H; injection H as <-; reflexivity.
Qed.

Lemma rk_lan_read_nowait : keeps ready (lan_read false) (fun e => e = EQueueEmpty \/ e = EProtocol).
Proof.
  unfold lan_read. apply keeps_bind; [eapply keeps_weaken; [apply rk_read_nowait|]; intuition|]. intros p.
  apply keeps_bind; [apply rk_the_conn|]. intros c.
  destruct (as_data c p) as [f|e] eqn:Ed; [apply keeps_ret|]. apply keeps_raise. right. eapply as_data_err'; eassumption.
Qed.

Lemma rk_read_available f : forall acc, keeps ready (read_available f acc) (fun _ => False).
Proof.
  induction f as [|f IH]; intros acc; cbn [read_available]; [apply keeps_ret|].
  eapply keeps_catch with (ok1 := fun e => e = EQueueEmpty).
  - apply keeps_bind.
    + eapply keeps_catch with (ok1 := fun e => e = EQueueEmpty \/ e = EProtocol).
      * apply keeps_bind; [apply rk_lan_read_nowait|]. intros x. apply keeps_ret.
      * intros e. apply keeps_ret.
      * intros e Hc [->| ->]; [reflexivity|discriminate Hc].
    + intros r. eapply keeps_weaken; [apply IH|]. intros e [].
  - intros e. apply keeps_ret.
  - intros e Hc ->. discriminate Hc.
Qed.

(* a ready connection accepts a data write, and the write is logged as a data transmission *)
Lemma ready_write f w : ready w -> exists w1 e, proto_write (WData f) w = (Ok tt, w1) /\ w_log w1 = w_log w ++ [e] /\ is_data e = true.
Proof.
  intros (c & E & Hc & Hk). unfold proto_write. rewrite E.
  assert (Hr : write_refused (WData f) c = None).
  { unfold write_refused. destruct (c_v3 c) eqn:Ev; [destruct (c_key c) eqn:Ek; [rewrite Hc; reflexivity|exfalso; apply (Hk eq_refl); reflexivity]|rewrite Hc; reflexivity]. }
  rewrite Hr. eexists. eexists. split; [reflexivity|]. split; [reflexivity|].
  unfold write_event. destruct (c_v3 c); reflexivity.
Qed.

(* the part of the retry loop after the request has been written *)
Definition send_tail (r : nat) (frame : N) (acc : list N) : M (list N) :=
  dom got <- mcatch (mcatch (mcatch (dom x <- lan_read true; ret (Some x))
     [ETimeout] (fun _ => match r with O => lan_disconnect ;; raise ETimeout | _ => ret None end))
     [EProtocol] (fun e => lan_disconnect ;; raise e))
     [ECancelled] (fun _ => lan_disconnect ;; raise ETimeout);
  match got with
  | Some x => ret (acc ++ [x])
  | None => send_loop r frame acc
  end.
Lemma send_loop_unfold r f acc : send_loop (S r) f acc = (proto_write (WData f) ;; send_tail r f acc).
Proof. reflexivity. Qed.
Lemma grows_send_tail r f acc : grows (send_tail r f acc).
Proof. unfold send_tail. grows_auto. Qed.

Lemma mbind_assoc_ok {A B C} (m : M A) (k1 : A -> M B) (k2 : B -> M C) w a w1 :
  m w = (Ok a, w1) -> mbind (mbind m k1) k2 w = mbind (k1 a) k2 w1.
Proof. intros H. unfold mbind. rewrite H. reflexivity. Qed.

Lemma queue_len_ready w : ready w -> exists n, queue_len w = (Ok n, w).
Proof. intros (c & E & _). cbv beta iota zeta delta [queue_len mbind the_conn get ret]. rewrite E. eexists. reflexivity. Qed.

Lemma send_rest_transmits f r w : ready w ->
  exists evs, w_log (snd (send_rest f (S r) w)) = w_log w ++ evs /\ (1 <= ndata evs)%nat.
Proof.
  intros Hr. unfold send_rest.
  destruct (queue_len_ready w Hr) as [n0 Hq]. rewrite (mbind_ok _ _ _ _ _ Hq).
  pose proof (rk_read_available (S n0) [] w Hr) as Hra.
  destruct (grows_read_available (S n0) [] w) as [evs1 Hl1].
  destruct (read_available (S n0) [] w) as [[pre|e] w1] eqn:Era; cbn [snd] in *; [|destruct Hra as [_ []]].
  rewrite (mbind_ok _ _ _ _ _ Era).
  destruct (ready_write f w1 Hra) as (w2 & ev & Hw & Hl2 & Hd).
  rewrite send_loop_unfold. rewrite (mbind_assoc_ok _ _ _ _ _ _ Hw).
  match goal with |- context [w_log (snd (?m w2))] =>
    assert (Hrest : grows m) by (apply grows_bind; [apply grows_send_tail|intros got; grows_auto]) end.
  destruct (Hrest w2) as [evs3 Hl3].
  exists (evs1 ++ [ev] ++ evs3). split.
  - rewrite Hl3, Hl2, Hl1, <- !app_assoc. reflexivity.
  - rewrite !ndata_app. unfold ndata at 2. cbn [filter]. rewrite Hd. cbn [length]. lia.
Qed.

Theorem live_connection_transmits f r w :
  alive_b w = true ->
  (forall c, l_proto (w_lan w) = Some c -> c_v3 c = true ->
     match c_key c, c_lexp c with Some _, Some e => (e <? w_now w) = false | _, _ => False end) ->
  exists evs, w_log (snd (lan_send f (S r) w)) = w_log w ++ evs /\ (1 <= ndata evs)%nat.
Proof.
  intros Ha Hauth. rewrite lan_send_unfold. rewrite (mbind_ok _ _ _ _ _ (lan_alive_eq w)). rewrite Ha.
  unfold alive_b in Ha. destruct (l_proto (w_lan w)) as [c|] eqn:E; [|discriminate].
  apply andb_prop in Ha. destruct Ha as [Hcl _]. apply Bool.negb_true_iff in Hcl.
  assert (Hready : ready w).
  { exists c. split; [exact E|]. split; [exact Hcl|]. intros Hv. specialize (Hauth c eq_refl Hv). destruct (c_key c); [discriminate|contradiction]. }
  assert (Hmid : send_mid f (S r) w = send_rest f (S r) w).
  { unfold send_mid. unfold mbind at 1. unfold the_conn, mbind at 1, get. rewrite E. cbn [ret fst snd].
    destruct (c_v3 c) eqn:Ev; [|reflexivity].
    unfold mbind at 1. unfold mbind at 1. rewrite authenticated_eq, E.
    specialize (Hauth c eq_refl Ev). destruct (c_key c); [|contradiction]. destruct (c_lexp c); [|contradiction]. rewrite Hauth. reflexivity. }
  change ((ret tt ;; send_mid f (S r)) w) with (send_mid f (S r) w). rewrite Hmid.
  apply send_rest_transmits, Hready.
Qed.
