(* Temperature laws of StateResponse._parse_temperature (values in tenths of a degree). *)
From MS Require Import lib.Base model.Response.
From Coq Require Import ZifyBool ZifyN ZifyNat.
Ltac Zify.zify_post_hook ::= Z.to_euclidean_division_equations.

Lemma Some_inj {A} (a b : A) : Some a = Some b -> a = b.
Proof. intros H. injection H as ->. reflexivity. Qed.

Theorem temp_none_iff d k f : parse_temperature d k f = None <-> d = 255.
Proof.
  unfold parse_temperature; cbv zeta beta. destruct (d =? 255) eqn:E.
  - split; [lia|reflexivity].
  - split; [|lia]. destruct (negb f && negb (k =? 0)); [discriminate|]. destruct (5 <=? k); discriminate.
Qed.

Theorem temp_within_one d k f t : d < 256 -> k <= 9 ->
  parse_temperature d k f = Some t -> (Z.abs (t - 5 * (Z.of_N d - 50)) <= 10)%Z.
Proof.
  intros Hd Hk. unfold parse_temperature; cbv zeta beta.
  destruct (d =? 255) eqn:E; [discriminate|].
  destruct (negb f && negb (k =? 0)) eqn:E1.
  - intros H. apply Some_inj in H. subst t. destruct (0 <=? Z.of_N d - 50)%Z eqn:E2. all: lia.
  - destruct (5 <=? k) eqn:E3.
    + intros H. apply Some_inj in H. subst t. destruct (0 <=? Z.of_N d - 50)%Z eqn:E2; lia.
    + intros H. apply Some_inj in H. subst t. lia.
Qed.

Theorem temp_digit d k t : d < 256 -> 1 <= k <= 9 ->
  parse_temperature d k false = Some t -> (Z.abs t mod 10 = Z.of_N k)%Z.
Proof.
  intros Hd Hk. unfold parse_temperature; cbv zeta beta.
  destruct (d =? 255) eqn:E; [discriminate|].
  cbn [negb andb]. destruct (k =? 0) eqn:E0; [lia|]. cbn [negb].
  intros H. apply Some_inj in H. subst t.
  destruct (0 <=? Z.of_N d - 50)%Z eqn:E2.
  - assert (Hq : (0 <= Z.quot (Z.of_N d - 50) 2)%Z) by (apply Z.quot_pos; lia).
    rewrite Z.abs_eq by lia.
    rewrite Z.add_comm, Z.mul_comm, Z.mod_add by lia. apply Z.mod_small. lia.
  - assert (Hq : (Z.quot (Z.of_N d - 50) 2 <= 0)%Z) by (apply Z.quot_le_upper_bound; lia).
    rewrite Z.abs_neq by lia.
    replace (- (10 * Z.quot (Z.of_N d - 50) 2 + - Z.of_N k))%Z
      with (Z.of_N k + (- Z.quot (Z.of_N d - 50) 2) * 10)%Z by lia.
    rewrite Z.mod_add by lia. apply Z.mod_small. lia.
Qed.
