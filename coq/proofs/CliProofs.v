(* C20: what the model of `msmart-ng control` (model/Cli.v) does with every setting=value pair, for every literal
   evaluator that agrees with lib/PyLit.lit on lit's grammar; conformance with the documented meaning (spec/RefCli.v). *)
From MS Require Import lib.Base lib.PyLit gen.GenConst gen.GenCmd gen.GenDev gen.GenCli model.Frame model.Command
  model.Response model.Device model.Cli spec.RefAC spec.RefCli proofs.FrameProofs proofs.ControlProofs.
From RecordUpdate Require Import RecordSet.
Import RecordSetNotations.
From Coq Require Import ZifyBool ZifyN ZifyNat.

(* ---------------- byte strings ---------------- *)
Lemma beqb_iff a : forall b, beqb a b = true <-> a = b.
Proof.
  induction a as [|x a IH]; intros [|y b]; cbn [beqb]; split; intros H; try reflexivity; try discriminate.
  - apply andb_true_iff in H. destruct H as [H1 H2]. apply N.eqb_eq in H1. apply IH in H2. subst. reflexivity.
  - injection H as -> ->. rewrite N.eqb_refl. cbn [andb]. apply IH. reflexivity.
Qed.
Lemma beqb_same a : beqb a a = true.
Proof. apply beqb_iff. reflexivity. Qed.
Lemma beqb_neq a b : a <> b -> beqb a b = false.
Proof. intros H. destruct (beqb a b) eqn:E; [|reflexivity]. apply beqb_iff in E. contradiction. Qed.

(* ---------------- ASCII case maps ---------------- *)
Lemma is_lower_P c : BoolSpec (97 <= c <= 122) (c < 97 \/ 122 < c) (is_lower c).
Proof. unfold is_lower. destruct (N.leb_spec 97 c); destruct (N.leb_spec c 122); cbn [andb]; constructor; lia. Qed.
Lemma is_upper_P c : BoolSpec (65 <= c <= 90) (c < 65 \/ 90 < c) (is_upper c).
Proof. unfold is_upper. destruct (N.leb_spec 65 c); destruct (N.leb_spec c 90); cbn [andb]; constructor; lia. Qed.
Lemma is_digit_P c : BoolSpec (48 <= c <= 57) (c < 48 \/ 57 < c) (is_digit c).
Proof. unfold is_digit. destruct (N.leb_spec 48 c); destruct (N.leb_spec c 57); cbn [andb]; constructor; lia. Qed.
Lemma is_us_P c : BoolSpec (c = 95) (c <> 95) (c =? 95).
Proof. destruct (N.eqb_spec c 95); constructor; assumption. Qed.

Lemma up_low c : up (low c) = up c.
Proof.
  unfold low. destruct (is_upper c) eqn:E; [|reflexivity]. destruct (is_upper_P c); [|discriminate].
  unfold up. destruct (is_lower_P (c + 32)); destruct (is_lower_P c); cbv iota; lia.
Qed.
Lemma low_low c : low (low c) = low c.
Proof.
  unfold low. destruct (is_upper c) eqn:E; [|rewrite E; reflexivity]. destruct (is_upper_P c); [|discriminate].
  destruct (is_upper_P (c + 32)); [lia|reflexivity].
Qed.
Lemma lower_lower s : lower (lower s) = lower s.
Proof. unfold lower. rewrite map_map. apply map_ext. exact low_low. Qed.

(* capitalize only looks at the letters, not at their case *)
Lemma capitalize_lower s : capitalize (lower s) = capitalize s.
Proof.
  destruct s as [|c t]; [reflexivity|]. cbn [lower map capitalize].
  rewrite up_low. fold (lower t). rewrite lower_lower. reflexivity.
Qed.

Lemma upper_length s : length (upper s) = length s.
Proof. apply map_length. Qed.

(* ---------------- bare words: any spelling of an enumeration member name is a plain identifier ---------------- *)
Definition is_uchar (c : N) : bool := is_upper c || is_digit c || (c =? 95).
Definition is_uident (s : bytes) : bool :=
  match s with [] => false | c :: t => is_upper c && forallb is_uchar t end.
Definition specials : list bytes := s_True :: s_False :: s_None :: kw_syntax.
(* an upper-case identifier of at most 40 characters that is not the upper-case form of a keyword or constant *)
Definition name_ok (NAME : bytes) : bool :=
  (length NAME <=? 40)%nat && is_uident NAME && forallb (fun k => negb (beqb (upper k) NAME)) specials.

Lemma up_upper_start c : is_upper (up c) = true -> is_ident_start c = true.
Proof.
  unfold up, is_ident_start. destruct (is_lower_P c); [reflexivity|]. intros ->. reflexivity.
Qed.
Lemma up_uchar c : is_uchar (up c) = true -> is_ident_char c = true.
Proof.
  unfold is_uchar, is_ident_char, is_ident_start, up. destruct (is_lower_P c); [reflexivity|].
  cbn [orb]. destruct (is_upper c); [reflexivity|]. cbn [orb].
  destruct (is_digit c); [intros _; apply orb_true_r|]. cbn [orb]. intros ->. reflexivity.
Qed.

Lemma upper_ident s : is_uident (upper s) = true -> is_ident s = true.
Proof.
  destruct s as [|c t]; [discriminate|]. cbn [upper map is_uident is_ident].
  intros H. apply andb_true_iff in H. destruct H as [H1 H2].
  rewrite (up_upper_start c H1). cbn [andb].
  apply forallb_forall. intros x Hx. rewrite forallb_forall in H2.
  apply up_uchar. apply H2. apply in_map. exact Hx.
Qed.

Lemma not_special s NAME : forallb (fun k => negb (beqb (upper k) NAME)) specials = true -> upper s = NAME ->
  forall k, In k specials -> beqb s k = false.
Proof.
  intros H Hs k Hk. rewrite forallb_forall in H. specialize (H k Hk).
  destruct (beqb s k) eqn:E; [|reflexivity]. apply beqb_iff in E. subst k. rewrite Hs, beqb_same in H. discriminate.
Qed.

Lemma existsb_false {A} (f : A -> bool) l : (forall x, In x l -> f x = false) -> existsb f l = false.
Proof.
  induction l as [|a l IH]; intros H; [reflexivity|]. cbn [existsb].
  rewrite (H a (or_introl eq_refl)). cbn [orb]. apply IH. intros x Hx. apply H. right. exact Hx.
Qed.

(* every letter-case spelling of such a name is a bare identifier: literal_eval raises ValueError (malformed node) *)
Theorem bare_word_lit s NAME : name_ok NAME = true -> upper s = NAME -> lit s = Some (LRaise EValue).
Proof.
  intros Hok Hs. unfold name_ok in Hok.
  apply andb_true_iff in Hok. destruct Hok as [Hok Hsp]. apply andb_true_iff in Hok. destruct Hok as [Hlen Hid].
  assert (Hl : (40 <? length s)%nat = false).
  { rewrite <- (upper_length s), Hs. apply Nat.leb_le in Hlen. apply Nat.ltb_ge. exact Hlen. }
  assert (Hident : is_ident s = true) by (apply upper_ident; rewrite Hs; exact Hid).
  pose proof (not_special s NAME Hsp Hs) as Hns.
  unfold lit. rewrite Hl.
  destruct s as [|c t]; [discriminate Hident|].
  rewrite Hident.
  rewrite (Hns s_True) by (left; reflexivity).
  rewrite (Hns s_False) by (right; left; reflexivity).
  rewrite (Hns s_None) by (right; right; left; reflexivity).
  unfold in_list. rewrite existsb_false; [reflexivity|].
  intros k Hk. apply Hns. right. right. right. exact Hk.
Qed.

(* ---------------- conversions ---------------- *)
Lemma assoc_in {A} k (v : A) l : assoc k l = Some v -> In (k, v) l.
Proof.
  induction l as [|[k' v'] l IH]; cbn [assoc]; [discriminate|].
  destruct (beqb k' k) eqn:E.
  - intros H. injection H as ->. apply beqb_iff in E. subst. left. reflexivity.
  - intros H. right. apply IH, H.
Qed.

(* the enumeration tables: every name (aliases included) is a proper bare word and resolves to its own value *)
Definition enum_table_ok (names : list (bytes * N)) : bool :=
  forallb (fun nv => name_ok (fst nv) && match assoc (fst nv) names with Some v => v =? snd nv | None => false end) names.
Lemma enum_tables_ok : forallb enum_table_ok CLI_enum_names = true.
Proof. vm_compute. reflexivity. Qed.

Lemma enum_names_in e : (e < N.of_nat (length CLI_enum_names)) -> In (enum_names e) CLI_enum_names.
Proof. intros H. unfold enum_names. apply nth_In. lia. Qed.

Lemma member_facts e NAME v : e < N.of_nat (length CLI_enum_names) -> In (NAME, v) (enum_names e) ->
  name_ok NAME = true /\ assoc NAME (enum_names e) = Some v.
Proof.
  intros He Hin. pose proof enum_tables_ok as H. rewrite forallb_forall in H.
  specialize (H _ (enum_names_in e He)). unfold enum_table_ok in H. rewrite forallb_forall in H.
  specialize (H _ Hin). cbn [fst snd] in H. apply andb_true_iff in H. destruct H as [H1 H2].
  split; [exact H1|]. destruct (assoc NAME (enum_names e)) as [v'|]; [|discriminate].
  apply N.eqb_eq in H2. subst. reflexivity.
Qed.

Section Conversions.
  Variable L : bytes -> lit_class.
  Hypothesis L_lit : forall s c, lit s = Some c -> L s = c.

  (* 1. enumerated settings: every member name, in ANY letter case, gives that member *)
  Theorem enum_by_name e NAME v s : e < N.of_nat (length CLI_enum_names) -> In (NAME, v) (enum_names e) ->
    upper s = NAME -> convert_value L e s = COk (TEnum (Z.of_N v)).
  Proof.
    intros He Hin Hs. destruct (member_facts e NAME v He Hin) as [Hok Has].
    assert (He100 : e <? 100 = true) by (apply N.ltb_lt; cbn in He; lia).
    unfold convert_value. rewrite He100. unfold convert_enum.
    rewrite (L_lit s _ (bare_word_lit s NAME Hok Hs)).
    replace (subclass EValue EValue) with true by reflexivity.
    unfold enum_of_name. rewrite Hs, Has. reflexivity.
  Qed.

  Lemma is_member_in e z : In z (map (fun nv => Z.of_N (snd nv)) (enum_names e)) -> is_member e z = true.
  Proof.
    intros H. apply in_map_iff in H. destruct H as (nv & Hz & Hin).
    unfold is_member. apply existsb_exists. exists nv. split; [exact Hin|]. apply Z.eqb_eq. symmetry. exact Hz.
  Qed.

  (* 2. ... and every member value, however the integer is spelled within lit's grammar *)
  Theorem enum_by_value e s z : e <? 100 = true -> lit s = Some (LInt z) ->
    In z (map (fun nv => Z.of_N (snd nv)) (enum_names e)) -> convert_value L e s = COk (TEnum z).
  Proof.
    intros He Hl Hin. unfold convert_value. rewrite He. unfold convert_enum. rewrite (L_lit s _ Hl).
    unfold enum_of_number. rewrite (is_member_in e z Hin). reflexivity.
  Qed.

  (* 3. any integer is accepted raw for the fan speed *)
  Theorem fan_raw_int s z : lit s = Some (LInt z) -> convert_value L CLI_enum_FanSpeed s = COk (TEnum z).
  Proof.
    intros Hl. unfold convert_value. replace (CLI_enum_FanSpeed <? 100) with true by reflexivity.
    unfold convert_enum. rewrite (L_lit s _ Hl). unfold enum_of_number.
    destruct (is_member CLI_enum_FanSpeed z); [reflexivity|]. rewrite N.eqb_refl. reflexivity.
  Qed.

  (* an integer that is no member is refused for every other enumeration *)
  Theorem enum_bad_int e s z : e <? 100 = true -> e <> CLI_enum_FanSpeed -> lit s = Some (LInt z) ->
    is_member e z = false -> convert_value L e s = CStop (SExit 1).
  Proof.
    intros He Hne Hl Hm. unfold convert_value. rewrite He. unfold convert_enum. rewrite (L_lit s _ Hl).
    unfold enum_of_number. rewrite Hm. destruct (e =? CLI_enum_FanSpeed) eqn:E; [apply N.eqb_eq in E; contradiction|reflexivity].
  Qed.

  (* 4. booleans: True / False in any letter case, 1 / 0 *)
  Lemma bool_via_lower s w c : lower s = w -> lit (capitalize w) = Some c -> L (capitalize s) = c.
  Proof. intros Hs Hl. rewrite <- (capitalize_lower s), Hs. apply L_lit, Hl. Qed.

  Theorem bool_true s : lower s = RefCli.s_true -> convert_value L KIND_BOOL s = COk (TBool true).
  Proof.
    intros Hs. unfold convert_value. replace (KIND_BOOL <? 100) with false by reflexivity. rewrite N.eqb_refl.
    unfold convert_basic. rewrite (bool_via_lower s _ (LBool true) Hs) by (vm_compute; reflexivity). reflexivity.
  Qed.
  Theorem bool_false s : lower s = RefCli.s_false -> convert_value L KIND_BOOL s = COk (TBool false).
  Proof.
    intros Hs. unfold convert_value. replace (KIND_BOOL <? 100) with false by reflexivity. rewrite N.eqb_refl.
    unfold convert_basic. rewrite (bool_via_lower s _ (LBool false) Hs) by (vm_compute; reflexivity). reflexivity.
  Qed.
  Theorem bool_digits : convert_value L KIND_BOOL [49] = COk (TBool true) /\ convert_value L KIND_BOOL [48] = COk (TBool false).
  Proof.
    unfold convert_value. replace (KIND_BOOL <? 100) with false by reflexivity. rewrite N.eqb_refl. unfold convert_basic.
    rewrite (L_lit (capitalize [49]) (LInt 1)) by (vm_compute; reflexivity).
    rewrite (L_lit (capitalize [48]) (LInt 0)) by (vm_compute; reflexivity). split; reflexivity.
  Qed.

  (* 5. numbers: int or float, for the float setting and the int setting *)
  Theorem number_int s z : lit s = Some (LInt z) ->
    convert_value L KIND_FLOAT s = COk (TFloat z 1) /\ convert_value L KIND_INT s = COk (TInt z).
  Proof.
    intros Hl. unfold convert_value, convert_basic.
    replace (KIND_FLOAT <? 100) with false by reflexivity. replace (KIND_INT <? 100) with false by reflexivity.
    replace (KIND_FLOAT =? KIND_BOOL) with false by reflexivity. replace (KIND_INT =? KIND_BOOL) with false by reflexivity.
    rewrite (L_lit s _ Hl). replace (KIND_FLOAT =? KIND_INT) with false by reflexivity. rewrite N.eqb_refl.
    split; reflexivity.
  Qed.
  Theorem number_float s n d : lit s = Some (LFloat n d) ->
    convert_value L KIND_FLOAT s = COk (TFloat n d) /\ convert_value L KIND_INT s = COk (TInt (Z.quot n (Zpos d))).
  Proof.
    intros Hl. unfold convert_value, convert_basic.
    replace (KIND_FLOAT <? 100) with false by reflexivity. replace (KIND_INT <? 100) with false by reflexivity.
    replace (KIND_FLOAT =? KIND_BOOL) with false by reflexivity. replace (KIND_INT =? KIND_BOOL) with false by reflexivity.
    rewrite (L_lit s _ Hl). replace (KIND_FLOAT =? KIND_INT) with false by reflexivity. rewrite N.eqb_refl.
    split; reflexivity.
  Qed.
End Conversions.

(* ---------------- rejection happens while parsing, with a non-zero status ---------------- *)
Ltac stop_cases H :=
  repeat match type of H with context [match ?x with _ => _ end] => destruct x eqn:? end;
  try discriminate H; try (injection H as <-; reflexivity).

Section Parsing.
  Variable L : bytes -> lit_class.

  Lemma enum_of_number_stop e x t s : enum_of_number e x t = CStop s -> exit_status s = 1%Z.
  Proof. unfold enum_of_number. intros H. stop_cases H. Qed.
  Lemma enum_of_name_stop e x s : enum_of_name e x = CStop s -> exit_status s = 1%Z.
  Proof. unfold enum_of_name. intros H. stop_cases H. Qed.
  Lemma convert_enum_stop e raw s : convert_enum L e raw = CStop s -> exit_status s = 1%Z.
  Proof.
    unfold convert_enum. intros H.
    destruct (L raw) as [z|b|n d|x| |t|err]; try (eapply enum_of_number_stop; exact H);
      try (eapply enum_of_name_stop; exact H); try (injection H as <-; reflexivity).
    destruct (subclass err EValue); [eapply enum_of_name_stop; exact H|injection H as <-; reflexivity].
  Qed.
  Lemma convert_basic_stop k x s : convert_basic L k x = CStop s -> exit_status s = 1%Z.
  Proof. unfold convert_basic. intros H. stop_cases H. Qed.
  Lemma convert_value_stop k x s : convert_value L k x = CStop s -> exit_status s = 1%Z.
  Proof.
    unfold convert_value. intros H. destruct (k <? 100); [eapply convert_enum_stop; exact H|].
    destruct (k =? KIND_BOOL); eapply convert_basic_stop; exact H.
  Qed.
  Lemma parse_nv_stop n v s : parse_nv L n v = CStop s -> exit_status s = 1%Z.
  Proof.
    unfold parse_nv. intros H. destruct (find_setting n) as [[kind w]|]; [|injection H as <-; reflexivity].
    destruct (negb (beqb n sn_display_on) && negb w); [injection H as <-; reflexivity|].
    destruct (convert_value L kind v) eqn:E; [discriminate|]. injection H as <-. eapply convert_value_stop; exact E.
  Qed.
  Lemma parse_setting_stop x s : parse_setting L x = CStop s -> exit_status s = 1%Z.
  Proof.
    unfold parse_setting. intros H. destruct (split_on _ x) as [[n v]|]; [|injection H as <-; reflexivity].
    destruct (Nat.eqb (Cli.count_eq x) 1); [eapply parse_nv_stop; exact H|injection H as <-; reflexivity].
  Qed.

  Lemma parse_all_stop ss : forall acc s, parse_all L ss acc = CStop s -> exit_status s = 1%Z.
  Proof.
    induction ss as [|x t IH]; intros acc s H; cbn [parse_all] in H; [discriminate|].
    destruct (parse_setting L x) as [[n v]|s'] eqn:E; [eapply IH; exact H|].
    injection H as <-. eapply parse_setting_stop; exact E.
  Qed.

  (* one rejected word anywhere on the command line rejects the whole command line *)
  Lemma parse_all_rejects ss : forall acc, (exists x s', In x ss /\ parse_setting L x = CStop s') ->
    exists s, parse_all L ss acc = CStop s.
  Proof.
    induction ss as [|x t IH]; intros acc (y & s' & Hin & Hy); [contradiction|].
    cbn [parse_all]. destruct (parse_setting L x) as [[n v]|s0] eqn:E.
    - destruct Hin as [->|Hin]; [rewrite Hy in E; discriminate|].
      apply IH. exists y, s'. split; assumption.
    - exists s0. reflexivity.
  Qed.

  (* what is rejected *)
  Theorem unknown_rejected name value : find_setting name = None -> parse_nv L name value = CStop (SExit 1).
  Proof. intros H. unfold parse_nv. rewrite H. reflexivity. Qed.

  Theorem readonly_rejected name value kind : find_setting name = Some (kind, false) -> name <> sn_display_on ->
    parse_nv L name value = CStop (SExit 1).
  Proof. intros H Hn. unfold parse_nv. rewrite H, (beqb_neq _ _ Hn). reflexivity. Qed.

  Theorem malformed_rejected x : Cli.count_eq x <> 1%nat -> parse_setting L x = CStop (SRaise EValue).
  Proof.
    intros H. unfold parse_setting. destruct (split_on _ x) as [[n v]|]; [|reflexivity].
    destruct (Nat.eqb (Cli.count_eq x) 1) eqn:E; [apply Nat.eqb_eq in E; contradiction|reflexivity].
  Qed.

  Definition is_number (c : lit_class) : bool := match c with LInt _ | LBool _ | LFloat _ _ => true | _ => false end.

  (* boolean and number settings: whatever does not evaluate to a bool / int / float literal is rejected *)
  Theorem ill_typed_number_rejected k x : 100 <= k -> k <> KIND_BOOL -> is_number (L x) = false ->
    exists s, convert_value L k x = CStop s.
  Proof.
    intros Hk Hb Hn. unfold convert_value. destruct (k <? 100) eqn:E; [apply N.ltb_lt in E; lia|].
    destruct (k =? KIND_BOOL) eqn:E2; [apply N.eqb_eq in E2; contradiction|].
    unfold convert_basic. destruct (L x); try discriminate Hn; try (eexists; reflexivity).
    destruct (subclass e EValue || subclass e ESyntax); eexists; reflexivity.
  Qed.
  Theorem ill_typed_bool_rejected x : is_number (L (capitalize x)) = false -> exists s, convert_value L KIND_BOOL x = CStop s.
  Proof.
    intros Hn. unfold convert_value. replace (KIND_BOOL <? 100) with false by reflexivity. rewrite N.eqb_refl.
    unfold convert_basic. destruct (L (capitalize x)); try discriminate Hn; try (eexists; reflexivity).
    destruct (subclass e EValue || subclass e ESyntax); eexists; reflexivity.
  Qed.

  (* enumerated settings: a bare word that is no member name, and anything that is neither a word nor a number *)
  Theorem enum_bad_word_rejected e x : e <? 100 = true -> L x = LRaise EValue -> assoc (upper x) (enum_names e) = None ->
    convert_value L e x = CStop (SExit 1).
  Proof.
    intros He Hl Ha. unfold convert_value. rewrite He. unfold convert_enum. rewrite Hl.
    replace (subclass EValue EValue) with true by reflexivity. unfold enum_of_name. rewrite Ha. reflexivity.
  Qed.
  Theorem enum_ill_typed_rejected e x : e <? 100 = true ->
    match L x with LNone | LObj _ => True | LRaise err => subclass err EValue = false | _ => False end ->
    exists s, convert_value L e x = CStop s.
  Proof.
    intros He H. unfold convert_value. rewrite He. unfold convert_enum.
    destruct (L x); try contradiction; try (eexists; reflexivity). rewrite H. eexists. reflexivity.
  Qed.
End Parsing.

Section RejectBeforeIO.
  Variable P : Type.
  Variable peer : P -> bytes -> P * list bytes.

  (* If ANY word of the command line is rejected, the process ends with a non-zero status and the world is untouched:
     nothing was sent (w_sent), the peer was not contacted (w_peer), no message id was consumed. *)
  Theorem reject_before_io L caps ss (w : world P) :
    (exists x s', In x ss /\ parse_setting L x = CStop s') ->
    exists s, control peer L caps ss w = (w, s) /\ exit_status s = 1%Z.
  Proof.
    intros H. destruct (parse_all_rejects L ss [] H) as [s Hs].
    exists s. unfold control. rewrite Hs. split; [reflexivity|]. eapply parse_all_stop; exact Hs.
  Qed.
End RejectBeforeIO.

(* ---------------- the documented meaning is accepted, with that meaning ---------------- *)
Lemma beqb_sym a : forall b, beqb a b = beqb b a.
Proof. induction a as [|x a IH]; intros [|y b]; cbn [beqb]; try reflexivity. rewrite N.eqb_sym, IH. reflexivity. Qed.
Lemma lookup_assoc {A} k (l : list (bytes * A)) : lookup k l = assoc k l.
Proof. induction l as [|[k' v] l IH]; cbn [lookup assoc]; [reflexivity|]. rewrite beqb_sym, IH. reflexivity. Qed.
Lemma lookup_in {A} k (v : A) l : lookup k l = Some v -> In (k, v) l.
Proof. rewrite lookup_assoc. apply assoc_in. Qed.

Definition names_eqb (a b : list (bytes * N)) : bool :=
  Nat.eqb (length a) (length b)
  && forallb (fun p => beqb (fst (fst p)) (fst (snd p)) && (snd (fst p) =? snd (snd p))) (combine a b).
Lemma names_eqb_eq a : forall b, names_eqb a b = true -> a = b.
Proof.
  unfold names_eqb. induction a as [|[n v] a IH]; intros [|[n' v'] b] H; try reflexivity; try discriminate H.
  cbn [length combine forallb fst snd] in H. apply andb_true_iff in H. destruct H as [Hl H].
  apply andb_true_iff in H. destruct H as [H1 H2]. apply andb_true_iff in H1. destruct H1 as [Hn Hv].
  apply beqb_iff in Hn. apply N.eqb_eq in Hv. subst. f_equal. apply IH. rewrite H2, andb_true_r. exact Hl.
Qed.

(* how a documented kind is realised by the type of the default value the code looks at *)
Definition kind_relb (k : dkind) (kind : N) : bool :=
  match k with
  | DEnum names raw => (kind <? N.of_nat (length CLI_enum_names)) && names_eqb names (enum_names kind)
                       && Bool.eqb raw (kind =? CLI_enum_FanSpeed)
  | DBool => kind =? KIND_BOOL
  | DTemp => kind =? KIND_FLOAT
  | DPercent => kind =? KIND_INT
  end.
Definition row_linked (row : bytes * (field * dkind)) : bool :=
  match find_setting (fst row) with
  | Some (kind, w) => (w || beqb (fst row) sn_display_on) && kind_relb (snd (snd row)) kind
  | None => false
  end.
(* every documented setting is a property of the class, writable (or the display), of the documented type, with the
   documented enumeration *)
Lemma table_linked : forallb row_linked doc_settings = true.
Proof. vm_compute. reflexivity. Qed.

(* a converted value carries the documented value *)
Definition agree (k : dkind) (tv : tval) (v : value) : Prop :=
  match k, tv, v with
  | DEnum _ _, TEnum z, VN z' => z = z' /\ (0 <= z)%Z
  | DBool, TBool b, VB b' => b = b'
  | DTemp, TFloat n d, VHalf h => halves_rep n d = h
  | DPercent, TInt z, VN z' => z = z' /\ (0 <= z <= 100)%Z
  | _, _, _ => False
  end.

Lemma halves_int z : (0 <= z)%Z -> halves_rep z 1 = 2 * Z.to_N z.
Proof.
  intros H. unfold halves_rep, q_trunc. rewrite Z.quot_1_r, Z.mod_1_r. cbn [Z.eqb negb]. rewrite andb_false_r. lia.
Qed.

Lemma halves_grid n d : (0 <= n)%Z -> ((2 * n) mod Zpos d = 0)%Z -> halves_rep n d = Z.to_N ((2 * n) / Zpos d).
Proof.
  intros Hn Hm. unfold halves_rep, q_trunc.
  assert (HD : (0 < Zpos d)%Z) by lia.
  rewrite Z.quot_div_nonneg by lia.
  pose proof (Z.div_mod n (Zpos d) ltac:(lia)) as Hdm.
  pose proof (Z.mod_pos_bound n (Zpos d) HD) as Hr.
  apply Z.mod_divide in Hm; [|lia]. destruct Hm as [k Hk].
  set (q := (n / Zpos d)%Z) in *. set (r := (n mod Zpos d)%Z) in *.
  assert (Hq : (0 <= q)%Z) by (apply Z.div_pos; lia).
  assert (Hk2 : (Zpos d * (k - 2 * q) = 2 * r)%Z) by lia.
  assert (Hc : (k - 2 * q = 0 \/ k - 2 * q = 1)%Z) by nia.
  assert (Hdiv : ((2 * n) / Zpos d = k)%Z) by (rewrite Hk; apply Z.div_mul; lia).
  rewrite Hdiv.
  destruct Hc as [Hc|Hc].
  - assert (r = 0)%Z by nia. subst r. rewrite H. cbn [Z.eqb negb]. rewrite andb_false_r. lia.
  - assert (Hr0 : (r <> 0)%Z) by nia.
    destruct (r =? 0)%Z eqn:E; [apply Z.eqb_eq in E; contradiction|].
    assert (Hpos : (0 <? n)%Z = true) by (apply Z.ltb_lt; nia). rewrite Hpos. cbn [negb andb]. lia.
Qed.

Section Documented.
  Variable L : bytes -> lit_class.
  Hypothesis L_lit : forall s c, lit s = Some c -> L s = c.

  Lemma member_nonneg e z : is_member e z = true -> (0 <= z)%Z.
  Proof.
    unfold is_member. intros H. apply existsb_exists in H. destruct H as (nv & _ & H). apply Z.eqb_eq in H. lia.
  Qed.

  Lemma accepted k kind raw v : kind_relb k kind = true -> doc_value k raw = Some v ->
    exists tv, convert_value L kind raw = COk tv /\ agree k tv v.
  Proof.
    intros Hk Hd. destruct k as [names rawint| | |]; cbn [kind_relb] in Hk.
    - (* enumerations *)
      apply andb_true_iff in Hk. destruct Hk as [Hk Hraw]. apply andb_true_iff in Hk. destruct Hk as [Hlt Hnames].
      apply N.ltb_lt in Hlt. apply names_eqb_eq in Hnames. subst names.
      assert (H100 : kind <? 100 = true) by (apply N.ltb_lt; cbn in Hlt; lia).
      cbn [doc_value] in Hd.
      destruct (if ascii raw then lookup (upper raw) (enum_names kind) else None) as [v0|] eqn:E.
      + injection Hd as <-. destruct (ascii raw); [|discriminate E].
        apply lookup_in in E.
        exists (TEnum (Z.of_N v0)). split; [eapply (enum_by_name L L_lit); [exact Hlt|exact E|reflexivity]|].
        cbn [agree]. split; [reflexivity|lia].
      + destruct (lit raw) as [[z| | | | | |]|] eqn:El; try discriminate Hd.
        destruct (has_value (enum_names kind) z || (rawint && raw_fan_ok z)) eqn:Ev; [|discriminate Hd].
        injection Hd as <-. exists (TEnum z).
        change (has_value (enum_names kind) z) with (is_member kind z) in Ev.
        unfold convert_value. rewrite H100. unfold convert_enum. rewrite (L_lit raw _ El). unfold enum_of_number.
        destruct (is_member kind z) eqn:Em.
        * split; [reflexivity|]. cbn [agree]. split; [reflexivity|]. eapply member_nonneg; exact Em.
        * cbn [orb] in Ev. apply andb_true_iff in Ev. destruct Ev as [Hri Hfan]. subst rawint.
          apply Bool.eqb_prop in Hraw. rewrite <- Hraw.
          split; [reflexivity|]. cbn [agree]. split; [reflexivity|]. unfold raw_fan_ok in Hfan. lia.
    - (* booleans *)
      apply N.eqb_eq in Hk. subst kind. cbn [doc_value] in Hd. unfold doc_bool in Hd.
      destruct (beqb (lower raw) RefCli.s_true) eqn:E1.
      { injection Hd as <-. apply beqb_iff in E1. exists (TBool true). split; [apply (bool_true L L_lit), E1|reflexivity]. }
      destruct (beqb (lower raw) RefCli.s_false) eqn:E2.
      { injection Hd as <-. apply beqb_iff in E2. exists (TBool false). split; [apply (bool_false L L_lit), E2|reflexivity]. }
      destruct (beqb raw [49]) eqn:E3.
      { injection Hd as <-. apply beqb_iff in E3. subst raw. exists (TBool true).
        split; [apply (bool_digits L L_lit)|reflexivity]. }
      destruct (beqb raw [48]) eqn:E4; [|discriminate Hd].
      injection Hd as <-. apply beqb_iff in E4. subst raw. exists (TBool false).
      split; [apply (bool_digits L L_lit)|reflexivity].
    - (* temperature *)
      apply N.eqb_eq in Hk. subst kind. cbn [doc_value] in Hd.
      destruct (lit raw) as [[z|b|n d|x| |t|err]|] eqn:El; try discriminate Hd.
      + destruct (0 <=? z)%Z eqn:Ez; [|discriminate Hd]. injection Hd as <-.
        exists (TFloat z 1). split; [apply (number_int L L_lit), El|]. cbn [agree]. apply halves_int. lia.
      + destruct ((0 <=? n)%Z && ((2 * n) mod Zpos d =? 0)%Z) eqn:Eg; [|discriminate Hd]. injection Hd as <-.
        apply andb_true_iff in Eg. destruct Eg as [Hn Hg].
        exists (TFloat n d). split; [apply (number_float L L_lit), El|]. cbn [agree]. apply halves_grid; lia.
    - (* percentage *)
      apply N.eqb_eq in Hk. subst kind. cbn [doc_value] in Hd.
      destruct (lit raw) as [[z|b|n d|x| |t|err]|] eqn:El; try discriminate Hd.
      destruct ((0 <=? z)%Z && (z <=? 100)%Z) eqn:Ez; [|discriminate Hd]. injection Hd as <-.
      exists (TInt z). split; [apply (number_int L L_lit), El|]. cbn [agree]. split; [reflexivity|lia].
  Qed.

  (* Every documented setting=value pair is accepted by the loop body and converted to the documented value. *)
  Theorem documented_accepted name raw f v : documented name raw = Some (f, v) ->
    exists k tv, lookup name doc_settings = Some (f, k) /\ parse_nv L name raw = COk (name, tv) /\ agree k tv v.
  Proof.
    unfold documented. intros H. destruct (lookup name doc_settings) as [[f' k]|] eqn:El; [|discriminate H].
    destruct (doc_value k raw) as [v'|] eqn:Ed; [|discriminate H]. injection H as <- <-.
    pose proof table_linked as Ht. rewrite forallb_forall in Ht. specialize (Ht _ (lookup_in _ _ _ El)).
    unfold row_linked in Ht. cbn [fst snd] in Ht.
    destruct (find_setting name) as [[kind w]|] eqn:Ef; [|discriminate Ht].
    apply andb_true_iff in Ht. destruct Ht as [Hw Hk].
    destruct (accepted k kind raw v' Hk Ed) as (tv & Hc & Ha).
    exists k, tv. split; [reflexivity|]. split; [|exact Ha].
    unfold parse_nv. rewrite Ef, Hc.
    replace (negb (beqb name sn_display_on) && negb w) with false; [reflexivity|].
    destruct w; [rewrite andb_false_r; reflexivity|]. cbn [orb] in Hw. rewrite Hw. reflexivity.
  Qed.
End Documented.

(* ---------------- setattr has exactly the documented effect on what apply() will request ---------------- *)
Lemma effect_fan d z : (0 <= z)%Z ->
  requested (setattr_dev d sn_fan_speed (TEnum z)) = override (requested d) FFan (VN z).
Proof.
  intros H. change (setattr_dev d sn_fan_speed (TEnum z)) with (d <| d_fan := fan_rep z |>).
  unfold fan_rep. destruct (z <? 0)%Z eqn:E; [lia|]. reflexivity.
Qed.
Lemma effect_humidity d z : (0 <= z <= 100)%Z ->
  requested (setattr_dev d sn_target_humidity (TInt z)) = override (requested d) FHumidity (VN z).
Proof.
  intros H. change (setattr_dev d sn_target_humidity (TInt z)) with (d <| d_humidity := Some (humidity_rep z) |>).
  unfold humidity_rep. rewrite Z.mod_small by lia. reflexivity.
Qed.
Lemma effect_target d n p :
  requested (setattr_dev d sn_target_temperature (TFloat n p)) = override (requested d) FTarget (VHalf (halves_rep n p)).
Proof. reflexivity. Qed.

Theorem setattr_effect name f k tv v d : lookup name doc_settings = Some (f, k) -> agree k tv v -> f <> FDisplay ->
  requested (setattr_dev d name tv) = override (requested d) f v.
Proof.
  intros Hl Ha Hf. unfold doc_settings in Hl. cbn [lookup] in Hl.
  repeat match type of Hl with
  | (if beqb name ?key then _ else _) = _ =>
    destruct (beqb name key) eqn:E;
    [ apply beqb_iff in E; subst name; injection Hl as <- <-;
      destruct tv as [z|b|z|n p]; destruct v as [b'|z'|h]; cbn [agree] in Ha; try contradiction;
      try (destruct Ha as [Hz Ha]); subst;
      first [ reflexivity | congruence | apply effect_fan; exact Ha | apply effect_humidity; exact Ha | apply effect_target ]
    | clear E ]
  end.
  discriminate Hl.
Qed.

(* the display is the only documented setting that setattr never sees *)
Lemma display_field name k : lookup name doc_settings = Some (FDisplay, k) -> name = sn_display_on.
Proof.
  intros Hl. unfold doc_settings in Hl. cbn [lookup] in Hl.
  repeat match type of Hl with
  | (if beqb name ?key then _ else _) = _ =>
    destruct (beqb name key) eqn:E; [apply beqb_iff in E; subst name; first [discriminate Hl|reflexivity]|clear E]
  end.
  discriminate Hl.
Qed.

(* a list of converted settings against the list of their documented meanings *)
Definition conforms (nv : bytes * tval) (fv : field * value) : Prop :=
  exists k, lookup (fst nv) doc_settings = Some (fst fv, k) /\ agree k (snd nv) (snd fv) /\ fst fv <> FDisplay.

Theorem set_all_effect props specs : Forall2 conforms props specs -> forall d,
  requested (set_all props d) = override_all (requested d) specs.
Proof.
  induction 1 as [|nv fv props specs (k & Hl & Ha & Hf) _ IH]; intros d; [reflexivity|].
  unfold set_all, override_all in *. cbn [fold_left]. rewrite IH.
  rewrite (setattr_effect _ _ _ _ _ d Hl Ha Hf). reflexivity.
Qed.

(* ---------------- whole runs ---------------- *)
Lemma dict_pop_head k v t : dict_pop ((k, v) :: t) k = (Some v, t).
Proof. cbn [dict_pop]. rewrite beqb_same. reflexivity. Qed.

Definition is_query (c : cmd) : Prop := match c with SetState _ | SetProps _ => False | _ => True end.

Section Runs.
  Variable P : Type.
  Variable peer : P -> bytes -> P * list bytes.

  (* what an operation appends to the trace of sent commands *)
  Definition sent_ext (Q : cmd -> Prop) (w w' : world P) : Prop :=
    exists l, w_sent w' = w_sent w ++ l /\ Forall Q l.
  Lemma sent_ext_refl (Q : cmd -> Prop) w : sent_ext Q w w.
  Proof. exists []. rewrite app_nil_r. split; [reflexivity|constructor]. Qed.
  Lemma sent_ext_trans (Q : cmd -> Prop) a b c : sent_ext Q a b -> sent_ext Q b c -> sent_ext Q a c.
  Proof.
    intros (l1 & H1 & F1) (l2 & H2 & F2). exists (l1 ++ l2). rewrite H2, H1, app_assoc.
    split; [reflexivity|]. apply Forall_app. split; assumption.
  Qed.

  Lemma send_sent (Q : cmd -> Prop) w c : Q c -> sent_ext Q w (fst (send_get_responses peer w c)).
  Proof.
    intros Hc. unfold send_get_responses. destruct (emit (w_counter w) c) as [[f n']|e]; [|apply sent_ext_refl].
    destruct (peer (w_peer w) f) as [p' frames].
    destruct (valid_responses frames); cbn [fst]; exists [c]; (split; [reflexivity|constructor; [exact Hc|constructor]]).
  Qed.

  Lemma send_all_sent (Q : cmd -> Prop) cs : Forall Q cs -> forall w, sent_ext Q w (fst (send_all peer w cs)).
  Proof.
    induction 1 as [|c t Hc _ IH]; intros w; cbn [send_all]; [apply sent_ext_refl|].
    pose proof (send_sent Q w c Hc) as H1.
    destruct (send_get_responses peer w c) as [w1 [rs|e]]; cbn [fst] in *; [|exact H1].
    pose proof (IH w1) as H2. destruct (send_all peer w1 t) as [w2 [rest|e]]; cbn [fst] in *;
      eapply sent_ext_trans; eassumption.
  Qed.

  Lemma refresh_cmds_queries d : Forall is_query (refresh_cmds d).
  Proof.
    unfold refresh_cmds. apply Forall_app; split; [|apply Forall_app; split; [|apply Forall_app; split]].
    - constructor; [exact I|constructor].
    - destruct (d_request_energy d); constructor; [exact I|constructor].
    - destruct (d_sup_humidity d); constructor; [exact I|constructor].
    - destruct (d_sup_props d); constructor; [exact I|constructor].
  Qed.

  Lemma refresh_sent w : sent_ext is_query w (fst (refresh peer w)).
  Proof.
    unfold refresh. pose proof (send_all_sent is_query _ (refresh_cmds_queries (w_dev w)) w) as H.
    destruct (send_all peer w (refresh_cmds (w_dev w))) as [w1 [rs|e]]; cbn [fst] in *; exact H.
  Qed.

  Lemma toggle_sent w : sent_ext is_query w (fst (toggle_display peer w)).
  Proof.
    unfold toggle_display. pose proof (send_sent is_query w (ToggleDisplay (d_beep (w_dev w))) I) as H1.
    destruct (send_get_responses peer w _) as [w1 [rs|e]]; cbn [fst] in *; [|exact H1].
    eapply sent_ext_trans; [exact H1|apply refresh_sent].
  Qed.

  (* display_on alone: the display is toggled exactly when the requested value differs from the reported one, nothing
     is applied, and only queries (get-state, display toggle) are ever sent *)
  Theorem display_only b w w1 : refresh peer w = (w1, None) -> d_online (w_dev w1) = true ->
    run_props peer false [(sn_display_on, TBool b)] w =
      if Bool.eqb b (d_display (w_dev w1)) then (w1, SExit 0)
      else (fst (toggle_display peer w1), stop_of (snd (toggle_display peer w1))).
  Proof.
    intros Hr Ho. unfold run_props. rewrite Hr, Ho. cbn [negb]. rewrite dict_pop_head. cbn [tv_bool].
    destruct (Bool.eqb b (d_display (w_dev w1))); [reflexivity|].
    destruct (toggle_display peer w1) as [w2 [e|]]; reflexivity.
  Qed.

  Theorem display_only_queries b w : sent_ext is_query w (fst (run_props peer false [(sn_display_on, TBool b)] w)).
  Proof.
    unfold run_props. pose proof (refresh_sent w) as H1.
    destruct (refresh peer w) as [w1 [e|]]; cbn [fst] in *; [exact H1|].
    destruct (negb (d_online (w_dev w1))); [exact H1|]. rewrite dict_pop_head. cbn [tv_bool].
    destruct (Bool.eqb b (d_display (w_dev w1))); [exact H1|].
    pose proof (toggle_sent w1) as H2. destruct (toggle_display peer w1) as [w2 [e|]]; cbn [fst] in *;
      eapply sent_ext_trans; eassumption.
  Qed.

  (* settings other than the display: after the refresh the attributes are overridden by exactly the given settings and
     applied; the set-state body that apply() emits decodes, under the vendor layout, to the refreshed state with only
     the documented overrides *)
  Theorem unspecified_kept props specs w w1 :
    refresh peer w = (w1, None) -> d_online (w_dev w1) = true ->
    dict_pop props sn_display_on = (None, props) -> props <> [] ->
    Forall2 conforms props specs -> valid_dev (set_all props (w_dev w1)) ->
    run_props peer false props w =
      (fst (apply_op peer (upd_dev w1 (set_all props))), stop_of (snd (apply_op peer (upd_dev w1 (set_all props)))))
    /\ exists b, set_state_body (apply_ctrl (set_all props (w_dev w1))) = Ok b
                 /\ ref_decode_control b = Some (override_all (requested (w_dev w1)) specs).
  Proof.
    intros Hr Ho Hp Hne Hc Hv. split.
    - unfold run_props. rewrite Hr, Ho. cbn [negb]. rewrite Hp.
      destruct props as [|p t]; [contradiction|].
      destruct (apply_op peer (upd_dev w1 (set_all (p :: t)))) as [w5 r]. reflexivity.
    - destruct (control_apply _ Hv) as (b & Hb & Hd). exists b. split; [exact Hb|].
      rewrite Hd, (set_all_effect props specs Hc). reflexivity.
  Qed.

  (* apply() starts by sending exactly that set-state command *)
  Theorem apply_first_command w : forall f n', emit (w_counter w) (SetState (apply_ctrl (w_dev w))) = Ok (f, n') ->
    exists l, w_sent (fst (apply_op peer w)) = w_sent w ++ SetState (apply_ctrl (w_dev w)) :: l.
  Proof.
    intros f n' He. unfold apply_op, send_get_responses. rewrite He.
    destruct (peer (w_peer w) f) as [p' frames].
    destruct (valid_responses frames) as [rs|e]; cbn [fst]; [|exists []; reflexivity].
    match goal with |- context [d_upd_props ?d] => destruct (d_upd_props d) as [|u us] end;
      [cbn [fst upd_dev w_sent]; exists []; reflexivity|].
    unfold apply_properties, send_get_responses. cbn [w_counter upd_dev w_peer w_sent w_dev].
    match goal with |- context [emit ?n ?c] => destruct (emit n c) as [[f2 n2]|e2] end;
      [|cbn [fst w_sent]; exists []; reflexivity].
    match goal with |- context [peer ?p ?x] => destruct (peer p x) as [p2 fr2] end.
    destruct (valid_responses fr2) as [rs2|e2]; cbn [fst upd_dev w_sent]; eexists; rewrite <- app_assoc; reflexivity.
  Qed.
End Runs.
