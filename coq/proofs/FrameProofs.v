(* Lemmas about the CRC-8, the checksum and frame construction. *)
From MS Require Import lib.Base gen.GenCrc gen.GenConst model.Frame spec.RefFrame.
From Coq Require Import ZifyBool ZifyN ZifyNat.
Ltac Zify.zify_post_hook ::= Z.div_mod_to_equations.

Lemma Ok_inj {A} (a b : A) : Ok a = Ok b -> a = b.
Proof. intros H. injection H as ->. reflexivity. Qed.

(* ---------- finite reflection helper over bytes ---------- *)
Definition all_bytes : list N := map N.of_nat (seq 0 256).
Lemma in_all_bytes x : x < 256 -> In x all_bytes.
Proof.
  intros H. unfold all_bytes. apply in_map_iff. exists (N.to_nat x). split; [lia|].
  apply in_seq. lia.
Qed.
Lemma forall_bytes (P : N -> bool) :
  forallb P all_bytes = true -> forall x, x < 256 -> P x = true.
Proof. intros H x Hx. rewrite forallb_forall in H. apply H, in_all_bytes, Hx. Qed.

(* ---------- the generated table is the CRC-8/MAXIM table ---------- *)
Lemma crc_table_is_maxim : crc_table = map crc_byte all_bytes.
Proof. vm_compute. reflexivity. Qed.

Lemma crc_table_length : length crc_table = 256%nat.
Proof. vm_compute. reflexivity. Qed.

Lemma crc_byte_lt x : x < 256 -> crc_byte x < 256.
Proof.
  intros H. apply (forall_bytes (fun x => crc_byte x <? 256)) in H; [lia|].
  vm_compute. reflexivity.
Qed.

Lemma table_lookup x : x < 256 -> nth (N.to_nat x) crc_table 0 = crc_byte x.
Proof.
  intros H.
  apply (forall_bytes (fun x => nth (N.to_nat x) crc_table 0 =? crc_byte x)) in H; [lia|].
  vm_compute. reflexivity.
Qed.

Lemma lxor_lt_256 a b : a < 256 -> b < 256 -> N.lxor a b < 256.
Proof.
  intros Ha Hb.
  destruct (N.eq_dec (N.lxor a b) 0) as [->|Hz]; [lia|].
  apply N.log2_lt_pow2 with (b := 8); [lia|].
  eapply N.le_lt_trans; [apply N.log2_lxor|].
  destruct (N.eq_dec a 0) as [->|Ha0]; destruct (N.eq_dec b 0) as [->|Hb0]; simpl.
  - lia.
  - apply N.max_lub_lt; [simpl; lia|]. apply N.log2_lt_pow2; lia.
  - apply N.max_lub_lt; [|simpl; lia]. apply N.log2_lt_pow2; lia.
  - apply N.max_lub_lt; apply N.log2_lt_pow2; lia.
Qed.

Lemma lor_lt_256 a b : a < 256 -> b < 256 -> N.lor a b < 256.
Proof.
  intros Ha Hb.
  destruct (N.eq_dec (N.lor a b) 0) as [->|Hz]; [lia|].
  apply N.log2_lt_pow2 with (b := 8); [lia|].
  rewrite N.log2_lor.
  destruct (N.eq_dec a 0) as [->|Ha0]; destruct (N.eq_dec b 0) as [->|Hb0]; simpl.
  - lia.
  - apply N.max_lub_lt; [simpl; lia|]. apply N.log2_lt_pow2; lia.
  - apply N.max_lub_lt; [|simpl; lia]. apply N.log2_lt_pow2; lia.
  - apply N.max_lub_lt; apply N.log2_lt_pow2; lia.
Qed.

Lemma land_255 x : x < 256 -> N.land x 255 = x.
Proof.
  intros H. change 255 with (N.ones 8). rewrite N.land_ones. apply N.mod_small. exact H.
Qed.

Lemma crc_step_bitwise c m : c < 256 -> m < 256 -> crc_step c m = crc_byte (N.lxor c m).
Proof.
  intros Hc Hm. unfold crc_step.
  rewrite land_255 by (apply lxor_lt_256; assumption).
  apply table_lookup, lxor_lt_256; assumption.
Qed.

Lemma crc_step_lt c m : c < 256 -> m < 256 -> crc_step c m < 256.
Proof.
  intros Hc Hm. rewrite crc_step_bitwise by assumption.
  apply crc_byte_lt, lxor_lt_256; assumption.
Qed.

Lemma crc_fold_eq l : wfb l -> forall c, c < 256 ->
  fold_left crc_step l c = fold_left (fun c m => crc_byte (N.lxor c m)) l c
  /\ fold_left crc_step l c < 256.
Proof.
  induction 1 as [|m l Hm Hl IH]; intros c Hc; cbn [fold_left].
  - split; [reflexivity|exact Hc].
  - rewrite <- crc_step_bitwise by assumption. apply IH, crc_step_lt; assumption.
Qed.

Theorem crc8_eq_bitwise l : wfb l -> crc8 l = crc8_bitwise l.
Proof. intros H. apply (crc_fold_eq l H 0). lia. Qed.

Lemma crc8_lt l : wfb l -> crc8 l < 256.
Proof. intros H. apply (crc_fold_eq l H 0). lia. Qed.

(* ---------- checksum ---------- *)
Lemma checksum_lt l : checksum l < 256.
Proof. unfold checksum. apply N.mod_lt. lia. Qed.

Lemma sumN_app a b : sumN (a ++ b) = sumN a + sumN b.
Proof. induction a as [|x a IH]; cbn [sumN app]; [reflexivity|]. rewrite IH. lia. Qed.

Lemma checksum_closes l : (sumN l + checksum l) mod 256 = 0.
Proof. unfold checksum. lia. Qed.

(* ---------- wfb helpers ---------- *)
Lemma wfb_app a b : wfb a -> wfb b -> wfb (a ++ b).
Proof. unfold wfb. intros. apply Forall_app. split; assumption. Qed.
Lemma wfb_app_inv a b : wfb (a ++ b) -> wfb a /\ wfb b.
Proof. unfold wfb. intros H. apply Forall_app in H. exact H. Qed.
Lemma wfb_cons x l : x < 256 -> wfb l -> wfb (x :: l).
Proof. intros. constructor; assumption. Qed.
Lemma wfb_nil : wfb [].
Proof. constructor. Qed.
Lemma wfb_zeros n : wfb (zeros n).
Proof. induction n; cbn [zeros]; constructor; [lia|assumption]. Qed.
Lemma wfbb_iff l : wfbb l = true <-> wfb l.
Proof.
  unfold wfbb, wfb. rewrite forallb_forall, Forall_forall. split; intros H x Hx; specialize (H x Hx); lia.
Qed.
Lemma wfb_le_bytes n v : wfb (le_bytes n v).
Proof.
  revert v. induction n as [|n IH]; intros v; cbn [le_bytes]; constructor; [|apply IH].
  apply N.mod_lt. lia.
Qed.
Lemma le_bytes_length n v : length (le_bytes n v) = n.
Proof. revert v. induction n as [|n IH]; intros v; cbn [le_bytes length]; [reflexivity|]. rewrite IH. reflexivity. Qed.
Lemma wfb_skipn n l : wfb l -> wfb (skipn n l).
Proof.
  unfold wfb. intros H. rewrite Forall_forall in *. intros x Hx. apply H.
  rewrite <- (firstn_skipn n l). apply in_or_app. right. exact Hx.
Qed.
Lemma wfb_firstn n l : wfb l -> wfb (firstn n l).
Proof.
  unfold wfb. intros H. rewrite Forall_forall in *. intros x Hx. apply H.
  rewrite <- (firstn_skipn n l). apply in_or_app. left. exact Hx.
Qed.

(* ---------- frame construction: what frame_tobytes guarantees ---------- *)
Lemma nth_app_l {A} (l l' : list A) n d : (n < length l)%nat -> nth n (l ++ l') d = nth n l d.
Proof. intros. apply app_nth1. assumption. Qed.

(* A frame built by frame_tobytes over a payload p ++ [id] ++ [crc8 (p ++ [id])] is accepted. *)
Lemma frame_tobytes_accepted ft p mid f :
  wfb p -> mid < 256 -> ft < 256 ->
  frame_tobytes 172 ft ((p ++ [mid]) ++ [crc8 (p ++ [mid])]) = Ok f ->
  dev_accepts ft f = true
  /\ msg_id f = mid
  /\ frame_body f = p
  /\ length f = (length p + 13)%nat.
Proof.
  intros Hp Hmid Hft. unfold frame_tobytes.
  set (pl := p ++ [mid]).
  assert (Hpl : wfb pl) by (apply wfb_app; [assumption|apply wfb_cons; [assumption|apply wfb_nil]]).
  assert (Hcrc : crc8 pl < 256) by (apply crc8_lt; assumption).
  assert (Hlen_pl : length pl = (length p + 1)%nat) by (unfold pl; rewrite app_length; reflexivity).
  rewrite app_length. cbn [length]. rewrite Hlen_pl.
  destruct (255 <? N.of_nat (length p + 1 + 1) + 10) eqn:Hbig; [discriminate|].
  intros Heq. injection Heq as <-.
  set (lenb := N.of_nat (length p + 1 + 1) + 10).
  set (hdr := [170; lenb; 172; 0; 0; 0; 0; 0; 0; ft]).
  set (frame := hdr ++ pl ++ [crc8 pl]).
  set (ck := checksum (skipn 1 frame)).
  assert (Hlenf : length frame = (length p + 12)%nat).
  { unfold frame. rewrite !app_length. cbn [length hdr]. rewrite Hlen_pl. lia. }
  assert (Hlen : length (frame ++ [ck]) = (length p + 13)%nat).
  { rewrite app_length, Hlenf. cbn [length]. lia. }
  assert (Hwf : wfb (frame ++ [ck])).
  { apply wfb_app.
    - unfold frame. apply wfb_app.
      + unfold hdr. repeat (apply wfb_cons; [lia|]). apply wfb_nil.
      + apply wfb_app; [assumption|]. apply wfb_cons; [assumption|apply wfb_nil].
    - apply wfb_cons; [apply checksum_lt|apply wfb_nil]. }
  assert (Hbody : slice (frame ++ [ck]) 10 (length (frame ++ [ck]) - 2) = pl).
  { unfold slice. rewrite Hlen. unfold frame.
    change (hdr ++ pl ++ [crc8 pl]) with (hdr ++ (pl ++ [crc8 pl])).
    rewrite <- !app_assoc.
    replace (skipn 10 (hdr ++ pl ++ [crc8 pl] ++ [ck])) with (pl ++ [crc8 pl] ++ [ck]) by reflexivity.
    replace (length p + 13 - 2 - 10)%nat with (length pl + 0)%nat by lia.
    rewrite firstn_app_2. cbn [firstn]. apply app_nil_r. }
  assert (Hnth : forall k, (k < 10)%nat -> nthb (frame ++ [ck]) k = nth k hdr 0).
  { intros k Hk. unfold nthb. rewrite app_nth1 by lia. unfold frame. rewrite app_nth1 by (cbn; lia). reflexivity. }
  change (dev_accepts ft (frame ++ [ck]) = true /\ msg_id (frame ++ [ck]) = mid
          /\ frame_body (frame ++ [ck]) = p /\ length (frame ++ [ck]) = (length p + 13)%nat).
  split; [|split; [|split]].
  - unfold dev_accepts.
    rewrite Hlen.
    replace (wfbb (frame ++ [ck])) with true by (symmetry; apply wfbb_iff; exact Hwf).
    rewrite !Hnth by lia. cbn [nth hdr].
    replace (slice (frame ++ [ck]) 10 (length p + 13 - 2)) with pl by (rewrite <- Hbody, Hlen; reflexivity).
    replace (nthb (frame ++ [ck]) (length p + 13 - 2)) with (crc8 pl).
    2:{ unfold nthb. rewrite app_nth1 by lia. unfold frame.
        rewrite app_nth2 by (cbn; lia). rewrite app_nth2 by (cbn [length hdr]; lia).
        cbn [length hdr]. replace (length p + 13 - 2 - 10 - length pl)%nat with 0%nat by lia. reflexivity. }
    rewrite <- crc8_eq_bitwise by assumption.
    assert (Hsum : sumN (skipn 1 (frame ++ [ck])) mod 256 = 0).
    { replace (skipn 1 (frame ++ [ck])) with (skipn 1 frame ++ [ck]).
      2:{ unfold frame, hdr. reflexivity. }
      rewrite sumN_app. cbn [sumN]. rewrite N.add_0_r. apply checksum_closes. }
    rewrite Hsum. unfold lenb.
    repeat (apply andb_true_intro; split); try reflexivity; lia.
  - unfold msg_id. rewrite Hlen. unfold nthb. rewrite app_nth1 by lia. unfold frame.
    rewrite app_nth2 by (cbn; lia). rewrite app_nth1 by (cbn [length hdr]; lia).
    unfold pl. rewrite app_nth2 by (cbn [length hdr]; lia).
    cbn [length hdr]. replace (length p + 13 - 3 - 10 - length p)%nat with 0%nat by lia. reflexivity.
  - unfold frame_body, slice. rewrite Hlen. unfold frame.
    rewrite <- !app_assoc.
    replace (skipn 10 (hdr ++ pl ++ [crc8 pl] ++ [ck])) with (pl ++ [crc8 pl] ++ [ck]) by reflexivity.
    unfold pl. rewrite <- app_assoc.
    replace (length p + 13 - 3 - 10)%nat with (length p + 0)%nat by lia.
    rewrite firstn_app_2. cbn [firstn]. apply app_nil_r.
  - exact Hlen.
Qed.
