(* Single-byte corruption detection by the outer checksum, the CRC-8 and the additive body check (C13),
   and what Response.construct guarantees about a frame it accepts. *)
From MS Require Import lib.Base gen.GenCrc gen.GenConst gen.GenCmd model.Frame model.Command model.Response
  spec.RefFrame proofs.FrameProofs.
From Coq Require Import ZifyBool ZifyN ZifyNat.
Ltac Zify.zify_post_hook ::= Z.div_mod_to_equations.

(* replace element i *)
Definition upd (i : nat) (v : N) (l : bytes) : bytes := firstn i l ++ v :: skipn (S i) l.

Lemma upd_length i v l : (i < length l)%nat -> length (upd i v l) = length l.
Proof.
  intros H. unfold upd. rewrite app_length. cbn [length]. rewrite firstn_length, skipn_length. lia.
Qed.

Lemma split_nth (l : bytes) i : (i < length l)%nat -> l = firstn i l ++ nth i l 0 :: skipn (S i) l.
Proof.
  revert i. induction l as [|x l IH]; intros i H; cbn [length] in H; [lia|].
  destruct i as [|i]; cbn [firstn nth skipn app]; [reflexivity|].
  f_equal. apply IH. lia.
Qed.

Lemma sumN_upd i v l : (i < length l)%nat -> sumN (upd i v l) + nth i l 0 = sumN l + v.
Proof.
  intros H. pose proof (split_nth l i H) as E. apply (f_equal sumN) in E.
  rewrite sumN_app in E. cbn [sumN] in E. unfold upd. rewrite sumN_app. cbn [sumN]. lia.
Qed.

Lemma wfb_upd i v l : wfb l -> v < 256 -> wfb (upd i v l).
Proof.
  intros Hl Hv. unfold upd. apply wfb_app; [apply wfb_firstn; assumption|].
  apply wfb_cons; [assumption|apply wfb_skipn; assumption].
Qed.

Lemma wfb_nth l i : wfb l -> nth i l 0 < 256.
Proof.
  intros H. destruct (Nat.lt_ge_cases i (length l)) as [Hi|Hi].
  - unfold wfb in H. rewrite Forall_forall in H. apply H, nth_In, Hi.
  - rewrite nth_overflow by assumption. lia.
Qed.

(* ---------- additive checksum ---------- *)
Lemma checksum_eq_iff a b : checksum a = checksum b <-> sumN a mod 256 = sumN b mod 256.
Proof. unfold checksum. split; intros H; lia. Qed.

Theorem sum_single_byte b i v :
  wfb b -> (i < length b)%nat -> v < 256 -> v <> nth i b 0 -> checksum (upd i v b) <> checksum b.
Proof.
  intros Hb Hi Hv Hne Heq. apply checksum_eq_iff in Heq.
  pose proof (sumN_upd i v b Hi) as Hs. pose proof (wfb_nth b i Hb) as Hn. lia.
Qed.

(* at most one substitute per position makes the additive check hit a given value *)
Theorem sum_unique_substitute b i v1 v2 :
  (i < length b)%nat -> v1 < 256 -> v2 < 256 ->
  checksum (upd i v1 b) = checksum (upd i v2 b) -> v1 = v2.
Proof.
  intros Hi H1 H2 Heq. apply checksum_eq_iff in Heq.
  pose proof (sumN_upd i v1 b Hi). pose proof (sumN_upd i v2 b Hi). lia.
Qed.

(* ---------- CRC-8: the table is a permutation of the bytes ---------- *)
Fixpoint index_of (y : N) (l : list N) (k : N) : N :=
  match l with [] => 256 | x :: t => if x =? y then k else index_of y t (k + 1) end.
Definition crc_unbyte (y : N) : N := index_of y crc_table 0.

Lemma crc_unbyte_byte x : x < 256 -> crc_unbyte (crc_byte x) = x.
Proof.
  intros H. apply (forall_bytes (fun x => crc_unbyte (crc_byte x) =? x)) in H; [lia|].
  vm_compute. reflexivity.
Qed.

Lemma crc_byte_inj x y : x < 256 -> y < 256 -> crc_byte x = crc_byte y -> x = y.
Proof.
  intros Hx Hy H. rewrite <- (crc_unbyte_byte x Hx), <- (crc_unbyte_byte y Hy), H. reflexivity.
Qed.

Lemma lxor_inj_r c m m' : N.lxor c m = N.lxor c m' -> m = m'.
Proof.
  intros H. rewrite <- (N.lxor_0_l m), <- (N.lxor_0_l m'), <- (N.lxor_nilpotent c), !N.lxor_assoc, H. reflexivity.
Qed.
Lemma lxor_inj_l c c' m : N.lxor c m = N.lxor c' m -> c = c'.
Proof. rewrite (N.lxor_comm c), (N.lxor_comm c'). apply lxor_inj_r. Qed.

Lemma crc_step_inj_m c m m' : c < 256 -> m < 256 -> m' < 256 -> crc_step c m = crc_step c m' -> m = m'.
Proof.
  intros Hc Hm Hm'. rewrite !crc_step_bitwise by assumption. intros H.
  apply crc_byte_inj in H; try (apply lxor_lt_256; assumption). apply lxor_inj_r in H. exact H.
Qed.
Lemma crc_step_inj_c c c' m : c < 256 -> c' < 256 -> m < 256 -> crc_step c m = crc_step c' m -> c = c'.
Proof.
  intros Hc Hc' Hm. rewrite !crc_step_bitwise by assumption. intros H.
  apply crc_byte_inj in H; try (apply lxor_lt_256; assumption). apply lxor_inj_l in H. exact H.
Qed.

Lemma crc_fold_lt l : wfb l -> forall c, c < 256 -> fold_left crc_step l c < 256.
Proof. intros H c Hc. apply (crc_fold_eq l H c Hc). Qed.

Lemma crc_fold_inj l : wfb l -> forall c c', c < 256 -> c' < 256 ->
  fold_left crc_step l c = fold_left crc_step l c' -> c = c'.
Proof.
  induction 1 as [|m l Hm Hl IH]; intros c c' Hc Hc' H; cbn [fold_left] in H; [exact H|].
  pose proof (IH (crc_step c m) (crc_step c' m) (crc_step_lt _ _ Hc Hm) (crc_step_lt _ _ Hc' Hm) H) as Hs.
  exact (crc_step_inj_c c c' m Hc Hc' Hm Hs).
Qed.

Lemma crc8_upd b i v : (i < length b)%nat ->
  crc8 (upd i v b) = fold_left crc_step (skipn (S i) b) (crc_step (fold_left crc_step (firstn i b) 0) v).
Proof. intros H. unfold crc8, upd. rewrite fold_left_app. reflexivity. Qed.

Lemma crc8_split b i : (i < length b)%nat ->
  crc8 b = fold_left crc_step (skipn (S i) b) (crc_step (fold_left crc_step (firstn i b) 0) (nth i b 0)).
Proof. intros H. unfold crc8. rewrite (split_nth b i H) at 1. rewrite fold_left_app. reflexivity. Qed.

(* the CRC-8 is injective in any one byte of the message *)
Theorem crc_unique_substitute b i v1 v2 :
  wfb b -> (i < length b)%nat -> v1 < 256 -> v2 < 256 ->
  crc8 (upd i v1 b) = crc8 (upd i v2 b) -> v1 = v2.
Proof.
  intros Hb Hi H1 H2. rewrite !crc8_upd by assumption. intros H.
  assert (Hpre : fold_left crc_step (firstn i b) 0 < 256) by (apply crc_fold_lt; [apply wfb_firstn; assumption|lia]).
  pose proof (crc_fold_inj _ (wfb_skipn (S i) b Hb) _ _ (crc_step_lt _ _ Hpre H1) (crc_step_lt _ _ Hpre H2) H) as Hs.
  exact (crc_step_inj_m _ v1 v2 Hpre H1 H2 Hs).
Qed.

Theorem crc_single_byte b i v :
  wfb b -> (i < length b)%nat -> v < 256 -> v <> nth i b 0 -> crc8 (upd i v b) <> crc8 b.
Proof.
  intros Hb Hi Hv Hne Heq. apply Hne.
  assert (Hsame : upd i (nth i b 0) b = b) by (unfold upd; symmetry; apply split_nth; assumption).
  rewrite <- Hsame in Heq at 2.
  eapply crc_unique_substitute; try eassumption. apply wfb_nth; assumption.
Qed.

(* ---------- body check: Response.validate ---------- *)
Lemma slice_neg_app_last (b : bytes) c : slice_neg (b ++ [c]) 0 1 = b.
Proof.
  unfold slice_neg, slice. cbn [Nat.eqb skipn]. rewrite app_length. cbn [length].
  replace (length b + 1 - 1 - 0)%nat with (length b + 0)%nat by lia.
  rewrite firstn_app_2. cbn [firstn]. apply app_nil_r.
Qed.

Lemma idx_neg_app_last (b : bytes) c : idx_neg (b ++ [c]) 1 = Ok c.
Proof.
  unfold idx_neg. rewrite app_length. cbn [length].
  destruct (Nat.ltb_spec (length b + 1) 1); [lia|]. cbn [Nat.eqb].
  unfold idx. replace (length b + 1 - 1)%nat with (length b + 0)%nat by lia.
  rewrite nth_error_app2 by lia. replace (length b + 0 - length b)%nat with 0%nat by lia. reflexivity.
Qed.

Lemma response_validate_iff b c :
  response_validate (b ++ [c]) = Ok tt <-> (crc8 b = c \/ checksum b = c).
Proof.
  unfold response_validate. rewrite slice_neg_app_last, idx_neg_app_last. cbn [bind].
  destruct (crc8 b =? c) eqn:H1; destruct (checksum b =? c) eqn:H2; cbn [negb andb];
    split; intros H; try reflexivity; try discriminate; try (left; lia); try (right; lia).
  destruct H; lia.
Qed.

Lemma response_validate_cases p : response_validate p = Ok tt \/ response_validate p = Err EInvalidResponse
                                  \/ (p = [] /\ response_validate p = Err EIndex).
Proof.
  destruct p as [|x p']; [right; right; split; reflexivity|].
  destruct (exists_last (l := x :: p')) as [b [c E]]; [discriminate|]. rewrite E.
  unfold response_validate. rewrite slice_neg_app_last, idx_neg_app_last. cbn [bind].
  destruct (negb _ && negb _); [right; left|left]; reflexivity.
Qed.

(* A corrupted body passes the body check only through the check style the authentic frame did NOT use. *)
Theorem body_escape b c i v :
  wfb b -> (i < length b)%nat -> v < 256 -> v <> nth i b 0 ->
  (crc8 b = c \/ checksum b = c) ->
  response_validate (upd i v b ++ [c]) = Ok tt ->
  (crc8 (upd i v b) = c /\ crc8 b <> c /\ checksum b = c)
  \/ (checksum (upd i v b) = c /\ checksum b <> c /\ crc8 b = c).
Proof.
  intros Hb Hi Hv Hne Horig Hacc. apply response_validate_iff in Hacc.
  pose proof (crc_single_byte b i v Hb Hi Hv Hne) as Hc.
  pose proof (sum_single_byte b i v Hb Hi Hv Hne) as Hs.
  destruct Hacc as [Ha|Ha]; destruct Horig as [Ho|Ho].
  - congruence.
  - left. repeat split; congruence.
  - right. repeat split; congruence.
  - congruence.
Qed.

(* per position at most one substitute escapes through each style, hence at most two in all *)
Theorem body_escape_unique b c i v1 v2 :
  wfb b -> (i < length b)%nat -> v1 < 256 -> v2 < 256 ->
  (crc8 (upd i v1 b) = c /\ crc8 (upd i v2 b) = c) \/ (checksum (upd i v1 b) = c /\ checksum (upd i v2 b) = c) ->
  v1 = v2.
Proof.
  intros Hb Hi H1 H2 [[Ha Hb']|[Ha Hb']].
  - eapply crc_unique_substitute; try eassumption. congruence.
  - eapply sum_unique_substitute; try eassumption. congruence.
Qed.

(* ---------- outer checksum: Frame.validate ---------- *)
Lemma frame_validate_shape h mid ck :
  frame_validate (h :: mid ++ [ck]) = if checksum mid =? ck then Ok tt else Err EInvalidFrame.
Proof.
  unfold frame_validate.
  change (h :: mid ++ [ck]) with ((h :: mid) ++ [ck]). rewrite idx_neg_app_last. cbn [bind].
  unfold slice_neg, slice. cbn [Nat.eqb]. rewrite app_length. cbn [length skipn app].
  replace (S (length mid) + 1 - 1 - 1)%nat with (length mid + 0)%nat by lia.
  rewrite firstn_app_2. cbn [firstn]. rewrite app_nil_r. reflexivity.
Qed.

Theorem outer_detects_mid h mid ck i v :
  wfb mid -> (i < length mid)%nat -> v < 256 -> v <> nth i mid 0 ->
  frame_validate (h :: mid ++ [ck]) = Ok tt ->
  frame_validate (h :: upd i v mid ++ [ck]) = Err EInvalidFrame.
Proof.
  intros Hm Hi Hv Hne. rewrite !frame_validate_shape.
  destruct (checksum mid =? ck) eqn:H1; [|discriminate]. intros _.
  pose proof (sum_single_byte mid i v Hm Hi Hv Hne).
  destruct (checksum (upd i v mid) =? ck) eqn:H2; [lia|reflexivity].
Qed.

Theorem outer_detects_ck h mid ck ck' :
  ck' <> ck -> frame_validate (h :: mid ++ [ck]) = Ok tt ->
  frame_validate (h :: mid ++ [ck']) = Err EInvalidFrame.
Proof.
  intros Hne. rewrite !frame_validate_shape.
  destruct (checksum mid =? ck) eqn:H1; [|discriminate]. intros _.
  destruct (checksum mid =? ck') eqn:H2; [lia|reflexivity].
Qed.

(* general form: any single-byte change after the start byte of a frame that passes Frame.validate *)
Theorem outer_detects f i v :
  wfb f -> frame_validate f = Ok tt -> (1 <= i < length f)%nat -> v < 256 -> v <> nth i f 0 ->
  frame_validate (upd i v f) = Err EInvalidFrame.
Proof.
  intros Hf Hval Hi Hv Hne.
  destruct f as [|h t]; [cbn in Hi; lia|].
  destruct (exists_last (l := t)) as [mid [ck ->]]; [intros ->; cbn in Hi; lia|].
  apply wfb_app_inv with (a := [h]) in Hf. destruct Hf as [_ Hf].
  apply wfb_app_inv in Hf. destruct Hf as [Hmid _].
  destruct i as [|i]; [lia|]. cbn [length] in Hi. rewrite app_length in Hi. cbn [length] in Hi.
  cbn [nth] in Hne.
  assert (Hupd : upd (S i) v (h :: mid ++ [ck]) = h :: upd i v (mid ++ [ck])) by reflexivity.
  rewrite Hupd.
  destruct (Nat.lt_ge_cases i (length mid)) as [Hlt|Hge].
  - rewrite app_nth1 in Hne by assumption.
    assert (Hu : upd i v (mid ++ [ck]) = upd i v mid ++ [ck]).
    { unfold upd. rewrite firstn_app, skipn_app.
      replace (i - length mid)%nat with 0%nat by lia. replace (S i - length mid)%nat with 0%nat by lia.
      cbn [firstn skipn]. rewrite app_nil_r, <- app_assoc. reflexivity. }
    rewrite Hu. apply outer_detects_mid; assumption.
  - assert (i = length mid) by lia. subst i.
    rewrite app_nth2 in Hne by lia. replace (length mid - length mid)%nat with 0%nat in Hne by lia. cbn [nth] in Hne.
    assert (Hu : upd (length mid) v (mid ++ [ck]) = mid ++ [v]).
    { unfold upd. rewrite firstn_app, skipn_app, firstn_all, skipn_all2 by lia.
      replace (length mid - length mid)%nat with 0%nat by lia.
      replace (S (length mid) - length mid)%nat with 1%nat by lia. cbn [firstn skipn]. rewrite app_nil_r. reflexivity. }
    rewrite Hu. eapply outer_detects_ck; eassumption.
Qed.

(* ---------- what an accepted frame guarantees (sentence 1 of C13) ---------- *)
Definition is_props (f : bytes) : bool :=
  (nthb f 10 =? ResponseId_PROPERTIES) || (nthb f 10 =? ResponseId_PROPERTIES_ACK).

Lemma classify_props f k : classify f = Ok k -> (k = KProps <-> is_props f = true).
Proof.
  unfold classify, is_props, idx, nthb.
  destruct (nth_error f 9) as [ft|] eqn:H9; cbn [bind]; [|discriminate].
  destruct (nth_error f 10) as [rid|] eqn:H10; cbn [bind]; [|discriminate].
  rewrite (nth_error_nth f 10 0 H10).
  unfold ResponseId_STATE, ResponseId_CAPABILITIES, ResponseId_PROPERTIES, ResponseId_PROPERTIES_ACK, ResponseId_GROUP_DATA.
  destruct (rid =? 192) eqn:E1; [intros H; injection H as <-; split; [discriminate|lia]|].
  destruct ((rid =? 181) && (ft =? FrameType_QUERY)) eqn:E2; [intros H; injection H as <-; split; [discriminate|lia]|].
  destruct ((rid =? 177) || (rid =? 176)) eqn:E3; [intros H; injection H as <-; split; [reflexivity|reflexivity]|].
  destruct (rid =? 193) eqn:E4.
  - destruct (nth_error f 13); cbn [bind]; [|discriminate]. intros H. injection H as <-.
    split; [|discriminate]. destruct (_ =? 4); [discriminate|]. destruct (_ =? 5); discriminate.
  - intros H; injection H as <-; split; [discriminate|discriminate].
Qed.

Lemma construct_ok_raw f r : construct f = Ok r -> construct_raw f = Ok r.
Proof.
  unfold construct, catch. destruct (construct_raw f) as [r'|e]; [auto|].
  destruct (existsb (subclass e) [EIndex; EStruct]); discriminate.
Qed.

Lemma construct_raw_err f e : construct_raw f = Err e -> e <> EIndex -> e <> EStruct -> construct f = Err e.
Proof.
  intros H H1 H2. unfold construct, catch. rewrite H.
  destruct e; try reflexivity; congruence.
Qed.

Theorem construct_accepts f r :
  construct f = Ok r ->
  frame_validate f = Ok tt
  /\ (is_props f = true \/ response_validate (slice_neg f 10 1) = Ok tt).
Proof.
  intros H0. apply construct_ok_raw in H0. revert H0. unfold construct_raw.
  destruct (frame_validate f) as [[]|] eqn:Hv; cbn [bind]; [|discriminate].
  destruct (classify f) as [k|] eqn:Hk; cbn [bind]; [|discriminate].
  intros H. split; [reflexivity|].
  destruct k;
    try (destruct (response_validate (slice_neg f 10 1)) as [[]|] eqn:Hr; cbn [bind] in H; [right; reflexivity|discriminate]).
  left. apply (classify_props f KProps Hk). reflexivity.
Qed.

Theorem construct_rejects_bad_outer f : frame_validate f = Err EInvalidFrame -> construct f = Err EInvalidFrame.
Proof.
  intros H. apply construct_raw_err; try discriminate. unfold construct_raw. rewrite H. reflexivity.
Qed.

Theorem construct_rejects_bad_body f :
  frame_validate f = Ok tt -> is_props f = false ->
  response_validate (slice_neg f 10 1) = Err EInvalidResponse ->
  (exists k, classify f = Ok k) ->
  construct f = Err EInvalidResponse.
Proof.
  intros Hv Hp Hr [k Hk]. apply construct_raw_err; try discriminate.
  unfold construct_raw. rewrite Hv, Hk. cbn [bind].
  destruct k; try (rewrite Hr; reflexivity).
  exfalso. pose proof (proj1 (classify_props f KProps Hk) eq_refl). congruence.
Qed.
