(* the non-blocking drain before / after a request empties the receive queue *)
From MS Require Import lib.Base gen.GenLan model.Session proofs.SessionProofs proofs.SessionHoare.
Local Open Scope N_scope.

Definition setq (q : list pkt) (c : conn) : conn :=
  mkConn (c_id c) (c_v3 c) (c_closing c) (c_pid c) (c_key c) (c_lexp c) q (c_in c) (c_peerkey c).
Definition wsetq (q : list pkt) (w : world) : world := snd (set_conn (setq q) w).

Lemma as_data_err c p e : as_data c p = Err e -> e = EProtocol.
Proof.
  unfold as_data. destruct p; try (intros H; injection H as <-; reflexivity).
  destruct (c_v3 c); [|discriminate]. destruct (match c_key c with Some k => Nat.eqb k kid | None => false end); [discriminate|].
  intros H; injection H as <-; reflexivity.
Qed.

Definition keep_data (c : conn) (p : pkt) : option N := match as_data c p with Ok f => Some f | Err _ => None end.

Lemma wsetq_proto w c q : l_proto (w_lan w) = Some c -> l_proto (w_lan (wsetq q w)) = Some (setq q c).
Proof. intros Hc. unfold wsetq, set_conn, set_lan, upd. cbn. rewrite Hc. reflexivity. Qed.
Lemma the_conn_some w c : l_proto (w_lan w) = Some c -> the_conn w = (Ok c, w).
Proof. intros Hc. unfold the_conn, mbind, get. rewrite Hc. reflexivity. Qed.
Lemma pop_nonempty w c p rest : l_proto (w_lan w) = Some c -> c_q c = p :: rest -> pop_queue w = (Ok p, wsetq rest w).
Proof. intros Hc Hq. unfold pop_queue, mbind. rewrite (the_conn_some w c Hc), Hq. reflexivity. Qed.
Lemma read_queue_nonempty b w c p rest : l_proto (w_lan w) = Some c -> c_q c = p :: rest -> read_queue b w = (Ok p, wsetq rest w).
Proof. intros Hc Hq. unfold read_queue, mbind. rewrite (the_conn_some w c Hc), Hq. apply (pop_nonempty w c p rest Hc Hq). Qed.
Lemma read_queue_empty w c : l_proto (w_lan w) = Some c -> c_q c = [] -> read_queue false w = (Err EQueueEmpty, w).
Proof. intros Hc Hq. unfold read_queue, mbind. rewrite (the_conn_some w c Hc), Hq. reflexivity. Qed.
Lemma lan_read_nonempty b w c p rest : l_proto (w_lan w) = Some c -> c_q c = p :: rest ->
  lan_read b w = (match as_data (setq rest c) p with Ok f => Ok f | Err e => Err e end, wsetq rest w).
Proof.
  intros Hc Hq. unfold lan_read, mbind. rewrite (read_queue_nonempty b w c p rest Hc Hq).
  rewrite (the_conn_some _ _ (wsetq_proto w c rest Hc)). destruct (as_data (setq rest c) p); reflexivity.
Qed.
Lemma nowait_nonempty w c p rest : l_proto (w_lan w) = Some c -> c_q c = p :: rest ->
  mcatch (dom x <- lan_read false; ret (Some x)) [EProtocol] (fun _ => ret None) w = (Ok (keep_data (setq rest c) p), wsetq rest w).
Proof.
  intros Hc Hq. unfold keep_data, mcatch, mbind. rewrite (lan_read_nonempty false w c p rest Hc Hq).
  destruct (as_data (setq rest c) p) as [f|e] eqn:Ha; [reflexivity|]. apply as_data_err in Ha as ->. reflexivity.
Qed.
Lemma nowait_empty w c : l_proto (w_lan w) = Some c -> c_q c = [] ->
  mcatch (dom x <- lan_read false; ret (Some x)) [EProtocol] (fun _ => ret None) w = (Err EQueueEmpty, w).
Proof. intros Hc Hq. unfold mcatch, mbind, lan_read, mbind. rewrite (read_queue_empty w c Hc Hq). reflexivity. Qed.

(* what the drain returns: the valid data packets of the queue, in order (an invalid one is skipped) *)
Fixpoint kept (c : conn) (q : list pkt) : list N :=
  match q with
  | [] => []
  | p :: rest => match keep_data c p with Some f => f :: kept c rest | None => kept c rest end
  end.
Lemma keep_data_setq q c p : keep_data (setq q c) p = keep_data c p.
Proof. reflexivity. Qed.
Lemma wsetq_twice q q' w : wsetq q (wsetq q' w) = wsetq q w.
Proof. unfold wsetq, set_conn, set_lan, upd. cbn. destruct (l_proto (w_lan w)); reflexivity. Qed.

(* the drain with fuel above the queue length never raises, returns every valid queued data packet in order and leaves the
   queue EMPTY - however many invalid packets were waiting, none survives to meet the blocking read of the exchange *)
Theorem drain_empties_queue fuel : forall w c acc, l_proto (w_lan w) = Some c -> (length (c_q c) < fuel)%nat ->
  read_available fuel acc w = (Ok (acc ++ kept c (c_q c)), match c_q c with [] => w | _ => wsetq [] w end).
Proof.
  induction fuel as [|fuel IH]; intros w c acc Hc Hlen; [inversion Hlen|].
  cbn [read_available]. destruct (c_q c) as [|p rest] eqn:Hq.
  - unfold mcatch at 1, mbind at 1. rewrite (nowait_empty w c Hc Hq). cbn. rewrite app_nil_r. reflexivity.
  - unfold mcatch at 1, mbind at 1. rewrite (nowait_nonempty w c p rest Hc Hq).
    cbn [length] in Hlen. pose proof (wsetq_proto w c rest Hc) as Hc1.
    rewrite (IH (wsetq rest w) (setq rest c) _ Hc1) by (cbn; lia).
    cbn [c_q setq kept]. rewrite keep_data_setq.
    assert (Hk : forall q, kept (setq rest c) q = kept c q) by (induction q as [|x q IHq]; cbn; [reflexivity|rewrite keep_data_setq, IHq; reflexivity]).
    rewrite Hk. replace (match rest with [] => wsetq rest w | _ => wsetq [] (wsetq rest w) end) with (wsetq [] w)
      by (destruct rest; [reflexivity|rewrite wsetq_twice; reflexivity]).
    destruct (keep_data c p); [rewrite <- app_assoc|]; reflexivity.
Qed.
