(* Every command the model can emit is accepted by the reference device parser (C12). *)
From MS Require Import lib.Base gen.GenConst gen.GenCmd model.Frame model.Command spec.RefFrame
  proofs.FrameProofs.
From Coq Require Import ZifyBool ZifyN ZifyNat.
Ltac Zify.zify_post_hook ::= Z.div_mod_to_equations.

Lemma land_mask_lt a k m : m = N.ones k -> N.land a m < 2 ^ k.
Proof. intros ->. rewrite N.land_ones. apply N.mod_lt. apply N.pow_nonzero. lia. Qed.

Lemma flag_lt b m : m < 256 -> flag b m < 256.
Proof. unfold flag. destruct b; lia. Qed.

Ltac byte_lt :=
  repeat first
    [ apply lor_lt_256
    | apply flag_lt; lia
    | lia ].

Lemma set_state_body_wfb c b : set_state_body c = Ok b -> wfb b /\ length b = 24%nat.
Proof.
  unfold set_state_body. destruct (255 <? c_fan c) eqn:Hfan; [discriminate|].
  intros H. apply Ok_inj in H. subst b.
  assert (Hmode : N.shiftl (N.land (c_mode c) 7) 5 < 256).
  { rewrite N.shiftl_mul_pow2. pose proof (land_mask_lt (c_mode c) 3 7 eq_refl). lia. }
  assert (Hsw : N.land (c_swing c) 63 < 256).
  { pose proof (land_mask_lt (c_swing c) 6 63 eq_refl). lia. }
  assert (Hhum : N.land (c_humidity c) 127 < 256).
  { pose proof (land_mask_lt (c_humidity c) 7 127 eq_refl). lia. }
  assert (Halt : Z.to_N (Z.land (c_tint c - 12) 31) < 256).
  { change 31%Z with (Z.ones 5). rewrite Z.land_ones by lia. lia. }
  assert (Hprim : N.land (Z.to_N (c_tint c - 16)) 15 < 256).
  { pose proof (land_mask_lt (Z.to_N (c_tint c - 16)) 4 15 eq_refl). lia. }
  split; [|reflexivity].
  assert (Hcs : CONTROL_SOURCE < 256) by (vm_compute; reflexivity).
  destruct ((17 <=? c_tint c)%Z && (c_tint c <=? 30)%Z);
  repeat (apply wfb_cons; [byte_lt|]); apply wfb_nil.
Qed.

Lemma pid_supported_lt p : pid_supported p = true -> p < 65536.
Proof.
  unfold pid_supported. rewrite existsb_exists. intros [x [Hin Heq]].
  apply N.eqb_eq in Heq. subst x.
  assert (H : forallb (fun x => x <? 65536) PropertyId_supported = true) by (vm_compute; reflexivity).
  rewrite forallb_forall in H. specialize (H p Hin). lia.
Qed.

Lemma prop_encode_wfb p v e : prop_encode p v = Ok e -> wfb e /\ (1 <= length e <= 13)%nat.
Proof.
  unfold prop_encode. destruct (pid_supported p); cbn [negb]; [|discriminate].
  destruct (p =? PropertyId_BREEZE_AWAY).
  { intros H. apply Ok_inj in H; subst. split; [|cbn; lia].
    apply wfb_cons; [destruct (v =? 0); lia|apply wfb_nil]. }
  destruct (p =? PropertyId_IECO).
  { destruct (255 <? v) eqn:Hv; [discriminate|]. intros H. apply Ok_inj in H. subst e.
    split; [|cbn; lia]. apply wfb_app; [|apply wfb_zeros]. repeat (apply wfb_cons; [lia|]). apply wfb_nil. }
  destruct (255 <? v) eqn:Hv; [discriminate|]. intros H. apply Ok_inj in H; subst.
  split; [|cbn; lia]. apply wfb_cons; [lia|apply wfb_nil].
Qed.

Lemma set_props_records_wfb kvs r :
  set_props_records kvs = Ok r -> wfb r /\ (length r <= 16 * length kvs)%nat.
Proof.
  revert r. induction kvs as [|[p v] t IH]; cbn [set_props_records]; intros r H.
  - apply Ok_inj in H; subst. split; [apply wfb_nil|cbn; lia].
  - destruct (prop_encode p v) as [e|] eqn:He; cbn [bind] in H; [|discriminate].
    destruct (set_props_records t) as [rest|] eqn:Hr; cbn [bind] in H; [|discriminate].
    apply Ok_inj in H; subst. destruct (IH rest eq_refl) as [Hw Hl].
    destruct (prop_encode_wfb _ _ _ He) as [Hwe Hle].
    split.
    + apply wfb_app; [apply wfb_le_bytes|]. apply wfb_app; [apply wfb_cons; [lia|apply wfb_nil]|].
      apply wfb_app; assumption.
    + rewrite !app_length, le_bytes_length. cbn [length]. lia.
Qed.

Lemma wfb_flat_le ids : wfb (flat_map (le_bytes 2) ids).
Proof.
  induction ids as [|i t IH]; cbn [flat_map]; [apply wfb_nil|].
  apply wfb_app; [apply wfb_le_bytes|exact IH].
Qed.

Lemma cmd_body_wfb c b : cmd_body c = Ok b -> wfb b.
Proof.
  destruct c as [add| | | |st|beep|ids|kvs]; cbn [cmd_body]; intros H.
  - destruct add; injection H as <-; repeat (apply wfb_cons; [lia|]); apply wfb_nil.
  - apply Ok_inj in H; subst. apply wfb_app; [repeat (apply wfb_cons; [unfold TemperatureType_INDOOR; lia|]); apply wfb_nil|].
    apply wfb_app; [apply wfb_zeros|]. apply wfb_cons; [lia|apply wfb_nil].
  - apply Ok_inj in H; subst. apply wfb_app; [|apply wfb_zeros]. repeat (apply wfb_cons; [lia|]); apply wfb_nil.
  - apply Ok_inj in H; subst. apply wfb_app; [|apply wfb_zeros]. repeat (apply wfb_cons; [lia|]); apply wfb_nil.
  - apply set_state_body_wfb in H. apply H.
  - apply Ok_inj in H. subst b. apply wfb_app; [|apply wfb_zeros].
    apply wfb_cons; [lia|]. assert (Hcs : CONTROL_SOURCE < 256) by (vm_compute; reflexivity).
    apply wfb_cons; [byte_lt|].
    repeat (apply wfb_cons; [lia|]); apply wfb_nil.
  - destruct (255 <? length ids)%nat eqn:Hl; [discriminate|]. apply Ok_inj in H; subst.
    apply wfb_app; [|apply wfb_flat_le]. apply wfb_cons; [lia|]. apply wfb_cons; [lia|apply wfb_nil].
  - destruct (255 <? length kvs)%nat eqn:Hl; [discriminate|].
    destruct (set_props_records kvs) as [r|] eqn:Hr; cbn [bind] in H; [|discriminate].
    apply Ok_inj in H; subst. apply set_props_records_wfb in Hr.
    apply wfb_app; [|apply Hr]. apply wfb_cons; [lia|]. apply wfb_cons; [lia|apply wfb_nil].
Qed.

Lemma frame_types_lt c : cmd_frame_type c < 256.
Proof. destruct c; vm_compute; reflexivity. Qed.

(* Whatever the model emits is accepted, carries counter+1 mod 256, and has the command body. *)
Theorem emit_accepted n c f n' :
  emit n c = Ok (f, n') ->
  n' = n + 1
  /\ dev_accepts (cmd_frame_type c) f = true
  /\ msg_id f = (n + 1) mod 256
  /\ cmd_body c = Ok (frame_body f).
Proof.
  unfold emit. destruct (cmd_body c) as [body|] eqn:Hb; cbn [bind]; [|discriminate].
  unfold cmd_tobytes.
  destruct (frame_tobytes _ _ _) as [fr|] eqn:Hf; cbn [bind]; [|discriminate].
  intros H. injection H as <- <-.
  assert (Hmid : N.land (n + 1) 255 = (n + 1) mod 256).
  { change 255 with (N.ones 8). apply N.land_ones. }
  rewrite Hmid in Hf.
  apply frame_tobytes_accepted in Hf.
  - destruct Hf as (Ha & Hm & Hbd & _). rewrite Hbd. auto.
  - eapply cmd_body_wfb; eassumption.
  - apply N.mod_lt. lia.
  - apply frame_types_lt.
Qed.

(* the domain on which encoding succeeds *)
Definition encodable (c : cmd) : bool :=
  match cmd_body c with Ok b => (length b <=? 243)%nat | Err _ => false end.

Theorem emit_succeeds n c : encodable c = true -> exists f, emit n c = Ok (f, n + 1).
Proof.
  unfold encodable, emit. destruct (cmd_body c) as [b|] eqn:Hb; [|discriminate].
  intros Hl. cbn [bind]. unfold cmd_tobytes, frame_tobytes.
  rewrite !app_length. cbn [length].
  destruct (255 <? N.of_nat (length b + 1 + 1) + 10) eqn:Hbig; [lia|].
  cbn [bind]. eexists. reflexivity.
Qed.

(* the concrete domains: every set-state with a one-byte fan speed; every property query of up to
   120 ids; every property write of up to 15 supported ids with one-byte values; the fixed commands *)
Lemma encodable_fixed : forall c, In c [GetCaps false; GetCaps true; GetState; GetEnergy; GetHumidity;
                                        ToggleDisplay false; ToggleDisplay true] -> encodable c = true.
Proof. intros c H. repeat (destruct H as [<-|H]; [vm_compute; reflexivity|]). destruct H. Qed.

Lemma encodable_set_state c : c_fan c < 256 -> encodable (SetState c) = true.
Proof.
  intros H. unfold encodable. cbn [cmd_body].
  destruct (set_state_body c) as [b|] eqn:Hb.
  - apply set_state_body_wfb in Hb. destruct Hb as [_ ->]. reflexivity.
  - unfold set_state_body in Hb. destruct (255 <? c_fan c) eqn:Hf; [lia|discriminate].
Qed.

Lemma flat_le_length ids : length (flat_map (le_bytes 2) ids) = (2 * length ids)%nat.
Proof. induction ids as [|i t IH]; cbn [flat_map length]; [reflexivity|]. rewrite app_length, le_bytes_length, IH. lia. Qed.

Lemma encodable_get_props ids : (length ids <= 120)%nat -> encodable (GetProps ids) = true.
Proof.
  intros H. unfold encodable. cbn [cmd_body].
  destruct (255 <? length ids)%nat eqn:Hl; [lia|].
  rewrite app_length, flat_le_length. cbn [length]. lia.
Qed.

Lemma set_props_records_ok kvs :
  Forall (fun kv => pid_supported (fst kv) = true /\ snd kv < 256) kvs ->
  exists r, set_props_records kvs = Ok r.
Proof.
  induction 1 as [|[p v] t [Hp Hv] _ [r Hr]]; cbn [set_props_records]; [eexists; reflexivity|].
  cbn [fst snd] in *.
  assert (exists e, prop_encode p v = Ok e) as [e He].
  { unfold prop_encode. rewrite Hp. cbn [negb].
    destruct (p =? PropertyId_BREEZE_AWAY); [eexists; reflexivity|].
    destruct (255 <? v) eqn:Hb; [lia|]. destruct (p =? PropertyId_IECO); eexists; reflexivity. }
  rewrite He, Hr. cbn [bind]. eexists. reflexivity.
Qed.

Lemma encodable_set_props kvs :
  (length kvs <= 15)%nat ->
  Forall (fun kv => pid_supported (fst kv) = true /\ snd kv < 256) kvs ->
  encodable (SetProps kvs) = true.
Proof.
  intros Hl Hall. unfold encodable. cbn [cmd_body].
  destruct (255 <? length kvs)%nat eqn:Hb; [lia|].
  destruct (set_props_records_ok kvs Hall) as [r Hr]. rewrite Hr. cbn [bind].
  apply set_props_records_wfb in Hr. rewrite app_length. cbn [length]. lia.
Qed.

(* ids over an arbitrarily long sequence *)
Fixpoint ids_from (n : N) (k : nat) : list N :=
  match k with O => [] | S k' => ((n + 1) mod 256) :: ids_from (n + 1) k' end.

Theorem emit_seq_ids cs : forall n fs,
  emit_seq n cs = Ok fs ->
  map msg_id fs = ids_from n (length cs)
  /\ Forall2 (fun c f => dev_accepts (cmd_frame_type c) f = true) cs fs.
Proof.
  induction cs as [|c t IH]; intros n fs; cbn [emit_seq].
  - intros H. apply Ok_inj in H; subst. split; [reflexivity|constructor].
  - destruct (emit n c) as [[f n']|] eqn:He; cbn [bind]; [|discriminate].
    destruct (emit_seq n' t) as [r|] eqn:Hr; cbn [bind]; [|discriminate].
    intros H. apply Ok_inj in H; subst.
    apply emit_accepted in He. destruct He as (-> & Ha & Hm & _).
    destruct (IH _ _ Hr) as [Hids Hacc].
    cbn [map length ids_from]. rewrite Hm, Hids. split; [reflexivity|constructor; assumption].
Qed.

Lemma ids_from_nth n k j : (j < k)%nat -> nth j (ids_from n k) 0 = (n + 1 + N.of_nat j) mod 256.
Proof.
  revert n j. induction k as [|k IH]; intros n j Hj; [lia|].
  destruct j as [|j]; cbn [ids_from nth].
  - f_equal. lia.
  - rewrite IH by lia. f_equal. lia.
Qed.

Theorem emit_seq_succeeds cs : Forall (fun c => encodable c = true) cs ->
  forall n, exists fs, emit_seq n cs = Ok fs.
Proof.
  induction 1 as [|c t Hc _ IH]; intros n; cbn [emit_seq]; [eexists; reflexivity|].
  destruct (emit_succeeds n c Hc) as [f ->]. cbn [bind].
  destruct (IH (n + 1)) as [r ->]. cbn [bind]. eexists. reflexivity.
Qed.
