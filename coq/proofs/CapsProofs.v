(* C15: the record loop interprets records independently; paging at any split point gives the same dictionary. *)
From MS Require Import lib.Base gen.GenCmd model.Frame model.Response spec.RefCaps proofs.FrameProofs.
From Coq Require Import ZifyBool ZifyN ZifyNat.
Ltac Zify.zify_post_hook ::= Z.div_mod_to_equations.

Definition wf_rec (r : rec) : Prop := r_id r < 65536 /\ wfb (r_vals r) /\ (length (r_vals r) <= 255)%nat.

(* ---------- bytes equality ---------- *)
Lemma beqb_eq a : forall b, beqb a b = true <-> a = b.
Proof.
  induction a as [|x a IH]; intros [|y b]; cbn [beqb]; split; intros H; try reflexivity; try discriminate.
  - apply andb_true_iff in H. destruct H as [H1 H2]. apply N.eqb_eq in H1. apply IH in H2. congruence.
  - injection H as -> ->. apply andb_true_iff. split; [apply N.eqb_refl|apply IH; reflexivity].
Qed.
Lemma beqb_refl a : beqb a a = true.
Proof. apply beqb_eq. reflexivity. Qed.

(* ---------- dictionary lookups ---------- *)
Lemma get_update d k v k' :
  cdict_get (cdict_update d k v) k' = if beqb k k' then Some v else cdict_get d k'.
Proof.
  induction d as [|[k0 v0] t IH]; cbn [cdict_update cdict_get].
  - reflexivity.
  - destruct (beqb k0 k) eqn:E0.
    + apply beqb_eq in E0. subst k0. cbn [cdict_get]. destruct (beqb k k'); reflexivity.
    + cbn [cdict_get]. rewrite IH. destruct (beqb k0 k') eqn:E1; [|reflexivity].
      apply beqb_eq in E1. subst k0. destruct (beqb k k') eqn:E2; [|reflexivity].
      apply beqb_eq in E2. subst k'. rewrite beqb_refl in E0. discriminate.
Qed.

Lemma get_fold_upd us : forall acc k,
  cdict_get (fold_left upd us acc) k =
  match cdict_get (fold_left upd us []) k with Some v => Some v | None => cdict_get acc k end.
Proof.
  induction us as [|[k0 v0] t IH] using rev_ind; intros acc k.
  - reflexivity.
  - rewrite !fold_left_app. cbn [fold_left]. unfold upd at 1 3. cbn [fst snd]. rewrite !get_update.
    destruct (beqb k0 k); [reflexivity|]. apply IH.
Qed.

(* dictionaries built by updates hold one entry per key *)
Fixpoint keys_nodup (d : cdict) : Prop :=
  match d with [] => True | (k, _) :: t => cdict_get t k = None /\ keys_nodup t end.

Lemma update_nodup d k v : keys_nodup d -> keys_nodup (cdict_update d k v).
Proof.
  induction d as [|[k0 v0] t IH]; cbn [cdict_update keys_nodup]; intros H.
  - split; [reflexivity|exact I].
  - destruct H as [Hn Ht]. destruct (beqb k0 k) eqn:E.
    + apply beqb_eq in E. subst k0. cbn [keys_nodup]. split; assumption.
    + cbn [keys_nodup]. split; [|apply IH; exact Ht].
      rewrite get_update. destruct (beqb k k0) eqn:E2; [|exact Hn].
      apply beqb_eq in E2. subst k0. rewrite beqb_refl in E. discriminate.
Qed.

Lemma fold_upd_nodup us : forall acc, keys_nodup acc -> keys_nodup (fold_left upd us acc).
Proof.
  induction us as [|u t IH]; intros acc H; cbn [fold_left]; [exact H|]. apply IH. apply update_nodup. exact H.
Qed.

(* replaying a one-entry-per-key dictionary onto acc = lookups in it first, then in acc *)
Lemma replay b : keys_nodup b -> forall acc k,
  cdict_get (fold_left upd b acc) k = match cdict_get b k with Some v => Some v | None => cdict_get acc k end.
Proof.
  induction b as [|[k0 v0] t IH]; intros Hn acc k; cbn [fold_left cdict_get]; [reflexivity|].
  destruct Hn as [Hk Ht]. rewrite (IH Ht). unfold upd. cbn [fst snd]. rewrite get_update.
  destruct (beqb k0 k) eqn:E; [|reflexivity].
  apply beqb_eq in E. subst k. rewrite Hk. reflexivity.
Qed.

Lemma get_merge a b k : keys_nodup b ->
  cdict_get (cdict_merge a b) k = match cdict_get b k with Some v => Some v | None => cdict_get a k end.
Proof. intros H. exact (replay b H a k). Qed.

(* ---------- one step of the record loop on a well-formed record ---------- *)
Lemma from_le_le2 v : v < 65536 -> from_le (le_bytes 2 v) = v.
Proof. intros H. cbn [le_bytes from_le]. lia. Qed.

Lemma fold_readers (rs : list (bytes * rpred)) v acc :
  fold_left (fun d r => cdict_update d (fst r) (CBool (rpred_eval (snd r) v))) rs acc
  = fold_left upd (map (fun rd => (fst rd, CBool (rpred_eval (snd rd) v))) rs) acc.
Proof. revert acc. induction rs as [|r t IH]; intros acc; cbn [fold_left map]; [reflexivity|]. apply IH. Qed.

Lemma caps_step_rec r rest acc : wf_rec r ->
  caps_step (enc_rec r ++ rest) acc = Ok (Some (rest, apply_rec acc r)).
Proof.
  intros (Hid & Hw & Hlen). unfold enc_rec, apply_rec, updates_of.
  destruct r as [id vals]. cbn [r_id r_vals] in *.
  cbn [le_bytes]. cbn [app].
  set (b0 := id mod 256). set (b1 := (id / 256) mod 256).
  unfold caps_step.
  assert (Hl3 : (length (b0 :: b1 :: N.of_nat (length vals) :: vals ++ rest) <? 3)%nat = false).
  { cbn [length]. destruct (Nat.ltb_spec (S (S (S (length (vals ++ rest))))) 3); [lia|reflexivity]. }
  rewrite Hl3.
  change (nthb (b0 :: b1 :: N.of_nat (length vals) :: vals ++ rest) 2) with (N.of_nat (length vals)).
  assert (Hraw : from_le (slice (b0 :: b1 :: N.of_nat (length vals) :: vals ++ rest) 0 2) = id).
  { unfold slice. cbn [skipn firstn Nat.sub from_le]. unfold b0, b1. lia. }
  rewrite Hraw.
  assert (Hnext : skipn (3 + N.to_nat (N.of_nat (length vals))) (b0 :: b1 :: N.of_nat (length vals) :: vals ++ rest) = rest).
  { rewrite Nat2N.id. cbn [Nat.add skipn]. rewrite skipn_app, skipn_all, Nat.sub_diag. reflexivity. }
  rewrite Hnext.
  destruct vals as [|v0 vt].
  { cbn [length N.of_nat]. replace (0 =? 0) with true by reflexivity. cbn [skipn app fold_left]. reflexivity. }
  assert (Hsz : (N.of_nat (length (v0 :: vt)) =? 0) = false) by (cbn [length]; lia).
  rewrite Hsz.
  destruct (negb (capid_known id)) eqn:Ek; [reflexivity|].
  change (idx (b0 :: b1 :: N.of_nat (length (v0 :: vt)) :: (v0 :: vt) ++ rest) 3) with (Ok v0 : res N).
  cbn [bind].
  destruct (readers_for capability_readers id) as [rs|] eqn:Er.
  { rewrite fold_readers. reflexivity. }
  destruct (id =? CapabilityId_TEMPERATURES) eqn:Et; [|reflexivity].
  destruct vt as [|c4 [|c5 [|c6 [|c7 [|c8 tl]]]]];
    try (replace (N.of_nat (length _) <? 6) with true by (cbn [length]; lia); reflexivity).
  replace (N.of_nat (length (v0 :: c4 :: c5 :: c6 :: c7 :: c8 :: tl)) <? 6) with false by (cbn [length]; lia).
  change (idx (b0 :: b1 :: ?s :: (v0 :: c4 :: c5 :: c6 :: c7 :: c8 :: tl) ++ rest) 3) with (Ok v0 : res N).
  cbn [app idx nth_error bind].
  destruct tl as [|d tl'].
  - replace (6 <? N.of_nat (length [v0; c4; c5; c6; c7; c8])) with false by (cbn [length]; lia).
    cbn [bind length]. reflexivity.
  - replace (6 <? N.of_nat (length (v0 :: c4 :: c5 :: c6 :: c7 :: c8 :: d :: tl'))) with true by (cbn [length]; lia).
    cbn [app idx nth_error bind]. reflexivity.
Qed.

(* ---------- the loop over a list of records ---------- *)
Lemma caps_loop_recs rs : Forall wf_rec rs -> forall k rest acc,
  caps_loop (length rs + k) (flat_map enc_rec rs ++ rest) acc = caps_loop k rest (fold_left apply_rec rs acc).
Proof.
  induction 1 as [|r t Hr _ IH]; intros k rest acc; [reflexivity|].
  cbn [length flat_map Nat.add fold_left caps_loop]. rewrite <- app_assoc, caps_step_rec by exact Hr. cbn [bind].
  apply IH.
Qed.

Definition flag_of (trailer : bytes) : bool :=
  if (1 <? length trailer)%nat then negb (nthb trailer (length trailer - 2) =? 0) else false.

Theorem parse_caps_page rs trailer : Forall wf_rec rs -> (length rs <= 255)%nat ->
  parse_caps (page rs trailer) = Ok (fold_left apply_rec rs [], flag_of trailer).
Proof.
  intros Hw Hl. unfold parse_caps, page. cbn [app idx nth_error bind skipn].
  rewrite Nat2N.id. replace (length rs) with (length rs + 0)%nat at 1 by lia.
  rewrite caps_loop_recs by exact Hw. cbn [caps_loop bind]. unfold flag_of.
  destruct (1 <? length trailer)%nat; reflexivity.
Qed.

(* ---------- independence: = interpreting each record alone and merging in order ---------- *)
Lemma apply_rec_nodup acc r : keys_nodup acc -> keys_nodup (apply_rec acc r).
Proof. apply fold_upd_nodup. Qed.
Lemma fold_apply_nodup rs : forall acc, keys_nodup acc -> keys_nodup (fold_left apply_rec rs acc).
Proof. induction rs as [|r t IH]; intros acc H; cbn [fold_left]; [exact H|]. apply IH, apply_rec_nodup, H. Qed.
Lemma interp1_nodup r : keys_nodup (interp1 r).
Proof. apply apply_rec_nodup. exact I. Qed.

Lemma merge_all_nodup ds : Forall keys_nodup ds -> forall acc, keys_nodup acc -> keys_nodup (fold_left cdict_merge ds acc).
Proof.
  induction 1 as [|d t Hd _ IH]; intros acc Ha; cbn [fold_left]; [exact Ha|].
  apply IH. apply fold_upd_nodup. exact Ha.
Qed.

Theorem independent rs : forall acc acc', keys_nodup acc' -> cequiv acc acc' ->
  cequiv (fold_left apply_rec rs acc) (fold_left cdict_merge (map interp1 rs) acc').
Proof.
  induction rs as [|r t IH]; intros acc acc' Hn He; cbn [fold_left map]; [exact He|].
  apply IH.
  - apply fold_upd_nodup. exact Hn.
  - intros k. unfold apply_rec at 1. rewrite get_fold_upd.
    rewrite get_merge by apply interp1_nodup. unfold interp1, apply_rec. rewrite (He k). reflexivity.
Qed.

Theorem parse_is_merge_of_singles rs trailer : Forall wf_rec rs -> (length rs <= 255)%nat ->
  exists d more, parse_caps (page rs trailer) = Ok (d, more) /\ cequiv d (merge_all (map interp1 rs)).
Proof.
  intros Hw Hl. eexists; eexists. split; [apply parse_caps_page; assumption|].
  apply independent; [exact I|intros k; reflexivity].
Qed.

(* ---------- paging ---------- *)
Theorem paging rs n m1 m2 flag1 : Forall wf_rec rs -> (length rs <= 255)%nat -> flag1 <> 0 ->
  exists d1 d2 d,
    parse_caps (page (firstn n rs) [flag1; m1]) = Ok (d1, true)
    /\ parse_caps (page (skipn n rs) [0; m2]) = Ok (d2, false)
    /\ parse_caps (page rs [0; m2]) = Ok (d, false)
    /\ cequiv (cdict_merge d1 d2) d.
Proof.
  intros Hw Hl Hf.
  assert (Hw12 : Forall wf_rec (firstn n rs) /\ Forall wf_rec (skipn n rs)) by (apply Forall_app; rewrite firstn_skipn; exact Hw).
  destruct Hw12 as [Hw1 Hw2].
  assert (Hl1 : (length (firstn n rs) <= 255)%nat) by (rewrite firstn_length; lia).
  assert (Hl2 : (length (skipn n rs) <= 255)%nat) by (rewrite skipn_length; lia).
  eexists; eexists; eexists. split; [|split; [|split]].
  - rewrite parse_caps_page by assumption. unfold flag_of. cbn [length Nat.ltb Nat.leb Nat.sub nthb nth].
    destruct (flag1 =? 0) eqn:E; [lia|reflexivity].
  - rewrite parse_caps_page by assumption. reflexivity.
  - rewrite parse_caps_page by assumption. reflexivity.
  - intros k. rewrite get_merge by (apply fold_apply_nodup; exact I).
    replace (fold_left apply_rec rs []) with (fold_left apply_rec (skipn n rs) (fold_left apply_rec (firstn n rs) []))
      by (rewrite <- fold_left_app, firstn_skipn; reflexivity).
    (* whole = continue applying the second half on top of the first half's dictionary *)
    assert (Hgen : forall rs2 acc, cdict_get (fold_left apply_rec rs2 acc) k =
                   match cdict_get (fold_left apply_rec rs2 []) k with Some v => Some v | None => cdict_get acc k end).
    { induction rs2 as [|r t IH] using rev_ind; intros acc; [reflexivity|].
      rewrite !fold_left_app. cbn [fold_left]. unfold apply_rec at 1 3.
      rewrite (get_fold_upd (updates_of r) (fold_left apply_rec t acc)), (get_fold_upd (updates_of r) (fold_left apply_rec t [])).
      destruct (cdict_get (fold_left upd (updates_of r) []) k); [reflexivity|]. apply IH. }
    rewrite (Hgen (skipn n rs) (fold_left apply_rec (firstn n rs) [])). reflexivity.
Qed.

(* ---------- lifting to the device attributes ---------- *)
From MS Require Import gen.GenDev model.Device.

Lemma in_get_some (c : cdict) k v : In (k, v) c -> cdict_get c k <> None.
Proof.
  induction c as [|[k0 v0] t IH]; cbn [In cdict_get]; [tauto|].
  intros [H|H].
  - injection H as -> ->. rewrite beqb_refl. discriminate.
  - destruct (beqb k0 k); [discriminate|apply IH, H].
Qed.

Lemma get_some_in (c : cdict) k v : cdict_get c k = Some v -> In (k, v) c.
Proof.
  induction c as [|[k0 v0] t IH]; cbn [In cdict_get]; [discriminate|].
  destruct (beqb k0 k) eqn:E.
  - apply beqb_eq in E. subst k0. intros H. injection H as ->. left. reflexivity.
  - intros H. right. apply IH, H.
Qed.

Lemma has_fan_key_equiv a b : cequiv a b -> has_fan_key a = has_fan_key b.
Proof.
  intros H.
  assert (Hdir : forall x y, cequiv x y -> has_fan_key x = true -> has_fan_key y = true).
  { intros x y Hxy Hx. unfold has_fan_key in *. rewrite existsb_exists in *.
    destruct Hx as [[k v] [Hin Hp]]. cbn [fst] in Hp.
    pose proof (in_get_some x k v Hin) as Hg. rewrite (Hxy k) in Hg.
    destruct (cdict_get y k) as [v'|] eqn:E; [|congruence].
    exists (k, v'). split; [apply get_some_in, E|exact Hp]. }
  destruct (has_fan_key a) eqn:Ea, (has_fan_key b) eqn:Eb; try reflexivity.
  - rewrite (Hdir a b H Ea) in Eb. discriminate.
  - assert (Hs : cequiv b a) by (intros k; symmetry; apply H). rewrite (Hdir b a Hs Eb) in Ea. discriminate.
Qed.

Lemma cget_equiv a b n : cequiv a b -> cget a n = cget b n.
Proof. intros H. unfold cget. rewrite (H n). reflexivity. Qed.
Lemma chalf_equiv a b n dflt : cequiv a b -> chalf a n dflt = chalf b n dflt.
Proof. intros H. unfold chalf. rewrite (H n). reflexivity. Qed.
Lemma get_fan_speed_equiv a b n s : cequiv a b -> get_fan_speed a n s = get_fan_speed b n s.
Proof.
  intros H. unfold get_fan_speed. rewrite (has_fan_key_equiv a b H), !(cget_equiv a b _ H). reflexivity.
Qed.

Theorem update_capabilities_equiv d a b : cequiv a b -> update_capabilities d a = update_capabilities d b.
Proof.
  intros H. unfold update_capabilities.
  repeat match goal with
  | |- context [get_fan_speed a ?n ?s] => rewrite (get_fan_speed_equiv a b n s H)
  | |- context [cget a ?n] => rewrite (cget_equiv a b n H)
  | |- context [chalf a ?n ?v] => rewrite (chalf_equiv a b n v H)
  end.
  reflexivity.
Qed.
