(* C14 / C16 over whole histories: ANY sequence of the five public operations and the setters (op codes of the evaluator
   used by the correspondence check, extract/Run.do_ops_gen), against ANY peer that returns byte strings, never raises; the
   caller-side conditions of the single-operation theorems are an invariant of every reachable state. *)
From MS Require Import lib.Base gen.GenConst gen.GenCmd gen.GenDev model.Frame model.Command model.Response model.Device
  proofs.FrameProofs proofs.HashProofs proofs.CommandProofs proofs.ResponseProofs proofs.DeviceProofs proofs.TotalProofs proofs.PropsProofs extract.Run.
From RecordUpdate Require Import RecordSet.
Import RecordSetNotations.
From Coq Require Import ZifyBool ZifyN ZifyNat.
Local Open Scope N_scope.

(* ---------- what a decodable frame of bytes can carry ---------- *)
Definition resp_ok (r : response) : Prop := match r with RState _ s => s_fan s < 256 | _ => True end.

Lemma idx_wfb l n b : wfb l -> idx l n = Ok b -> b < 256.
Proof.
  unfold idx. intros Hw. destruct (nth_error l n) as [x|] eqn:E; [|discriminate]. intros H. apply Ok_inj in H. subst x.
  apply nth_error_In in E. unfold wfb in Hw. rewrite Forall_forall in Hw. apply Hw, E.
Qed.

Lemma parse_state_fan p s : parse_state p = Ok s -> idx p 3 = Ok (s_fan s).
Proof.
  unfold parse_state.
  destruct (idx p 1); cbn [bind]; [|discriminate]. destruct (idx p 2); cbn [bind]; [|discriminate].
  destruct (idx p 3) as [b3|]; cbn [bind]; [|discriminate].
  destruct (idx p 7); cbn [bind]; [|discriminate]. destruct (idx p 8); cbn [bind]; [|discriminate].
  destruct (idx p 9); cbn [bind]; [|discriminate]. destruct (idx p 10); cbn [bind]; [|discriminate].
  destruct (idx p 11); cbn [bind]; [|discriminate]. destruct (idx p 15); cbn [bind]; [|discriminate].
  destruct (idx p 12); cbn [bind]; [|discriminate]. destruct (idx p 13); cbn [bind]; [|discriminate].
  destruct (idx p 14); cbn [bind]; [|discriminate].
  cbv zeta. destruct (length p <? 20)%nat; [intros H; apply Ok_inj in H; subst s; reflexivity|].
  destruct (length p <? 22)%nat; intros H; apply Ok_inj in H; subst s; reflexivity.
Qed.

Lemma wfb_slice_neg l a k : wfb l -> wfb (slice_neg l a k).
Proof. intros H. unfold slice_neg, slice. destruct (Nat.eqb k 0); apply wfb_firstn, wfb_skipn, H. Qed.

Lemma construct_resp_ok f r : wfb f -> construct f = Ok r -> resp_ok r.
Proof.
  intros Hw H. apply construct_ok_raw in H. revert H. unfold construct_raw.
  destruct (frame_validate f); cbn [bind]; [|discriminate].
  destruct (classify f) as [k|]; cbn [bind]; [|discriminate].
  destruct (match k with KProps => Ok tt | _ => response_validate (slice_neg f 10 1) end); cbn [bind]; [|discriminate].
  destruct (idx (slice_neg f 10 2) 0); cbn [bind]; [|discriminate].
  destruct k.
  - destruct (parse_state (slice_neg f 10 2)) as [s|] eqn:E; cbn [bind]; [|discriminate].
    intros H. apply Ok_inj in H. subst r. cbn [resp_ok].
    apply parse_state_fan in E. eapply idx_wfb; [apply wfb_slice_neg, Hw|exact E].
  - destruct (parse_caps _) as [[d more]|]; cbn [bind]; [|discriminate]. intros H. apply Ok_inj in H. subst r. exact I.
  - destruct (parse_props _); cbn [bind]; [|discriminate]. intros H. apply Ok_inj in H. subst r. exact I.
  - destruct (parse_energy _); cbn [bind]; [|discriminate]. intros H. apply Ok_inj in H. subst r. exact I.
  - destruct (parse_humidity _); cbn [bind]; [|discriminate]. intros H. apply Ok_inj in H. subst r. exact I.
  - intros H. apply Ok_inj in H. subst r. exact I.
Qed.

Lemma accepted_ok frames : Forall wfb frames -> Forall resp_ok (flat_map accepted_of frames).
Proof.
  induction 1 as [|f fs Hf _ IH]; [constructor|]. cbn [flat_map]. apply Forall_app. split; [|exact IH].
  unfold accepted_of. destruct (construct f) as [r|] eqn:E; [|constructor]. constructor; [|constructor].
  eapply construct_resp_ok; eassumption.
Qed.

(* ---------- the invariant ---------- *)
Definition hinv (d : dev) : Prop :=
  d_fan d < 256 /\ props_small d /\ NoDup (d_upd_props d) /\ incl (d_upd_props d) PROPERTY_MAP_keys
  /\ (length (d_sup_props d) <= 120)%nat.

Lemma hinv_dev_wf d : hinv d -> dev_wf d.
Proof.
  intros (Hf & (H1 & H2 & H3 & H4) & Hnd & Hincl & Hs). unfold dev_wf. repeat split; try assumption.
  pose proof (NoDup_incl_length Hnd Hincl) as Hl. change (length PROPERTY_MAP_keys) with 7%nat in Hl. lia.
Qed.

Lemma gfv_lt vals dflt v : forallb (fun x => x <? 256) vals = true -> dflt < 256 -> get_from_value vals dflt v < 256.
Proof.
  intros Hv Hd. unfold get_from_value, Device.mem. destruct (existsb (N.eqb v) vals) eqn:E; [|exact Hd].
  rewrite existsb_exists in E. destruct E as [x [Hin Hx]]. apply N.eqb_eq in Hx. subst x.
  rewrite forallb_forall in Hv. specialize (Hv v Hin). lia.
Qed.

Lemma update_from_props_sup d p : d_sup_props (update_from_props d p) = d_sup_props d.
Proof.
  unfold update_from_props.
  rewrite (opt_apply_keeps d_sup_props) by reflexivity.
  destruct (pdict_get p PropertyId_BREEZE_CONTROL).
  - match goal with |- d_sup_props (?X <| d_breeze := ?v |>) = _ => change (d_sup_props (X <| d_breeze := v |>)) with (d_sup_props X) end.
    repeat (rewrite (opt_apply_keeps d_sup_props) by reflexivity). reflexivity.
  - rewrite (opt_apply_keeps d_sup_props) by (intros; apply (legacy_breeze_keeps d_sup_props); reflexivity).
    rewrite (opt_apply_keeps d_sup_props) by (intros; apply (legacy_breeze_keeps d_sup_props); reflexivity).
    repeat (rewrite (opt_apply_keeps d_sup_props) by reflexivity). reflexivity.
Qed.
Lemma update_from_props_fan d p : d_fan (update_from_props d p) = d_fan d.
Proof.
  unfold update_from_props.
  rewrite (opt_apply_keeps d_fan) by reflexivity.
  destruct (pdict_get p PropertyId_BREEZE_CONTROL).
  - match goal with |- d_fan (?X <| d_breeze := ?v |>) = _ => change (d_fan (X <| d_breeze := v |>)) with (d_fan X) end.
    repeat (rewrite (opt_apply_keeps d_fan) by reflexivity). reflexivity.
  - rewrite (opt_apply_keeps d_fan) by (intros; apply (legacy_breeze_keeps d_fan); reflexivity).
    rewrite (opt_apply_keeps d_fan) by (intros; apply (legacy_breeze_keeps d_fan); reflexivity).
    repeat (rewrite (opt_apply_keeps d_fan) by reflexivity). reflexivity.
Qed.

Lemma update_from_state_fan d s :
  d_fan (update_from_state d s) = if d_sup_custom_fan d then s_fan s else get_from_value FanSpeed_values FanSpeed_DEFAULT (s_fan s).
Proof. destruct d. reflexivity. Qed.
Lemma update_from_state_sup d s : d_sup_props (update_from_state d s) = d_sup_props d.
Proof. destruct d. reflexivity. Qed.

Section Hist.
  Variable P : Type.
  Variable peer : P -> bytes -> P * list bytes.
  (* the peer returns byte strings (Python bytes objects) *)
  Hypothesis peer_bytes : forall p f, Forall wfb (snd (peer p f)).

  Lemma update_state_hinv d r : resp_ok r -> hinv d -> hinv (update_state d r).
  Proof.
    intros Hr (Hf & Hps & Hnd & Hincl & Hs).
    assert (Hinv : inv (length (d_upd_props d)) d) by (split; [exact Hps|reflexivity]).
    pose proof (update_state_inv P peer _ d r Hinv) as [Hps' _].
    pose proof (update_state_upd d r) as Hu.
    unfold hinv. rewrite Hu. split; [|split; [exact Hps'|split; [exact Hnd|split; [exact Hincl|]]]].
    - destruct r as [i s|i c more|i p|i e|i h|i]; cbn [update_state].
      + cbn [resp_ok] in Hr. rewrite update_from_state_fan.
        destruct (d_sup_custom_fan d); [exact Hr|apply gfv_lt; [vm_compute; reflexivity|vm_compute; reflexivity]].
      + exact Hf.
      + rewrite update_from_props_fan. exact Hf.
      + destruct d; exact Hf.
      + destruct d; exact Hf.
      + exact Hf.
    - destruct r as [i s|i c more|i p|i e|i h|i]; cbn [update_state].
      + rewrite update_from_state_sup. exact Hs.
      + exact Hs.
      + rewrite update_from_props_sup. exact Hs.
      + destruct d; exact Hs.
      + destruct d; exact Hs.
      + exact Hs.
  Qed.

  Lemma fold_update_hinv rs : Forall resp_ok rs -> forall d, hinv d -> hinv (fold_left update_state rs d).
  Proof. induction 1 as [|r rs Hr _ IH]; intros d H; cbn [fold_left]; [exact H|]. apply IH, update_state_hinv; assumption. Qed.

  (* flag updates and the end of an apply keep the invariant *)
  Lemma hinv_supported d b : hinv d -> hinv (d <| d_supported := b |>).
  Proof. intros H. destruct d. exact H. Qed.
  Lemma hinv_online d b : hinv d -> hinv (d <| d_online := b |>).
  Proof. intros H. destruct d. exact H. Qed.
  Lemma hinv_clear d : hinv d -> hinv (d <| d_upd_props := [] |>).
  Proof.
    intros (Hf & Hps & Hnd & Hincl & Hs). destruct d. split; [exact Hf|]. split; [exact Hps|]. split; [constructor|].
    split; [intros x []|exact Hs].
  Qed.

  Lemma update_capabilities_keeps d c :
    d_fan (update_capabilities d c) = d_fan d /\ d_hangle (update_capabilities d c) = d_hangle d
    /\ d_vangle (update_capabilities d c) = d_vangle d /\ d_rate (update_capabilities d c) = d_rate d
    /\ d_breeze (update_capabilities d c) = d_breeze d /\ d_upd_props (update_capabilities d c) = d_upd_props d.
  Proof. destruct d. repeat split; reflexivity. Qed.
  Definition caps_props (c : cdict) : list N :=
    opt_list (cget c n_swing_vertical_angle) PropertyId_SWING_UD_ANGLE
      ++ opt_list (cget c n_swing_horizontal_angle) PropertyId_SWING_LR_ANGLE
      ++ opt_list (cget c n_self_clean) PropertyId_SELF_CLEAN
      ++ opt_list (cget c n_rate5 || cget c n_rate2) PropertyId_RATE_SELECT
      ++ (if cget c n_breeze_control then [PropertyId_BREEZE_CONTROL]
          else opt_list (cget c n_breeze_away) PropertyId_BREEZE_AWAY ++ opt_list (cget c n_breezeless) PropertyId_BREEZELESS)
      ++ opt_list (cget c n_ieco) PropertyId_IECO.
  Lemma update_capabilities_sup d c : d_sup_props (update_capabilities d c) = caps_props c.
  Proof. destruct d. reflexivity. Qed.

  Lemma update_capabilities_hinv d c : hinv d -> hinv (update_capabilities d c).
  Proof.
    intros (Hf & (H1 & H2 & H3 & H4) & Hnd & Hincl & Hs).
    destruct (update_capabilities_keeps d c) as (E1 & E2 & E3 & E4 & E5 & E6).
    unfold hinv, props_small. rewrite E1, E2, E3, E4, E5, E6, update_capabilities_sup.
    repeat split; try assumption.
    unfold caps_props. rewrite !app_length.
    assert (Ho : forall b x, (length (opt_list b x) <= 1)%nat) by (intros [] x; cbn; lia).
    pose proof (Ho (cget c n_swing_vertical_angle) PropertyId_SWING_UD_ANGLE).
    pose proof (Ho (cget c n_swing_horizontal_angle) PropertyId_SWING_LR_ANGLE).
    pose proof (Ho (cget c n_self_clean) PropertyId_SELF_CLEAN).
    pose proof (Ho (cget c n_rate5 || cget c n_rate2) PropertyId_RATE_SELECT).
    pose proof (Ho (cget c n_ieco) PropertyId_IECO).
    pose proof (Ho (cget c n_breeze_away) PropertyId_BREEZE_AWAY).
    pose proof (Ho (cget c n_breezeless) PropertyId_BREEZELESS).
    destruct (cget c n_breeze_control); [cbn [length]; lia|rewrite app_length; lia].
  Qed.

  Lemma send_ok' w c : encodable c = true ->
    exists p' n' rs, send_get_responses peer w c =
      (mkWorld (w_dev w <| d_supported := negb (Nat.eqb (length rs) 0) |>) p' n' (w_sent w ++ [c]), Ok rs)
      /\ Forall resp_ok rs.
  Proof.
    intros He. unfold send_get_responses. destruct (emit_succeeds (w_counter w) c He) as [f ->].
    pose proof (peer_bytes (w_peer w) f) as Hb.
    destruct (peer (w_peer w) f) as [p' frames]. cbn [snd] in Hb. rewrite valid_responses_total.
    eexists; eexists; eexists. split; [reflexivity|apply accepted_ok, Hb].
  Qed.

  Lemma send_all_ok' cs : Forall (fun c => encodable c = true) cs ->
    forall w, hinv (w_dev w) -> exists w' rs, send_all peer w cs = (w', Ok rs) /\ Forall resp_ok rs /\ hinv (w_dev w').
  Proof.
    induction 1 as [|c t Hc _ IH]; intros w Hw; cbn [send_all]; [exists w, []; split; [reflexivity|split; [constructor|exact Hw]]|].
    destruct (send_ok' w c Hc) as (p' & n' & rs & -> & Hrs).
    destruct (IH (mkWorld (w_dev w <| d_supported := negb (Nat.eqb (length rs) 0) |>) p' n' (w_sent w ++ [c])))
      as (w2 & rest & -> & Hrest & Hw2).
    { cbn [w_dev]. apply hinv_supported, Hw. }
    exists w2, (rs ++ rest). split; [reflexivity|split; [apply Forall_app; split; assumption|exact Hw2]].
  Qed.

  (* ---------- every operation keeps the invariant and does not raise ---------- *)
  Theorem refresh_hist w : hinv (w_dev w) -> snd (refresh peer w) = None /\ hinv (w_dev (fst (refresh peer w))).
  Proof.
    intros Hw. pose proof Hw as (_ & _ & _ & _ & Hl). unfold refresh.
    destruct (refresh_cmds_encodable (w_dev w) Hl) as [He _].
    destruct (send_all_ok' _ He w Hw) as (w' & rs & -> & Hrs & Hw'). cbn [fst snd upd_dev w_dev]. split; [reflexivity|].
    apply fold_update_hinv; [exact Hrs|apply hinv_online, Hw'].
  Qed.

  Lemma apply_properties_hist w kvs : hinv (w_dev w) -> (length kvs <= 14)%nat ->
    Forall (fun kv => pid_supported (fst kv) = true /\ snd kv < 256) kvs ->
    snd (apply_properties peer w kvs) = None /\ hinv (w_dev (fst (apply_properties peer w kvs))).
  Proof.
    intros Hw Hl Hall. unfold apply_properties.
    destruct (send_ok' w _ (buzzer_kvs_ok (d_beep (w_dev w)) kvs Hl Hall)) as (p' & n' & rs & -> & Hrs).
    cbn [fst snd upd_dev w_dev]. split; [reflexivity|]. apply fold_update_hinv; [exact Hrs|apply hinv_supported, Hw].
  Qed.

  Theorem apply_hist w : hinv (w_dev w) -> snd (apply_op peer w) = None /\ hinv (w_dev (fst (apply_op peer w))).
  Proof.
    intros Hw. pose proof Hw as (Hfan & Hps & Hnd & Hincl & Hs). unfold apply_op.
    destruct (send_ok' w (SetState (apply_ctrl (w_dev w)))) as (p' & n' & rs & -> & Hrs).
    { apply encodable_set_state. exact Hfan. }
    set (d2 := fold_left update_state rs (w_dev w <| d_supported := negb (Nat.eqb (length rs) 0) |>)).
    assert (Hd2 : hinv d2) by (apply fold_update_hinv; [exact Hrs|apply hinv_supported, Hw]).
    unfold upd_dev. cbn [w_dev w_peer w_counter w_sent]. fold d2.
    destruct (d_upd_props d2) as [|u us] eqn:Eu; [cbn [fst snd w_dev]; split; [reflexivity|exact Hd2]|].
    match goal with |- context [apply_properties peer ?w2 ?kvs] =>
      destruct (apply_properties_hist w2 kvs) as [Hn Hh] end.
    - exact Hd2.
    - rewrite map_length. etransitivity; [apply filter_len_le|]. rewrite <- Eu.
      destruct (hinv_dev_wf d2 Hd2) as (_ & _ & _ & _ & _ & _ & Hup). exact Hup.
    - apply Forall_forall. intros [k v] Hin. apply in_map_iff in Hin. destruct Hin as [k' [Hkv Hin]].
      injection Hkv as <- <-. apply filter_In in Hin. destruct Hin as [_ Hmem]. cbn [fst snd]. split.
      + assert (Hall : forallb pid_supported PROPERTY_MAP_keys = true) by (vm_compute; reflexivity).
        rewrite forallb_forall in Hall. apply Hall. apply mem_in. exact Hmem.
      + apply property_value_small. cbn [w_dev]. apply Hd2.
    - match goal with |- context [apply_properties peer ?w2 ?kvs] => destruct (apply_properties peer w2 kvs) as [w3 [e|]] end;
        cbn [fst snd] in *; [discriminate Hn|]. split; [reflexivity|]. cbn [upd_dev w_dev]. apply hinv_clear, Hh.
  Qed.

  Theorem toggle_display_hist w : hinv (w_dev w) ->
    snd (toggle_display peer w) = None /\ hinv (w_dev (fst (toggle_display peer w))).
  Proof.
    intros Hw. unfold toggle_display.
    destruct (send_ok' w (ToggleDisplay (d_beep (w_dev w)))) as (p' & n' & rs & -> & _).
    { destruct (d_beep (w_dev w)); vm_compute; reflexivity. }
    apply refresh_hist. cbn [w_dev]. apply hinv_supported, Hw.
  Qed.

  Theorem start_self_clean_hist w : hinv (w_dev w) ->
    snd (start_self_clean peer w) = None /\ hinv (w_dev (fst (start_self_clean peer w))).
  Proof.
    intros Hw. unfold start_self_clean. apply apply_properties_hist; [exact Hw|cbn; lia|].
    constructor; [|constructor]. cbn [fst snd]. split; [vm_compute; reflexivity|lia].
  Qed.

  Theorem get_capabilities_hist w : hinv (w_dev w) ->
    snd (get_capabilities peer w) = None /\ hinv (w_dev (fst (get_capabilities peer w))).
  Proof.
    intros Hw. unfold get_capabilities.
    destruct (send_ok' w (GetCaps false) eq_refl) as (p' & n' & rs & -> & _).
    pose proof (hinv_supported (w_dev w) (negb (Nat.eqb (length rs) 0)) Hw) as H1.
    destruct (first_caps rs) as [[i s|i c more|i d|i e|i h|i]|]; cbn [fst snd w_dev]; try (split; [reflexivity|exact H1]).
    destruct more.
    - match goal with |- context [send_get_responses peer ?w1 (GetCaps true)] =>
        destruct (send_ok' w1 (GetCaps true) eq_refl) as (p2 & n2 & rs2 & -> & _) end.
      cbn [w_dev].
      pose proof (hinv_supported _ (negb (Nat.eqb (length rs2) 0)) H1) as H2.
      destruct (first_caps rs2) as [[i2 s2|i2 c2 more2|i2 d2|i2 e2|i2 h2|i2]|]; cbn [fst snd upd_dev w_dev];
        (split; [reflexivity|apply update_capabilities_hinv, H2]).
    - cbn [fst snd upd_dev w_dev]. split; [reflexivity|apply update_capabilities_hinv, H1].
  Qed.

  (* ---------- setters ---------- *)
  Lemma hinv_mark d k : In k PROPERTY_MAP_keys -> hinv d -> hinv (mark d k).
  Proof.
    intros Hk (Hf & Hps & Hnd & Hincl & Hs). unfold mark.
    assert (Hnd' : NoDup (set_add k (d_upd_props d))) by (apply set_add_nodup, Hnd).
    assert (Hincl' : incl (set_add k (d_upd_props d)) PROPERTY_MAP_keys).
    { intros x Hx. apply set_add_in in Hx. destruct Hx as [->|Hx]; [exact Hk|apply Hincl, Hx]. }
    destruct d. split; [exact Hf|]. split; [exact Hps|]. split; [exact Hnd'|]. split; [exact Hincl'|exact Hs].
  Qed.
  Lemma breeze_id_in d legacy : In legacy PROPERTY_MAP_keys ->
    In (if has_prop d PropertyId_BREEZE_CONTROL then PropertyId_BREEZE_CONTROL else legacy) PROPERTY_MAP_keys.
  Proof. intros H. destruct (has_prop d PropertyId_BREEZE_CONTROL); [vm_compute; auto|exact H]. Qed.
  Lemma hinv_breeze d v : v < 256 -> hinv d -> hinv (d <| d_breeze := v |>).
  Proof. intros Hv (Hf & (H1 & H2 & H3 & H4) & Hnd & Hincl & Hs). destruct d. repeat split; assumption. Qed.
  Lemma hinv_hangle d v : v < 256 -> hinv d -> hinv (d <| d_hangle := v |>).
  Proof. intros Hv (Hf & (H1 & H2 & H3 & H4) & Hnd & Hincl & Hs). destruct d. repeat split; assumption. Qed.
  Lemma hinv_vangle d v : v < 256 -> hinv d -> hinv (d <| d_vangle := v |>).
  Proof. intros Hv (Hf & (H1 & H2 & H3 & H4) & Hnd & Hincl & Hs). destruct d. repeat split; assumption. Qed.
  Lemma hinv_rate d v : v < 256 -> hinv d -> hinv (d <| d_rate := v |>).
  Proof. intros Hv (Hf & (H1 & H2 & H3 & H4) & Hnd & Hincl & Hs). destruct d. repeat split; assumption. Qed.
  Lemma hinv_ieco d b : hinv d -> hinv (d <| d_ieco := b |>).
  Proof. intros H. destruct d. exact H. Qed.
  Lemma hinv_fan d v : v < 256 -> hinv d -> hinv (d <| d_fan := v |>).
  Proof. intros Hv (Hf & Hps & Hnd & Hincl & Hs). destruct d. repeat split; try assumption; apply Hps. Qed.

  (* values a caller may pass to the setters whose value ends up in a one-byte field *)
  Definition arg_ok (op a : Z) : Prop :=
    if (op =? 14)%Z || (op =? 28)%Z || (op =? 29)%Z || (op =? 31)%Z then (0 <= a < 256)%Z else True.

  Theorem do_op_hist w op a : hinv (w_dev w) -> arg_ok op a ->
    snd (do_op_gen peer w op a) = None /\ hinv (w_dev (fst (do_op_gen peer w op a))).
  Proof.
    intros Hw Ha. unfold do_op_gen.
    assert (Hbm : forall en : bool, (if en then BreezeMode_BREEZE_AWAY else BreezeMode_OFF) < 256
                                    /\ (if en then BreezeMode_BREEZE_MILD else BreezeMode_OFF) < 256
                                    /\ (if en then BreezeMode_BREEZELESS else BreezeMode_OFF) < 256)
      by (intros []; repeat split; vm_compute; reflexivity).
    destruct op as [|p|p]; try (cbn [fst snd]; split; [reflexivity|exact Hw]).
    do 6 (try destruct p as [p|p|]); cbn [fst snd upd_dev w_dev];
      try (split; [reflexivity|exact Hw]);
      try (split; [reflexivity|destruct (w_dev w); exact Hw]).
    all: match goal with
         | |- snd (refresh peer _) = None /\ _ => apply refresh_hist; exact Hw
         | |- snd (apply_op peer _) = None /\ _ => apply apply_hist; exact Hw
         | |- snd (get_capabilities peer _) = None /\ _ => apply get_capabilities_hist; exact Hw
         | |- snd (toggle_display peer _) = None /\ _ => apply toggle_display_hist; exact Hw
         | |- snd (start_self_clean peer _) = None /\ _ => apply start_self_clean_hist; exact Hw
         | _ => idtac
         end.
    all: split; [reflexivity|].
    all: unfold arg_ok in Ha; cbn [Z.eqb Pos.eqb orb] in Ha.
    all: match goal with
         | |- hinv (_ <| d_fan := _ |>) => apply hinv_fan; [lia|exact Hw]
         | |- hinv (set_breeze_away _ _) => unfold set_breeze_away; apply hinv_mark; [apply breeze_id_in; vm_compute; auto 10|apply hinv_breeze; [apply Hbm|exact Hw]]
         | |- hinv (set_breeze_mild _ _) => unfold set_breeze_mild; apply hinv_mark; [vm_compute; auto 10|apply hinv_breeze; [apply Hbm|exact Hw]]
         | |- hinv (set_breezeless _ _) => unfold set_breezeless; apply hinv_mark; [apply breeze_id_in; vm_compute; auto 10|apply hinv_breeze; [apply Hbm|exact Hw]]
         | |- hinv (set_hangle _ _) => unfold set_hangle; apply hinv_mark; [vm_compute; auto 10|apply hinv_hangle; [lia|exact Hw]]
         | |- hinv (set_vangle _ _) => unfold set_vangle; apply hinv_mark; [vm_compute; auto 10|apply hinv_vangle; [lia|exact Hw]]
         | |- hinv (set_ieco _ _) => unfold set_ieco; apply hinv_mark; [vm_compute; auto 10|apply hinv_ieco; exact Hw]
         | |- hinv (set_rate _ _) => unfold set_rate; apply hinv_mark; [vm_compute; auto 10|apply hinv_rate; [lia|exact Hw]]
         end.
  Qed.

  Fixpoint args_ok (ops : list Z) : Prop :=
    match ops with op :: a :: t => arg_ok op a /\ args_ok t | _ => True end.

  (* ANY history: never raises, and the invariant holds at the end (hence at every prefix) *)
  Theorem history_never_raises ops : forall w, hinv (w_dev w) -> args_ok ops ->
    snd (do_ops_gen peer w ops) = 0%Z /\ hinv (w_dev (fst (do_ops_gen peer w ops))).
  Proof.
    assert (H : forall n ops, (length ops <= n)%nat -> forall w, hinv (w_dev w) -> args_ok ops ->
                snd (do_ops_gen peer w ops) = 0%Z /\ hinv (w_dev (fst (do_ops_gen peer w ops)))).
    { induction n as [|n IH]; intros ops0 Hl w Hw Ha.
      - destruct ops0; [cbn; split; [reflexivity|exact Hw]|cbn in Hl; lia].
      - destruct ops0 as [|op [|a t]]; cbn [do_ops_gen]; try (split; [reflexivity|exact Hw]).
        cbn [args_ok] in Ha. destruct Ha as [Ha Ht].
        destruct (do_op_hist w op a Hw Ha) as [Hn Hh].
        destruct (do_op_gen peer w op a) as [w' [e|]]; cbn [fst snd] in *; [discriminate Hn|].
        apply IH; [cbn [length] in Hl; lia|exact Hh|exact Ht]. }
    intros w. apply (H (length ops) ops (le_n _)).
  Qed.
End Hist.

Lemma hinv_init : hinv dev_init.
Proof.
  unfold hinv, props_small.
  split; [vm_compute; reflexivity|]. split; [repeat split; vm_compute; reflexivity|].
  split; [constructor|]. split; [intros x Hx; destruct Hx|cbn; lia].
Qed.
