(* C02 / C03: the V2 packet codec against the independent reference, and its integrity properties. *)
From MS Require Import lib.Base gen.GenLan crypto.MD5 crypto.SHA256 crypto.AES crypto.Modes model.Lan spec.RefLan
  proofs.FrameProofs proofs.HashProofs proofs.AESInv proofs.ModesInv.
From Coq Require Import ZifyBool ZifyN ZifyNat.
Ltac Zify.zify_post_hook ::= Z.div_mod_to_equations.
Local Open Scope N_scope.

Lemma catch_ok {A} (r : res A) cs (a : A) : r = Ok a -> catch r cs (fun _ => Err EProtocol) = Ok a.
Proof. intros ->. reflexivity. Qed.
Lemma catch_ok_inv {A} (r : res A) cs (a : A) : catch r cs (fun _ => Err EProtocol) = Ok a -> r = Ok a.
Proof. unfold catch. destruct r as [x|e]; [auto|]. destruct (existsb (subclass e) cs); discriminate. Qed.

Lemma enc_key_eq : ENC_KEY = v2_key. Proof. unfold ENC_KEY, v2_key. reflexivity. Qed.

(* the 40 header bytes *)
Definition v2_head (lenb ts idb : bytes) : bytes :=
  [90; 90; 1; 17] ++ lenb ++ [32; 0] ++ zeros 4 ++ ts ++ idb ++ zeros 12.

Lemma pad_len_bound (f : bytes) : N.of_nat (length f) <= 65000 -> N.of_nat (length (pkcs7_pad f)) <= 65016 /\ (16 <= length (pkcs7_pad f))%nat.
Proof.
  intros H. rewrite pkcs7_pad_length. pose proof (Nat.div_mod (length f) 16 ltac:(lia)).
  pose proof (Nat.mod_upper_bound (length f) 16 ltac:(lia)). lia.
Qed.

Lemma v2_encode_shape ts id f :
  wfb f -> N.of_nat (length f) <= 65000 -> id < 2 ^ 64 ->
  exists c, ecb_enc ENC_KEY (pkcs7_pad f) = Ok c /\ length c = length (pkcs7_pad f) /\ wfb c
            /\ ecb_dec ENC_KEY c = Ok (pkcs7_pad f)
            /\ v2_encode ts id f =
               Ok ((v2_head (le_bytes 2 (N.of_nat (56 + length c))) ts (le_bytes 8 id) ++ c)
                   ++ security_sign (v2_head (le_bytes 2 (N.of_nat (56 + length c))) ts (le_bytes 8 id) ++ c)).
Proof.
  intros Hf Hl Hid.
  destruct (pad_len_bound f Hl) as [Hp1 Hp2].
  destruct (ecb_dec_enc ENC_KEY (pkcs7_pad f) (pkcs7_pad_wfb f Hf) (pkcs7_pad_length_mod f))
    as (c & Hc & Hlen & Hwc & Hdec).
  exists c. repeat split; try assumption.
  unfold v2_encode, encrypt_aes. rewrite Hc. cbn [bind].
  rewrite to_bytes_le_ok.
  2:{ change (256 ^ N.of_nat 2) with 65536. lia. }
  cbn [bind]. rewrite to_bytes_le_ok by (change (256 ^ N.of_nat 8) with (2 ^ 64); exact Hid).
  cbn [bind]. unfold v2_head.
  replace (40 + N.of_nat (length c) + 16) with (N.of_nat (56 + length c)) by lia.
  reflexivity.
Qed.

Lemma v2_head_length lenb ts idb : length lenb = 2%nat -> length ts = 8%nat -> length idb = 8%nat ->
  length (v2_head lenb ts idb) = 40%nat.
Proof. intros H1 H2 H3. unfold v2_head. rewrite !app_length, H1, H2, H3. reflexivity. Qed.

(* destructuring lists of known length *)
Lemma len2 (l : bytes) : length l = 2%nat -> exists a b, l = [a; b].
Proof. destruct l as [|a [|b [|]]]; cbn; intros H; try discriminate. eauto. Qed.
Lemma len8 (l : bytes) : length l = 8%nat -> exists a b c d e f g h, l = [a; b; c; d; e; f; g; h].
Proof. destruct l as [|a [|b [|c [|d [|e [|f [|g [|h [|]]]]]]]]]; cbn; intros H; try discriminate. do 8 eexists. reflexivity. Qed.

(* the reference parser on a packet of the encoder's shape *)
Lemma ref_parse_shape ts id c padded f :
  length ts = 8%nat -> id < 2 ^ 64 -> (16 <= length c)%nat -> N.of_nat (length c) <= 65016 ->
  ecb_dec v2_key c = Ok padded -> pkcs7_unpad padded = Ok f ->
  let packet := v2_head (le_bytes 2 (N.of_nat (56 + length c))) ts (le_bytes 8 id) ++ c in
  ref_v2_parse (packet ++ md5 (packet ++ SIGN_KEY)) = Some (id, f).
Proof.
  intros Hts Hid Hc Hc2 Hdec Hun packet.
  destruct (len8 ts Hts) as (t0 & t1 & t2 & t3 & t4 & t5 & t6 & t7 & ->).
  assert (Hidb : exists i0 i1 i2 i3 i4 i5 i6 i7, le_bytes 8 id = [i0; i1; i2; i3; i4; i5; i6; i7]).
  { apply len8. apply le_bytes_length. }
  destruct Hidb as (i0 & i1 & i2 & i3 & i4 & i5 & i6 & i7 & Hidb).
  assert (Hlb : exists l0 l1, le_bytes 2 (N.of_nat (56 + length c)) = [l0; l1]) by (apply len2, le_bytes_length).
  destruct Hlb as (l0 & l1 & Hlb).
  assert (Hpk : packet = [90; 90; 1; 17; l0; l1; 32; 0; 0; 0; 0; 0; t0; t1; t2; t3; t4; t5; t6; t7;
                          i0; i1; i2; i3; i4; i5; i6; i7; 0; 0; 0; 0; 0; 0; 0; 0; 0; 0; 0; 0] ++ c).
  { unfold packet, v2_head. rewrite Hidb, Hlb. reflexivity. }
  remember (md5 (packet ++ SIGN_KEY)) as tag eqn:Htagdef.
  assert (Hlp : length packet = (40 + length c)%nat) by (rewrite Hpk, app_length; reflexivity).
  assert (Hn : length (packet ++ tag) = (56 + length c)%nat) by (rewrite app_length, Hlp; rewrite Htagdef, md5_length; lia).
  unfold ref_v2_parse. cbv zeta. rewrite !Hn.
  destruct (56 + length c <? 56)%nat eqn:E1; [lia|].
  assert (Hsigned : firstn (56 + length c - 16) (packet ++ tag) = packet).
  { replace (56 + length c - 16)%nat with (length packet + 0)%nat by lia. rewrite firstn_app_2. cbn [firstn]. apply app_nil_r. }
  assert (Htag : skipn (56 + length c - 16) (packet ++ tag) = tag).
  { replace (56 + length c - 16)%nat with (length packet) by lia. rewrite skipn_app, skipn_all, Nat.sub_diag. reflexivity. }
  rewrite Hsigned, Htag, <- Htagdef, beqb_refl'. cbn [negb].
  assert (Hsk : skipn 40 packet = c) by (rewrite Hpk; reflexivity).
  rewrite Hsk. clear Htagdef. rewrite Hpk. rewrite <- !app_assoc. cbn [app firstn skipn].
  cbn [beqb]. rewrite !N.eqb_refl. cbn [andb negb].
  assert (Hl01 : from_le [l0; l1] = N.of_nat (56 + length c)).
  { rewrite <- Hlb. apply from_le_le_bytes. change (256 ^ N.of_nat 2) with 65536. lia. }
  rewrite Hl01, N.eqb_refl. cbn [negb].
  assert (Hid' : from_le [i0; i1; i2; i3; i4; i5; i6; i7] = id).
  { rewrite <- Hidb. apply from_le_le_bytes. change (256 ^ N.of_nat 8) with (2 ^ 64). exact Hid. }
  rewrite Hid'.
  rewrite Hdec. cbn [ok_or_none]. rewrite Hun. rewrite ?beqb_refl'. reflexivity.
Qed.

(* C02, encode direction: the reference parser inverts the encoder for every frame, id and timestamp *)
Theorem v2_encode_interop ts id f :
  wfb f -> N.of_nat (length f) <= 65000 -> id < 2 ^ 64 -> length ts = 8%nat ->
  exists p, v2_encode ts id f = Ok p /\ ref_v2_parse p = Some (id, f) /\ (length p mod 16 = 8)%nat.
Proof.
  intros Hf Hl Hid Hts.
  destruct (v2_encode_shape ts id f Hf Hl Hid) as (c & Hc & Hlen & Hwc & Hdec & Henc).
  destruct (pad_len_bound f Hl) as [Hp1 Hp2].
  eexists. split; [exact Henc|]. split.
  - assert (Hd2 : ecb_dec v2_key c = Ok (pkcs7_pad f)) by (rewrite <- enc_key_eq; exact Hdec).
    assert (Hc16 : (16 <= length c)%nat) by lia.
    assert (Hc65 : N.of_nat (length c) <= 65016) by lia.
    exact (ref_parse_shape ts id c (pkcs7_pad f) f Hts Hid Hc16 Hc65 Hd2 (pkcs7_unpad_pad_any f)).
  - rewrite !app_length, v2_head_length by (try apply le_bytes_length; assumption).
    unfold security_sign. rewrite md5_length, Hlen.
    pose proof (pkcs7_pad_length_mod f) as Hm.
    pose proof (Nat.div_mod (length (pkcs7_pad f)) 16 ltac:(lia)).
    replace (40 + length (pkcs7_pad f) + 16)%nat with (8 + (length (pkcs7_pad f) / 16 + 3) * 16)%nat by lia.
    rewrite Nat.mod_add by lia. reflexivity.
Qed.

(* ---------- C02, decode direction ---------- *)
Lemma v2_decode_shape pre c tag l0 l1 :
  length pre = 34%nat -> from_le [l0; l1] = N.of_nat (56 + length c) -> length tag = 16%nat ->
  let packet := [90; 90; 1; 17; l0; l1] ++ pre ++ c in
  v2_decode (packet ++ tag) =
    if negb (beqb (security_sign packet) tag) then Err EProtocol
    else catch (decrypt_aes c) [EValue] (fun _ => Err EProtocol).
Proof.
  intros Hpre Hl Htag packet. unfold v2_decode.
  assert (Hlp : length packet = (40 + length c)%nat) by (unfold packet; rewrite !app_length, Hpre; reflexivity).
  assert (Hn : length (packet ++ tag) = (56 + length c)%nat) by (rewrite app_length, Hlp, Htag; lia).
  rewrite Hn. destruct (56 + length c <? 6)%nat eqn:E6; [lia|].
  assert (H02 : slice (packet ++ tag) 0 2 = [90; 90]) by reflexivity.
  assert (H46 : slice (packet ++ tag) 4 6 = [l0; l1]) by reflexivity.
  rewrite H02, H46, Hl, Nat2N.id. cbn [beqb N.eqb Pos.eqb andb negb].
  destruct (56 + length c <? 56 + length c)%nat eqn:E; [lia|].
  assert (Hfirst : firstn (56 + length c) (packet ++ tag) = packet ++ tag) by (rewrite <- Hn; apply firstn_all).
  rewrite Hfirst.
  assert (Hsig : slice_neg (packet ++ tag) 0 16 = packet).
  { unfold slice_neg, slice. cbn [Nat.eqb skipn]. rewrite Hn.
    replace (56 + length c - 16 - 0)%nat with (length packet + 0)%nat by lia.
    rewrite firstn_app_2. cbn [firstn]. apply app_nil_r. }
  assert (Hrx : last_n (packet ++ tag) 16 = tag).
  { unfold last_n. cbn [Nat.eqb]. rewrite Hn. replace (56 + length c - 16)%nat with (length packet) by lia.
    rewrite skipn_app, skipn_all, Nat.sub_diag. reflexivity. }
  assert (Henc : slice_neg (packet ++ tag) 40 16 = c).
  { unfold slice_neg, slice. cbn [Nat.eqb]. rewrite Hn.
    assert (Hs : skipn 40 (packet ++ tag) = c ++ tag).
    { unfold packet. change ([90; 90; 1; 17; l0; l1] ++ pre ++ c) with (([90; 90; 1; 17; l0; l1] ++ pre) ++ c).
      rewrite <- app_assoc.
      replace 40%nat with (length ([90; 90; 1; 17; l0; l1] ++ pre)) by (rewrite app_length, Hpre; reflexivity).
      rewrite skipn_app, skipn_all, Nat.sub_diag. reflexivity. }
    rewrite Hs. replace (56 + length c - 16 - 40)%nat with (length c + 0)%nat by lia.
    rewrite firstn_app_2. cbn [firstn]. apply app_nil_r. }
  rewrite Hsig, Hrx, Henc. reflexivity.
Qed.

Theorem v2_decode_interop m ts id h f :
  wfb f -> N.of_nat (length f) <= 65000 -> length m = 4%nat -> length ts = 8%nat -> length h = 12%nat ->
  exists p, ref_v2_build m ts id h f = Some p /\ v2_decode p = Ok f.
Proof.
  intros Hf Hl Hm Hts Hh.
  destruct (pad_len_bound f Hl) as [Hp1 Hp2].
  destruct (ecb_dec_enc v2_key (pkcs7_pad f) (pkcs7_pad_wfb f Hf) (pkcs7_pad_length_mod f))
    as (c & Hc & Hlen & Hwc & Hdec).
  unfold ref_v2_build. rewrite Hc. cbn [ok_or_none].
  eexists. split; [reflexivity|].
  assert (Hlb : exists l0 l1, le_bytes 2 (N.of_nat (40 + length c + 16)) = [l0; l1]) by (apply len2, le_bytes_length).
  destruct Hlb as (l0 & l1 & Hlb). rewrite Hlb.
  set (pre := [32; 0] ++ m ++ ts ++ le_bytes 8 id ++ h).
  assert (Hshape : [90; 90; 1; 17] ++ [l0; l1] ++ [32; 0] ++ m ++ ts ++ le_bytes 8 id ++ h ++ c
                   = [90; 90; 1; 17; l0; l1] ++ pre ++ c).
  { unfold pre. rewrite <- !app_assoc. reflexivity. }
  rewrite Hshape.
  assert (Hpre : length pre = 34%nat) by (unfold pre; rewrite !app_length, Hm, Hts, Hh, le_bytes_length; reflexivity).
  assert (Hl01 : from_le [l0; l1] = N.of_nat (56 + length c)).
  { rewrite <- Hlb. rewrite from_le_le_bytes; [f_equal; lia|]. change (256 ^ N.of_nat 2) with 65536. lia. }
  pose proof (v2_decode_shape pre c (md5 (([90; 90; 1; 17; l0; l1] ++ pre ++ c) ++ SIGN_KEY)) l0 l1 Hpre Hl01 (md5_length _)) as Hd.
  cbv zeta in Hd. rewrite Hd. unfold security_sign. rewrite beqb_refl'. cbn [negb].
  apply catch_ok. unfold decrypt_aes. rewrite enc_key_eq, Hdec. cbn [bind]. apply pkcs7_unpad_pad_any.
Qed.

(* ---------- C03: integrity ---------- *)
Definition v2_len (p : bytes) : nat := N.to_nat (from_le (slice p 4 6)).
Definition signed_part (p : bytes) : bytes := slice_neg (firstn (v2_len p) p) 0 16.
Definition tag_part (p : bytes) : bytes := last_n (firstn (v2_len p) p) 16.

Lemma skipn_firstn {A} (l : list A) a b : skipn a (firstn b l) = firstn (b - a) (skipn a l).
Proof.
  revert a b. induction l as [|x l IH]; intros a b.
  - rewrite !firstn_nil, !skipn_nil, firstn_nil. reflexivity.
  - destruct a as [|a]; [rewrite Nat.sub_0_r; reflexivity|].
    destruct b as [|b]; [reflexivity|]. cbn [firstn skipn Nat.sub]. apply IH.
Qed.

Lemma encrypted_of_signed (q : bytes) : slice_neg q 40 16 = skipn 40 (slice_neg q 0 16).
Proof.
  unfold slice_neg, slice. change (Nat.eqb 16 0) with false. cbv iota.
  change (skipn 0 q) with q. rewrite Nat.sub_0_r. symmetry. apply skipn_firstn.
Qed.

(* accepted => the length field fits, the keyed MD5 of the signed part equals the transmitted tag, and the frame is
   the decryption of the signed part's payload *)
Theorem v2_accept_signed p f : v2_decode p = Ok f ->
  (v2_len p <= length p)%nat
  /\ security_sign (signed_part p) = tag_part p
  /\ decrypt_aes (skipn 40 (signed_part p)) = Ok f.
Proof.
  unfold v2_decode, signed_part, tag_part, v2_len.
  destruct (length p <? 6)%nat; [discriminate|].
  destruct (negb (beqb (slice p 0 2) [90; 90])); [discriminate|].
  destruct (length p <? N.to_nat (from_le (slice p 4 6)))%nat eqn:El; [discriminate|].
  destruct (negb (beqb _ _)) eqn:Eh; [discriminate|].
  intros H. split; [lia|]. split.
  - apply beqb_true. destruct (beqb _ _); [reflexivity|discriminate].
  - rewrite <- encrypted_of_signed. apply catch_ok_inv in H. exact H.
Qed.

(* two accepted packets with the same signed part carry the same frame; hence a DIFFERENT frame can only be accepted
   together with an explicit keyed-MD5 coincidence: the transmitted tag is the MD5 of a signed part that differs from
   the authentic one *)
Theorem v2_never_other_frame p f p' f' :
  v2_decode p = Ok f -> v2_decode p' = Ok f' -> f' <> f ->
  signed_part p' <> signed_part p /\ security_sign (signed_part p') = tag_part p'.
Proof.
  intros H H' Hne. destruct (v2_accept_signed _ _ H) as (_ & _ & Hd).
  destruct (v2_accept_signed _ _ H') as (_ & Hs' & Hd').
  split; [|exact Hs']. intros Heq. rewrite Heq, Hd in Hd'. injection Hd' as ->. apply Hne. reflexivity.
Qed.

(* unconditional rejections *)
Theorem v2_reject_marker p : beqb (slice p 0 2) [90; 90] = false -> v2_decode p = Err EProtocol.
Proof. intros H. unfold v2_decode. destruct (length p <? 6)%nat; [reflexivity|]. rewrite H. reflexivity. Qed.

Theorem v2_reject_length_beyond p : (length p < v2_len p)%nat -> v2_decode p = Err EProtocol.
Proof.
  intros H. unfold v2_decode, v2_len in *. destruct (length p <? 6)%nat; [reflexivity|].
  destruct (negb (beqb (slice p 0 2) [90; 90])); [reflexivity|].
  destruct (length p <? N.to_nat (from_le (slice p 4 6)))%nat eqn:E; [reflexivity|lia].
Qed.

Lemma slice_firstn (p : bytes) n a b : (b <= n)%nat -> slice (firstn n p) a b = slice p a b.
Proof.
  intros H. unfold slice. rewrite skipn_firstn, firstn_firstn. f_equal. lia.
Qed.

(* every truncation of a packet whose length field is its length is rejected with a protocol error *)
Theorem v2_reject_truncation p n : v2_len p = length p -> (n < length p)%nat -> v2_decode (firstn n p) = Err EProtocol.
Proof.
  intros HL Hn.
  destruct (Nat.lt_ge_cases n 6) as [H6|H6].
  - unfold v2_decode. rewrite firstn_length. destruct (Nat.min n (length p) <? 6)%nat eqn:E; [reflexivity|lia].
  - apply v2_reject_length_beyond. unfold v2_len in *. rewrite slice_firstn by lia.
    rewrite HL, firstn_length. lia.
Qed.

(* any change confined to the 16 signature bytes of an accepted packet is rejected *)
Theorem v2_reject_tag_change body tag tag' f :
  length tag = 16%nat -> length tag' = 16%nat -> (6 <= length body)%nat -> v2_len (body ++ tag) = length (body ++ tag) ->
  v2_decode (body ++ tag) = Ok f -> tag' <> tag -> v2_decode (body ++ tag') = Err EProtocol.
Proof.
  intros Ht Ht' Hb HL Hacc Hne.
  destruct (v2_accept_signed _ _ Hacc) as (_ & Hs & _).
  assert (Hsame : forall t, length t = 16%nat -> slice (body ++ t) 4 6 = slice body 4 6 /\ slice (body ++ t) 0 2 = slice body 0 2).
  { intros t _. unfold slice. split.
    - rewrite skipn_app, firstn_app. rewrite skipn_length.
      replace (6 - 4 - (length body - 4))%nat with 0%nat by lia. cbn [firstn]. rewrite app_nil_r. reflexivity.
    - cbn [skipn]. rewrite firstn_app. replace (2 - 0 - length body)%nat with 0%nat by lia. cbn [firstn]. rewrite app_nil_r. reflexivity. }
  assert (HL' : v2_len (body ++ tag') = length (body ++ tag')).
  { unfold v2_len in *. rewrite (proj1 (Hsame tag' Ht')), <- (proj1 (Hsame tag Ht)), HL, !app_length, Ht, Ht'. reflexivity. }
  assert (Hparts : forall t, length t = 16%nat -> v2_len (body ++ t) = length (body ++ t) ->
                   signed_part (body ++ t) = body /\ tag_part (body ++ t) = t).
  { intros t Hlt Hv. unfold signed_part, tag_part. rewrite Hv, firstn_all. split.
    - unfold slice_neg, slice. cbn [Nat.eqb skipn]. rewrite app_length, Hlt.
      replace (length body + 16 - 16 - 0)%nat with (length body + 0)%nat by lia.
      rewrite firstn_app_2. cbn [firstn]. apply app_nil_r.
    - unfold last_n. cbn [Nat.eqb]. rewrite app_length, Hlt.
      replace (length body + 16 - 16)%nat with (length body) by lia.
      rewrite skipn_app, skipn_all, Nat.sub_diag. reflexivity. }
  destruct (Hparts tag Ht HL) as [Hsp Htp]. rewrite Hsp, Htp in Hs.
  unfold v2_decode.
  destruct (length (body ++ tag') <? 6)%nat; [reflexivity|].
  destruct (negb (beqb (slice (body ++ tag') 0 2) [90; 90])); [reflexivity|].
  fold (v2_len (body ++ tag')). rewrite HL'.
  destruct (length (body ++ tag') <? length (body ++ tag'))%nat eqn:E; [reflexivity|].
  rewrite firstn_all.
  destruct (Hparts tag' Ht' HL') as [Hsp' Htp']. unfold signed_part, tag_part in Hsp', Htp'.
  rewrite HL', firstn_all in Hsp', Htp'. rewrite Hsp', Htp', Hs.
  destruct (beqb tag tag') eqn:Eb; [apply beqb_true in Eb; congruence|reflexivity].
Qed.
