(* Shape facts about the hash outputs and the integer <-> bytes conversions. *)
From MS Require Import lib.Base crypto.MD5 crypto.SHA256 proofs.FrameProofs.
From Coq Require Import ZifyBool ZifyN ZifyNat.
Ltac Zify.zify_post_hook ::= Z.div_mod_to_equations.

Lemma be_bytes_length n v : length (be_bytes n v) = n.
Proof. unfold be_bytes. rewrite rev_length. apply le_bytes_length. Qed.
Lemma wfb_rev l : wfb l -> wfb (rev l).
Proof. unfold wfb. intros H. apply Forall_rev. exact H. Qed.
Lemma wfb_be_bytes n v : wfb (be_bytes n v).
Proof. apply wfb_rev, wfb_le_bytes. Qed.

Lemma md5_length m : length (md5 m) = 16%nat.
Proof.
  unfold md5. destruct (md5_blocks _ _ _) as [[[a b] c] d]. rewrite !app_length, !le_bytes_length. reflexivity.
Qed.
Lemma md5_wfb m : wfb (md5 m).
Proof.
  unfold md5. destruct (md5_blocks _ _ _) as [[[a b] c] d]. repeat (apply wfb_app; [apply wfb_le_bytes|]); apply wfb_le_bytes.
Qed.
Lemma sha256_length m : length (sha256 m) = 32%nat.
Proof.
  unfold sha256. destruct (sha256_blocks _ _ _) as [[[[[[[a b] c] d] e] f] g] h].
  rewrite !app_length, !be_bytes_length. reflexivity.
Qed.
Lemma sha256_wfb m : wfb (sha256 m).
Proof.
  unfold sha256. destruct (sha256_blocks _ _ _) as [[[[[[[a b] c] d] e] f] g] h].
  repeat (apply wfb_app; [apply wfb_be_bytes|]); apply wfb_be_bytes.
Qed.

Lemma from_le_le_bytes n : forall v, v < 256 ^ N.of_nat n -> from_le (le_bytes n v) = v.
Proof.
  induction n as [|n IH]; intros v Hv.
  - cbn [le_bytes from_le]. cbn in Hv. lia.
  - cbn [le_bytes from_le]. rewrite IH.
    + pose proof (N.div_mod v 256 ltac:(lia)). lia.
    + rewrite Nat2N.inj_succ, N.pow_succ_r' in Hv. apply N.div_lt_upper_bound; lia.
Qed.

Lemma from_le_app a b : from_le (a ++ b) = from_le a + 256 ^ N.of_nat (length a) * from_le b.
Proof.
  induction a as [|x a IH]; cbn [app from_le length].
  - change (N.of_nat 0) with 0. rewrite N.pow_0_r. ring.
  - rewrite IH, Nat2N.inj_succ, N.pow_succ_r'. ring.
Qed.

Lemma from_be_be_bytes n v : v < 256 ^ N.of_nat n -> from_be (be_bytes n v) = v.
Proof. intros H. unfold from_be, be_bytes. rewrite rev_involutive. apply from_le_le_bytes, H. Qed.

Lemma to_bytes_le_ok n v : v < 256 ^ N.of_nat n -> to_bytes_le n v = Ok (le_bytes n v).
Proof. intros H. unfold to_bytes_le. destruct (v <? 256 ^ N.of_nat n) eqn:E; [reflexivity|lia]. Qed.
Lemma to_bytes_be_ok n v : v < 256 ^ N.of_nat n -> to_bytes_be n v = Ok (be_bytes n v).
Proof. intros H. unfold to_bytes_be. destruct (v <? 256 ^ N.of_nat n) eqn:E; [reflexivity|lia]. Qed.

Lemma beqb_refl' (a : bytes) : beqb a a = true.
Proof. induction a as [|x a IH]; cbn [beqb]; [reflexivity|]. rewrite N.eqb_refl, IH. reflexivity. Qed.
Lemma beqb_true a : forall b, beqb a b = true -> a = b.
Proof.
  induction a as [|x a IH]; intros [|y b]; cbn [beqb]; intros H; try reflexivity; try discriminate.
  apply andb_true_iff in H. destruct H as [H1 H2]. apply N.eqb_eq in H1. apply IH in H2. congruence.
Qed.

Lemma wfb_length_cons (l : bytes) n : length l = S n -> exists x t, l = x :: t /\ length t = n.
Proof. destruct l as [|x t]; cbn [length]; intros H; [discriminate|]. exists x, t. split; [reflexivity|lia]. Qed.
