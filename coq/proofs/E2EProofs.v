(* C01: end-to-end composition.  Client pipeline (attributes -> control body -> frame -> V2 packet [-> V3 packet]) against the
   ideal appliance's pipeline (reference packet parsers -> reference frame parser -> vendor control decoder -> adopt), and
   the appliance's report pipeline (state -> status body -> frame -> V2 packet [-> V3 packet] -> TCP segments) against the
   client's (reassembly -> packet decoders -> Response.construct -> attributes). *)
From MS Require Import lib.Base gen.GenConst gen.GenCmd gen.GenDev gen.GenLan crypto.MD5 crypto.SHA256 crypto.AES crypto.Modes
  model.Frame model.Command model.Response model.Device model.Lan
  spec.RefFrame spec.RefAC spec.RefLan spec.RefDevice
  proofs.FrameProofs proofs.HashProofs proofs.CommandProofs proofs.ResponseProofs proofs.ControlProofs proofs.StateProofs proofs.TempProofs
  proofs.AESInv proofs.ModesInv proofs.LanV2Proofs proofs.LanV3Proofs proofs.DrainProofs proofs.StreamProofs.
From Coq Require Import ZifyBool ZifyN ZifyNat.
Ltac Zify.zify_post_hook ::= Z.div_mod_to_equations.
Local Open Scope N_scope.

(* ================= applied state reaches the appliance ================= *)
Lemma dev_accepts_facts ft f : dev_accepts ft f = true -> wfb f /\ (length f <= 256)%nat.
Proof.
  unfold dev_accepts. intros H. repeat (apply andb_prop in H; destruct H as [H ?]).
  assert (Hw : wfb f) by (apply wfbb_iff; assumption). split; [exact Hw|].
  assert (Hb : nthb f 1 < 256) by (apply wfb_nth; exact Hw). lia.
Qed.

(* V2: for EVERY valid attribute state, counter, timestamp and device id the packet written by the client is parsed by the
   reference appliance into a frame it accepts, whose body the vendor decoder reads as exactly the requested state, which
   the appliance adopts *)
Theorem e2e_apply_v2 d n ts id (s : astate) :
  valid_dev d -> length ts = 8%nat -> id < 2 ^ 64 ->
  exists f p,
    emit n (SetState (apply_ctrl d)) = Ok (f, n + 1)
    /\ v2_encode ts id f = Ok p
    /\ ref_v2_parse p = Some (id, f)
    /\ dev_accepts FrameType_CONTROL f = true
    /\ ref_decode_control (frame_body f) = Some (requested d)
    /\ fst (ref_ac_step s (frame_body f)) = adopt s (requested d).
Proof.
  intros Hv Hts Hid. pose proof Hv as (Ht & Hm & Hf & Hs & Hh).
  destruct (control_apply d Hv) as (b & Hb & Hdec).
  destruct (emit_succeeds n (SetState (apply_ctrl d))) as [f Hemit].
  { apply encodable_set_state. cbn [apply_ctrl c_fan]. lia. }
  destruct (emit_accepted n _ f _ Hemit) as (_ & Hacc & _ & Hbody).
  cbn [cmd_body] in Hbody. rewrite Hb in Hbody. apply Ok_inj in Hbody. subst b.
  change (cmd_frame_type (SetState (apply_ctrl d))) with FrameType_CONTROL in Hacc.
  destruct (dev_accepts_facts _ _ Hacc) as [Hw Hl].
  destruct (v2_encode_interop ts id f Hw ltac:(lia) Hid Hts) as (p & Hp & Hparse & _).
  exists f, p. repeat split; try assumption.
  unfold ref_ac_step. destruct (frame_body f) as [|b0 rest] eqn:E; [discriminate Hdec|].
  assert (b0 = 64).
  { unfold ref_decode_control in Hdec.
    destruct rest as [|b1 [|b2 [|b3 [|b4 [|b5 [|b6 [|b7 [|b8 [|b9 [|b10 [|b11 [|b12 [|b13 [|b14 [|b15 [|b16 [|b17 [|b18 [|b19 [|b20 [|b21 [|b22 [|b23 [|]]]]]]]]]]]]]]]]]]]]]]]];
      try discriminate Hdec. destruct (N.eqb_spec b0 64); [assumption|discriminate Hdec]. }
  subst b0. rewrite Hdec. reflexivity.
Qed.

(* V3: additionally wrapped into an encrypted request under the session key, for every packet counter and padding source *)
Lemma v2_packet_facts ts id f p : wfb f -> (length f <= 256)%nat -> wfb ts -> length ts = 8%nat -> id < 2 ^ 64 ->
  v2_encode ts id f = Ok p -> wfb p /\ (length p <= 600)%nat.
Proof.
  intros Hw Hl Hwts Hts Hid Hp.
  destruct (v2_encode_shape ts id f Hw ltac:(lia) Hid) as (c & Hc & Hlen & Hwc & _ & Henc).
  rewrite Hp in Henc. apply Ok_inj in Henc. subst p.
  pose proof (pkcs7_pad_length f) as Hpl.
  pose proof (Nat.div_mod (length f) 16 ltac:(lia)). pose proof (Nat.mod_upper_bound (length f) 16 ltac:(lia)).
  split.
  - apply wfb_app; [apply wfb_app; [|exact Hwc]|unfold security_sign; apply md5_wfb].
    unfold v2_head. apply wfb_app; [repeat constructor; lia|]. apply wfb_app; [apply wfb_le_bytes|].
    apply wfb_app; [repeat constructor; lia|]. apply wfb_app; [apply wfb_zeros|]. apply wfb_app; [exact Hwts|].
    apply wfb_app; [apply wfb_le_bytes|apply wfb_zeros].
  - rewrite !app_length, v2_head_length by (try apply le_bytes_length; assumption).
    unfold security_sign. rewrite md5_length, Hlen. lia.
Qed.

Theorem e2e_apply_v3 d n ts id key pid rnd (s : astate) :
  valid_dev d -> wfb ts -> length ts = 8%nat -> id < 2 ^ 64 -> key32 key -> pid < 65536 -> wfb rnd -> (16 <= length rnd)%nat ->
  exists f p p3,
    emit n (SetState (apply_ctrl d)) = Ok (f, n + 1)
    /\ v2_encode ts id f = Ok p
    /\ v3_encode_request (Some key) pid p rnd = Ok p3
    /\ ref_v3_parse_request key p3 = Some (pid, p)
    /\ ref_v2_parse p = Some (id, f)
    /\ dev_accepts FrameType_CONTROL f = true
    /\ fst (ref_ac_step s (frame_body f)) = adopt s (requested d).
Proof.
  intros Hv Hwts Hts Hid Hk Hpid Hrnd Hlr.
  destruct (e2e_apply_v2 d n ts id s Hv Hts Hid) as (f & p & He & Hp & Hparse & Hacc & _ & Had).
  destruct (dev_accepts_facts _ _ Hacc) as [Hw Hl].
  destruct (v2_packet_facts ts id f p Hw Hl Hwts Hts Hid Hp) as [Hpw Hpl].
  destruct (v3_request_interop key pid p rnd Hk Hpid Hpw Hrnd ltac:(lia)) as (p3 & Hp3 & Hparse3).
  { pose proof (v3_pad_lt (length p)). lia. }
  exists f, p, p3. repeat split; assumption.
Qed.

(* ================= the appliance's state reaches the client ================= *)
(* the setpoint / mode bytes, for every mode 0..7 and every half-degree setpoint 13.0 .. 43.5 *)
Definition b2_of (m t : N) : N := m * 32 + bit_at (negb (t mod 2 =? 0)) 4 + (if (16 <=? t / 2) && (t / 2 <=? 31) then t / 2 - 16 else 0).
Definition b13_of (t : N) : N := if (16 <=? t / 2) && (t / 2 <=? 31) then 0 else t / 2 - 12.
Definition setpoint_chk (m t : N) : bool :=
  let alt := N.land (b13_of t) 31 in
  (2 * (if alt =? 0 then N.land (b2_of m t) 15 + 16 else alt + 12) + (if bitb (b2_of m t) 4 then 1 else 0) =? t)
  && (N.shiftr (b2_of m t) 5 =? m) && (b2_of m t <? 256) && (b13_of t <? 256) && negb (bitb (b13_of t) 5).

Lemma setpoint_ok m t : m < 8 -> 26 <= t <= 87 -> setpoint_chk m t = true.
Proof.
  intros Hm Ht.
  assert (H : forallb (fun m => forallb (fun t => setpoint_chk m t) (map N.of_nat (seq 26 62))) (map N.of_nat (seq 0 8)) = true)
    by (vm_compute; reflexivity).
  rewrite forallb_forall in H.
  assert (Hin : In m (map N.of_nat (seq 0 8))) by (apply in_map_iff; exists (N.to_nat m); split; [lia|apply in_seq; lia]).
  specialize (H m Hin). rewrite forallb_forall in H. apply H.
  apply in_map_iff. exists (N.to_nat t). split; [lia|apply in_seq; lia].
Qed.

Lemma swing_ok sw : sw < 16 -> N.land (48 + sw) 15 = sw.
Proof.
  intros H.
  pose proof (forall_bytes (fun sw => negb (sw <? 16) || (N.land (48 + sw) 15 =? sw)) ltac:(vm_compute; reflexivity) sw ltac:(lia)) as H'.
  cbv beta in H'. destruct (sw <? 16) eqn:E; [cbn [negb orb] in H'; lia|lia].
Qed.

Lemma bit_at_lt b k : k < 8 -> bit_at b k < 256.
Proof.
  intros Hk. unfold bit_at. destruct b; [|lia].
  pose proof (forall_bytes (fun k => negb (k <? 8) || (2 ^ k <? 256)) ltac:(vm_compute; reflexivity) k ltac:(lia)) as H'.
  cbv beta in H'. destruct (k <? 8) eqn:E; [cbn [negb orb] in H'; lia|lia].
Qed.

Lemma bits8 t i f : bitb (bit_at t 5 + bit_at i 6 + bit_at f 7) 5 = t /\ bitb (bit_at t 5 + bit_at i 6 + bit_at f 7) 6 = i
  /\ bitb (bit_at t 5 + bit_at i 6 + bit_at f 7) 7 = f.
Proof. destruct t, i, f; repeat split; reflexivity. Qed.
Lemma bits9 a e p : bitb (bit_at a 3 + bit_at e 4 + bit_at p 5) 3 = a /\ bitb (bit_at a 3 + bit_at e 4 + bit_at p 5) 4 = e
  /\ bitb (bit_at a 3 + bit_at e 4 + bit_at p 5) 5 = p.
Proof. destruct a, e, p; repeat split; reflexivity. Qed.
Lemma bits10 s f : bitb (bit_at s 0 + bit_at f 2) 0 = s /\ bitb (bit_at s 0 + bit_at f 2) 1 = false
  /\ bitb (bit_at s 0 + bit_at f 2) 2 = f.
Proof. destruct s, f; repeat split; reflexivity. Qed.

Theorem status_body_reports s : valid_astate s ->
  ref_report (status_body s) = Some (report_of s) /\ wfb (status_body s) /\ length (status_body s) = 24%nat
  /\ nthb (status_body s) 3 < 128 /\ nthb (status_body s) 0 = 192.
Proof.
  intros Hv. destruct s as [pw tg md fn sw tb ec sl fh fm pu ax ia hu fz ds ind outd].
  unfold valid_astate in Hv. cbn [a_target a_mode a_fan a_swing a_humidity a_indoor a_outdoor] in Hv.
  destruct Hv as (Ht & Hm & Hf & Hs & Hh & Hi & Ho).
  pose proof (setpoint_ok md tg Hm Ht) as Hsp. unfold setpoint_chk in Hsp. cbv zeta in Hsp.
  apply andb_prop in Hsp. destruct Hsp as [Hsp H5]. apply andb_prop in Hsp. destruct Hsp as [Hsp H13].
  apply andb_prop in Hsp. destruct Hsp as [Hsp H2]. apply andb_prop in Hsp. destruct Hsp as [Htg Hmd].
  split; [|split; [|split; [reflexivity|split; [exact Hf|reflexivity]]]].
  - unfold ref_report, status_body, report_of.
    cbn [a_power a_target a_mode a_fan a_swing a_turbo a_eco a_sleep a_fahrenheit a_follow_me a_purifier a_aux a_indep_aux
         a_humidity a_freeze a_display a_indoor a_outdoor].
    cbn [length nthb nth Nat.ltb Nat.leb].
    fold (b2_of md tg). fold (b13_of tg).
    apply N.eqb_eq in Htg. apply N.eqb_eq in Hmd. rewrite Htg, Hmd.
    rewrite (land_127 fn Hf), (land_127 hu Hh), (swing_ok sw Hs).
    destruct (bits8 tb ia fm) as (-> & -> & ->). destruct (bits9 ax ec pu) as (-> & -> & ->).
    destruct (bits10 sl fh) as (-> & -> & ->).
    replace (bitb (b13_of tg) 5) with false by (destruct (bitb (b13_of tg) 5); [discriminate H5|reflexivity]).
    replace (bitb (bit_at pw 0) 0) with pw by (destruct pw; reflexivity).
    replace (bitb (bit_at fz 7) 7) with fz by (destruct fz; reflexivity).
    replace (negb (N.land (N.shiftr (if ds then 0 else 112) 4) 7 =? 7)) with ds by (destruct ds; reflexivity).
    rewrite orb_false_r. reflexivity.
  - unfold status_body.
    cbn [a_power a_target a_mode a_fan a_swing a_turbo a_eco a_sleep a_fahrenheit a_follow_me a_purifier a_aux a_indep_aux
         a_humidity a_freeze a_display a_indoor a_outdoor].
    fold (b2_of md tg). fold (b13_of tg).
    repeat (apply Forall_cons; [try lia|]); try apply Forall_nil.
    all: try (destruct pw; cbn; lia).
    all: try (destruct tb, ia, fm; cbn; lia).
    all: try (destruct ax, ec, pu; cbn; lia).
    all: try (destruct sl, fh; cbn; lia).
    all: try (destruct ds; lia).
    all: try (destruct fz; cbn; lia).
Qed.

(* ---- the device-side frame around a status body is decoded by Response.construct to exactly parse_state of the body ---- *)
Lemma slice_neg_mid {A} (h m t : list A) : t <> [] -> slice_neg (h ++ m ++ t) (length h) (length t) = m.
Proof.
  intros Ht. unfold slice_neg. destruct (Nat.eqb_spec (length t) 0) as [E|E]; [destruct t; [contradiction|discriminate]|].
  unfold slice. rewrite skipn_app, skipn_all, Nat.sub_diag. cbn [skipn app].
  rewrite !app_length. replace (length h + (length m + length t) - length t - length h)%nat with (length m + 0)%nat by lia.
  rewrite firstn_app_2. cbn [firstn]. apply app_nil_r.
Qed.

Theorem response_frame_constructs ft b st : wfb b -> (1 <= length b)%nat -> nthb b 0 = 192 -> parse_state b = Ok st ->
  construct (ref_response_frame ft b) = Ok (RState 192 st).
Proof.
  intros Hw Hl H0 Hps. unfold construct.
  assert (Hraw : construct_raw (ref_response_frame ft b) = Ok (RState 192 st)); [|rewrite Hraw; reflexivity].
  unfold ref_response_frame. cbv zeta.
  set (crc := crc8_bitwise b).
  set (hdr := [170; N.of_nat (length (b ++ [crc])) + 10; 172; 0; 0; 0; 0; 0; 0; ft]).
  set (f := hdr ++ b ++ [crc]).
  set (ck := (256 - sumN (skipn 1 f) mod 256) mod 256).
  assert (Hb0 : exists b', b = 192 :: b').
  { destruct b as [|x b']; [cbn in Hl; lia|]. cbn in H0. subst x. eauto. }
  destruct Hb0 as (b' & Hb).
  unfold construct_raw.
  (* outer checksum *)
  assert (Hfv : frame_validate (f ++ [ck]) = Ok tt).
  { unfold frame_validate. rewrite idx_neg_app_last. cbn [bind].
    assert (Hs : slice_neg (f ++ [ck]) 1 1 = skipn 1 f).
    { unfold f, hdr. change ((([170; N.of_nat (length (b ++ [crc])) + 10; 172; 0; 0; 0; 0; 0; 0; ft] ++ b ++ [crc]) ++ [ck]))
        with ([170] ++ ([N.of_nat (length (b ++ [crc])) + 10; 172; 0; 0; 0; 0; 0; 0; ft] ++ b ++ [crc]) ++ [ck]).
      apply (slice_neg_mid [170] _ [ck]). discriminate. }
    rewrite Hs. unfold checksum. fold ck. rewrite N.eqb_refl. reflexivity. }
  rewrite Hfv. cbn [bind].
  assert (Hcl : classify (f ++ [ck]) = Ok KState).
  { unfold classify, f, hdr. rewrite Hb. cbn [app idx nth_error bind]. reflexivity. }
  rewrite Hcl. cbn [bind].
  assert (Hrv : slice_neg (f ++ [ck]) 10 1 = b ++ [crc]).
  { unfold f. rewrite <- app_assoc. apply (slice_neg_mid hdr (b ++ [crc]) [ck]). discriminate. }
  rewrite Hrv.
  assert (Hv : response_validate (b ++ [crc]) = Ok tt).
  { apply response_validate_iff. left. unfold crc. apply crc8_eq_bitwise, Hw. }
  rewrite Hv. cbn [bind].
  assert (Hpl : slice_neg (f ++ [ck]) 10 2 = b).
  { unfold f. rewrite <- !app_assoc. apply (slice_neg_mid hdr b ([crc] ++ [ck])). discriminate. }
  rewrite Hpl. rewrite Hb at 1. cbn [idx nth_error bind]. rewrite Hps. reflexivity.
Qed.

(* ---- V2 report path ---- *)
Lemma response_frame_wfb ft b : ft < 256 -> wfb b -> (length b <= 200)%nat ->
  wfb (ref_response_frame ft b) /\ (length (ref_response_frame ft b) <= 300)%nat.
Proof.
  intros Hft Hw Hl. unfold ref_response_frame. cbv zeta. split.
  - apply wfb_app; [|repeat constructor; lia].
    apply wfb_app; [rewrite app_length; cbn [length]; repeat constructor; lia|].
    apply wfb_app; [exact Hw|]. constructor; [|constructor]. rewrite <- crc8_eq_bitwise by exact Hw. apply crc8_lt, Hw.
  - rewrite !app_length. cbn [length]. lia.
Qed.

Theorem e2e_report_v2 s ft m ts id h d :
  valid_astate s -> ft < 256 -> length m = 4%nat -> length ts = 8%nat -> length h = 12%nat ->
  exists p st,
    ref_v2_build m ts id h (ref_response_frame ft (status_body s)) = Some p
    /\ v2_decode p = Ok (ref_response_frame ft (status_body s))
    /\ construct (ref_response_frame ft (status_body s)) = Ok (RState 192 st)
    /\ view_of_dev (update_state d (RState 192 st)) = expected_view (d_sup_custom_fan d) (report_of s).
Proof.
  intros Hv Hft Hm Hts Hh.
  destruct (status_body_reports s Hv) as (Hrep & Hw & Hlen & Hfan & H0).
  destruct (state_decode_matches (status_body s) (d_sup_custom_fan d) Hw ltac:(lia) Hfan) as (st & r & Hps & Hr & Hview & _).
  rewrite Hrep in Hr. apply Some_inj in Hr. subst r.
  destruct (response_frame_wfb ft (status_body s) Hft Hw ltac:(lia)) as [Hfw Hfl].
  destruct (v2_decode_interop m ts id h _ Hfw ltac:(lia) Hm Hts Hh) as (p & Hp & Hdec).
  exists p, st. split; [exact Hp|]. split; [exact Hdec|]. split.
  - apply response_frame_constructs; [exact Hw|lia|exact H0|exact Hps].
  - cbn [update_state]. rewrite view_update. exact Hview.
Qed.

(* ---- V3 report path: any number of reports, any segmentation ---- *)
Lemma ref_v3_build_wf key counter data rnd p :
  key32 key -> wfb data -> wfb rnd -> N.of_nat (length data) <= 65000 -> (v3_pad (length data) <= length rnd)%nat ->
  ref_v3_build_response key counter data rnd = Some p -> wf_pkt p.
Proof.
  intros Hk Hd Hr Hl Hrl. unfold ref_v3_build_response, ref_v3_build.
  set (pad := v3_pad (length data)).
  assert (Hpad16 : (pad < 16)%nat) by apply v3_pad_lt.
  set (plain := be_bytes 2 counter ++ data ++ firstn pad rnd).
  assert (Hfl : length (firstn pad rnd) = pad) by (apply firstn_length_le; exact Hrl).
  assert (Hpl : length plain = (2 + length data + pad)%nat).
  { unfold plain. rewrite !app_length, be_bytes_length, Hfl. lia. }
  assert (Hpw : wfb plain).
  { unfold plain. apply wfb_app; [apply wfb_be_bytes|]. apply wfb_app; [exact Hd|apply wfb_firstn, Hr]. }
  assert (Hal : (length plain mod 16 = 0)%nat) by (rewrite Hpl; apply v3_pad_aligned).
  destruct (cbc_dec_enc key plain Hpw Hal) as (c & Hc & Hlc & Hwc & Hdec).
  rewrite Hc. cbn [ok_or_none]. intros H. apply Some_inj in H. subst p.
  assert (Hsb : exists s0 s1, be_bytes 2 (N.of_nat (length data + pad + 32)) = [s0; s1]) by (apply len2, be_bytes_length).
  destruct Hsb as (s0 & s1 & Hsb). rewrite Hsb.
  exists s0, s1. eexists. split; [cbn [app]; reflexivity|].
  rewrite !app_length, sha256_length, Hlc, Hpl. cbn [length]. unfold be16.
  assert (Hv : s0 * 256 + s1 = N.of_nat (length data + pad + 32)).
  { assert (Hfb : from_be [s0; s1] = N.of_nat (length data + pad + 32)).
    { rewrite <- Hsb. apply from_be_be_bytes. change (256 ^ N.of_nat 2) with 65536. lia. }
    unfold from_be in Hfb. cbn [rev app from_le] in Hfb. lia. }
  rewrite Hv. lia.
Qed.

(* a list of reports (e.g. an unsolicited one, the reply, a duplicate), each wrapped for V3 with its own counter and padding:
   however the concatenated stream is cut into segments, exactly these packets are queued, in order, and each one is
   processed back to its V2 packet *)
Theorem e2e_stream_v3 key (items : list (N * bytes * bytes)) (ps : list bytes) :
  key32 key ->
  Forall (fun it => let '(c, data, rnd) := it in c < 65536 /\ wfb data /\ wfb rnd /\ N.of_nat (length data) <= 65000
                    /\ (v3_pad (length data) <= length rnd)%nat) items ->
  Forall2 (fun it p => let '(c, data, rnd) := it in ref_v3_build_response key c data rnd = Some p) items ps ->
  ps <> [] ->
  forall segs, concat segs = concat ps ->
    fold_left data_received segs ([], []) = ([], ps)
    /\ Forall2 (fun it p => let '(c, data, rnd) := it in v3_process_packet (Some key) p = Ok data) items ps.
Proof.
  intros Hk Hall Hb Hne segs Hcat.
  assert (Hwf : Forall wf_pkt ps /\ Forall2 (fun it p => let '(c, data, rnd) := it in v3_process_packet (Some key) p = Ok data) items ps).
  { clear Hne Hcat. induction Hb as [|[[c data] rnd] p items ps Hbp Hb IH]; [split; constructor|].
    inversion Hall as [|? ? Hit Hall']; subst. cbv beta iota in Hit. destruct Hit as (Hc & Hd & Hr & Hl & Hrl).
    destruct (IH Hall') as [IH1 IH2]. split; (constructor; [|assumption]).
    - exact (ref_v3_build_wf key c data rnd p Hk Hd Hr Hl Hrl Hbp).
    - destruct (v3_response_interop key c data rnd Hk Hc Hd Hr Hl Hrl) as (p' & Hp' & Hproc).
      rewrite Hbp in Hp'. apply Some_inj in Hp'. subst p'. exact Hproc. }
  destruct Hwf as [Hwf Hproc]. split; [|exact Hproc].
  apply (reassembly_complete segs [] ps marker_free_nil Hwf Hne). exact Hcat.
Qed.

Lemma ref_v2_build_facts m ts id h f p : wfb m -> wfb ts -> wfb h -> length m = 4%nat -> length ts = 8%nat -> length h = 12%nat ->
  wfb f -> (length f <= 300)%nat -> ref_v2_build m ts id h f = Some p -> wfb p /\ (length p <= 700)%nat.
Proof.
  intros Hwm Hwts Hwh Hm Hts Hh Hfw Hfl. unfold ref_v2_build.
  destruct (ecb_dec_enc v2_key (pkcs7_pad f) (pkcs7_pad_wfb _ Hfw) (pkcs7_pad_length_mod _)) as (c & Hc & Hlc & Hwc & _).
  rewrite Hc. cbn [ok_or_none]. intros H. apply Some_inj in H. subst p.
  pose proof (pkcs7_pad_length f) as Hpl.
  pose proof (Nat.div_mod (length f) 16 ltac:(lia)). pose proof (Nat.mod_upper_bound (length f) 16 ltac:(lia)).
  split.
  - apply wfb_app; [|apply md5_wfb].
    apply wfb_app; [repeat constructor; lia|]. apply wfb_app; [apply wfb_le_bytes|].
    apply wfb_app; [repeat constructor; lia|]. apply wfb_app; [exact Hwm|]. apply wfb_app; [exact Hwts|].
    apply wfb_app; [apply wfb_le_bytes|]. apply wfb_app; [exact Hwh|exact Hwc].
  - rewrite !app_length, md5_length, !le_bytes_length, Hm, Hts, Hh, Hlc. cbn [length]. lia.
Qed.

(* one report through the whole V3 stack, cut into arbitrary TCP segments *)
Theorem e2e_report_v3 s ft m ts id h key counter rnd d :
  valid_astate s -> ft < 256 -> wfb m -> wfb ts -> wfb h -> length m = 4%nat -> length ts = 8%nat -> length h = 12%nat ->
  key32 key -> counter < 65536 -> wfb rnd -> (16 <= length rnd)%nat ->
  exists p p3 st,
    ref_v2_build m ts id h (ref_response_frame ft (status_body s)) = Some p
    /\ ref_v3_build_response key counter p rnd = Some p3
    /\ (forall segs, concat segs = p3 -> fold_left data_received segs ([], []) = ([], [p3]))
    /\ v3_process_packet (Some key) p3 = Ok p
    /\ v2_decode p = Ok (ref_response_frame ft (status_body s))
    /\ construct (ref_response_frame ft (status_body s)) = Ok (RState 192 st)
    /\ view_of_dev (update_state d (RState 192 st)) = expected_view (d_sup_custom_fan d) (report_of s).
Proof.
  intros Hv Hft Hwm Hwts Hwh Hm Hts Hh Hk Hc Hr Hlr.
  destruct (e2e_report_v2 s ft m ts id h d Hv Hft Hm Hts Hh) as (p & st & Hp & Hdec & Hcon & Hview).
  destruct (status_body_reports s Hv) as (_ & Hw & Hlen & _ & _).
  destruct (response_frame_wfb ft (status_body s) Hft Hw ltac:(lia)) as [Hfw Hfl].
  destruct (ref_v2_build_facts m ts id h _ p Hwm Hwts Hwh Hm Hts Hh Hfw Hfl Hp) as [Hpw Hpl].
  assert (Hpad : (v3_pad (length p) <= length rnd)%nat) by (pose proof (v3_pad_lt (length p)); lia).
  destruct (v3_response_interop key counter p rnd Hk Hc Hpw Hr ltac:(lia) Hpad) as (p3 & Hp3 & Hproc).
  exists p, p3, st. repeat split; try assumption.
  intros segs Hcat.
  refine (proj1 (e2e_stream_v3 key [(counter, p, rnd)] [p3] Hk _ _ ltac:(discriminate) segs _)).
  - constructor; [|constructor]. repeat split; try assumption. lia.
  - constructor; [exact Hp3|constructor].
  - cbn [concat]. rewrite app_nil_r. exact Hcat.
Qed.

(* K2 in the model: the V2 transport hands every TCP segment to the packet decoder as it is; any proper prefix of a packet
   (whose length field is its length) is rejected with a protocol error - so a reply cut into two segments is lost *)
Theorem v2_segment_rejected p n : v2_len p = length p -> (n < length p)%nat -> v2_decode (firstn n p) = Err EProtocol.
Proof. exact (v2_reject_truncation p n). Qed.
