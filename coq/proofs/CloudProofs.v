(* C19: the cloud client model against the reference cloud (RefCloud.v). *)
From MS Require Import lib.Base gen.GenCloud crypto.SHA256 crypto.Modes model.Lan model.Cloud spec.RefCloud spec.CloudSim
  proofs.HashProofs proofs.ModesInv.
From Coq Require Import Permutation.
Local Open Scope N_scope.

(* ---------------------------------------------------------------------------------------------------------------
   1. the order on strings, the two sorting functions, permutation invariance of the signature
   --------------------------------------------------------------------------------------------------------------- *)
Lemma str_leb_refl a : str_leb a a = true.
Proof. induction a as [|x a IH]; cbn; [reflexivity|]. rewrite N.ltb_irrefl. exact IH. Qed.

Lemma str_leb_total a : forall b, str_leb a b = true \/ str_leb b a = true.
Proof.
  induction a as [|x a IH]; intros [|y b]; cbn; auto.
  destruct (N.ltb_spec x y), (N.ltb_spec y x); auto; try lia.
Qed.

Lemma str_leb_antisym a : forall b, str_leb a b = true -> str_leb b a = true -> a = b.
Proof.
  induction a as [|x a IH]; intros [|y b]; cbn; try discriminate; auto.
  destruct (N.ltb_spec x y), (N.ltb_spec y x); try discriminate; try lia.
  intros H1 H2. assert (x = y) by lia. subst. f_equal. auto.
Qed.

Lemma str_leb_trans a : forall b c, str_leb a b = true -> str_leb b c = true -> str_leb a c = true.
Proof.
  induction a as [|x a IH]; intros [|y b] [|z c]; cbn; try discriminate; auto.
  destruct (N.ltb_spec x y), (N.ltb_spec y x), (N.ltb_spec y z), (N.ltb_spec z y), (N.ltb_spec x z), (N.ltb_spec z x);
    try discriminate; try lia; auto.
  intros; eapply IH; eauto.
Qed.

Lemma str_cmp_eq a : forall b, str_cmp a b = Eq <-> a = b.
Proof.
  induction a as [|x a IH]; intros [|y b]; cbn; try (split; [discriminate|discriminate]); try tauto.
  destruct (N.compare_spec x y) as [->|H|H].
  - rewrite IH. split; [intros ->; reflexivity|intros E; injection E; auto].
  - split; [discriminate|]. intros E; injection E; intros; lia.
  - split; [discriminate|]. intros E; injection E; intros; lia.
Qed.

Lemma str_eq_true a b : str_eq a b = true <-> a = b.
Proof. unfold str_eq. rewrite <- str_cmp_eq. destruct (str_cmp a b); split; congruence. Qed.
Lemma str_eq_refl a : str_eq a a = true. Proof. apply str_eq_true. reflexivity. Qed.
Lemma beqb_true_iff a b : beqb a b = true <-> a = b.
Proof. split; [apply beqb_true|intros ->; apply beqb_refl']. Qed.
Lemma beqb_str_eq a b : beqb a b = str_eq a b.
Proof.
  destruct (beqb a b) eqn:E1, (str_eq a b) eqn:E2; auto.
  - apply beqb_true_iff in E1. apply str_eq_true in E1. congruence.
  - apply str_eq_true in E2. apply beqb_true_iff in E2. congruence.
Qed.

(* the boolean order of the model is the three-way order of the reference *)
Lemma str_leb_cmp a : forall b, str_leb a b = match str_cmp a b with Gt => false | _ => true end.
Proof.
  induction a as [|x a IH]; intros [|y b]; cbn; auto.
  destruct (N.compare_spec x y) as [->|H|H].
  - rewrite N.ltb_irrefl. apply IH.
  - destruct (N.ltb_spec x y); [reflexivity|lia].
  - destruct (N.ltb_spec x y); [lia|]. destruct (N.ltb_spec y x); [reflexivity|lia].
Qed.

(* insertion commutes for distinct keys, whatever the list *)
Lemma insert_comm x y s : fst x <> fst y ->
  insert_field x (insert_field y s) = insert_field y (insert_field x s).
Proof.
  intros Hne.
  assert (Hxy : str_leb (fst x) (fst y) = true -> str_leb (fst y) (fst x) = false).
  { intros H. destruct (str_leb (fst y) (fst x)) eqn:E; auto. exfalso. apply Hne. apply str_leb_antisym; auto. }
  assert (Hyx : str_leb (fst x) (fst y) = false -> str_leb (fst y) (fst x) = true).
  { intros H. destruct (str_leb_total (fst x) (fst y)); congruence. }
  induction s as [|h t IH].
  - cbn. destruct (str_leb (fst x) (fst y)) eqn:E.
    + rewrite (Hxy eq_refl). reflexivity.
    + rewrite (Hyx eq_refl). reflexivity.
  - cbn [insert_field].
    destruct (str_leb (fst y) (fst h)) eqn:Eyh, (str_leb (fst x) (fst h)) eqn:Exh; cbn [insert_field].
    + destruct (str_leb (fst x) (fst y)) eqn:E.
      * rewrite (Hxy eq_refl), Eyh. reflexivity.
      * rewrite (Hyx eq_refl), Exh. reflexivity.
    + rewrite Eyh.
      destruct (str_leb (fst x) (fst y)) eqn:E.
      * rewrite (str_leb_trans _ _ _ E Eyh) in Exh. discriminate.
      * rewrite Exh. reflexivity.
    + rewrite Exh.
      destruct (str_leb (fst y) (fst x)) eqn:E.
      * rewrite (str_leb_trans _ _ _ E Exh) in Eyh. discriminate.
      * rewrite Eyh. reflexivity.
    + rewrite Exh, Eyh, IH. reflexivity.
Qed.

Lemma sorted_items_perm l l' : Permutation l l' -> NoDup (map fst l) -> sorted_items l = sorted_items l'.
Proof.
  induction 1 as [|x l l' HP IH|x y l|l l' l'' HP1 IH1 HP2 IH2]; intros Hnd.
  - reflexivity.
  - cbn in *. inversion Hnd; subst. f_equal. apply IH; assumption.
  - cbn in *. inversion Hnd as [|? ? Hy Hnd']; subst. apply insert_comm.
    intros E. apply Hy. left. symmetry. exact E.
  - rewrite IH1 by exact Hnd. apply IH2.
    eapply Permutation_NoDup; [apply Permutation_map; exact HP1|exact Hnd].
Qed.

Lemma in_insert_field g f s : In g (insert_field f s) <-> g = f \/ In g s.
Proof.
  induction s as [|h t IH]; cbn.
  - intuition.
  - destruct (str_leb (fst f) (fst h)); cbn; [intuition|]. rewrite IH. intuition.
Qed.

Lemma in_sorted_items g l : In g (sorted_items l) <-> In g l.
Proof. induction l as [|f l IH]; cbn; [tauto|]. rewrite in_insert_field, IH. intuition. Qed.

(* the reference's placement agrees with the model's insertion as long as keys are distinct *)
Lemma place_insert f s : (forall g, In g s -> fst g <> fst f) -> place f s = insert_field f s.
Proof.
  induction s as [|h t IH]; intros Hk; cbn; [reflexivity|].
  rewrite str_leb_cmp. unfold rfield, rstr, field, str, bytes in *.
  destruct (str_cmp (fst f) (fst h)) eqn:E.
  - apply str_cmp_eq in E. exfalso. apply (Hk h); [left; reflexivity|auto].
  - reflexivity.
  - rewrite IH; [reflexivity|]. intros g Hg. apply Hk. right. exact Hg.
Qed.

Lemma ascending_fold l : ascending l = fold_right place [] (rev l).
Proof. unfold ascending. symmetry. exact (fold_left_rev_right place l []). Qed.

Lemma fold_place_sorted l : NoDup (map fst l) -> fold_right place [] l = sorted_items l.
Proof.
  induction l as [|f l IH]; intros Hnd; cbn; [reflexivity|].
  cbn in Hnd. inversion Hnd as [|? ? Hf Hnd']; subst.
  rewrite IH by exact Hnd'. apply place_insert.
  intros g Hg E. apply (proj1 (in_sorted_items g l)) in Hg. apply Hf. rewrite <- E. apply in_map. exact Hg.
Qed.

Lemma ascending_sorted_items l l' : NoDup (map fst l) -> Permutation l l' -> ascending l' = sorted_items l.
Proof.
  intros Hnd HP. rewrite ascending_fold.
  assert (HP' : Permutation l (rev l')) by (etransitivity; [exact HP|apply Permutation_rev]).
  rewrite fold_place_sorted.
  - symmetry. apply sorted_items_perm; assumption.
  - eapply Permutation_NoDup; [apply Permutation_map; exact HP'|exact Hnd].
Qed.

Theorem sign_perm_invariant path d d' : NoDup (map fst d) -> Permutation d d' -> sign path d = sign path d'.
Proof. intros Hnd HP. unfold sign. rewrite (sorted_items_perm d d' HP Hnd). reflexivity. Qed.

(* ---------------------------------------------------------------------------------------------------------------
   2. the reference server recomputes the client's signature from the fields in any order
   --------------------------------------------------------------------------------------------------------------- *)
Lemma hexd_digit n : n < 16 -> hexd n = nth (N.to_nat n) hex_digits 0.
Proof.
  intros H.
  assert (E : n = 0 \/ n = 1 \/ n = 2 \/ n = 3 \/ n = 4 \/ n = 5 \/ n = 6 \/ n = 7 \/ n = 8 \/ n = 9 \/ n = 10 \/ n = 11
              \/ n = 12 \/ n = 13 \/ n = 14 \/ n = 15) by lia.
  repeat (destruct E as [->|E]; [reflexivity|]). subst. reflexivity.
Qed.

Lemma hex_hex_lower l : wfb l -> hex l = hex_lower l.
Proof.
  induction 1 as [|b l Hb Hl IH]; [reflexivity|].
  cbn [hex hex_lower flat_map app]. rewrite IH.
  rewrite !hexd_digit; [reflexivity| |].
  - apply N.mod_lt. lia.
  - apply N.div_lt_upper_bound; lia.
Qed.

Lemma join_query_query l : join_query l = query l.
Proof.
  induction l as [|f t IH]; [reflexivity|].
  cbn [join_query query]. unfold kv. rewrite IH.
  destruct t as [|g t]; cbn [app].
  - rewrite app_nil_r. reflexivity.
  - rewrite <- !app_assoc. reflexivity.
Qed.

Lemma app_key_eq : NHP_APP_KEY = nethome_app_key. Proof. reflexivity. Qed.
Lemma k_sign_eq : K_sign = s_sign. Proof. reflexivity. Qed.

Lemma lookup_in (fs : list rfield) k v : NoDup (map fst fs) -> In (k, v) fs -> lookup k fs = Some v.
Proof.
  induction fs as [|[k' v'] t IH]; intros Hnd Hin; [destruct Hin|].
  cbn in *. inversion Hnd as [|? ? Hk Hnd']; subst.
  destruct (str_eq k' k) eqn:E.
  - apply str_eq_true in E. subst k'. destruct Hin as [Heq|Hin]; [congruence|].
    exfalso. apply Hk. change k with (fst (k, v)). apply in_map. exact Hin.
  - destruct Hin as [Heq|Hin].
    + injection Heq as -> ->. rewrite str_eq_refl in E. discriminate.
    + apply IH; assumption.
Qed.

Lemma lookup_perm (fs fs' : list rfield) k : NoDup (map fst fs) -> Permutation fs fs' -> lookup k fs' = lookup k fs.
Proof.
  intros Hnd HP.
  assert (Hnd' : NoDup (map fst fs')) by (eapply Permutation_NoDup; [apply Permutation_map; exact HP|exact Hnd]).
  destruct (lookup k fs) as [v|] eqn:E.
  - apply lookup_in; [exact Hnd'|]. eapply Permutation_in; [exact HP|].
    clear - E. induction fs as [|[k' v'] t IH]; [discriminate|]. cbn in E.
    destruct (str_eq k' k) eqn:E1.
    + apply str_eq_true in E1. subst. injection E as ->. left. reflexivity.
    + right. apply IH. exact E.
  - destruct (lookup k fs') as [v|] eqn:E'; [|reflexivity]. exfalso.
    assert (Hin : In (k, v) fs').
    { clear - E'. induction fs' as [|[k' v'] t IH]; [discriminate|]. cbn in E'.
      destruct (str_eq k' k) eqn:E1.
      - apply str_eq_true in E1. subst. injection E' as ->. left. reflexivity.
      - right. apply IH. exact E'. }
    apply Permutation_sym in HP. apply (Permutation_in _ HP) in Hin.
    rewrite (lookup_in fs k v Hnd Hin) in E. discriminate.
Qed.

Lemma perm_filter {A} (p : A -> bool) l l' : Permutation l l' -> Permutation (filter p l) (filter p l').
Proof.
  induction 1 as [|x l l' HP IH|x y l|l l' l'' HP1 IH1 HP2 IH2]; cbn.
  - constructor.
  - destruct (p x); [constructor|]; exact IH.
  - destruct (p x), (p y); try apply Permutation_refl. apply perm_swap.
  - etransitivity; eassumption.
Qed.

Lemma dict_set_absent (d : list field) k v : ~ In k (map fst d) -> dict_set d k v = d ++ [(k, v)].
Proof.
  induction d as [|[k' v'] t IH]; intros H; cbn; [reflexivity|].
  destruct (beqb k' k) eqn:E.
  - apply beqb_true_iff in E. subst. exfalso. apply H. left. reflexivity.
  - rewrite IH; [reflexivity|]. intros Hin. apply H. right. exact Hin.
Qed.

Definition signed (path : str) (body : list field) : list field := dict_set body K_sign (sign path body).

Lemma signed_fields_app (body : list field) x :
  ~ In K_sign (map fst body) -> signed_fields (body ++ [(K_sign, x)]) = body.
Proof.
  intros H. unfold signed_fields. rewrite filter_app. cbn [filter fst].
  rewrite k_sign_eq, str_eq_refl. cbn [negb]. rewrite app_nil_r.
  induction body as [|[k v] t IH]; [reflexivity|]. cbn [filter fst].
  destruct (str_eq k s_sign) eqn:E.
  - apply str_eq_true in E. exfalso. apply H. left. rewrite k_sign_eq. exact E.
  - cbn [negb]. f_equal. apply IH. intros Hin. apply H. right. exact Hin.
Qed.

Lemma signed_keys_nodup path (body : list field) :
  NoDup (map fst body) -> ~ In K_sign (map fst body) -> NoDup (map fst (signed path body)).
Proof.
  intros Hnd Hs. unfold signed. rewrite dict_set_absent by exact Hs.
  rewrite map_app. cbn [map fst].
  apply NoDup_rev in Hnd. rewrite <- rev_involutive. apply NoDup_rev. rewrite rev_app_distr. cbn.
  constructor; [|exact Hnd]. rewrite <- in_rev. exact Hs.
Qed.

(* whatever the order in which the fields of a request arrive, the reference recomputes the client's signature *)
Theorem sign_accepted path (body fs' : list field) :
  NoDup (map fst body) -> ~ In K_sign (map fst body) -> Permutation (signed path body) fs' ->
  ref_signature_ok path fs' = true.
Proof.
  intros Hnd Hs HP.
  pose proof (signed_keys_nodup path body Hnd Hs) as Hnd2.
  unfold ref_signature_ok.
  rewrite (lookup_perm _ _ s_sign Hnd2 HP).
  assert (Hexp : expected_sign path fs' = sign path body).
  { unfold expected_sign, sign.
    assert (HP2 : Permutation body (signed_fields fs')).
    { rewrite <- (signed_fields_app body (sign path body) Hs). rewrite <- dict_set_absent by exact Hs.
      apply perm_filter. exact HP. }
    rewrite (ascending_sorted_items body _ Hnd HP2), <- join_query_query, <- app_key_eq.
    symmetry. apply hex_hex_lower. apply sha256_wfb. }
  rewrite Hexp.
  rewrite (lookup_in (signed path body) s_sign (sign path body) Hnd2).
  - cbn. apply str_eq_refl.
  - unfold signed. rewrite dict_set_absent by exact Hs. apply in_or_app. right. left. rewrite k_sign_eq. reflexivity.
Qed.

(* ---------------------------------------------------------------------------------------------------------------
   3. get_token returns the first matching entry; the retry loop
   --------------------------------------------------------------------------------------------------------------- *)
Theorem find_token_first u l t k : find_token u l = Some (t, k) ->
  exists l1 e l2, l = l1 ++ e :: l2 /\ e_udpid e = u /\ e_token e = t /\ e_key e = k
                  /\ Forall (fun e' => e_udpid e' <> u) l1.
Proof.
  induction l as [|e l IH]; cbn; [discriminate|].
  destruct (beqb (e_udpid e) u) eqn:E.
  - intros H. injection H as <- <-. apply beqb_true_iff in E.
    exists [], e, l. repeat split; auto.
  - intros H. destruct (IH H) as (l1 & e' & l2 & -> & H1 & H2 & H3 & H4).
    exists (e :: l1), e', l2. repeat split; auto. constructor; [|exact H4].
    intros Heq. rewrite <- Heq, beqb_refl' in E. discriminate.
Qed.

Theorem find_token_none u l : find_token u l = None <-> Forall (fun e => e_udpid e <> u) l.
Proof.
  induction l as [|e l IH]; cbn; [split; auto|].
  destruct (beqb (e_udpid e) u) eqn:E.
  - apply beqb_true_iff in E. split; [discriminate|]. intros H. inversion H; subst. congruence.
  - rewrite IH. split.
    + intros H. constructor; [|exact H]. intros Heq. rewrite <- Heq, beqb_refl' in E. discriminate.
    + intros H. inversion H; assumption.
Qed.

Corollary find_token_in u l t k : find_token u l = Some (t, k) ->
  exists e, In e l /\ e_udpid e = u /\ e_token e = t /\ e_key e = k.
Proof.
  intros H. destruct (find_token_first u l t k H) as (l1 & e & l2 & -> & H1 & H2 & H3 & _).
  exists e. split; [apply in_or_app; right; left; reflexivity|auto].
Qed.

Definition outcome_result (o : outcome) : res (option result) :=
  match o with OResp resp => (do x <- parse_response resp; Ok (Some x)) | _ => Err ECloud end.

Section AnyServer.
  Variable SV : Type.
  Variable srv : SV -> request -> SV * outcome.

  (* at most `retries` attempts, all of them the same request *)
  Lemma post_request_attempts r : forall w rq res w',
    post_request SV srv r w rq = (res, w') -> exists k, (k <= r)%nat /\ snd w' = snd w ++ repeat rq k.
  Proof.
    induction r as [|r IH]; intros w rq res w' H; cbn in H.
    - injection H as <- <-. exists 0%nat. cbn. rewrite app_nil_r. auto.
    - destruct (srv (fst w) rq) as [s' o]. destruct o as [| |resp].
      + destruct r as [|r'].
        * injection H as <- <-. exists 1%nat. auto.
        * apply IH in H. destruct H as (k & Hk & Hl). exists (S k). split; [lia|].
          rewrite Hl. cbn [snd repeat]. rewrite <- app_assoc. reflexivity.
      + injection H as <- <-. exists 1%nat. split; [lia|reflexivity].
      + injection H as <- <-. exists 1%nat. split; [lia|reflexivity].
  Qed.

  (* whatever the server does, a failure of the request is a CloudError (ApiError is a subclass) *)
  Lemma post_request_error r : forall w rq e w',
    post_request SV srv r w rq = (Err e, w') -> e = ECloud \/ e = EApi.
  Proof.
    induction r as [|r IH]; intros w rq e w' H; cbn in H; [discriminate|].
    destruct (srv (fst w) rq) as [s' o]. destruct o as [| |resp].
    - destruct r as [|r']; [injection H as <- <-; auto|]. eapply IH; exact H.
    - injection H as <- <-; auto.
    - unfold parse_response in H. destruct (r_code resp =? 0)%Z; cbn in H; [discriminate|].
      injection H as <- <-; auto.
  Qed.

  Lemma post_request_error_cloud r w rq e w' :
    post_request SV srv r w rq = (Err e, w') -> subclass e ECloud = true.
  Proof. intros H. destruct (post_request_error r w rq e w' H) as [-> | ->]; reflexivity. Qed.
End AnyServer.

(* all attempts time out: a CloudError after exactly `retries` attempts *)
Theorem post_all_timeouts r : forall s log rq, (1 <= r)%nat -> Forall (eq OTimeout) (firstn r s) ->
  post_request _ script_srv r (s, log) rq = (Err ECloud, (skipn r s, log ++ repeat rq r)).
Proof.
  induction r as [|r IH]; intros s log rq Hr Hs; [lia|].
  cbn [post_request fst snd].
  assert (Hstep : script_srv s rq = (skipn 1 s, OTimeout)).
  { destruct s as [|o t]; [reflexivity|]. cbn in Hs. inversion Hs; subst. reflexivity. }
  rewrite Hstep.
  destruct r as [|r'].
  - reflexivity.
  - rewrite IH; [|lia|].
    + destruct s as [|o t]; cbn [skipn]; rewrite <- app_assoc; reflexivity.
    + destruct s as [|o t]; [destruct r'; constructor|]. cbn in Hs. inversion Hs; subst. assumption.
Qed.

(* fewer timeouts than the budget: the first other outcome decides, after exactly that many attempts *)
Theorem post_first_non_timeout r : forall n o s log rq, (n < r)%nat -> o <> OTimeout ->
  post_request _ script_srv r (repeat OTimeout n ++ o :: s, log) rq
  = (outcome_result o, (s, log ++ repeat rq (S n))).
Proof.
  induction r as [|r IH]; intros n o s log rq Hn Ho; [lia|].
  destruct n as [|n].
  - cbn. destruct o as [| |resp]; [congruence|reflexivity|reflexivity].
  - cbn [repeat app post_request fst snd script_srv].
    destruct r as [|r']; [lia|].
    rewrite IH by (try lia; assumption). rewrite <- app_assoc. reflexivity.
Qed.

Lemma parse_api_error code x : code <> 0%Z -> parse_response (mkResp code x) = Err EApi.
Proof. intros H. unfold parse_response. cbn. destruct (Z.eqb_spec code 0); [contradiction|reflexivity]. Qed.

(* ---------------------------------------------------------------------------------------------------------------
   4. the requests of the flow verify at the reference cloud
   --------------------------------------------------------------------------------------------------------------- *)
Fixpoint memb (k : str) (l : list str) : bool := match l with [] => false | h :: t => beqb h k || memb k t end.
Fixpoint nodupb (l : list str) : bool := match l with [] => true | h :: t => negb (memb h t) && nodupb t end.
Lemma memb_in k l : memb k l = false -> ~ In k l.
Proof.
  induction l as [|h t IH]; cbn; [tauto|]. intros H [Heq|Hin].
  - subst. rewrite beqb_refl' in H. discriminate.
  - apply orb_false_iff in H. destruct H as [_ H]. exact (IH H Hin).
Qed.
Lemma nodupb_nodup l : nodupb l = true -> NoDup l.
Proof.
  induction l as [|h t IH]; cbn; intros H; constructor; apply andb_true_iff in H; destruct H as [H1 H2].
  - apply memb_in. destruct (memb h t); [discriminate|reflexivity].
  - auto.
Qed.
Definition keys_okb (b : list field) : bool := nodupb (map fst b) && negb (memb K_sign (map fst b)).
Lemma keys_okb_sound b : keys_okb b = true -> NoDup (map fst b) /\ ~ In K_sign (map fst b).
Proof.
  unfold keys_okb. intros H. apply andb_true_iff in H. destruct H as [H1 H2]. split.
  - apply nodupb_nodup. exact H1.
  - apply memb_in. destruct (memb K_sign (map fst b)); [discriminate|reflexivity].
Qed.

(* the three bodies of the flow, with every value a variable *)
Definition B_lid (sid dev st a : str) := build_request_body sid dev st [(K_loginAccount, a)].
Definition B_login (sid dev st a x : str) := build_request_body sid dev st [(K_login_account, a); (K_password, x)].
Definition B_tok (sid dev st u : str) := build_request_body sid dev st [(K_udpid, u)].

Lemma B_lid_keys sid dev st a : keys_okb (B_lid sid dev st a) = true. Proof. vm_compute. reflexivity. Qed.
Lemma B_login_keys sid dev st a x : keys_okb (B_login sid dev st a x) = true. Proof. vm_compute. reflexivity. Qed.
Lemma B_tok_keys sid dev st u : keys_okb (B_tok sid dev st u) = true. Proof. vm_compute. reflexivity. Qed.

Lemma B_lid_app sid dev st a sg : lookup s_app_id_key (dict_set (B_lid sid dev st a) K_sign sg) = Some nethome_app_id.
Proof. vm_compute. reflexivity. Qed.
Lemma B_lid_acct sid dev st a sg : lookup s_login_account (dict_set (B_lid sid dev st a) K_sign sg) = Some a.
Proof. vm_compute. reflexivity. Qed.
Lemma B_login_app sid dev st a x sg : lookup s_app_id_key (dict_set (B_login sid dev st a x) K_sign sg) = Some nethome_app_id.
Proof. vm_compute. reflexivity. Qed.
Lemma B_login_acct sid dev st a x sg : lookup s_login_account (dict_set (B_login sid dev st a x) K_sign sg) = Some a.
Proof. vm_compute. reflexivity. Qed.
Lemma B_login_pw sid dev st a x sg : lookup s_password (dict_set (B_login sid dev st a x) K_sign sg) = Some x.
Proof. vm_compute. reflexivity. Qed.
Lemma B_tok_app sid dev st u sg : lookup s_app_id_key (dict_set (B_tok sid dev st u) K_sign sg) = Some nethome_app_id.
Proof. vm_compute. reflexivity. Qed.
Lemma B_tok_sid sid dev st u sg : lookup s_session_id (dict_set (B_tok sid dev st u) K_sign sg) = Some sid.
Proof. vm_compute. reflexivity. Qed.
Lemma B_tok_udpid sid dev st u sg : lookup s_udpid (dict_set (B_tok sid dev st u) K_sign sg) = Some u.
Proof. vm_compute. reflexivity. Qed.

Lemma opt_is_some x : opt_is (Some x) x = true. Proof. apply str_eq_refl. Qed.

(* the reference's decision, by endpoint *)
Lemma ref_check_lid c st fs :
  ref_signature_ok p_login_id fs = true -> opt_is (lookup s_app_id_key fs) nethome_app_id = true ->
  opt_is (lookup s_login_account fs) (cf_account c) = true -> ref_check c st p_login_id fs = 0.
Proof.
  intros H1 H2 H3. unfold ref_check. rewrite H1, H2. cbn [negb].
  change (str_eq p_login_id p_login_id) with true. cbv iota. rewrite H3. reflexivity.
Qed.
Lemma ref_check_login c st fs :
  ref_signature_ok p_login fs = true -> opt_is (lookup s_app_id_key fs) nethome_app_id = true ->
  opt_is (lookup s_login_account fs) (cf_account c) = true -> rs_issued st = true ->
  opt_is (lookup s_password fs) (ref_password_derivation (cf_login_id c) (cf_password c)) = true ->
  ref_check c st p_login fs = 0.
Proof.
  intros H1 H2 H3 H4 H5. unfold ref_check. rewrite H1, H2. cbn [negb].
  change (str_eq p_login p_login_id) with false. change (str_eq p_login p_login) with true. cbv iota.
  rewrite H3, H4. cbn [negb]. rewrite H5. reflexivity.
Qed.
Lemma ref_check_tok c st fs u :
  ref_signature_ok p_get_token fs = true -> opt_is (lookup s_app_id_key fs) nethome_app_id = true ->
  rs_open st = true -> opt_is (lookup s_session_id fs) (cf_session_id c) = true -> lookup s_udpid fs = Some u ->
  ref_check c st p_get_token fs = 0.
Proof.
  intros H1 H2 H3 H4 H5. unfold ref_check. rewrite H1, H2. cbn [negb].
  change (str_eq p_get_token p_login_id) with false. change (str_eq p_get_token p_login) with false.
  change (str_eq p_get_token p_get_token) with true. cbv iota.
  rewrite H3, H4, H5. reflexivity.
Qed.

Lemma ref_step_lid c st fs : ref_check c st p_login_id fs = 0 ->
  ref_step c st (p_login_id, fs) = (mkRS true (rs_open st) (rs_rejected st), RpLoginId (cf_login_id c)).
Proof. intros H. unfold ref_step. rewrite H. reflexivity. Qed.
Lemma ref_step_login c st fs : ref_check c st p_login fs = 0 ->
  ref_step c st (p_login, fs) = (mkRS (rs_issued st) true (rs_rejected st), RpSession (cf_session_id c)).
Proof. intros H. unfold ref_step. rewrite H. reflexivity. Qed.
Lemma ref_step_tok c st fs u : ref_check c st p_get_token fs = 0 -> lookup s_udpid fs = Some u ->
  ref_step c st (p_get_token, fs) = (st, ref_token_answer c u).
Proof. intros H Hu. unfold ref_step. rewrite H, Hu. reflexivity. Qed.

Lemma password_derivation_eq l p : encrypt_password l p = ref_password_derivation l p.
Proof.
  unfold encrypt_password, ref_password_derivation.
  rewrite <- !hex_hex_lower by apply sha256_wfb. rewrite app_key_eq. reflexivity.
Qed.

Section SimFlow.
  Variable shuffle : list field -> list field.
  Hypothesis shuffle_perm : forall l, Permutation l (shuffle l).
  Variable cfg : cloud_cfg.
  Variable dev : str.
  Variable stamp_of : nat -> str.
  Let srvC := sim_srv shuffle cfg.
  Let W := world sim_state.
  Definition w_ref (w : world sim_state) : ref_state := snd (fst w).

  Lemma shuffled_sig_ok path body : keys_okb body = true -> ref_signature_ok path (shuffle (signed path body)) = true.
  Proof.
    intros H. destruct (keys_okb_sound body H) as [H1 H2].
    apply (sign_accepted path body _ H1 H2). apply shuffle_perm.
  Qed.
  Lemma shuffled_lookup path body k : keys_okb body = true ->
    lookup k (shuffle (signed path body)) = lookup k (dict_set body K_sign (sign path body)).
  Proof.
    intros H. destruct (keys_okb_sound body H) as [H1 H2].
    apply lookup_perm; [apply signed_keys_nodup; assumption|apply shuffle_perm].
  Qed.

  (* the three requests as the client posts them *)
  Definition rq_lid (c : cstate) (st : str) : request :=
    (EP_LOGIN_ID, signed EP_LOGIN_ID (B_lid (c_session_id c) dev st (c_account c))).
  Definition rq_login (c : cstate) (st lid : str) : request :=
    (EP_LOGIN, signed EP_LOGIN (B_login (c_session_id c) dev st (c_account c) (encrypt_password lid (c_password c)))).
  Definition rq_tok (c : cstate) (st u : str) : request :=
    (EP_GET_TOKEN, signed EP_GET_TOKEN (B_tok (c_session_id c) dev st u)).

  Lemma step_lid c st stamp : c_account c = cf_account cfg ->
    ref_step cfg st (fst (rq_lid c stamp), shuffle (snd (rq_lid c stamp)))
    = (mkRS true (rs_open st) (rs_rejected st), RpLoginId (cf_login_id cfg)).
  Proof.
    intros Ha. unfold rq_lid. cbn [fst snd]. change EP_LOGIN_ID with p_login_id.
    apply ref_step_lid. apply ref_check_lid.
    - apply shuffled_sig_ok. apply B_lid_keys.
    - rewrite shuffled_lookup by apply B_lid_keys. rewrite B_lid_app. apply opt_is_some.
    - rewrite shuffled_lookup by apply B_lid_keys. rewrite B_lid_acct, Ha. apply opt_is_some.
  Qed.

  Lemma step_login c st stamp : c_account c = cf_account cfg -> c_password c = cf_password cfg -> rs_issued st = true ->
    ref_step cfg st (fst (rq_login c stamp (cf_login_id cfg)), shuffle (snd (rq_login c stamp (cf_login_id cfg))))
    = (mkRS (rs_issued st) true (rs_rejected st), RpSession (cf_session_id cfg)).
  Proof.
    intros Ha Hp Hi. unfold rq_login. cbn [fst snd]. change EP_LOGIN with p_login.
    apply ref_step_login. apply ref_check_login.
    - apply shuffled_sig_ok. apply B_login_keys.
    - rewrite shuffled_lookup by apply B_login_keys. rewrite B_login_app. apply opt_is_some.
    - rewrite shuffled_lookup by apply B_login_keys. rewrite B_login_acct, Ha. apply opt_is_some.
    - exact Hi.
    - rewrite shuffled_lookup by apply B_login_keys. rewrite B_login_pw, Hp, password_derivation_eq. apply opt_is_some.
  Qed.

  Lemma step_tok c st stamp u : c_session_id c = cf_session_id cfg -> rs_open st = true ->
    ref_step cfg st (fst (rq_tok c stamp u), shuffle (snd (rq_tok c stamp u))) = (st, ref_token_answer cfg u).
  Proof.
    intros Hs Ho. unfold rq_tok. cbn [fst snd]. change EP_GET_TOKEN with p_get_token.
    assert (Hu : lookup s_udpid (shuffle (signed p_get_token (B_tok (c_session_id c) dev stamp u))) = Some u).
    { rewrite shuffled_lookup by apply B_tok_keys. apply B_tok_udpid. }
    apply ref_step_tok; [|exact Hu]. apply ref_check_tok with (u := u).
    - apply shuffled_sig_ok. apply B_tok_keys.
    - rewrite shuffled_lookup by apply B_tok_keys. rewrite B_tok_app. apply opt_is_some.
    - exact Ho.
    - rewrite shuffled_lookup by apply B_tok_keys. rewrite B_tok_sid, Hs. apply opt_is_some.
    - exact Hu.
  Qed.

  Lemma sim_srv_step fs st rq st' rep : ref_step cfg st (fst rq, shuffle (snd rq)) = (st', rep) ->
    srvC (fs, st) rq =
    match fs with
    | [] => (([], st'), OResp (resp_of_reply rep))
    | FNone :: t => ((t, st'), OResp (resp_of_reply rep))
    | FTimeout :: t => ((t, st'), OTimeout)
    | FHttp :: t => ((t, st'), OHttpErr)
    | FApi code :: t => ((t, st'), OResp (mkResp (Zpos code) ROther))
    end.
  Proof.
    intros H. unfold srvC, sim_srv. cbn [fst snd]. unfold request, rfield, rstr, field, str, bytes in *.
    rewrite H. reflexivity.
  Qed.

  (* one request through the fault injector: P is what the request needs of the server state (kept by processing it),
     Q what processing it establishes *)
  Lemma post_sim (P Q : ref_state -> Prop) rq rep :
    (forall st, P st -> exists st', ref_step cfg st (fst rq, shuffle (snd rq)) = (st', rep)
                                    /\ P st' /\ Q st' /\ rs_rejected st' = rs_rejected st) ->
    forall r fs st log res w', P st -> (1 <= r)%nat ->
    post_request _ srvC r ((fs, st), log) rq = (res, w') ->
    P (w_ref w') /\ Q (w_ref w') /\ rs_rejected (w_ref w') = rs_rejected st /\
    (res = Err ECloud \/ res = Err EApi \/ res = (do x <- parse_response (resp_of_reply rep); Ok (Some x))).
  Proof.
    intros Hstep. induction r as [|r IH]; intros fs st log res w' HP Hr H; [lia|].
    cbn [post_request fst snd] in H.
    destruct (Hstep st HP) as (st' & Hs & HP' & HQ' & Hrej).
    rewrite (sim_srv_step fs st rq st' rep Hs) in H.
    destruct fs as [|[| | |code] t].
    - injection H as <- <-. unfold w_ref. cbn [fst snd]. repeat split; auto.
    - injection H as <- <-. unfold w_ref. cbn [fst snd]. repeat split; auto.
    - destruct r as [|r'].
      + injection H as <- <-. unfold w_ref. cbn [fst snd]. repeat split; auto.
      + apply IH in H; [|exact HP'|lia].
        destruct H as (H1 & H2 & H3 & H4). rewrite H3, Hrej. repeat split; auto.
    - injection H as <- <-. unfold w_ref. cbn [fst snd]. repeat split; auto.
    - injection H as <- <-. unfold w_ref. cbn [fst snd]. repeat split; auto.
  Qed.

  Lemma retries_pos : (1 <= CLOUD_RETRIES)%nat. Proof. apply Nat.leb_le. reflexivity. Qed.

  (* the client's cloud object agrees with the reference about the account *)
  Definition same_account (c : cstate) : Prop := c_account c = cf_account cfg /\ c_password c = cf_password cfg.

  Lemma get_login_id_sim c fs st log r w' : same_account c ->
    get_login_id _ srvC dev stamp_of c ((fs, st), log) = (r, w') ->
    rs_rejected (w_ref w') = rs_rejected st /\
    ((exists e, r = Err e /\ subclass e ECloud = true) \/ (r = Ok (cf_login_id cfg) /\ rs_issued (w_ref w') = true)).
  Proof.
    intros [Ha Hp] H. unfold get_login_id, api_request, body_for in H. cbn [snd] in H.
    match type of H with context [post_request _ _ _ _ ?rq] => set (q := rq) in H end.
    destruct (post_request _ srvC CLOUD_RETRIES (fs, st, log) q) as [res w1] eqn:E.
    injection H as <- <-.
    apply (post_sim (fun _ => True) (fun s => rs_issued s = true) q (RpLoginId (cf_login_id cfg))) in E;
      [|intros s _; eexists; split; [apply (step_lid c s _ Ha)|cbn; auto]|exact I|apply retries_pos].
    destruct E as (_ & HQ & Hrej & [-> | [-> | ->]]); (split; [exact Hrej|]).
    - left. exists ECloud. auto.
    - left. exists EApi. auto.
    - right. cbn. auto.
  Qed.

  Lemma cloud_new_fresh region account password c0 : cloud_new region account password = Ok c0 ->
    c_login_id c0 = None /\ c_has_session c0 = false /\ c_session_id c0 = [].
  Proof.
    unfold cloud_new. destruct (nonempty account && nonempty password).
    - intros H. injection H as <-. auto.
    - destruct (nonempty account || nonempty password); [discriminate|].
      destruct (assoc region NHP_CLOUD_CREDENTIALS) as [[a p]|]; [|discriminate].
      intros H. injection H as <-. auto.
  Qed.

  Lemma login_sim c fs st log r c' w' :
    same_account c -> c_login_id c = None -> c_has_session c = false ->
    login _ srvC dev stamp_of false c ((fs, st), log) = (r, c', w') ->
    rs_rejected (w_ref w') = rs_rejected st /\
    ((exists e, r = Err e /\ subclass e ECloud = true) \/
     (r = Ok tt /\ c_session_id c' = cf_session_id cfg /\ rs_open (w_ref w') = true /\ same_account c')).
  Proof.
    intros Hsame Hl Hs H. unfold login in H. rewrite Hs, Hl in H. cbn [andb] in H.
    destruct (get_login_id _ srvC dev stamp_of c (fs, st, log)) as [r1 w1] eqn:E1.
    destruct w1 as [[fs1 st1] log1].
    apply (get_login_id_sim c fs st log r1 _ Hsame) in E1. unfold w_ref in E1. cbn [fst snd] in E1.
    destruct E1 as [Hrej1 [(e & -> & He) | (-> & Hi)]]; cbv beta iota in H.
    - injection H; intros; subst. split; [exact Hrej1|]. left. exists e. auto.
    - unfold api_request, body_for in H. cbn [c_account c_password c_session_id c_login_id c_has_session snd] in H.
      match type of H with context [post_request _ _ _ _ ?rq] => set (q := rq) in H end.
      match type of H with context [post_request ?a ?b ?c ?d ?e] =>
        revert H; destruct (post_request a b c d e) as [res w2] eqn:E2; intros H end.
      destruct Hsame as [Ha Hp].
      apply (post_sim (fun s => rs_issued s = true) (fun s => rs_open s = true) q (RpSession (cf_session_id cfg))) in E2;
        [| |exact Hi|apply retries_pos].
      + destruct E2 as (_ & HQ & Hrej2 & [-> | [-> | ->]]); cbv beta iota in H.
        * injection H; intros; subst. split; [congruence|]. left. exists ECloud. auto.
        * injection H; intros; subst. split; [congruence|]. left. exists EApi. auto.
        * cbn in H. injection H; intros; subst. split; [congruence|]. right. cbn. repeat split; auto.
      + intros s Hs'. eexists. split.
        * apply (step_login (mkC (c_account c) (c_password c) (Some (cf_login_id cfg)) false (c_session_id c)) s _ Ha Hp Hs').
        * cbn. auto.
  Qed.

  (* what get_token makes of the reference's answer *)
  Definition tok_result (rep : ref_reply) (u : str) : res (str * str) :=
    do o <- (do x <- parse_response (resp_of_reply rep); Ok (Some x));
    match o with
    | None => Err EAssert
    | Some (RTokens l) => match find_token u l with Some tk => Ok tk | None => Err ECloud end
    | Some _ => Err EKey
    end.

  Lemma tok_result_answer u : (exists tk, tok_result (ref_token_answer cfg u) u = Ok tk) \/
    (exists e, tok_result (ref_token_answer cfg u) u = Err e /\ subclass e ECloud = true).
  Proof.
    unfold ref_token_answer, tok_result.
    destruct (ref_registered cfg u); [|destruct (cf_unknown cfg)]; cbn;
      try (match goal with |- context [find_token ?a ?b] => destruct (find_token a b) end; eauto).
    right. eauto.
  Qed.

  Lemma get_token_sim c fs st log u r w' :
    c_session_id c = cf_session_id cfg -> rs_open st = true ->
    get_token _ srvC dev stamp_of c ((fs, st), log) u = (r, w') ->
    rs_rejected (w_ref w') = rs_rejected st /\ rs_open (w_ref w') = true /\
    ((exists tk, r = Ok tk) \/ (exists e, r = Err e /\ subclass e ECloud = true)).
  Proof.
    intros Hs Ho H. unfold get_token, api_request, body_for in H. cbn [snd] in H.
    match type of H with context [post_request _ _ _ _ ?rq] => set (q := rq) in H end.
    destruct (post_request _ srvC CLOUD_RETRIES (fs, st, log) q) as [res w1] eqn:E.
    injection H as <- <-.
    apply (post_sim (fun s => rs_open s = true) (fun _ => True) q (ref_token_answer cfg u)) in E;
      [| |exact Ho|apply retries_pos].
    - destruct E as (HP & _ & Hrej & [-> | [-> | ->]]); (split; [exact Hrej|]); (split; [exact HP|]).
      + right. exists ECloud. auto.
      + right. exists EApi. auto.
      + apply (tok_result_answer u).
    - intros s Hs'. exists s. split; [apply (step_tok c s _ u Hs Hs')|auto].
  Qed.

  Section Device.
    Variable D : Type.
    Variable dev_auth : D -> str -> str -> D * res unit.

    Lemma auth_loop_sim c id ends : forall err d fs st log r d' w',
      c_session_id c = cf_session_id cfg -> rs_open st = true ->
      auth_loop _ srvC dev stamp_of D dev_auth c id ends err d ((fs, st), log) = (r, d', w') ->
      rs_rejected (w_ref w') = rs_rejected st.
    Proof.
      induction ends as [|f rest IH]; intros err d fs st log r d' w' Hs Ho H; cbn [auth_loop] in H.
      - injection H; intros; subst. reflexivity.
      - destruct (f id) as [b|e]; [|injection H; intros; subst; reflexivity].
        destruct (get_token _ srvC dev stamp_of c (fs, st, log) (hex (udpid b))) as [r1 w1] eqn:E.
        destruct w1 as [[fs1 st1] log1].
        apply (get_token_sim c fs st log _ r1 _ Hs Ho) in E. unfold w_ref in E. cbn [fst snd] in E.
        destruct E as (Hrej & Ho1 & [((t, k) & ->) | (e & -> & He)]).
        + destruct (dev_auth d t k) as [d1 [[]|e]].
          * injection H; intros; subst. exact Hrej.
          * destruct (subclass e EAuth).
            -- apply IH in H; [congruence|exact Hs|exact Ho1].
            -- injection H; intros; subst. exact Hrej.
        + rewrite He in H. apply IH in H; [congruence|exact Hs|exact Ho1].
    Qed.

    (* every request the discovery flow posts verifies at the reference cloud, whatever the faults, the order in which
       the fields arrive and the device's reaction *)
    Theorem flow_requests_accepted region account password id d fs st log r dc' d' w' c0 :
      cloud_new region account password = Ok c0 -> same_account c0 ->
      authenticate_device _ srvC dev stamp_of D dev_auth None region account password id d ((fs, st), log) = (r, dc', d', w') ->
      rs_rejected (w_ref w') = rs_rejected st.
    Proof.
      intros Hnew Hsame H. unfold authenticate_device, get_cloud in H. rewrite Hnew in H.
      destruct (cloud_new_fresh _ _ _ _ Hnew) as (Hl & Hs & _).
      destruct (login _ srvC dev stamp_of false c0 (fs, st, log)) as [[r1 c1] w1] eqn:E.
      destruct w1 as [[fs1 st1] log1].
      apply (login_sim c0 fs st log r1 c1 _ Hsame Hl Hs) in E. unfold w_ref in E. cbn [fst snd] in E.
      destruct E as [Hrej [(e & -> & He) | (-> & Hsid & Ho & Hsame1)]]; cbv beta iota in H.
      - injection H; intros; subst. exact Hrej.
      - match type of H with context [auth_loop ?a ?b ?c ?d ?e ?f ?g ?h ?i ?j ?k ?l] =>
          revert H; destruct (auth_loop a b c d e f g h i j k l) as [[r2 d2] w2] eqn:E2; intros H end.
        injection H; intros; subst.
        apply auth_loop_sim in E2; [congruence|exact Hsid|exact Ho].
    Qed.
  End Device.

  (* failures of the login and of the token request are cloud errors, whatever the faults *)
  Theorem flow_errors_are_cloud_errors c fs st log :
    same_account c -> c_login_id c = None -> c_has_session c = false ->
    (forall e c' w', login _ srvC dev stamp_of false c ((fs, st), log) = (Err e, c', w') -> subclass e ECloud = true) /\
    (forall u e w', c_session_id c = cf_session_id cfg -> rs_open st = true ->
       get_token _ srvC dev stamp_of c ((fs, st), log) u = (Err e, w') -> subclass e ECloud = true).
  Proof.
    intros Hsame Hl Hs. split.
    - intros e c' w' H. apply (login_sim c fs st log _ c' w' Hsame Hl Hs) in H.
      destruct H as [_ [(e' & He & Hsub) | (Hx & _)]]; [|discriminate]. injection He as <-. exact Hsub.
    - intros u e w' Hsid Ho H. apply (get_token_sim c fs st log u _ w' Hsid Ho) in H.
      destruct H as (_ & _ & [(tk & Hx) | (e' & He & Hsub)]); [discriminate|]. injection He as <-. exact Hsub.
  Qed.

  (* ---- the conforming server without faults: the flow is deterministic ---- *)
  Lemma post_nofault rq st log st' rep r :
    ref_step cfg st (fst rq, shuffle (snd rq)) = (st', rep) ->
    post_request _ srvC (S r) (([], st), log) rq
    = (do x <- parse_response (resp_of_reply rep); Ok (Some x), (([], st'), log ++ [rq])).
  Proof. intros H. cbn [post_request fst snd]. rewrite (sim_srv_step [] st rq st' rep H). reflexivity. Qed.

  Lemma get_login_id_nf c st log : same_account c ->
    get_login_id _ srvC dev stamp_of c (([], st), log)
    = (Ok (cf_login_id cfg), (([], mkRS true (rs_open st) (rs_rejected st)), log ++ [rq_lid c (stamp_of (length log))])).
  Proof.
    intros [Ha Hp]. unfold get_login_id, api_request.
    match goal with |- context [post_request ?a ?b ?c ?d ?e] => destruct (post_request a b c d e) as [res w1] eqn:E end.
    assert (X : (res, w1) = (do x <- parse_response (resp_of_reply (RpLoginId (cf_login_id cfg))); Ok (Some x),
                             (([], mkRS true (rs_open st) (rs_rejected st)), log ++ [rq_lid c (stamp_of (length log))]))).
    { rewrite <- E. exact (post_nofault (rq_lid c (stamp_of (length log))) st log _ _ (pred CLOUD_RETRIES) (step_lid c st _ Ha)). }
    injection X as -> ->. reflexivity.
  Qed.

  Lemma login_nf c st log : same_account c -> c_login_id c = None -> c_has_session c = false ->
    exists log', login _ srvC dev stamp_of false c (([], st), log)
      = (Ok tt, mkC (c_account c) (c_password c) (Some (cf_login_id cfg)) true (cf_session_id cfg),
         (([], mkRS true true (rs_rejected st)), log')).
  Proof.
    intros Hsame Hl Hs. unfold login. rewrite Hs, Hl. cbn [andb]. rewrite (get_login_id_nf c st log Hsame).
    cbv beta iota. unfold api_request.
    match goal with |- context [post_request ?a ?b ?c ?d ?e] => destruct (post_request a b c d e) as [res w1] eqn:E end.
    destruct Hsame as [Ha Hp].
    set (c1 := mkC (c_account c) (c_password c) (Some (cf_login_id cfg)) (c_has_session c) (c_session_id c)) in *.
    set (log1 := log ++ [rq_lid c (stamp_of (length log))]) in *.
    assert (X : (res, w1) = (do x <- parse_response (resp_of_reply (RpSession (cf_session_id cfg))); Ok (Some x),
                             (([], mkRS true true (rs_rejected st)),
                              log1 ++ [rq_login c1 (stamp_of (length log1)) (cf_login_id cfg)]))).
    { rewrite <- E.
      exact (post_nofault (rq_login c1 (stamp_of (length log1)) (cf_login_id cfg))
               (mkRS true (rs_open st) (rs_rejected st)) log1 _ _ (pred CLOUD_RETRIES)
               (step_login c1 (mkRS true (rs_open st) (rs_rejected st)) _ Ha Hp eq_refl)). }
    injection X as -> ->. eexists. reflexivity.
  Qed.

  Lemma get_token_nf c st log u : c_session_id c = cf_session_id cfg -> rs_open st = true ->
    get_token _ srvC dev stamp_of c (([], st), log) u
    = (tok_result (ref_token_answer cfg u) u, (([], st), log ++ [rq_tok c (stamp_of (length log)) u])).
  Proof.
    intros Hs Ho. unfold get_token, api_request.
    match goal with |- context [post_request ?a ?b ?c ?d ?e] => destruct (post_request a b c d e) as [res w1] eqn:E end.
    assert (X : (res, w1) = (do x <- parse_response (resp_of_reply (ref_token_answer cfg u)); Ok (Some x),
                             (([], st), log ++ [rq_tok c (stamp_of (length log)) u]))).
    { rewrite <- E. exact (post_nofault (rq_tok c (stamp_of (length log)) u) st log _ _ (pred CLOUD_RETRIES) (step_tok c st _ u Hs Ho)). }
    injection X as -> ->. reflexivity.
  Qed.

  Lemma find_token_reg u l :
    find_token u (map entry_of_reg l)
    = match find (fun e => str_eq (g_udpid e) u) l with Some e => Some (g_token e, g_key e) | None => None end.
  Proof.
    induction l as [|e l IH]; [reflexivity|]. cbn [map find_token find entry_of_reg e_udpid e_token e_key].
    rewrite beqb_str_eq. destruct (str_eq (g_udpid e) u); [reflexivity|exact IH].
  Qed.
  Lemma find_token_app_none u l1 l2 : find_token u l1 = None -> find_token u (l1 ++ l2) = find_token u l2.
  Proof.
    induction l1 as [|e l IH]; [reflexivity|]. cbn. destruct (beqb (e_udpid e) u); [discriminate|exact IH].
  Qed.

  Lemma tok_result_tokens l u :
    tok_result (RpTokens l) u = match find_token u (map entry_of_reg l) with Some tk => Ok tk | None => Err ECloud end.
  Proof. reflexivity. Qed.
  Lemma tok_result_error code u : tok_result (RpError code) u = Err EApi.
  Proof. reflexivity. Qed.

  Lemma tok_result_registered u x : ref_registered cfg u = Some x -> tok_result (ref_token_answer cfg u) u = Ok x.
  Proof.
    intros H. unfold ref_token_answer. rewrite H, tok_result_tokens, find_token_reg.
    revert H. unfold ref_registered.
    destruct (find (fun e => str_eq (g_udpid e) u) (cf_registry cfg)) as [e|]; intros H; [|discriminate].
    injection H as <-. reflexivity.
  Qed.
  Lemma tok_result_unregistered u : ref_registered cfg u = None ->
    tok_result (ref_token_answer cfg u) u
    = match cf_unknown cfg with UBogus t k => Ok (t, k) | UNoEntry => Err ECloud | UApiError _ => Err EApi end.
  Proof.
    intros H. unfold ref_token_answer. rewrite H.
    assert (Hf : find_token u (map entry_of_reg (cf_registry cfg)) = None).
    { rewrite find_token_reg. unfold ref_registered in H.
      destruct (find (fun e => str_eq (g_udpid e) u) (cf_registry cfg)); [discriminate|reflexivity]. }
    destruct (cf_unknown cfg) as [t k| |code].
    - rewrite tok_result_tokens, map_app, (find_token_app_none _ _ _ Hf).
      cbn [map find_token entry_of_reg e_udpid e_token e_key g_udpid g_token g_key]. rewrite beqb_refl'. reflexivity.
    - rewrite tok_result_tokens, Hf. reflexivity.
    - apply tok_result_error.
  Qed.

  Lemma creds_eqb_true a b : creds_eqb a b = true -> a = b.
  Proof.
    destruct a, b. unfold creds_eqb. cbn. intros H. apply andb_true_iff in H. destruct H as [H1 H2].
    apply beqb_true_iff in H1, H2. congruence.
  Qed.
  Lemma creds_eqb_refl a : creds_eqb a a = true.
  Proof. destruct a. unfold creds_eqb. cbn. rewrite !beqb_refl'. reflexivity. Qed.

  Section Exact.
    Variable good : str * str.
    Let AL := auth_loop _ srvC dev stamp_of _ (exact_device good).

    Lemma auth_step c id f rest err d st log b :
      f id = Ok b -> c_session_id c = cf_session_id cfg -> rs_open st = true ->
      AL c id (f :: rest) err d (([], st), log) =
      let u := hex (udpid b) in
      let w1 := (([], st), log ++ [rq_tok c (stamp_of (length log)) u]) in
      match tok_result (ref_token_answer cfg u) u with
      | Err e => if subclass e ECloud then AL c id rest true d w1 else (Err e, d, w1)
      | Ok tk => if creds_eqb tk good then (Ok true, Some tk, w1) else AL c id rest err d w1
      end.
    Proof.
      intros Hf Hs Ho. unfold AL. cbn [auth_loop]. rewrite Hf, (get_token_nf c st log _ Hs Ho). cbv zeta.
      destruct (tok_result (ref_token_answer cfg (hex (udpid b))) (hex (udpid b))) as [[t k]|e]; [|reflexivity].
      unfold exact_device. destruct (creds_eqb (t, k) good); reflexivity.
    Qed.
  End Exact.
End SimFlow.

(* ---------------------------------------------------------------------------------------------------------------
   5. either byte order
   --------------------------------------------------------------------------------------------------------------- *)
Lemma wfb_firstn n : forall l, wfb l -> wfb (firstn n l).
Proof. induction n as [|n IH]; intros [|x l] H; cbn; try constructor; inversion H; subst; auto. apply IH; auto. Qed.
Lemma wfb_skipn n : forall l, wfb l -> wfb (skipn n l).
Proof. induction n as [|n IH]; intros [|x l] H; cbn; auto. inversion H; subst. apply IH; auto. Qed.

Lemma udpid_wfb b : wfb (udpid b).
Proof. unfold udpid. apply xor_bytes_wfb; [apply wfb_firstn|apply wfb_skipn]; apply sha256_wfb. Qed.

Lemma ref_udpid_eq b : ref_udpid b = udpid b.
Proof.
  unfold ref_udpid, udpid. pose proof (sha256_length b) as H. remember (sha256 b) as h eqn:Eh. clear Eh.
  do 32 (destruct h as [|? h]; [discriminate H|]). destruct h; [reflexivity|discriminate H].
Qed.

Lemma udpid_hex_eq (big : bool) id :
  ref_udpid_hex big id = hex (udpid (if big then be_bytes 6 id else le_bytes 6 id)).
Proof. unfold ref_udpid_hex. rewrite ref_udpid_eq. symmetry. apply hex_hex_lower. apply udpid_wfb. Qed.

(* what the cloud makes up for an unregistered id must not happen to be the device's real credentials *)
Definition unknown_ok (c : cloud_cfg) (good : str * str) : Prop :=
  match cf_unknown c with UBogus t k => (t, k) <> good | _ => True end.

Section Either.
  Variable shuffle : list field -> list field.
  Hypothesis shuffle_perm : forall l, Permutation l (shuffle l).
  Variable cfg : cloud_cfg.
  Variable dev : str.
  Variable stamp_of : nat -> str.
  Variable good : str * str.
  Variable id : N.
  Hypothesis id_fits : id < 2 ^ 48.
  Hypothesis registered : In good (ref_expected_credentials cfg id).
  Hypothesis policy_ok : unknown_ok cfg good.
  Let AL := auth_loop _ (sim_srv shuffle cfg) dev stamp_of _ (exact_device good).

  Lemma auth_loop_either c1 st1 log1 d0 :
    c_session_id c1 = cf_session_id cfg -> rs_open st1 = true ->
    exists log2, AL c1 id both_endians false d0 (([], st1), log1) = (Ok true, Some good, (([], st1), log2)).
  Proof.
    intros Hs Ho. unfold both_endians, AL.
    assert (Hle : to_bytes_le 6 id = Ok (le_bytes 6 id)) by (apply to_bytes_le_ok; exact id_fits).
    assert (Hbe : to_bytes_be 6 id = Ok (be_bytes 6 id)) by (apply to_bytes_be_ok; exact id_fits).
    rewrite (auth_step shuffle shuffle_perm cfg dev stamp_of good c1 id _ _ false d0 st1 log1 _ Hle Hs Ho). cbv zeta.
    set (ule := hex (udpid (le_bytes 6 id))). set (ube := hex (udpid (be_bytes 6 id))).
    assert (Hcand : ref_registered cfg ule = Some good \/ ref_registered cfg ube = Some good).
    { pose proof registered as Hin. unfold ref_expected_credentials in Hin.
      rewrite (udpid_hex_eq false), (udpid_hex_eq true) in Hin. fold ule ube in Hin.
      apply in_app_or in Hin. destruct Hin as [H|H]; [left|right].
      - destruct (ref_registered cfg ule); [destruct H as [<-|[]]; reflexivity|destruct H].
      - destruct (ref_registered cfg ube); [destruct H as [<-|[]]; reflexivity|destruct H]. }
    assert (Hstep2 : forall err d log2, ref_registered cfg ube = Some good ->
              exists log3, auth_loop _ (sim_srv shuffle cfg) dev stamp_of _ (exact_device good) c1 id [to_bytes_be 6] err d (([], st1), log2)
                           = (Ok true, Some good, (([], st1), log3))).
    { intros err d log2 H.
      rewrite (auth_step shuffle shuffle_perm cfg dev stamp_of good c1 id _ _ err d st1 log2 _ Hbe Hs Ho). cbv zeta.
      fold ube. rewrite (tok_result_registered cfg ube good H), creds_eqb_refl. eexists. reflexivity. }
    destruct (ref_registered cfg ule) as [x|] eqn:Ele.
    - rewrite (tok_result_registered cfg ule x Ele). destruct (creds_eqb x good) eqn:Ec.
      + apply creds_eqb_true in Ec. subst x. eexists. reflexivity.
      + destruct Hcand as [H|H]; [injection H as ->; rewrite creds_eqb_refl in Ec; discriminate|].
        apply Hstep2. exact H.
    - destruct Hcand as [H|H]; [discriminate|]. rewrite (tok_result_unregistered cfg ule Ele).
      pose proof policy_ok as Hunk. unfold unknown_ok in Hunk. destruct (cf_unknown cfg) as [t k| |code].
      + destruct (creds_eqb (t, k) good) eqn:Ec; [apply creds_eqb_true in Ec; contradiction|]. apply Hstep2. exact H.
      + change (subclass ECloud ECloud) with true. cbv iota. apply Hstep2. exact H.
      + change (subclass EApi ECloud) with true. cbv iota. apply Hstep2. exact H.
  Qed.

  (* a fresh discovery against the conforming cloud: login, then the device ends up authenticated with the credentials
     registered for its id in one of the two byte orders, whatever the cloud answers for the other one *)
  Theorem either_endian region account password c0 d0 st0 log :
    cloud_new region account password = Ok c0 -> same_account cfg c0 ->
    exists dc w',
      authenticate_device _ (sim_srv shuffle cfg) dev stamp_of _ (exact_device good) None region account password id d0
                          (([], st0), log)
      = (Ok true, Some dc, Some good, w') /\ rs_rejected (w_ref w') = rs_rejected st0.
  Proof.
    intros Hnew Hsame.
    destruct (cloud_new_fresh _ _ _ _ Hnew) as (Hl & Hs & _).
    destruct (login_nf shuffle shuffle_perm cfg dev stamp_of c0 st0 log Hsame Hl Hs) as [log1 Hlogin].
    unfold authenticate_device, get_cloud. rewrite Hnew, Hlogin. cbv beta iota.
    match goal with |- context [auth_loop ?a ?b ?c ?d ?e ?f ?g ?h ?i ?j ?k ?l] =>
      destruct (auth_loop a b c d e f g h i j k l) as [[r2 d2] w2] eqn:E2 end.
    destruct (auth_loop_either (mkC (c_account c0) (c_password c0) (Some (cf_login_id cfg)) true (cf_session_id cfg))
                (mkRS true true (rs_rejected st0)) log1 d0 eq_refl eq_refl) as [log2 X].
    unfold AL in X.
    assert (Y : (r2, d2, w2) = (Ok true, Some good, (([], mkRS true true (rs_rejected st0)), log2))) by (rewrite <- E2; exact X).
    injection Y as -> -> ->. eexists. eexists. split; reflexivity.
  Qed.
End Either.

(* get_token against ANY token list the server may answer with (after fewer timeouts than the budget): the credentials of
   the first entry whose udpId is the requested one, a CloudError when there is none *)
Theorem get_token_script dev stamp_of c n l s log u : (n < CLOUD_RETRIES)%nat ->
  fst (get_token _ script_srv dev stamp_of c (repeat OTimeout n ++ OResp (mkResp 0 (RTokens l)) :: s, log) u)
  = match find_token u l with Some tk => Ok tk | None => Err ECloud end.
Proof.
  intros Hn. unfold get_token, api_request.
  rewrite (post_first_non_timeout CLOUD_RETRIES n _ s log _ Hn) by discriminate.
  reflexivity.
Qed.

(* ---------- the cloud object cached for a discovery session ---------- *)
Section CloudCache.
  Variable SV : Type.
  Variable srv : SV -> request -> SV * outcome.
  Variable dev : str.
  Variable stamp_of : nat -> str.

  Lemma login_ok_has_session force c w c1 w1 : login SV srv dev stamp_of force c w = (Ok tt, c1, w1) -> c_has_session c1 = true.
  Proof.
    unfold login. destruct (c_has_session c && negb force) eqn:E.
    - intros H. injection H as <- <-. apply andb_prop in E. apply E.
    - destruct (c_login_id c) as [l|].
      + destruct (api_request SV srv w EP_LOGIN _) as [r w2]. destruct r as [[[]|]|e]; intros H; try discriminate H;
          injection H as <- <-; reflexivity.
      + destruct (get_login_id SV srv dev stamp_of c w) as [r w'] eqn:Eg. destruct r as [l|e]; [|discriminate].
        destruct (api_request SV srv w' EP_LOGIN _) as [r2 w2]. destruct r2 as [[[]|]|e]; intros H; try discriminate H;
          injection H as <- <-; reflexivity.
  Qed.

  (* Discover._get_cloud: a cloud object is kept for the rest of the discovery session only once its login has succeeded *)
  Theorem get_cloud_cached_only_after_login region account password w r dc' w' :
    get_cloud SV srv dev stamp_of None region account password w = (r, dc', w') ->
    match r with Ok c => dc' = Some c /\ c_has_session c = true | Err _ => dc' = None end.
  Proof.
    unfold get_cloud. destruct (cloud_new region account password) as [c0|e]; [|intros H; injection H as <- <- <-; reflexivity].
    destruct (login SV srv dev stamp_of false c0 w) as [[rl c1] w1] eqn:El. destruct rl as [[]|e].
    - intros H. injection H as <- <- <-. split; [reflexivity|eapply login_ok_has_session; exact El].
    - intros H. injection H as <- <- <-. reflexivity.
  Qed.
End CloudCache.
