(* an exchange never changes the stored token / key: LAN.send re-authenticates with the cached pair and, whatever the outcome,
   leaves that pair in place *)
From MS Require Import lib.Base gen.GenLan model.Session proofs.SessionProofs proofs.SessionHoare.
Local Open Scope N_scope.

Theorem cframe_lan_authenticate_cached r : cframe (lan_authenticate None r).
Proof.
  intros w. unfold lan_authenticate. unfold mbind at 1, get at 1.
  set (c := l_creds (w_lan w)).
  assert (K : forall (m : M unit), (forall w1, l_creds (w_lan w1) = c -> l_creds (w_lan (snd (m w1))) = c) -> l_creds (w_lan (snd (m w))) = c)
    by (intros m Hm; apply Hm; reflexivity).
  apply K. clear K. intros w1 H1.
  assert (B : forall {A B} (m : M A) (f : A -> M B) w0, l_creds (w_lan w0) = c -> cframe m ->
              (forall a w', l_creds (w_lan w') = c -> l_creds (w_lan (snd (f a w'))) = c) -> l_creds (w_lan (snd (mbind m f w0))) = c).
  { intros A B m f w0 H0 Hm Hf. unfold mbind. pose proof (Hm w0) as E. destruct (m w0) as [[a|e] w']; cbn [snd] in *; [apply Hf|]; congruence. }
  apply B; [exact H1|intros w'; reflexivity|]. intros al w2 H2.
  apply B; [exact H2|apply cframe_get|]. intros w3 w4 H4.
  apply B; [exact H4| |].
  { destruct (negb al || _); [|apply cframe_ret]. apply cframe_bind; [apply cframe_disconnect|]. intros _.
    apply cframe_bind; [apply cframe_set_lan; reflexivity|]. intros _. apply cframe_connect. }
  intros _ w5 H5. apply B; [exact H5|apply cframe_auth_loop|]. intros _ w6 H6.
  apply B; [exact H6| |].
  { unfold authenticated. apply cframe_bind; [apply cframe_the_conn|]. intros c0. apply cframe_bind; [apply cframe_get|]. intros w7. apply cframe_ret. }
  intros a w7 H7. apply B; [exact H7|destruct a; [apply cframe_ret|apply cframe_raise]|]. intros _ w8 H8.
  unfold mbind at 1. unfold set_lan at 1, upd. cbn [snd fst].
  match goal with |- l_creds (w_lan (snd (mbind get _ ?w9))) = c => assert (H9 : l_creds (w_lan w9) = c) by reflexivity; revert H9; generalize w9 end.
  intros w9 H9. apply B; [exact H9|apply cframe_get|]. intros w10 w11 H11. rewrite cframe_advance. exact H11.
Qed.

Lemma cframe_lan_read b : cframe (lan_read b).
Proof.
  unfold lan_read. apply cframe_bind; [apply cframe_read_queue|]. intros p. apply cframe_bind; [apply cframe_the_conn|]. intros c.
  destruct (as_data c p); [apply cframe_ret|apply cframe_raise].
Qed.
Lemma cframe_read_available f : forall acc, cframe (read_available f acc).
Proof.
  induction f as [|f IH]; intros acc; cbn [read_available]; [apply cframe_ret|].
  apply cframe_catch; [|intros e; apply cframe_ret]. apply cframe_bind.
  - apply cframe_catch; [|intros e; apply cframe_ret]. apply cframe_bind; [apply cframe_lan_read|]. intros x. apply cframe_ret.
  - intros r. apply IH.
Qed.
Lemma cframe_queue_len : cframe queue_len.
Proof. unfold queue_len. apply cframe_bind; [apply cframe_the_conn|]. intros c. apply cframe_ret. Qed.
Lemma cframe_send_loop r f : forall acc, cframe (send_loop r f acc).
Proof.
  induction r as [|r IH]; intros acc; cbn [send_loop]; [apply cframe_ret|].
  apply cframe_bind; [apply cframe_write|]. intros _. apply cframe_bind.
  - apply cframe_catch; [apply cframe_catch; [apply cframe_catch|]|].
    + apply cframe_bind; [apply cframe_lan_read|]. intros x. apply cframe_ret.
    + intros e. destruct r; [apply cframe_bind; [apply cframe_disconnect|intros _; apply cframe_raise]|apply cframe_ret].
    + intros e. apply cframe_bind; [apply cframe_disconnect|intros _; apply cframe_raise].
    + intros e. apply cframe_bind; [apply cframe_disconnect|intros _; apply cframe_raise].
  - intros got. destruct got; [apply cframe_ret|apply IH].
Qed.
Lemma cframe_alive : cframe lan_alive.
Proof. unfold lan_alive. apply cframe_bind; [apply cframe_get|]. intros w. apply cframe_ret. Qed.
Lemma cframe_authenticated : cframe authenticated.
Proof. unfold authenticated. apply cframe_bind; [apply cframe_the_conn|]. intros c. apply cframe_bind; [apply cframe_get|]. intros w. apply cframe_ret. Qed.
(* LAN.send never changes the stored credentials - not when the automatic (re-)handshake succeeds, not when it fails *)
Theorem exchange_keeps_credentials f r : cframe (lan_send f r).
Proof.
  unfold lan_send.
  apply cframe_bind; [apply cframe_alive|]. intros al.
  apply cframe_bind; [destruct al; [apply cframe_ret|apply cframe_bind; [apply cframe_disconnect|intros _; apply cframe_connect]]|]. intros _.
  apply cframe_bind; [apply cframe_the_conn|]. intros c.
  apply cframe_bind.
  { destruct (c_v3 c); [|apply cframe_ret]. apply cframe_bind; [apply cframe_authenticated|]. intros a.
    destruct a; [apply cframe_ret|apply cframe_lan_authenticate_cached]. }
  intros _. apply cframe_bind; [apply cframe_queue_len|]. intros n0.
  apply cframe_bind; [apply cframe_read_available|]. intros pre.
  apply cframe_bind; [apply cframe_send_loop|]. intros got.
  apply cframe_bind; [apply cframe_queue_len|]. intros n1. apply cframe_read_available.
Qed.
Theorem device_exchange_keeps_credentials f : cframe (dev_send_command f).
Proof. unfold dev_send_command. apply cframe_catch; [apply exchange_keeps_credentials|intros e; apply cframe_ret]. Qed.
