(* C17 / C18: discovery.  Part 1: which exceptions reply parsing can raise and that none escapes a task; the result of a
   discovery run characterised through the first datagram of each source address.  Part 2: the parser inverts the
   reference reply builder. *)
From MS Require Import lib.Base gen.GenConst gen.GenLan gen.GenDisc crypto.MD5 crypto.AES crypto.Modes model.Lan model.Discover
  spec.RefLan spec.RefDiscover proofs.FrameProofs proofs.HashProofs proofs.AESInv proofs.ModesInv proofs.ContainProofs
  proofs.LanV2Proofs.
From Coq Require Import ZifyBool ZifyN ZifyNat Permutation.
Ltac Zify.zify_post_hook ::= Z.div_mod_to_equations.
Local Open Scope N_scope.

(* ================= Part 1: containment and the shape of a run ================= *)

Definition parse_exn (e : exn) : bool :=
  match e with EDiscover | ENotImpl | EKey | EValue | EUnicode | EAddr | EIndex => true | _ => false end.

Lemma catch_to_discover {A} (r : res A) cs e :
  catch r cs (fun _ => Err EDiscover) = Err e -> r = Err e \/ e = EDiscover.
Proof.
  unfold catch. destruct r as [a|e0]; [discriminate|]. destruct (existsb (subclass e0) cs); intros H.
  - right. injection H as <-. reflexivity.
  - left. exact H.
Qed.

Lemma decode_utf8_err l e : decode_utf8 l = Err e -> e = EUnicode.
Proof. unfold decode_utf8. destruct (utf8_valid l); [discriminate|]. intros H. injection H as <-. reflexivity. Qed.

Lemma idx_err l n e : idx l n = Err e -> e = EIndex.
Proof. unfold idx. destruct (nth_error l n); [discriminate|]. intros H. injection H as <-. reflexivity. Qed.

Lemma parse_int16_err s e : parse_int16 s = Err e -> e = EValue.
Proof.
  unfold parse_int16.
  destruct (match strip s with 43 :: t => (false, t) | 45 :: t => (true, t) | _ => (false, strip s) end) as [neg s1].
  set (s2 := match s1 with
             | 48 :: x :: t => if (x =? 120) || (x =? 88) then match t with 95 :: t' => t' | _ => t end else s1
             | _ => s1 end).
  assert (Hgen : forall v : bytes, match hexdigits v false 0 0 with
                                   | Some v0 => Ok (if neg then (- Z.of_N v0)%Z else Z.of_N v0)
                                   | None => Err EValue end = Err e -> e = EValue).
  { intros v. destruct (hexdigits v false 0 0); [discriminate|]. intros H. injection H as <-. reflexivity. }
  destruct s2 as [|b t]; [apply Hgen|].
  destruct (b =? 95) eqn:E95.
  - apply N.eqb_eq in E95. subst b. intros H. injection H as <-. reflexivity.
  - assert (Hm : forall (X : res Z), match b with 95 => Err EValue | _ => X end = (if b =? 95 then Err EValue else X)).
    { intros X. destruct (N.eqb_spec b 95) as [->|Hne]; [reflexivity|].
      destruct b as [|p]; [reflexivity|].
      do 7 (destruct p as [p|p|]; try reflexivity). exfalso. apply Hne. reflexivity. }
    rewrite Hm, E95. apply Hgen.
Qed.

Lemma parse_payload_err ip v id dec e : parse_payload ip v id dec = Err e -> parse_exn e = true.
Proof.
  unfold parse_payload.
  destruct (Nat.eqb (length (firstn (S DISC_IP_FROM) dec)) 4); cbn [bind];
    [|intros H; injection H as <-; reflexivity].
  destruct (decode_utf8 (slice dec DISC_SN_LO DISC_SN_HI)) as [sn|e1] eqn:E1; cbn [bind];
    [|intros H; injection H as <-; rewrite (decode_utf8_err _ _ E1); reflexivity].
  destruct (idx dec DISC_NAMELEN_AT) as [nl|e2] eqn:E2; cbn [bind];
    [|intros H; injection H as <-; rewrite (idx_err _ _ _ E2); reflexivity].
  destruct (decode_utf8 (slice dec DISC_NAME_LO _)) as [name|e3] eqn:E3; cbn [bind];
    [|intros H; injection H as <-; rewrite (decode_utf8_err _ _ E3); reflexivity].
  destruct (nth_error (split_us name) 1) as [tok|]; cbn [bind]; [|intros H; injection H as <-; reflexivity].
  destruct (parse_int16 tok) as [ty|e4] eqn:E4; cbn [bind]; [discriminate|].
  intros H. injection H as <-. rewrite (parse_int16_err _ _ E4). reflexivity.
Qed.

Lemma get_device_info_err ip v xml d e : get_device_info ip v xml d = Err e -> parse_exn e = true.
Proof.
  unfold get_device_info. destruct (v =? 1).
  - unfold get_device_info_v1. intros H.
    destruct xml as [|p]; [injection H as <-; reflexivity|].
    destruct p as [[|[]|]|[[]|[]|]|]; injection H as <-; reflexivity.
  - unfold get_device_info_v23.
    destruct (catch (decrypt_aes _) DISC_DECRYPT_CONVERTS _) as [dec|e1] eqn:E1; cbn [bind].
    + intros H. apply catch_to_discover in H. destruct H as [H| ->]; [|reflexivity].
      eapply parse_payload_err; exact H.
    + intros H. injection H as <-. apply catch_to_discover in E1. destruct E1 as [E1| ->]; [|reflexivity].
      rewrite (decrypt_aes_err _ _ E1). reflexivity.
Qed.

(* the handlers of _get_device (regenerated from the source) cover every exception reply parsing can raise *)
Lemma handlers_cover e : parse_exn e = true -> existsb (subclass e) DISC_GET_DEVICE_CATCHES = true.
Proof. destruct e; cbn [parse_exn]; intros H; try discriminate H; vm_compute; reflexivity. Qed.

Definition task_out (t : task) : option info :=
  match get_device_info (t_ip t) (t_version t) (t_xml t) (t_data t) with Ok i => Some i | Err _ => None end.

Theorem run_task_total t : run_task t = Ok (task_out t).
Proof.
  unfold run_task, get_device, task_out.
  destruct (get_device_info _ _ _ _) as [i|e] eqn:E; cbn [bind catch]; [reflexivity|].
  rewrite (handlers_cover e (get_device_info_err _ _ _ _ _ E)). reflexivity.
Qed.

Definition opt_list {A} (o : option A) : list A := match o with Some a => [a] | None => [] end.

Lemma gather_ok ts : gather ts = Ok (flat_map (fun t => opt_list (task_out t)) ts).
Proof.
  induction ts as [|t ts IH]; [reflexivity|].
  cbn [gather flat_map]. rewrite run_task_total, IH. cbn [bind]. destruct (task_out t); reflexivity.
Qed.

(* the first datagram of every source address, in arrival order *)
Fixpoint firsts (sn : list N) (ds : list dgram) : list dgram :=
  match ds with
  | [] => []
  | g :: t => if mem (g_ip g) sn then firsts sn t else g :: firsts (g_ip g :: sn) t
  end.

Definition task_of (g : dgram) : list task :=
  match catch (do v <- get_device_version (g_xml g) (g_data g); Ok (Some v)) DISC_VERSION_CATCHES (fun _ => Ok None) with
  | Ok (Some v) => [mkTask (g_ip g) v (g_xml g) (g_data g)]
  | _ => []
  end.

Lemma fold_tasks ds : forall s,
  tasks (fold_left datagram_received ds s) = tasks s ++ flat_map task_of (firsts (seen s) ds).
Proof.
  induction ds as [|g ds IH]; intros s; cbn [fold_left firsts flat_map]; [symmetry; apply app_nil_r|].
  rewrite IH. unfold datagram_received. destruct (mem (g_ip g) (seen s)) eqn:Em; [reflexivity|].
  unfold task_of at 2. cbn [flat_map].
  destruct (catch _ DISC_VERSION_CATCHES _) as [[v|]|e]; cbn [seen tasks app]; rewrite <- ?app_assoc; reflexivity.
Qed.

(* what the first datagram of a host contributes to the result *)
Definition report (g : dgram) : list info := flat_map (fun t => opt_list (task_out t)) (task_of g).

(* C18 master characterisation: no exception, and the result is exactly the reports of the first datagrams *)
Theorem discover_char ds : discover ds = Ok (flat_map report (firsts [] ds)).
Proof.
  unfold discover. rewrite gather_ok, fold_tasks. cbn [tasks seen dstate0 app].
  f_equal. induction (firsts [] ds) as [|g l IH]; [reflexivity|].
  cbn [flat_map]. rewrite flat_map_app, IH. reflexivity.
Qed.

(* ---- properties of firsts ---- *)
Lemma mem_true x l : mem x l = true <-> In x l.
Proof.
  unfold mem. rewrite existsb_exists. split.
  - intros (y & Hy & E). apply N.eqb_eq in E. subst. exact Hy.
  - intros H. exists x. split; [exact H|apply N.eqb_refl].
Qed.

Lemma firsts_ext ds : forall s s', (forall x, mem x s = mem x s') -> firsts s ds = firsts s' ds.
Proof.
  induction ds as [|g ds IH]; intros s s' H; [reflexivity|]. cbn [firsts]. rewrite <- (H (g_ip g)).
  destruct (mem (g_ip g) s); [apply IH, H|]. f_equal. apply IH. intros x. unfold mem. cbn [existsb]. fold (mem x s) (mem x s').
  rewrite H. reflexivity.
Qed.

Lemma mem_cons x y l : mem x (y :: l) = (x =? y) || mem x l.
Proof. reflexivity. Qed.
Lemma mem_app x a b : mem x (a ++ b) = mem x a || mem x b.
Proof. unfold mem. apply existsb_app. Qed.

Lemma firsts_app a : forall s b, firsts s (a ++ b) = firsts s a ++ firsts (map g_ip a ++ s) b.
Proof.
  induction a as [|g a IH]; intros s b; [reflexivity|].
  cbn [app firsts map]. destruct (mem (g_ip g) s) eqn:Em.
  - rewrite IH. f_equal. apply firsts_ext. intros x. rewrite mem_cons, !mem_app.
    destruct (N.eqb_spec x (g_ip g)) as [->|]; [rewrite Em; destruct (mem (g_ip g) (map g_ip a)); reflexivity|reflexivity].
  - cbn [app]. f_equal. rewrite IH. f_equal. apply firsts_ext. intros x. rewrite mem_cons, !mem_app, mem_cons.
    destruct (x =? g_ip g), (mem x (map g_ip a)); reflexivity.
Qed.

Lemma firsts_not_seen ds : forall s g, In g (firsts s ds) -> mem (g_ip g) s = false.
Proof.
  induction ds as [|d ds IH]; intros s g H; [destruct H|]. cbn [firsts] in H.
  destruct (mem (g_ip d) s) eqn:Em; [apply IH, H|]. destruct H as [->|H]; [exact Em|].
  apply IH in H. rewrite mem_cons in H. apply orb_false_elim in H. apply H.
Qed.

Lemma firsts_nodup ds : forall s, NoDup (map g_ip (firsts s ds)).
Proof.
  induction ds as [|d ds IH]; intros s; [constructor|]. cbn [firsts].
  destruct (mem (g_ip d) s) eqn:Em; [apply IH|]. cbn [map]. constructor; [|apply IH].
  intros Hin. apply in_map_iff in Hin. destruct Hin as (g & Hg & Hin). apply firsts_not_seen in Hin.
  rewrite mem_cons, Hg, N.eqb_refl in Hin. discriminate.
Qed.

Definition first_from (h : N) (ds : list dgram) : option dgram := find (fun g => g_ip g =? h) ds.

Lemma firsts_in ds : forall s g, In g (firsts s ds) <-> (mem (g_ip g) s = false /\ first_from (g_ip g) ds = Some g).
Proof.
  induction ds as [|d ds IH]; intros s g; cbn [firsts first_from find].
  - split; [intros []|intros [_ H]; discriminate].
  - fold (first_from (g_ip g) ds). destruct (mem (g_ip d) s) eqn:Em.
    + rewrite IH. destruct (N.eqb_spec (g_ip d) (g_ip g)) as [E|E].
      * split; [intros [H _]; rewrite <- E, Em in H; discriminate|intros [H _]; rewrite <- E, Em in H; discriminate].
      * reflexivity.
    + cbn [In]. rewrite IH, mem_cons. destruct (N.eqb_spec (g_ip d) (g_ip g)) as [E|E].
      * split.
        -- intros [->|[H _]]; [split; [exact Em|reflexivity]|]. rewrite E, N.eqb_refl in H. discriminate.
        -- intros [_ H]. left. injection H as ->. reflexivity.
      * split.
        -- intros [->|[H1 H2]]; [contradiction E; reflexivity|]. apply orb_false_elim in H1. split; [apply H1|exact H2].
        -- intros [H1 H2]. right. split; [|exact H2]. rewrite H1. destruct (N.eqb_spec (g_ip g) (g_ip d)); [congruence|reflexivity].
Qed.

(* ---- a report carries the source address of its datagram ---- *)
Lemma parse_payload_ip ip v id dec i : parse_payload ip v id dec = Ok i -> i_ip i = ip.
Proof.
  unfold parse_payload.
  destruct (Nat.eqb _ 4); cbn [bind]; [|discriminate].
  destruct (decode_utf8 _); cbn [bind]; [|discriminate].
  destruct (idx _ _); cbn [bind]; [|discriminate].
  destruct (decode_utf8 _); cbn [bind]; [|discriminate].
  destruct (nth_error _ 1); cbn [bind]; [|discriminate].
  destruct (parse_int16 _); cbn [bind]; [|discriminate].
  intros H. apply Ok_inj in H. subst i. reflexivity.
Qed.

Lemma catch_discover_ok {A} (r : res A) cs a : catch r cs (fun _ => Err EDiscover) = Ok a -> r = Ok a.
Proof. unfold catch. destruct r as [x|e]; [auto|]. destruct (existsb (subclass e) cs); discriminate. Qed.

Lemma get_device_info_ip ip v xml d i : get_device_info ip v xml d = Ok i -> i_ip i = ip.
Proof.
  unfold get_device_info. destruct (v =? 1).
  - unfold get_device_info_v1. destruct xml as [|[[|[]|]|[[]|[]|]|]]; discriminate.
  - unfold get_device_info_v23. destruct (catch (decrypt_aes _) _ _) as [dec|]; cbn [bind]; [|discriminate].
    intros H. apply catch_discover_ok in H. eapply parse_payload_ip; exact H.
Qed.

Lemma report_ip g i : In i (report g) -> i_ip i = g_ip g.
Proof.
  unfold report, task_of. destruct (catch _ DISC_VERSION_CATCHES _) as [[v|]|e]; cbn [flat_map]; try (intros []).
  rewrite app_nil_r. unfold task_out. cbn [t_ip t_version t_xml t_data].
  destruct (get_device_info _ _ _ _) as [j|] eqn:E; cbn [opt_list]; [|intros []].
  intros [<-|[]]. eapply get_device_info_ip; exact E.
Qed.

Lemma report_at_most_one g : (length (report g) <= 1)%nat.
Proof.
  unfold report, task_of. destruct (catch _ DISC_VERSION_CATCHES _) as [[v|]|e]; cbn [flat_map length]; try lia.
  rewrite app_nil_r. destruct (task_out _); cbn; lia.
Qed.

(* ---- C18: at most one device per source address ---- *)
Theorem one_device_per_host ds l : discover ds = Ok l -> NoDup (map i_ip l).
Proof.
  rewrite discover_char. intros H. apply Ok_inj in H. subst l.
  pose proof (firsts_nodup ds []) as Hnd. induction (firsts [] ds) as [|g fs IH]; [constructor|].
  cbn [flat_map]. rewrite map_app. cbn [map] in Hnd. inversion Hnd as [|? ? Hnotin Hnd']; subst.
  pose proof (report_at_most_one g) as Hlen. pose proof (report_ip g) as Hip.
  destruct (report g) as [|i [|]]; cbn [length] in Hlen; [apply IH, Hnd'| |lia].
  cbn [map app]. constructor; [|apply IH, Hnd'].
  rewrite (Hip i (or_introl eq_refl)). intros Hin. apply Hnotin.
  apply in_map_iff in Hin. destruct Hin as (j & Hj & Hin). apply in_flat_map in Hin. destruct Hin as (g' & Hg' & Hin).
  apply in_map_iff. exists g'. split; [|exact Hg']. rewrite <- Hj. symmetry. apply report_ip. exact Hin.
Qed.

(* ---- C18: a device is reported iff the FIRST datagram from its address yields it ---- *)
Theorem reported_iff_first ds l i : discover ds = Ok l ->
  (In i l <-> exists g, first_from (i_ip i) ds = Some g /\ In i (report g)).
Proof.
  rewrite discover_char. intros H. apply Ok_inj in H. subst l. rewrite in_flat_map. split.
  - intros (g & Hg & Hi). exists g. apply firsts_in in Hg. destruct Hg as [_ Hg].
    rewrite (report_ip g i Hi). split; [exact Hg|exact Hi].
  - intros (g & Hg & Hi). exists g. split; [|exact Hi]. apply firsts_in. rewrite <- (report_ip g i Hi). split; [reflexivity|exact Hg].
Qed.

(* ---- C18: duplicates are irrelevant ---- *)
Theorem duplicate_ignored ds1 d ds2 : In (g_ip d) (map g_ip ds1) -> discover (ds1 ++ d :: ds2) = discover (ds1 ++ ds2).
Proof.
  intros Hin. rewrite !discover_char. f_equal. f_equal. rewrite !firsts_app. f_equal.
  cbn [firsts]. rewrite app_nil_r. apply mem_true in Hin. rewrite Hin. reflexivity.
Qed.

(* ---- C18: what one host sends cannot change what is reported for the others ---- *)
Definition not_host (h : N) (g : dgram) : bool := negb (g_ip g =? h).

Lemma firsts_filter h ds : forall s s', (forall x, x <> h -> mem x s = mem x s') ->
  firsts s (filter (not_host h) ds) = filter (not_host h) (firsts s' ds).
Proof.
  induction ds as [|g ds IH]; intros s s' H; [reflexivity|]. cbn [filter firsts]. unfold not_host at 1.
  destruct (N.eqb_spec (g_ip g) h) as [E|E]; cbn [negb].
  - destruct (mem (g_ip g) s'); [apply IH, H|]. cbn [filter]. unfold not_host at 2. rewrite E, N.eqb_refl. cbn [negb].
    apply IH. intros x Hx. rewrite mem_cons. destruct (N.eqb_spec x h); [contradiction|]. cbn [orb]. apply H, Hx.
  - cbn [firsts]. rewrite (H _ E). destruct (mem (g_ip g) s'); [apply IH, H|]. cbn [filter]. unfold not_host at 2.
    destruct (N.eqb_spec (g_ip g) h); [contradiction|]. cbn [negb]. f_equal. apply IH.
    intros x Hx. rewrite !mem_cons, (H x Hx). reflexivity.
Qed.

Theorem other_hosts_unaffected h ds l : discover ds = Ok l ->
  discover (filter (not_host h) ds) = Ok (filter (fun i => negb (i_ip i =? h)) l).
Proof.
  rewrite !discover_char. intros H. apply Ok_inj in H. subst l. f_equal.
  rewrite (firsts_filter h ds [] []) by reflexivity.
  induction (firsts [] ds) as [|g fs IH]; [reflexivity|]. cbn [filter flat_map]. rewrite filter_app, <- IH.
  unfold not_host at 1. destruct (N.eqb_spec (g_ip g) h) as [E|E]; cbn [negb].
  - assert (Hnil : filter (fun i => negb (i_ip i =? h)) (report g) = []).
    { pose proof (report_ip g) as Hip. induction (report g) as [|i r IHr]; [reflexivity|]. cbn [filter].
      rewrite (Hip i (or_introl eq_refl)), E, N.eqb_refl. cbn [negb]. apply IHr. intros j Hj. apply Hip. right. exact Hj. }
    rewrite Hnil. reflexivity.
  - cbn [flat_map]. f_equal.
    pose proof (report_ip g) as Hip. induction (report g) as [|i r IHr]; [reflexivity|]. cbn [filter].
    rewrite (Hip i (or_introl eq_refl)). destruct (N.eqb_spec (g_ip g) h); [contradiction|]. cbn [negb]. f_equal.
    apply IHr. intros j Hj. apply Hip. right. exact Hj.
Qed.

(* a host whose first datagram yields nothing is simply absent, the rest is as if it had stayed silent *)
Theorem bad_host_omitted h g ds l : discover ds = Ok l -> first_from h ds = Some g -> report g = [] ->
  discover (filter (not_host h) ds) = Ok l /\ ~ In h (map i_ip l).
Proof.
  intros Hd Hf Hr. assert (Hno : ~ In h (map i_ip l)).
  { intros Hin. apply in_map_iff in Hin. destruct Hin as (i & Hi & Hin).
    apply (reported_iff_first ds l i Hd) in Hin. destruct Hin as (g' & Hg' & Hin'). rewrite Hi, Hf in Hg'.
    injection Hg' as <-. rewrite Hr in Hin'. destruct Hin'. }
  split; [|exact Hno]. rewrite (other_hosts_unaffected h ds l Hd). f_equal.
  clear Hd. induction l as [|i l IH]; [reflexivity|]. cbn [filter map In] in *.
  destruct (N.eqb_spec (i_ip i) h) as [E|E]; [exfalso; apply Hno; left; exact E|]. cbn [negb]. f_equal. apply IH.
  intros H. apply Hno. right. exact H.
Qed.

(* ---- C18: arrival order matters only through which datagram of a host comes first ---- *)
Lemma nodup_map_inj {A B} (f : A -> B) (l : list A) : NoDup (map f l) -> NoDup l.
Proof.
  induction l as [|a l IH]; intros H; [constructor|]. cbn [map] in H. inversion H as [|? ? Hn Hd]; subst.
  constructor; [|apply IH, Hd]. intros Hin. apply Hn. apply in_map. exact Hin.
Qed.

Theorem interleaving_irrelevant ds ds' l l' :
  (forall h, first_from h ds = first_from h ds') -> discover ds = Ok l -> discover ds' = Ok l' -> Permutation l l'.
Proof.
  intros Hf Hd Hd'. apply NoDup_Permutation.
  - eapply nodup_map_inj, one_device_per_host; exact Hd.
  - eapply nodup_map_inj, one_device_per_host; exact Hd'.
  - intros i. rewrite (reported_iff_first ds l i Hd), (reported_iff_first ds' l' i Hd').
    split; intros (g & Hg & Hi); exists g; (split; [|exact Hi]); [rewrite <- Hf|rewrite Hf]; exact Hg.
Qed.

(* the source port never matters *)
Definition same_but_port (g g' : dgram) : Prop := g_ip g = g_ip g' /\ g_xml g = g_xml g' /\ g_data g = g_data g'.
Lemma firsts_ports ds ds' : Forall2 same_but_port ds ds' -> forall s,
  flat_map report (firsts s ds) = flat_map report (firsts s ds').
Proof.
  induction 1 as [|g g' ds ds' (Hi & Hx & Hdt) _ IH]; intros s; [reflexivity|].
  cbn [firsts]. rewrite <- Hi. destruct (mem (g_ip g) s); [apply IH|]. cbn [flat_map]. rewrite IH. f_equal.
  unfold report, task_of. rewrite Hi, Hx, Hdt. reflexivity.
Qed.
Theorem source_port_irrelevant ds ds' : Forall2 same_but_port ds ds' -> discover ds = discover ds'.
Proof. intros H. rewrite !discover_char. f_equal. apply firsts_ports, H. Qed.

(* ================= Part 2: the parser inverts the reference reply ================= *)

Lemma slice_at {A} (a b c : list A) n m : length a = n -> length b = (m - n)%nat -> slice (a ++ b ++ c) n m = b.
Proof.
  intros Ha Hb. unfold slice. rewrite <- Ha, skipn_app, skipn_all, Nat.sub_diag. cbn [skipn app].
  rewrite Ha, <- Hb, firstn_app, firstn_all, Nat.sub_diag. cbn [firstn]. apply app_nil_r.
Qed.

Lemma nth_error_at {A} (a : list A) x r : nth_error (a ++ x :: r) (length a) = Some x.
Proof. rewrite nth_error_app2 by lia. rewrite Nat.sub_diag. reflexivity. Qed.

Lemma utf8_ascii l : Forall (fun b => b < 128) l -> utf8_valid l = true.
Proof.
  induction 1 as [|b l Hb _ IH]; [reflexivity|]. cbn [utf8_valid].
  destruct (b <? 128) eqn:E; [exact IH|lia].
Qed.

Lemma split_on_nosep a : forall cur b, Forall (fun x => x <> 95) a ->
  split_on 95 (a ++ 95 :: b) cur = (rev cur ++ a) :: split_on 95 b [].
Proof.
  induction a as [|x a IH]; intros cur b H; cbn [app split_on].
  - rewrite N.eqb_refl, app_nil_r. reflexivity.
  - inversion H as [|? ? Hx Ha]; subst. destruct (N.eqb_spec x 95); [contradiction|].
    rewrite IH by exact Ha. cbn [rev]. rewrite <- app_assoc. reflexivity.
Qed.

Lemma hex2_facts ty : ty < 256 ->
  Forall (fun x => x <> 95) (hex2 ty) /\ Forall (fun b => b < 128) (hex2 ty) /\ parse_int16 (hex2 ty) = Ok (Z.of_N ty).
Proof.
  intros H.
  apply (forall_bytes (fun ty => forallb (fun x => negb (x =? 95)) (hex2 ty) && forallb (fun b => b <? 128) (hex2 ty)
                                 && match parse_int16 (hex2 ty) with Ok v => (v =? Z.of_N ty)%Z | Err _ => false end)) in H;
    [|vm_compute; reflexivity].
  apply andb_prop in H. destruct H as [H H3]. apply andb_prop in H. destruct H as [H1 H2].
  split; [|split].
  - apply Forall_forall. intros x Hx. rewrite forallb_forall in H1. specialize (H1 x Hx). intros ->. discriminate.
  - apply Forall_forall. intros x Hx. rewrite forallb_forall in H2. specialize (H2 x Hx). lia.
  - destruct (parse_int16 (hex2 ty)) as [v|]; [|discriminate]. f_equal. lia.
Qed.

Lemma ref_name_type ty sfx : ty < 256 -> nth_error (split_us (ref_name ty sfx)) 1 = Some (hex2 ty).
Proof.
  intros H. unfold split_us, ref_name.
  change ([110; 101; 116; 95] ++ hex2 ty ++ [95] ++ sfx) with ([110; 101; 116] ++ 95 :: (hex2 ty ++ 95 :: sfx)).
  rewrite split_on_nosep by (repeat constructor; discriminate).
  rewrite split_on_nosep by (apply hex2_facts, H). reflexivity.
Qed.

Lemma ref_name_ascii ty sfx : ty < 256 -> Forall (fun b => b < 128) sfx -> Forall (fun b => b < 128) (ref_name ty sfx).
Proof.
  intros H Hs. unfold ref_name. apply Forall_app. split; [repeat constructor; lia|].
  apply Forall_app. split; [apply hex2_facts, H|]. apply Forall_app. split; [repeat constructor; lia|exact Hs].
Qed.

Lemma le_bytes_wfb n : forall v, wfb (le_bytes n v).
Proof. induction n as [|n IH]; intros v; [constructor|]. cbn [le_bytes]. constructor; [lia|apply IH]. Qed.

Lemma parse_reference_payload ip ver id rip port sn name ty sfx extra :
  length rip = 4%nat -> port < 65536 -> length sn = 32%nat -> utf8_valid sn = true -> ty < 256 ->
  Forall (fun b => b < 128) sfx -> name = ref_name ty sfx -> (length name < 256)%nat ->
  parse_payload ip ver id (ref_payload rip port sn name extra) = Ok (mkInfo ip port id name sn (Z.of_N ty) ver).
Proof.
  intros Hrip Hport Hsn Hsnv Hty Hsfx Hname Hlen.
  unfold parse_payload, ref_payload.
  unfold DISC_IP_FROM, DISC_PORT_LO, DISC_PORT_HI, DISC_SN_LO, DISC_SN_HI, DISC_NAMELEN_AT, DISC_NAME_LO.
  set (L := N.of_nat (length name)).
  assert (H1 : length (firstn 4 (rev rip ++ le_bytes 4 port ++ sn ++ [L] ++ name ++ extra)) = 4%nat).
  { rewrite firstn_length, !app_length, rev_length. lia. }
  rewrite H1. cbn [Nat.eqb bind].
  (* port *)
  assert (Hp : slice (rev rip ++ le_bytes 4 port ++ sn ++ [L] ++ name ++ extra) 4 6 = [port mod 256; port / 256 mod 256]).
  { cbn [le_bytes app].
    apply (slice_at (rev rip) [port mod 256; port / 256 mod 256]); [rewrite rev_length; exact Hrip|reflexivity]. }
  rewrite Hp.
  assert (Hpv : from_le [port mod 256; port / 256 mod 256] = port) by (cbn [from_le]; lia).
  rewrite Hpv.
  (* serial number *)
  assert (H8 : length (rev rip ++ le_bytes 4 port) = 8%nat) by (rewrite app_length, rev_length, le_bytes_length; lia).
  assert (Hs : slice (rev rip ++ le_bytes 4 port ++ sn ++ [L] ++ name ++ extra) 8 40 = sn).
  { rewrite app_assoc. apply slice_at; [exact H8|rewrite Hsn; reflexivity]. }
  rewrite Hs. unfold decode_utf8 at 1. rewrite Hsnv. cbn [bind].
  (* name length *)
  assert (H40 : length ((rev rip ++ le_bytes 4 port) ++ sn) = 40%nat) by (rewrite app_length, H8, Hsn; reflexivity).
  assert (Hi : idx (rev rip ++ le_bytes 4 port ++ sn ++ [L] ++ name ++ extra) 40 = Ok L).
  { unfold idx. rewrite app_assoc, (app_assoc _ sn). rewrite <- H40. cbn [app]. rewrite nth_error_at. reflexivity. }
  rewrite Hi. cbn [bind].
  (* name *)
  assert (Hn : slice (rev rip ++ le_bytes 4 port ++ sn ++ [L] ++ name ++ extra) 41 (41 + N.to_nat L) = name).
  { rewrite app_assoc, (app_assoc _ sn), (app_assoc _ [L]). apply slice_at.
    - rewrite app_length, H40. reflexivity.
    - unfold L. rewrite Nat2N.id. lia. }
  rewrite Hn. unfold decode_utf8. rewrite (utf8_ascii name) by (rewrite Hname; apply ref_name_ascii; assumption).
  cbn [bind]. rewrite Hname at 1. rewrite ref_name_type by exact Hty. cbn [bind].
  destruct (hex2_facts ty Hty) as (_ & _ & Hpi). rewrite Hpi. cbn [bind]. reflexivity.
Qed.

(* any 40-byte header with the id at 20..26, ciphertext, 16 trailing bytes: the V2/V3 branch reads id and ciphertext *)
Lemma info_v23_shape ip ver pre20 id hdr14 c tag data :
  length pre20 = 20%nat -> length hdr14 = 14%nat -> length tag = 16%nat -> id < 2 ^ 48 ->
  (if ver =? 3 then slice_neg data DISC_STRIP_LO DISC_STRIP_TAIL else data) = (pre20 ++ le_bytes 6 id ++ hdr14) ++ c ++ tag ->
  forall P, decrypt_aes c = Ok P ->
  get_device_info_v23 ip ver data = catch (parse_payload ip ver id P) DISC_PARSE_CONVERTS (fun _ => Err EDiscover).
Proof.
  intros H20 H14 Htag Hid Hdata P Hdec. unfold get_device_info_v23. rewrite Hdata.
  unfold DISC_ENC_LO, DISC_ENC_TAIL, DISC_ID_LO, DISC_ID_HI.
  set (pre40 := pre20 ++ le_bytes 6 id ++ hdr14).
  assert (H40 : length pre40 = 40%nat) by (unfold pre40; rewrite !app_length, H20, H14, le_bytes_length; reflexivity).
  assert (Henc : slice_neg (pre40 ++ c ++ tag) 40 16 = c).
  { unfold slice_neg. cbn [Nat.eqb]. rewrite !app_length, H40, Htag.
    replace (40 + (length c + 16) - 16)%nat with (40 + length c)%nat by lia.
    apply slice_at; [exact H40|lia]. }
  assert (Hidb : slice (pre40 ++ c ++ tag) 20 26 = le_bytes 6 id).
  { unfold pre40. rewrite <- !app_assoc. apply slice_at; [exact H20|rewrite le_bytes_length; reflexivity]. }
  rewrite Henc, Hidb, Hdec. cbn [catch bind].
  rewrite from_le_le_bytes by (change (256 ^ N.of_nat 6) with (2 ^ 48); exact Hid). reflexivity.
Qed.

Definition reply_ok (hdr12 hdr14 : bytes) (id : N) (payload tail16 : bytes) : Prop :=
  length hdr12 = 12%nat /\ length hdr14 = 14%nat /\ id < 2 ^ 48 /\ wfb payload /\ N.of_nat (length payload) <= 60000
  /\ length tail16 = 16%nat.

Lemma reply_v2_shape hdr12 hdr14 id P :
  wfb P -> N.of_nat (length P) <= 60000 ->
  exists c l0 l1, decrypt_aes c = Ok P
    /\ ref_reply_v2 hdr12 hdr14 id P =
       Some ((([90; 90; 1; 17; l0; l1; 122; 128] ++ hdr12) ++ le_bytes 6 id ++ hdr14) ++ c
             ++ md5 (([90; 90; 1; 17] ++ [l0; l1] ++ [122; 128] ++ hdr12 ++ le_bytes 6 id ++ hdr14 ++ c) ++ SIGN_KEY)).
Proof.
  intros Hw Hl.
  destruct (ecb_dec_enc v2_key (pkcs7_pad P) (pkcs7_pad_wfb P Hw) (pkcs7_pad_length_mod P)) as (c & Hc & Hlen & Hwc & Hdec).
  assert (Hlb : exists l0 l1, le_bytes 2 (N.of_nat (40 + length c + 16)) = [l0; l1]) by (apply len2, le_bytes_length).
  destruct Hlb as (l0 & l1 & Hlb).
  exists c, l0, l1. split.
  - unfold decrypt_aes. rewrite enc_key_eq, Hdec. cbn [bind]. apply pkcs7_unpad_pad_any.
  - unfold ref_reply_v2. rewrite Hc. cbn [ok_or_none]. rewrite Hlb. f_equal. rewrite <- !app_assoc. reflexivity.
Qed.

Theorem reference_reply_v2_parsed ip hdr12 hdr14 id rip port sn name ty sfx extra :
  length hdr12 = 12%nat -> length hdr14 = 14%nat -> id < 2 ^ 48 ->
  length rip = 4%nat -> wfb rip -> port < 65536 -> length sn = 32%nat -> wfb sn -> utf8_valid sn = true -> ty < 256 ->
  Forall (fun b => b < 128) sfx -> name = ref_name ty sfx -> (length name < 256)%nat -> wfb extra ->
  N.of_nat (length extra) <= 50000 ->
  exists r, ref_discovery_reply 2 hdr12 hdr14 id rip port sn name extra [] = Some r
            /\ get_device_version 0 r = Ok 2
            /\ get_device_info ip 2 0 r = Ok (mkInfo ip port id name sn (Z.of_N ty) 2).
Proof.
  intros H12 H14 Hid Hrip Hwrip Hport Hsn Hwsn Hsnv Hty Hsfx Hname Hlen Hwex Hlex.
  set (P := ref_payload rip port sn name extra).
  assert (HwP : wfb P).
  { unfold P, ref_payload. apply wfb_app; [apply Forall_rev; exact Hwrip|]. apply wfb_app; [apply le_bytes_wfb|].
    apply wfb_app; [exact Hwsn|]. apply wfb_app; [repeat constructor; lia|].
    apply wfb_app; [|exact Hwex]. rewrite Hname. eapply Forall_impl; [|apply ref_name_ascii; eassumption].
    cbv beta. intros a Ha. lia. }
  assert (HlP : N.of_nat (length P) <= 60000).
  { unfold P, ref_payload. rewrite !app_length, rev_length, le_bytes_length, Hrip, Hsn. cbn [length]. lia. }
  destruct (reply_v2_shape hdr12 hdr14 id P HwP HlP) as (c & l0 & l1 & Hdec & Hr).
  eexists. split; [unfold ref_discovery_reply; cbn [N.eqb]; exact Hr|]. split.
  - reflexivity.
  - unfold get_device_info. cbn [N.eqb Pos.eqb].
    rewrite (info_v23_shape ip 2 ([90; 90; 1; 17; l0; l1; 122; 128] ++ hdr12) id hdr14 c _ _
               ltac:(rewrite app_length, H12; reflexivity) H14 (md5_length _) Hid eq_refl P Hdec).
    unfold P. rewrite (parse_reference_payload ip 2 id rip port sn name ty sfx extra) by assumption. reflexivity.
Qed.

Theorem reference_reply_v3_parsed ip hdr12 hdr14 id rip port sn name ty sfx extra tail16 :
  length hdr12 = 12%nat -> length hdr14 = 14%nat -> id < 2 ^ 48 ->
  length rip = 4%nat -> wfb rip -> port < 65536 -> length sn = 32%nat -> wfb sn -> utf8_valid sn = true -> ty < 256 ->
  Forall (fun b => b < 128) sfx -> name = ref_name ty sfx -> (length name < 256)%nat -> wfb extra ->
  N.of_nat (length extra) <= 50000 -> length tail16 = 16%nat ->
  exists r, ref_discovery_reply 3 hdr12 hdr14 id rip port sn name extra tail16 = Some r
            /\ get_device_version 0 r = Ok 3
            /\ get_device_info ip 3 0 r = Ok (mkInfo ip port id name sn (Z.of_N ty) 3).
Proof.
  intros H12 H14 Hid Hrip Hwrip Hport Hsn Hwsn Hsnv Hty Hsfx Hname Hlen Hwex Hlex Htail.
  set (P := ref_payload rip port sn name extra).
  assert (HwP : wfb P).
  { unfold P, ref_payload. apply wfb_app; [apply Forall_rev; exact Hwrip|]. apply wfb_app; [apply le_bytes_wfb|].
    apply wfb_app; [exact Hwsn|]. apply wfb_app; [repeat constructor; lia|].
    apply wfb_app; [|exact Hwex]. rewrite Hname. eapply Forall_impl; [|apply ref_name_ascii; eassumption].
    cbv beta. intros a Ha. lia. }
  assert (HlP : N.of_nat (length P) <= 60000).
  { unfold P, ref_payload. rewrite !app_length, rev_length, le_bytes_length, Hrip, Hsn. cbn [length]. lia. }
  destruct (reply_v2_shape hdr12 hdr14 id P HwP HlP) as (c & l0 & l1 & Hdec & Hr).
  unfold ref_discovery_reply, ref_reply_v3. cbn [N.eqb Pos.eqb]. fold P. rewrite Hr.
  eexists. split; [reflexivity|].
  assert (Hb : exists b0 b1, be_bytes 2 (N.of_nat (length ((([90; 90; 1; 17; l0; l1; 122; 128] ++ hdr12) ++ le_bytes 6 id ++ hdr14) ++ c
             ++ md5 (([90; 90; 1; 17] ++ [l0; l1] ++ [122; 128] ++ hdr12 ++ le_bytes 6 id ++ hdr14 ++ c) ++ SIGN_KEY)) + 16)) = [b0; b1]).
  { apply len2. unfold be_bytes. rewrite rev_length. apply le_bytes_length. }
  destruct Hb as (b0 & b1 & Hb). rewrite Hb. split; [reflexivity|].
  unfold get_device_info. cbn [N.eqb Pos.eqb].
  set (inner := (([90; 90; 1; 17; l0; l1; 122; 128] ++ hdr12) ++ le_bytes 6 id ++ hdr14) ++ c ++ md5 _).
  rewrite (info_v23_shape ip 3 ([90; 90; 1; 17; l0; l1; 122; 128] ++ hdr12) id hdr14 c (md5 (([90; 90; 1; 17] ++ [l0; l1] ++ [122; 128] ++ hdr12 ++ le_bytes 6 id ++ hdr14 ++ c) ++ SIGN_KEY)) _
             ltac:(rewrite app_length, H12; reflexivity) H14 (md5_length _) Hid) with (P := P).
  - unfold P. rewrite (parse_reference_payload ip 3 id rip port sn name ty sfx extra) by assumption. reflexivity.
  - cbn [N.eqb Pos.eqb]. fold inner. unfold DISC_STRIP_LO, DISC_STRIP_TAIL, slice_neg. cbn [Nat.eqb].
    change ([131; 112] ++ [b0; b1] ++ [32; 15; 0; 0] ++ inner ++ tail16) with ([131; 112; b0; b1; 32; 15; 0; 0] ++ inner ++ tail16).
    rewrite !app_length, Htail. cbn [length].
    replace (8 + (length inner + 16) - 16)%nat with (8 + length inner)%nat by lia.
    apply slice_at; [reflexivity|lia].
  - exact Hdec.
Qed.

(* class selection *)
Theorem class_is_ac ty : is_ac ty = true <-> ty = 172%Z.
Proof. unfold is_ac. change (Z.of_N DeviceType_AIR_CONDITIONER) with 172%Z. lia. Qed.

(* the probe: a length-consistent, correctly signed broadcast packet with a decryptable payload, to both ports *)
Lemma probe_answerable : ref_probe_ok DISCOVERY_MSG = true.
Proof. vm_compute. reflexivity. Qed.
Lemma probe_ports : DISCOVERY_PORTS = ref_probe_ports.
Proof. reflexivity. Qed.
Lemma probes_sent n : probes n = repeat (6445, DISCOVERY_MSG) n ++ repeat (20086, DISCOVERY_MSG) n.
Proof. unfold probes. cbn [DISCOVERY_PORTS flat_map]. rewrite app_nil_r. reflexivity. Qed.

(* through a whole run: a single well-formed reply is reported with the address it came from *)
Theorem single_reply_reported g i : g_xml g = 0 -> get_device_version 0 (g_data g) = Ok (i_version i) ->
  get_device_info (g_ip g) (i_version i) 0 (g_data g) = Ok i -> discover [g] = Ok [i].
Proof.
  intros Hx Hv Hi. rewrite discover_char. cbn [firsts mem existsb flat_map]. rewrite app_nil_r.
  unfold report, task_of. rewrite Hx, Hv. cbn [bind catch flat_map]. rewrite app_nil_r.
  unfold task_out. cbn [t_ip t_version t_xml t_data]. rewrite Hi. reflexivity.
Qed.
