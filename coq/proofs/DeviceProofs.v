(* Device-level consequences: rejected frames never change the exposed state (C13), and what an exchange
   delivers is exactly the decodable frames (C14). *)
From MS Require Import lib.Base gen.GenConst gen.GenCmd gen.GenDev model.Frame model.Command model.Response
  model.Device spec.RefFrame proofs.FrameProofs proofs.CommandProofs proofs.ResponseProofs.
From RecordUpdate Require Import RecordSet.
Import RecordSetNotations.
From Coq Require Import ZifyBool ZifyN ZifyNat.

Definition rejected (f : bytes) : Prop :=
  construct f = Err EInvalidFrame \/ construct f = Err EInvalidResponse.

Lemma valid_responses_all_rejected frames : Forall rejected frames -> valid_responses frames = Ok [].
Proof.
  induction 1 as [|f t [H|H] _ IH]; cbn [valid_responses]; [reflexivity| |]; rewrite H; exact IH.
Qed.

Section Rejected.
  Variable P : Type.
  Variable peer : P -> bytes -> P * list bytes.
  Hypothesis peer_rejected : forall p f, Forall rejected (snd (peer p f)).

  Lemma send_rejected w c : encodable c = true ->
    exists p' n', send_get_responses peer w c =
      (mkWorld (w_dev w <| d_supported := false |>) p' n' (w_sent w ++ [c]), Ok []).
  Proof.
    intros He. unfold send_get_responses.
    destruct (emit_succeeds (w_counter w) c He) as [f ->].
    pose proof (peer_rejected (w_peer w) f) as Hr.
    destruct (peer (w_peer w) f) as [p' frames]. cbn [snd] in Hr.
    rewrite (valid_responses_all_rejected frames Hr). cbn [length Nat.eqb negb].
    eexists; eexists; reflexivity.
  Qed.

  Lemma send_all_rejected cs : Forall (fun c => encodable c = true) cs -> cs <> [] -> forall w,
    exists p' n' sent, send_all peer w cs =
      (mkWorld (w_dev w <| d_supported := false |>) p' n' sent, Ok []).
  Proof.
    induction 1 as [|c t Hc Ht IH]; intros Hne w; [congruence|].
    cbn [send_all]. destruct (send_rejected w c Hc) as (p1 & n1 & ->).
    destruct t as [|c2 t'].
    - cbn [send_all]. eexists; eexists; eexists. reflexivity.
    - destruct (IH ltac:(discriminate) (mkWorld (w_dev w <| d_supported := false |>) p1 n1 (w_sent w ++ [c])))
        as (p2 & n2 & s2 & ->).
      cbn [w_dev app]. eexists; eexists; eexists. reflexivity.
  Qed.

  Lemma refresh_cmds_encodable d : (length (d_sup_props d) <= 120)%nat ->
    Forall (fun c => encodable c = true) (refresh_cmds d) /\ refresh_cmds d <> [].
  Proof.
    intros Hl. split; [|unfold refresh_cmds; discriminate].
    unfold refresh_cmds.
    apply Forall_app; split; [constructor; [vm_compute; reflexivity|constructor]|].
    apply Forall_app; split; [destruct (d_request_energy d); constructor; [vm_compute; reflexivity|constructor]|].
    apply Forall_app; split; [destruct (d_sup_humidity d); constructor; [vm_compute; reflexivity|constructor]|].
    destruct (d_sup_props d) as [|x l] eqn:E; constructor; [|constructor].
    apply encodable_get_props. exact Hl.
  Qed.

  (* A refresh that receives only rejected frames leaves every attribute as it was and reports the device
     offline and unsupported. *)
  Theorem refresh_all_rejected w : (length (d_sup_props (w_dev w)) <= 120)%nat ->
    exists w', refresh peer w = (w', None)
      /\ w_dev w' = w_dev w <| d_supported := false |> <| d_online := false |>.
  Proof.
    intros Hl. unfold refresh.
    destruct (refresh_cmds_encodable (w_dev w) Hl) as [He Hne].
    destruct (send_all_rejected _ He Hne w) as (p' & n' & s' & ->).
    eexists. split; [reflexivity|]. reflexivity.
  Qed.
End Rejected.

(* what an exchange delivers: exactly the frames construct accepts, in order (unless construct raises
   something other than the two rejection exceptions) *)
Definition accepted_of (f : bytes) : list response := match construct f with Ok r => [r] | Err _ => [] end.

Lemma valid_responses_filter frames :
  Forall (fun f => match construct f with Err e => e = EInvalidFrame \/ e = EInvalidResponse | Ok _ => True end) frames ->
  valid_responses frames = Ok (flat_map accepted_of frames).
Proof.
  induction 1 as [|f t Hf _ IH]; cbn [valid_responses flat_map]; [reflexivity|].
  unfold accepted_of at 1. destruct (construct f) as [r|e] eqn:E.
  - rewrite IH. reflexivity.
  - destruct Hf as [-> | ->]; exact IH.
Qed.
