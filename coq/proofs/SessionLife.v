(* The configured connection lifetime is counted from the moment the connection was made: nothing but a successful connect
   moves _connection_expiration (in particular a re-handshake on a live connection does not extend it). *)
From MS Require Import lib.Base gen.GenLan model.Session proofs.SessionProofs proofs.SessionHoare.
From Coq Require Import ZifyBool ZifyN ZifyNat.
Local Open Scope N_scope.

Definition lf {A} (m : M A) : Prop := forall w,
  (w_ncid w <= w_ncid (snd (m w)))%nat /\ l_maxlife (w_lan (snd (m w))) = l_maxlife (w_lan w) /\
  (w_ncid (snd (m w)) = w_ncid w -> l_cexp (w_lan (snd (m w))) = l_cexp (w_lan w)).

Lemma lf_ret {A} (a : A) : lf (ret a). Proof. intros w. cbn. auto. Qed.
Lemma lf_raise {A} e : lf (@raise A e). Proof. intros w. cbn. auto. Qed.
Lemma lf_get : lf get. Proof. intros w. cbn. auto. Qed.
Lemma lf_bind {A B} (m : M A) (f : A -> M B) : lf m -> (forall a, lf (f a)) -> lf (mbind m f).
Proof.
  intros Hm Hf w. unfold mbind. specialize (Hm w). destruct (m w) as [[a|e] w']; cbn [snd] in *; [|exact Hm].
  specialize (Hf a w'). destruct Hm as (H1 & H2 & H3), Hf as (G1 & G2 & G3). repeat split; [lia|congruence|].
  intros Hn. rewrite G3 by lia. apply H3. lia.
Qed.
Lemma lf_catch {A} (m : M A) cs h : lf m -> (forall e, lf (h e)) -> lf (mcatch m cs h).
Proof.
  intros Hm Hh w. unfold mcatch. specialize (Hm w). destruct (m w) as [[a|e] w']; cbn [snd] in *; [exact Hm|].
  destruct (existsb (subclass e) cs); [|exact Hm].
  specialize (Hh e w'). destruct Hm as (H1 & H2 & H3), Hh as (G1 & G2 & G3). repeat split; [lia|congruence|].
  intros Hn. rewrite G3 by lia. apply H3. lia.
Qed.
Lemma lf_set_lan f : (forall l, l_cexp (f l) = l_cexp l /\ l_maxlife (f l) = l_maxlife l) -> lf (set_lan f).
Proof. intros Hf w. cbn. destruct (Hf (w_lan w)) as [H1 H2]. auto. Qed.
Lemma lf_set_conn f : lf (set_conn f).
Proof. intros w. unfold set_conn. destruct (l_proto (w_lan w)); cbn; auto. Qed.
Lemma lf_advance t : lf (advance_to t).
Proof. unfold advance_to. apply lf_bind; [intros w; cbn; auto|]. intros _. apply lf_set_conn. Qed.
Lemma lf_the_conn : lf the_conn.
Proof. unfold the_conn. apply lf_bind; [apply lf_get|]. intros w. destruct (l_proto (w_lan w)); [apply lf_ret|apply lf_raise]. Qed.
Lemma lf_write k : lf (proto_write k).
Proof. intros w. unfold proto_write. destruct (l_proto (w_lan w)) as [c|]; [|cbn; auto]. destruct (write_refused k c); cbn; auto. Qed.
Lemma lf_accept kid : lf (accept_key kid).
Proof. intros w. unfold accept_key. destruct (l_proto (w_lan w)); cbn; auto. Qed.
Lemma lf_log e : lf (log e). Proof. intros w. cbn. auto. Qed.
Lemma lf_disconnect : lf lan_disconnect.
Proof.
  unfold lan_disconnect. apply lf_bind; [apply lf_get|]. intros w. destruct (l_proto (w_lan w)) as [c|]; [|apply lf_ret].
  apply lf_bind; [destruct (c_closing c); [apply lf_ret|apply lf_log]|]. intros _. apply lf_set_lan. intros l. cbn. auto.
Qed.
Lemma lf_connect : lf lan_connect.
Proof.
  intros w. cbv beta iota zeta delta [lan_connect mbind get]. destruct (hd ConnOk (w_conns w)); cbn [put raise snd fst].
  - cbn. repeat split; [lia|]. intros H. exfalso. lia.
  - cbn. auto.
  - match goal with |- context [advance_to ?t ?w0] => pose proof (lf_advance t w0) as H; destruct (advance_to t w0) as [[u|e] w'] end; exact H.
Qed.
Lemma lf_pop : lf pop_queue.
Proof.
  unfold pop_queue. apply lf_bind; [apply lf_the_conn|]. intros c. destruct (c_q c); [apply lf_raise|].
  apply lf_bind; [apply lf_set_conn|]. intros _. apply lf_ret.
Qed.
Lemma lf_read_queue b : lf (read_queue b).
Proof.
  unfold read_queue. apply lf_bind; [apply lf_the_conn|]. intros c. destruct (c_q c); [|apply lf_pop].
  destruct (negb b); [apply lf_raise|]. apply lf_bind; [apply lf_get|]. intros w. cbv zeta.
  assert (Hto : forall t, lf (advance_to t ;; @raise pkt ETimeout)) by (intros t; apply lf_bind; [apply lf_advance|intros _; apply lf_raise]).
  destruct (if c_closing c then None else first_arrival (c_in c)) as [a|]; [|apply Hto].
  destruct (a <? w_now w + READ_TIMEOUT); [|apply Hto].
  apply lf_bind; [apply lf_advance|]. intros _. apply lf_bind; [apply lf_set_conn|]. intros _. apply lf_pop.
Qed.
Lemma lf_proto_auth creds : lf (proto_authenticate creds).
Proof.
  unfold proto_authenticate. destruct creds as [g|]; [|apply lf_raise].
  apply lf_bind; [apply lf_set_conn|]. intros _. apply lf_bind.
  - apply lf_catch; [|intros e; apply lf_raise]. apply lf_bind; [apply lf_write|]. intros _. apply lf_read_queue.
  - intros p. destruct (as_hs g p); [apply lf_accept|apply lf_raise].
Qed.
Lemma lf_auth_loop r creds : lf (auth_loop r creds).
Proof.
  induction r as [|r IH]; cbn [auth_loop]; [apply lf_ret|].
  apply lf_catch; [apply lf_proto_auth|]. intros e. destruct r; [apply lf_raise|exact IH].
Qed.
Lemma lf_alive : lf lan_alive.
Proof. unfold lan_alive. apply lf_bind; [apply lf_get|]. intros w. apply lf_ret. Qed.
Lemma lf_authenticated : lf authenticated.
Proof. unfold authenticated. apply lf_bind; [apply lf_the_conn|]. intros c. apply lf_bind; [apply lf_get|]. intros w. apply lf_ret. Qed.
Theorem lf_lan_authenticate g r : lf (lan_authenticate g r).
Proof.
  unfold lan_authenticate.
  apply lf_bind; [apply lf_get|]. intros w0.
  apply lf_bind; [apply lf_alive|]. intros al.
  apply lf_bind; [apply lf_get|]. intros w1.
  apply lf_bind.
  { destruct (negb al || _); [|apply lf_ret]. apply lf_bind; [apply lf_disconnect|]. intros _.
    apply lf_bind; [apply lf_set_lan; intros l; cbn; auto|]. intros _. apply lf_connect. }
  intros _. apply lf_bind; [apply lf_auth_loop|]. intros _.
  apply lf_bind; [apply lf_authenticated|]. intros a.
  apply lf_bind; [destruct a; [apply lf_ret|apply lf_raise]|]. intros _.
  apply lf_bind; [apply lf_set_lan; intros l; cbn; auto|]. intros _.
  apply lf_bind; [apply lf_get|]. intros w2. apply lf_advance.
Qed.
Lemma lf_lan_read b : lf (lan_read b).
Proof.
  unfold lan_read. apply lf_bind; [apply lf_read_queue|]. intros p. apply lf_bind; [apply lf_the_conn|]. intros c.
  destruct (as_data c p); [apply lf_ret|apply lf_raise].
Qed.
Lemma lf_read_available f : forall acc, lf (read_available f acc).
Proof.
  induction f as [|f IH]; intros acc; cbn [read_available]; [apply lf_ret|].
  apply lf_catch; [|intros e; apply lf_ret]. apply lf_bind.
  - apply lf_catch; [|intros e; apply lf_ret]. apply lf_bind; [apply lf_lan_read|]. intros x. apply lf_ret.
  - intros r. apply IH.
Qed.
Lemma lf_queue_len : lf queue_len.
Proof. unfold queue_len. apply lf_bind; [apply lf_the_conn|]. intros c. apply lf_ret. Qed.
Lemma lf_send_loop r f : forall acc, lf (send_loop r f acc).
Proof.
  induction r as [|r IH]; intros acc; cbn [send_loop]; [apply lf_ret|].
  apply lf_bind; [apply lf_write|]. intros _. apply lf_bind.
  - apply lf_catch; [apply lf_catch; [apply lf_catch|]|].
    + apply lf_bind; [apply lf_lan_read|]. intros x. apply lf_ret.
    + intros e. destruct r; [apply lf_bind; [apply lf_disconnect|intros _; apply lf_raise]|apply lf_ret].
    + intros e. apply lf_bind; [apply lf_disconnect|intros _; apply lf_raise].
    + intros e. apply lf_bind; [apply lf_disconnect|intros _; apply lf_raise].
  - intros got. destruct got; [apply lf_ret|apply IH].
Qed.
Theorem lf_lan_send f r : lf (lan_send f r).
Proof.
  unfold lan_send.
  apply lf_bind; [apply lf_alive|]. intros al.
  apply lf_bind; [destruct al; [apply lf_ret|apply lf_bind; [apply lf_disconnect|intros _; apply lf_connect]]|]. intros _.
  apply lf_bind; [apply lf_the_conn|]. intros c.
  apply lf_bind.
  { destruct (c_v3 c); [|apply lf_ret]. apply lf_bind; [apply lf_authenticated|]. intros a. destruct a; [apply lf_ret|apply lf_lan_authenticate]. }
  intros _. apply lf_bind; [apply lf_queue_len|]. intros n0.
  apply lf_bind; [apply lf_read_available|]. intros pre.
  apply lf_bind; [apply lf_send_loop|]. intros got.
  apply lf_bind; [apply lf_queue_len|]. intros n1. apply lf_read_available.
Qed.
Lemma lf_dev_send f : lf (dev_send_command f).
Proof. unfold dev_send_command. apply lf_catch; [apply lf_lan_send|intros e; apply lf_ret]. Qed.
Lemma lf_dev_auth g : lf (dev_authenticate g).
Proof. unfold dev_authenticate. apply lf_catch; [apply lf_lan_authenticate|intros e; apply lf_raise]. Qed.

(* the only writer: a successful connect sets the expiry to now + the configured lifetime *)
Lemma connect_sets_expiry w w' : lan_connect w = (Ok tt, w') ->
  w_ncid w' = S (w_ncid w) /\ w_now w' = w_now w /\
  l_cexp (w_lan w') = match l_maxlife (w_lan w) with Some m => Some (w_now w + m) | None => l_cexp (w_lan w) end.
Proof.
  cbv beta iota zeta delta [lan_connect mbind get]. destruct (hd ConnOk (w_conns w)); cbn [put raise snd fst].
  - intros H. injection H as <-. cbn. auto.
  - intros H. discriminate.
  - destruct (advance_to _ _) as [[u|e] w1]; intros H; discriminate.
Qed.

(* whole histories: as long as no new connection is made, the connection's expiry time does not move - whatever is sent,
   re-authenticated, waited for or reconfigured in between *)
Lemma settle_frame w : w_ncid (settle w) = w_ncid w /\ l_cexp (w_lan (settle w)) = l_cexp (w_lan w).
Proof. unfold settle. pose proof (lf_set_conn (conn_deliver (w_now w + 1)) w) as (H1 & H2 & H3). unfold set_conn in *. destruct (l_proto (w_lan w)); cbn; auto. Qed.
Lemma run_op_frame o w : (w_ncid w <= w_ncid (snd (run_op o w)))%nat /\
  (w_ncid (snd (run_op o w)) = w_ncid w -> l_cexp (w_lan (snd (run_op o w))) = l_cexp (w_lan w)).
Proof.
  assert (Hraw : (w_ncid w <= w_ncid (snd (run_op_raw o w)))%nat /\
                 (w_ncid (snd (run_op_raw o w)) = w_ncid w -> l_cexp (w_lan (snd (run_op_raw o w))) = l_cexp (w_lan w))).
  { destruct o as [f r|g r|f|g|ms|ms]; cbn [run_op_raw].
    - pose proof (lf_lan_send f r w) as (H1 & _ & H3). destruct (lan_send f r w) as [[l|e] w']; cbn [snd] in *; auto.
    - pose proof (lf_lan_authenticate g r w) as (H1 & _ & H3). destruct (lan_authenticate g r w) as [[l|e] w']; cbn [snd] in *; auto.
    - pose proof (lf_dev_send f w) as (H1 & _ & H3). destruct (dev_send_command f w) as [[l|e] w']; cbn [snd] in *; auto.
    - pose proof (lf_dev_auth g w) as (H1 & _ & H3). destruct (dev_authenticate g w) as [[l|e] w']; cbn [snd] in *; auto.
    - pose proof (lf_advance (w_now w + ms) w) as (H1 & _ & H3). destruct (advance_to (w_now w + ms) w) as [x w']; cbn [snd] in *; auto.
    - cbn. auto. }
  unfold run_op. destruct (run_op_raw o w) as [r w']. cbn [snd] in *. destruct (settle_frame w') as [S1 S2]. rewrite S1, S2. exact Hraw.
Qed.
Theorem lifetime_counted_from_connect os : forall w,
  (w_ncid w <= w_ncid (snd (run_ops os w)))%nat /\
  (w_ncid (snd (run_ops os w)) = w_ncid w -> l_cexp (w_lan (snd (run_ops os w))) = l_cexp (w_lan w)).
Proof.
  induction os as [|o t IH]; intros w; cbn [run_ops]; [cbn; auto|].
  pose proof (run_op_frame o w) as [H1 H2]. destruct (run_op o w) as [r w1]. cbn [snd] in *.
  specialize (IH w1). destruct (run_ops t w1) as [rs w2]. cbn [snd] in *. destruct IH as [G1 G2].
  split; [lia|]. intros Hn. rewrite G2 by lia. apply H2. lia.
Qed.
