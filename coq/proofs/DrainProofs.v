(* C04: V3 stream reassembly is segmentation-independent (ported from the design-phase prototype). *)
From MS Require Import lib.Base model.Lan.
From Coq Require Import Arith.
Local Open Scope nat_scope.

Definition find := find2 131 112.
Notation step := rx_step.
Definition be16 (h l : N) : nat := N.to_nat (h * 256 + l)%N.
Lemma total_size_be16 b : total_size b = be16 (nth 2 b 0%N) (nth 3 b 0%N) + 8.
Proof. reflexivity. Qed.
Lemma step_unfold buf : step buf =
  match find buf with
  | None => None
  | Some s =>
    let b := skipn s buf in
    if length b <? 6 then None
    else let t := total_size b in
      if length b <? t then None
      else Some (firstn t b, skipn t b)
  end.
Proof. reflexivity. Qed.

(* ---- lemmas ---- *)
Lemma find_cons2 a b t : find (a::b::t) = if (N.eqb a 131 && N.eqb b 112)%bool then Some 0 else option_map S (find (b::t)).
Proof. reflexivity. Qed.
Lemma find_one a : find [a] = None. Proof. reflexivity. Qed.
Opaque find.

Lemma find_bound l s : find l = Some s -> s + 2 <= length l.
Proof.
  revert s; induction l as [|a t IH]; intros s.
  - Transparent find. unfold find; cbn [find2]. Opaque find. discriminate.
  - destruct t as [|b t']; [rewrite find_one; discriminate|]. rewrite find_cons2.
    destruct (N.eqb a 131 && N.eqb b 112)%bool.
    + intros H; injection H as <-. simpl. lia.
    + destruct (find (b::t')) as [k|] eqn:E; simpl; [|discriminate]. intros H; injection H as <-.
      specialize (IH _ eq_refl). simpl in *. lia.
Qed.

Lemma find_app l d s : find l = Some s -> find (l ++ d) = Some s.
Proof.
  revert s; induction l as [|a t IH]; intros s.
  - Transparent find. unfold find; cbn [find2]. Opaque find. discriminate.
  - destruct t as [|b t']; [rewrite find_one; discriminate|].
    change ((a :: b :: t') ++ d) with (a :: b :: (t' ++ d)). rewrite !find_cons2.
    destruct (N.eqb a 131 && N.eqb b 112)%bool; [auto|].
    destruct (find (b::t')) as [k|] eqn:E; simpl; [|discriminate]. intros H; injection H as <-.
    change (b :: t' ++ d) with ((b::t') ++ d). rewrite (IH _ eq_refl). reflexivity.
Qed.

Lemma step_len buf p rest : step buf = Some (p, rest) -> length rest + 8 <= length buf /\ length rest < length buf.
Proof.
  rewrite !step_unfold; cbv zeta. destruct (find buf) as [s|] eqn:F; [|discriminate].
  destruct (length (skipn s buf) <? 6) eqn:E6; [discriminate|].
  destruct (length (skipn s buf) <? total_size (skipn s buf)) eqn:Et; [discriminate|].
  intros [= <- <-]. apply Nat.ltb_ge in Et. rewrite !skipn_length in *.
  unfold total_size in *. lia.
Qed.

Lemma nth_app_lt (l d:bytes) i : i < length l -> nth i (l ++ d) 0%N = nth i l 0%N.
Proof. intros; now rewrite app_nth1. Qed.

(* an extraction on buf is also the extraction on buf ++ d *)
Lemma step_app buf d p rest : step buf = Some (p, rest) -> step (buf ++ d) = Some (p, rest ++ d).
Proof.
  rewrite !step_unfold; cbv zeta. destruct (find buf) as [s|] eqn:F; [|discriminate].
  rewrite (find_app _ d _ F). pose proof (find_bound _ _ F) as Hs.
  assert (Hsk: skipn s (buf ++ d) = skipn s buf ++ d).
  { rewrite skipn_app. replace (s - length buf) with 0 by lia. reflexivity. }
  rewrite Hsk. remember (skipn s buf) as b eqn:Hb.
  destruct (length b <? 6) eqn:E6; [discriminate|]. apply Nat.ltb_ge in E6.
  assert (Ht: total_size (b ++ d) = total_size b).
  { unfold total_size, nthb. rewrite !nth_app_lt by lia. reflexivity. }
  rewrite Ht. destruct (length b <? total_size b) eqn:Et; [discriminate|]. apply Nat.ltb_ge in Et.
  intros H; injection H as <- <-. rewrite app_length.
  replace (length b + length d <? 6) with false by (symmetry; apply Nat.ltb_ge; lia).
  replace (length b + length d <? total_size b) with false by (symmetry; apply Nat.ltb_ge; lia).
  rewrite firstn_app, skipn_app.
  replace (total_size b - length b) with 0 by lia. simpl. rewrite app_nil_r. reflexivity.
Qed.

(* fuel independence *)
Lemma drain_fuel f1 f2 buf q : length buf < f1 -> length buf < f2 -> drain f1 buf q = drain f2 buf q.
Proof.
  revert f2 buf q. induction f1 as [|f1 IH]; intros f2 buf q H1 H2; [lia|].
  destruct f2 as [|f2]; [lia|]. simpl. destruct buf as [|x xs]; [reflexivity|].
  destruct (step (x::xs)) as [[p rest]|] eqn:S; [|reflexivity].
  apply step_len in S. apply IH; simpl in *; lia.
Qed.

(* main: draining buf++d = drain buf first, then continue with d appended *)
Lemma drain_app f buf d q : length buf < f ->
  drain_all (buf ++ d) q = let '(r, q') := drain f buf q in drain_all (r ++ d) q'.
Proof.
  revert buf q. induction f as [|f IH]; intros buf q Hf; [lia|].
  simpl. destruct buf as [|x xs]; [reflexivity|].
  destruct (step (x::xs)) as [[p rest]|] eqn:S; [|reflexivity].
  pose proof (step_len _ _ _ S) as [_ Hl].
  specialize (IH rest (q ++ [p]) ltac:(simpl in *; lia)). rewrite <- IH.
  unfold drain_all at 1. cbn [drain]. 
  change ((x :: xs) ++ d) with (x :: xs ++ d). 
  change (x :: xs ++ d) with ((x :: xs) ++ d). rewrite (step_app _ d _ _ S).
  simpl app. unfold drain_all. apply drain_fuel.
  - pose proof (step_len _ _ _ (step_app _ d _ _ S)) as [_ H]. simpl in *. rewrite app_length in *. simpl in *. lia.
  - lia.
Qed.

Lemma drain_all_app buf d q :
  drain_all (buf ++ d) q = let '(r, q') := drain_all buf q in drain_all (r ++ d) q'.
Proof. unfold drain_all at 2. apply drain_app. lia. Qed.

Lemma fold_from_drained segs : forall buf q,
  fold_left data_received segs (drain_all buf q) = drain_all (buf ++ concat segs) q.
Proof.
  induction segs as [|d segs IH]; intros buf q; simpl.
  - now rewrite app_nil_r.
  - assert (E: data_received (drain_all buf q) d = drain_all (buf ++ d) q).
    { rewrite drain_all_app. unfold data_received. destruct (drain_all buf q) as [r q']. reflexivity. }
    rewrite E, IH, app_assoc. reflexivity.
Qed.

Theorem seg_indep segs : fold_left data_received segs ([], []) = drain_all (concat segs) [].
Proof. exact (fold_from_drained segs [] []). Qed.

Corollary seg_indep2 s1 s2 : concat s1 = concat s2 ->
  fold_left data_received s1 ([],[]) = fold_left data_received s2 ([],[]).
Proof. intros E. now rewrite !seg_indep, E. Qed.

