(* C07: invariants of every reachable session state, by induction over arbitrary operation histories. *)
From MS Require Import lib.Base gen.GenLan model.Session.
From Coq Require Import ZifyBool ZifyN ZifyNat.
Ltac Zify.zify_post_hook ::= Z.div_mod_to_equations.
Local Open Scope N_scope.

(* ---------- reading the log ---------- *)
Definition ev_cid (e : event) : nat :=
  match e with EvConnect c _ | EvHs c _ _ | EvData c _ _ _ | EvData2 c _ | EvAuthOk c _ | EvClose c => c end.

(* number of counted (V3) writes on a connection, and the session key established by the latest accepted handshake *)
Fixpoint nwrites (cid : nat) (log : list event) : nat :=
  match log with
  | [] => O
  | EvHs c _ _ :: t | EvData c _ _ _ :: t => (if Nat.eqb c cid then 1 else 0) + nwrites cid t
  | _ :: t => nwrites cid t
  end.
Fixpoint last_auth (cid : nat) (log : list event) (acc : option nat) : option nat :=
  match log with
  | [] => acc
  | EvAuthOk c k :: t => last_auth cid t (if Nat.eqb c cid then Some k else acc)
  | _ :: t => last_auth cid t acc
  end.

(* what must hold of an event given everything logged before it *)
Definition ok_event (pre : list event) (e : event) : Prop :=
  match e with
  | EvHs c p _ => p = N.of_nat (nwrites c pre) mod 4096
  | EvData c p k _ => p = N.of_nat (nwrites c pre) mod 4096 /\ last_auth c pre None = Some k
  | _ => True
  end.
(* the trace discipline: EVERY write carries the next counter of its connection, and every data packet is encrypted
   under the session key of the latest accepted handshake on its connection (in particular one exists: no data before
   a successful handshake) *)
Definition wf_log (log : list event) : Prop :=
  forall pre e post, log = pre ++ e :: post -> ok_event pre e.

Lemma nwrites_app cid a b : nwrites cid (a ++ b) = (nwrites cid a + nwrites cid b)%nat.
Proof. induction a as [|e a IH]; [reflexivity|]. destruct e; cbn [app nwrites]; rewrite ?IH; lia. Qed.
Lemma last_auth_app cid a b acc : last_auth cid (a ++ b) acc = last_auth cid b (last_auth cid a acc).
Proof. revert acc. induction a as [|e a IH]; intros acc; [reflexivity|]. destruct e; cbn [app last_auth]; apply IH. Qed.

Lemma wf_nil : wf_log [].
Proof. intros pre e post H. destruct pre; discriminate. Qed.

Lemma wf_snoc log e : wf_log log -> ok_event log e -> wf_log (log ++ [e]).
Proof.
  intros Hw He pre e' post H.
  destruct post as [|x post'] using rev_ind.
  - apply app_inj_tail in H. destruct H as [-> ->]. exact He.
  - clear IHpost'. rewrite app_comm_cons, app_assoc in H. apply app_inj_tail in H. destruct H as [H _].
    eapply Hw. exact H.
Qed.

(* ---------- the state invariant ---------- *)
Definition conn_ok (w : world) (c : conn) : Prop :=
  (c_id c < w_ncid w)%nat
  /\ (c_v3 c = true -> c_pid c = N.of_nat (nwrites (c_id c) (w_log w)) mod 4096)
  /\ c_key c = last_auth (c_id c) (w_log w) None.

Definition Inv (w : world) : Prop :=
  wf_log (w_log w)
  /\ Forall (fun e => (ev_cid e < w_ncid w)%nat) (w_log w)
  /\ match l_proto (w_lan w) with Some c => conn_ok w c | None => True end.

Lemma inv_init conns hsr replies : Inv (world_init conns hsr replies).
Proof. split; [apply wf_nil|]. split; [constructor|exact I]. Qed.

(* ---------- a small program logic for the state + exception monad ---------- *)
Definition pres {A} (m : M A) : Prop := forall w, Inv w -> Inv (snd (m w)).

Lemma pres_ret {A} (a : A) : pres (ret a). Proof. intros w H. exact H. Qed.
Lemma pres_raise {A} e : pres (@raise A e). Proof. intros w H. exact H. Qed.
Lemma pres_get : pres get. Proof. intros w H. exact H. Qed.
Lemma pres_bind {A B} (m : M A) (f : A -> M B) : pres m -> (forall a, pres (f a)) -> pres (mbind m f).
Proof.
  intros Hm Hf w H. unfold mbind. specialize (Hm w H). destruct (m w) as [[a|e] w']; cbn [snd] in *; [apply Hf, Hm|exact Hm].
Qed.
Lemma pres_catch {A} (m : M A) cs h : pres m -> (forall e, pres (h e)) -> pres (mcatch m cs h).
Proof.
  intros Hm Hh w H. unfold mcatch. specialize (Hm w H). destruct (m w) as [[a|e] w']; cbn [snd] in *; [exact Hm|].
  destruct (existsb (subclass e) cs); [apply Hh, Hm|exact Hm].
Qed.

(* updates of the connection that leave id, counter and key alone *)
Lemma pres_set_conn f :
  (forall c, c_id (f c) = c_id c /\ c_v3 (f c) = c_v3 c /\ c_pid (f c) = c_pid c /\ c_key (f c) = c_key c) ->
  pres (set_conn f).
Proof.
  intros Hf w (Hw & Hc & Hp). unfold set_conn, set_lan, upd. cbn [snd]. split; [exact Hw|]. split; [exact Hc|].
  cbn [w_lan l_proto]. destruct (l_proto (w_lan w)) as [c|]; cbn [option_map]; [|exact I].
  destruct (Hf c) as (H1 & H2 & H3 & H4). unfold conn_ok in *. cbn [w_ncid w_log]. rewrite H1, H2, H3, H4. exact Hp.
Qed.

Lemma pres_set_lan_keep f : (forall l, l_proto (f l) = l_proto l) -> pres (set_lan f).
Proof.
  intros Hf w (Hw & Hc & Hp). unfold set_lan, upd. cbn [snd]. split; [exact Hw|]. split; [exact Hc|].
  cbn [w_lan]. rewrite Hf. destruct (l_proto (w_lan w)); [exact Hp|exact I].
Qed.
Lemma pres_set_lan_none f : (forall l, l_proto (f l) = None) -> pres (set_lan f).
Proof.
  intros Hf w (Hw & Hc & Hp). unfold set_lan, upd. cbn [snd]. split; [exact Hw|]. split; [exact Hc|].
  cbn [w_lan]. rewrite Hf. exact I.
Qed.

Lemma conn_deliver_fields t c :
  c_id (conn_deliver t c) = c_id c /\ c_v3 (conn_deliver t c) = c_v3 c /\ c_pid (conn_deliver t c) = c_pid c
  /\ c_key (conn_deliver t c) = c_key c.
Proof. unfold conn_deliver. destruct (deliver t (c_in c) (c_q c) (c_closing c)) as [[r q] cl]. repeat split. Qed.

Lemma pres_advance t : pres (advance_to t).
Proof.
  unfold advance_to. apply pres_bind; [|intros _; apply pres_set_conn, conn_deliver_fields].
  intros w (Hw & Hc & Hp). unfold upd. cbn [snd]. split; [exact Hw|]. split; [exact Hc|exact Hp].
Qed.

Lemma pres_the_conn : pres the_conn.
Proof. unfold the_conn. apply pres_bind; [apply pres_get|]. intros w. destruct (l_proto (w_lan w)); [apply pres_ret|apply pres_raise]. Qed.

(* ---------- the primitives that touch the log ---------- *)
Lemma nwrites_snoc c log e : nwrites c (log ++ [e]) =
  (nwrites c log + match e with EvHs c' _ _ | EvData c' _ _ _ => if Nat.eqb c' c then 1 else 0 | _ => 0 end)%nat.
Proof. rewrite nwrites_app. destruct e; cbn [nwrites]; lia. Qed.
Lemma last_auth_snoc c log e : last_auth c (log ++ [e]) None =
  match e with EvAuthOk c' k => if Nat.eqb c' c then Some k else last_auth c log None | _ => last_auth c log None end.
Proof. rewrite last_auth_app. destruct e; reflexivity. Qed.

Lemma nwrites_fresh log n cid : Forall (fun e => (ev_cid e < n)%nat) log -> (n <= cid)%nat -> nwrites cid log = 0%nat.
Proof.
  induction 1 as [|e t He _ IH]; intros Hn; [reflexivity|].
  destruct e as [c v|c p g|c p k f|c f|c k|c]; cbn [nwrites ev_cid] in *; rewrite ?IH by assumption; try reflexivity;
    destruct (Nat.eqb_spec c cid); lia.
Qed.
Lemma last_auth_fresh log n cid : Forall (fun e => (ev_cid e < n)%nat) log -> (n <= cid)%nat -> last_auth cid log None = None.
Proof.
  induction 1 as [|e t He _ IH]; intros Hn; [reflexivity|].
  destruct e as [c v|c p g|c p k f|c f|c k|c]; cbn [last_auth ev_cid] in *; try (apply IH; assumption).
  destruct (Nat.eqb_spec c cid); [lia|apply IH; assumption].
Qed.

Lemma pres_disconnect : pres lan_disconnect.
Proof.
  intros w (Hw & Hc & Hp). unfold lan_disconnect, mbind, get.
  destruct (l_proto (w_lan w)) as [c|] eqn:E; [|cbn [ret snd]; split; [exact Hw|split; [exact Hc|rewrite E; exact I]]].
  destruct Hp as (H1 & H2 & H4).
  destruct (c_closing c); cbn [ret log upd set_lan snd fst mbind].
  - cbn. repeat split; assumption.
  - cbn. split; [apply wf_snoc; [exact Hw|exact I]|]. split; [|exact I].
    apply Forall_app. split; [exact Hc|]. constructor; [exact H1|constructor].
Qed.

Lemma mask_step x : N.land (x mod 4096 + 1) PACKET_ID_MASK = (x + 1) mod 4096.
Proof. change PACKET_ID_MASK with (N.ones 12). rewrite N.land_ones. change (2 ^ 12) with 4096. lia. Qed.

Lemma pres_write k : pres (proto_write k).
Proof.
  intros w (Hw & Hc & Hp). unfold proto_write.
  destruct (l_proto (w_lan w)) as [c|] eqn:E; [|cbn [snd]; split; [exact Hw|split; [exact Hc|rewrite E; exact I]]].
  assert (Hkeep : Inv w) by (split; [exact Hw|split; [exact Hc|rewrite E; exact Hp]]).
  destruct (write_refused k c) as [e|] eqn:Er; [exact Hkeep|]. cbn [snd].
  destruct Hp as (H1 & H2 & H4).
  assert (Hev : ok_event (w_log w) (write_event k c)).
  { unfold write_event, write_refused in *. destruct k as [g|f]; cbn [ok_event].
    - destruct (c_v3 c) eqn:Ev; [apply H2; reflexivity|discriminate].
    - destruct (c_v3 c) eqn:Ev; [|exact I]. split; [apply H2; reflexivity|].
      rewrite <- H4. destruct (c_key c) as [x|]; [reflexivity|discriminate]. }
  assert (Hcid : ev_cid (write_event k c) = c_id c).
  { unfold write_event. destruct k; [reflexivity|]. destruct (c_v3 c); reflexivity. }
  unfold write_world, Inv. cbn [w_log w_ncid w_lan l_proto].
  split; [apply wf_snoc; assumption|]. split.
  - apply Forall_app. split; [exact Hc|]. constructor; [rewrite Hcid; exact H1|constructor].
  - unfold conn_ok. cbn [c_id c_v3 c_pid c_key w_ncid w_log].
    split; [exact H1|]. split.
    + intros Hv3. rewrite Hv3. rewrite nwrites_snoc, (H2 Hv3).
      unfold write_event. destruct k as [g|f]; [|rewrite Hv3]; rewrite Nat.eqb_refl, mask_step; f_equal; lia.
    + rewrite last_auth_snoc. unfold write_event. destruct k as [g|f]; [exact H4|]. destruct (c_v3 c); exact H4.
Qed.

Lemma pres_accept kid : pres (accept_key kid).
Proof.
  intros w (Hw & Hc & Hp). unfold accept_key.
  destruct (l_proto (w_lan w)) as [c|] eqn:E; [|cbn [snd]; split; [exact Hw|split; [exact Hc|rewrite E; exact I]]].
  cbn [snd]. destruct Hp as (H1 & H2 & H4). unfold Inv. cbn [w_log w_ncid w_lan l_proto].
  split; [apply wf_snoc; [exact Hw|exact I]|]. split.
  - apply Forall_app. split; [exact Hc|]. constructor; [exact H1|constructor].
  - unfold conn_ok. cbn [c_id c_v3 c_pid c_key w_ncid w_log]. split; [exact H1|]. split.
    + intros Hv. rewrite nwrites_snoc. cbn. rewrite Nat.add_0_r. apply H2, Hv.
    + rewrite last_auth_snoc, Nat.eqb_refl. reflexivity.
Qed.

Lemma pres_connect : pres lan_connect.
Proof.
  intros w (Hw & Hc & Hp). unfold lan_connect, mbind, get.
  destruct (hd ConnOk (w_conns w)); cbn [put raise fst snd].
  - (* ConnOk: a fresh connection with a fresh id, counter 0, no key *)
    unfold Inv. cbn [w_log w_ncid w_lan l_proto].
    split; [apply wf_snoc; [exact Hw|exact I]|]. split.
    + apply Forall_app. split.
      * eapply Forall_impl; [|exact Hc]. cbn. intros e He. lia.
      * constructor; [cbn; lia|constructor].
    + unfold conn_ok. cbn [c_id c_v3 c_pid c_key w_ncid w_log]. split; [lia|]. split.
      * intros _. rewrite nwrites_snoc. cbn [Nat.add]. rewrite (nwrites_fresh _ _ _ Hc (Nat.le_refl _)). reflexivity.
      * rewrite last_auth_snoc. symmetry. apply (last_auth_fresh _ _ _ Hc (Nat.le_refl _)).
  - cbn. repeat split; assumption.
  - (* ConnHang: time passes, nothing else *)
    assert (Hi : Inv (mkWorld (w_lan w) (w_now w) (tl (w_conns w)) (w_hsr w) (w_replies w) (w_ncid w) (w_nkid w) (w_log w)))
      by (repeat split; assumption).
    pose proof (pres_advance (w_now w + CONNECT_TIMEOUT) _ Hi) as Ha.
    destruct (advance_to _ _) as [[u|e] w'] eqn:Ea; cbn [fst snd] in *; exact Ha.
Qed.

(* ---------- composition: everything else is built from the primitives above ---------- *)
Ltac pres_known := first [apply pres_write | apply pres_accept | apply pres_connect | apply pres_disconnect | apply pres_advance | apply pres_the_conn].

Ltac pres_fields :=
  intros ?; repeat split; try reflexivity;
  try (unfold conn_deliver_head; match goal with |- context [c_in ?c] => destruct (c_in c) as [|[? ?] ?] end; reflexivity).

Ltac pres_step :=
  first
  [ pres_known
  | apply pres_ret | apply pres_raise | apply pres_get
  | apply pres_set_conn; pres_fields
  | apply pres_set_lan_keep; intros ?; reflexivity
  | match goal with |- pres (mbind _ _) => apply pres_bind; [|intros ?] end
  | match goal with |- pres (mcatch _ _ _) => apply pres_catch; [|intros ?] end
  | progress cbv zeta
  | match goal with
    | |- pres (if ?c then _ else _) => destruct c
    | |- pres (match ?x with _ => _ end) => destruct x
    end ].
Ltac pres_auto := repeat pres_step.

Lemma pres_pop : pres pop_queue.
Proof. unfold pop_queue. pres_auto. Qed.
Ltac pres_known ::= first [apply pres_write | apply pres_accept | apply pres_connect | apply pres_disconnect | apply pres_advance | apply pres_the_conn | apply pres_pop].
Lemma pres_read_queue b : pres (read_queue b).
Proof. unfold read_queue. pres_auto. Qed.
Ltac pres_known ::= first [apply pres_write | apply pres_accept | apply pres_connect | apply pres_disconnect | apply pres_advance | apply pres_the_conn | apply pres_pop | apply pres_read_queue].
Lemma pres_lan_read b : pres (lan_read b).
Proof. unfold lan_read. pres_auto. Qed.
Ltac pres_known ::= first [apply pres_write | apply pres_accept | apply pres_connect | apply pres_disconnect | apply pres_advance | apply pres_the_conn | apply pres_pop | apply pres_read_queue | apply pres_lan_read].
Lemma pres_flush : pres flush.
Proof. unfold flush. pres_auto. Qed.
Ltac pres_known ::= first [apply pres_write | apply pres_accept | apply pres_connect | apply pres_disconnect | apply pres_advance | apply pres_the_conn | apply pres_pop | apply pres_read_queue | apply pres_lan_read | apply pres_flush].
Lemma pres_proto_auth creds : pres (proto_authenticate creds).
Proof. unfold proto_authenticate. pres_auto. Qed.
Ltac pres_known ::= first [apply pres_write | apply pres_accept | apply pres_connect | apply pres_disconnect | apply pres_advance | apply pres_the_conn | apply pres_pop | apply pres_read_queue | apply pres_lan_read | apply pres_flush | apply pres_proto_auth].
Lemma pres_authenticated : pres authenticated.
Proof. unfold authenticated. pres_auto. Qed.
Lemma pres_alive : pres lan_alive.
Proof. unfold lan_alive. pres_auto. Qed.
Ltac pres_known ::= first [apply pres_write | apply pres_accept | apply pres_connect | apply pres_disconnect | apply pres_advance | apply pres_the_conn | apply pres_pop | apply pres_read_queue | apply pres_lan_read | apply pres_flush | apply pres_proto_auth | apply pres_authenticated | apply pres_alive].
Lemma pres_auth_loop r creds : pres (auth_loop r creds).
Proof.
  induction r as [|r IH]; cbn [auth_loop]; [apply pres_ret|].
  apply pres_catch; [apply pres_proto_auth|]. intros e. destruct r; [apply pres_raise|exact IH].
Qed.
Ltac pres_known ::= first [apply pres_write | apply pres_accept | apply pres_connect | apply pres_disconnect | apply pres_advance | apply pres_the_conn | apply pres_pop | apply pres_read_queue | apply pres_lan_read | apply pres_flush | apply pres_proto_auth | apply pres_authenticated | apply pres_alive | apply pres_auth_loop].
Lemma pres_lan_auth g r : pres (lan_authenticate g r).
Proof. unfold lan_authenticate. pres_auto. Qed.
Ltac pres_known ::= first [apply pres_write | apply pres_accept | apply pres_connect | apply pres_disconnect | apply pres_advance | apply pres_the_conn | apply pres_pop | apply pres_read_queue | apply pres_lan_read | apply pres_flush | apply pres_proto_auth | apply pres_authenticated | apply pres_alive | apply pres_auth_loop | apply pres_lan_auth].
Lemma pres_read_available f : forall acc, pres (read_available f acc).
Proof. induction f as [|f IH]; intros acc; cbn [read_available]; pres_auto. all: try apply IH. Qed.
Lemma pres_queue_len : pres queue_len.
Proof. unfold queue_len. pres_auto. Qed.
Ltac pres_known ::= first [apply pres_write | apply pres_accept | apply pres_connect | apply pres_disconnect | apply pres_advance | apply pres_the_conn | apply pres_pop | apply pres_read_queue | apply pres_lan_read | apply pres_flush | apply pres_proto_auth | apply pres_authenticated | apply pres_alive | apply pres_auth_loop | apply pres_lan_auth | apply pres_read_available | apply pres_queue_len].
Lemma pres_send_loop r f : forall acc, pres (send_loop r f acc).
Proof. induction r as [|r IH]; intros acc; cbn [send_loop]; pres_auto. all: try apply IH. Qed.
Ltac pres_known ::= first [apply pres_write | apply pres_accept | apply pres_connect | apply pres_disconnect | apply pres_advance | apply pres_the_conn | apply pres_pop | apply pres_read_queue | apply pres_lan_read | apply pres_flush | apply pres_proto_auth | apply pres_authenticated | apply pres_alive | apply pres_auth_loop | apply pres_lan_auth | apply pres_read_available | apply pres_queue_len | apply pres_send_loop].
Lemma pres_lan_send f r : pres (lan_send f r).
Proof. unfold lan_send. pres_auto. Qed.
Ltac pres_known ::= first [apply pres_write | apply pres_accept | apply pres_connect | apply pres_disconnect | apply pres_advance | apply pres_the_conn | apply pres_pop | apply pres_read_queue | apply pres_lan_read | apply pres_flush | apply pres_proto_auth | apply pres_authenticated | apply pres_alive | apply pres_auth_loop | apply pres_lan_auth | apply pres_read_available | apply pres_queue_len | apply pres_send_loop | apply pres_lan_send].
Lemma pres_dev_send f : pres (dev_send_command f).
Proof. unfold dev_send_command. pres_auto. Qed.
Lemma pres_dev_auth g : pres (dev_authenticate g).
Proof. unfold dev_authenticate. pres_auto. Qed.

Lemma inv_settle w : Inv w -> Inv (settle w).
Proof. intros H. unfold settle. apply (pres_set_conn (conn_deliver (w_now w + 1))); [intros c; apply conn_deliver_fields|exact H]. Qed.

Lemma inv_run_op_raw o w : Inv w -> Inv (snd (run_op_raw o w)).
Proof.
  intros H. destruct o as [f r|g r|f|g|ms|ms]; cbn [run_op_raw].
  - pose proof (pres_lan_send f r w H). destruct (lan_send f r w) as [[l|e] w']; exact H0.
  - pose proof (pres_lan_auth g r w H). destruct (lan_authenticate g r w) as [[l|e] w']; exact H0.
  - pose proof (pres_dev_send f w H). destruct (dev_send_command f w) as [[l|e] w']; exact H0.
  - pose proof (pres_dev_auth g w H). destruct (dev_authenticate g w) as [[l|e] w']; exact H0.
  - pose proof (pres_advance (w_now w + ms) w H). destruct (advance_to _ w) as [r w']; exact H0.
  - assert (Hp : pres (set_lan (fun l => mkLan (l_proto l) (l_v3 l) (l_creds l) (l_cexp l) ms))) by (apply pres_set_lan_keep; reflexivity).
    pose proof (Hp w H). destruct (set_lan _ w) as [r w']; exact H0.
Qed.

Lemma inv_run_op o w : Inv w -> Inv (snd (run_op o w)).
Proof.
  intros H. unfold run_op. pose proof (inv_run_op_raw o w H) as H1. destruct (run_op_raw o w) as [r w']. cbn [snd] in *.
  apply inv_settle, H1.
Qed.

(* every reachable world satisfies the invariant: histories of ANY length over all operations, with ANY environment *)
Theorem inv_run_ops os : forall w, Inv w -> Inv (snd (run_ops os w)).
Proof.
  induction os as [|o t IH]; intros w H; cbn [run_ops]; [exact H|].
  pose proof (inv_run_op o w H) as H1. destruct (run_op o w) as [r w1]. cbn [snd] in H1.
  specialize (IH w1 H1). destruct (run_ops t w1) as [rs w2]. exact IH.
Qed.

Theorem reachable_inv conns hsr replies os : Inv (snd (run_ops os (world_init conns hsr replies))).
Proof. apply inv_run_ops, inv_init. Qed.

(* ---------- the log only grows ---------- *)
Definition grows {A} (m : M A) : Prop := forall w, exists evs, w_log (snd (m w)) = w_log w ++ evs.

Lemma grows_ret {A} (a : A) : grows (ret a). Proof. intros w. exists []. symmetry. apply app_nil_r. Qed.
Lemma grows_raise {A} e : grows (@raise A e). Proof. intros w. exists []. symmetry. apply app_nil_r. Qed.
Lemma grows_get : grows get. Proof. intros w. exists []. symmetry. apply app_nil_r. Qed.
Lemma grows_bind {A B} (m : M A) (f : A -> M B) : grows m -> (forall a, grows (f a)) -> grows (mbind m f).
Proof.
  intros Hm Hf w. unfold mbind. destruct (Hm w) as [e1 H1]. destruct (m w) as [[a|e] w']; cbn [snd] in *.
  - destruct (Hf a w') as [e2 H2]. exists (e1 ++ e2). rewrite H2, H1, app_assoc. reflexivity.
  - exists e1. exact H1.
Qed.
Lemma grows_catch {A} (m : M A) cs h : grows m -> (forall e, grows (h e)) -> grows (mcatch m cs h).
Proof.
  intros Hm Hh w. unfold mcatch. destruct (Hm w) as [e1 H1]. destruct (m w) as [[a|e] w']; cbn [snd] in *; [exists e1; exact H1|].
  destruct (existsb (subclass e) cs); [|exists e1; exact H1].
  destruct (Hh e w') as [e2 H2]. exists (e1 ++ e2). rewrite H2, H1, app_assoc. reflexivity.
Qed.
Lemma grows_set_lan f : grows (set_lan f).
Proof. intros w. exists []. cbn. symmetry. apply app_nil_r. Qed.
Lemma grows_set_conn f : grows (set_conn f).
Proof. apply grows_set_lan. Qed.
Lemma grows_advance t : grows (advance_to t).
Proof. unfold advance_to. apply grows_bind; [|intros _; apply grows_set_conn]. intros w. exists []. cbn. symmetry. apply app_nil_r. Qed.
Lemma grows_the_conn : grows the_conn.
Proof. unfold the_conn. apply grows_bind; [apply grows_get|]. intros w. destruct (l_proto (w_lan w)); [apply grows_ret|apply grows_raise]. Qed.
Lemma grows_log e : grows (log e).
Proof. intros w. exists [e]. reflexivity. Qed.
Lemma grows_write k : grows (proto_write k).
Proof.
  intros w. unfold proto_write. destruct (l_proto (w_lan w)) as [c|]; [|exists []; symmetry; apply app_nil_r].
  destruct (write_refused k c); [exists []; symmetry; apply app_nil_r|]. exists [write_event k c]. reflexivity.
Qed.
Lemma grows_accept kid : grows (accept_key kid).
Proof.
  intros w. unfold accept_key. destruct (l_proto (w_lan w)) as [c|]; [|exists []; symmetry; apply app_nil_r].
  exists [EvAuthOk (c_id c) kid]. reflexivity.
Qed.
Lemma grows_put_connect : grows lan_connect.
Proof.
  intros w. unfold lan_connect, mbind, get. destruct (hd ConnOk (w_conns w)); cbn [put raise fst snd].
  - eexists. reflexivity.
  - exists []. symmetry. apply app_nil_r.
  - destruct (grows_advance (w_now w + CONNECT_TIMEOUT)
               (mkWorld (w_lan w) (w_now w) (tl (w_conns w)) (w_hsr w) (w_replies w) (w_ncid w) (w_nkid w) (w_log w))) as [evs H].
    destruct (advance_to _ _) as [[u|e] w']; cbn [fst snd] in *; exists evs; exact H.
Qed.

Ltac grows_known := first [apply grows_write | apply grows_accept | apply grows_put_connect | apply grows_advance
                          | apply grows_the_conn | apply grows_log | apply grows_set_conn | apply grows_set_lan].
Ltac grows_step :=
  first
  [ grows_known
  | apply grows_ret | apply grows_raise | apply grows_get
  | match goal with |- grows (mbind _ _) => apply grows_bind; [|intros ?] end
  | match goal with |- grows (mcatch _ _ _) => apply grows_catch; [|intros ?] end
  | progress cbv zeta
  | match goal with
    | |- grows (if ?c then _ else _) => destruct c
    | |- grows (match ?x with _ => _ end) => destruct x
    end ].
Ltac grows_auto := repeat grows_step.

Lemma grows_disconnect : grows lan_disconnect. Proof. unfold lan_disconnect. grows_auto. Qed.
Lemma grows_pop : grows pop_queue. Proof. unfold pop_queue. grows_auto. Qed.
Ltac grows_known ::= first [apply grows_write | apply grows_accept | apply grows_put_connect | apply grows_advance
  | apply grows_the_conn | apply grows_log | apply grows_set_conn | apply grows_set_lan | apply grows_disconnect | apply grows_pop].
Lemma grows_read_queue b : grows (read_queue b). Proof. unfold read_queue. grows_auto. Qed.
Lemma grows_flush : grows flush. Proof. unfold flush. grows_auto. Qed.
Ltac grows_known ::= first [apply grows_write | apply grows_accept | apply grows_put_connect | apply grows_advance
  | apply grows_the_conn | apply grows_log | apply grows_set_conn | apply grows_set_lan | apply grows_disconnect | apply grows_pop
  | apply grows_read_queue | apply grows_flush].
Lemma grows_lan_read b : grows (lan_read b). Proof. unfold lan_read. grows_auto. Qed.
Lemma grows_proto_auth creds : grows (proto_authenticate creds). Proof. unfold proto_authenticate. grows_auto. Qed.
Lemma grows_authenticated : grows authenticated. Proof. unfold authenticated. grows_auto. Qed.
Lemma grows_alive : grows lan_alive. Proof. unfold lan_alive. grows_auto. Qed.
Ltac grows_known ::= first [apply grows_write | apply grows_accept | apply grows_put_connect | apply grows_advance
  | apply grows_the_conn | apply grows_log | apply grows_set_conn | apply grows_set_lan | apply grows_disconnect | apply grows_pop
  | apply grows_read_queue | apply grows_flush | apply grows_lan_read | apply grows_proto_auth | apply grows_authenticated | apply grows_alive].
Lemma grows_auth_loop r creds : grows (auth_loop r creds).
Proof.
  induction r as [|r IH]; cbn [auth_loop]; [apply grows_ret|].
  apply grows_catch; [apply grows_proto_auth|]. intros e. destruct r; [apply grows_raise|exact IH].
Qed.
Ltac grows_known ::= first [apply grows_write | apply grows_accept | apply grows_put_connect | apply grows_advance
  | apply grows_the_conn | apply grows_log | apply grows_set_conn | apply grows_set_lan | apply grows_disconnect | apply grows_pop
  | apply grows_read_queue | apply grows_flush | apply grows_lan_read | apply grows_proto_auth | apply grows_authenticated | apply grows_alive
  | apply grows_auth_loop].
Lemma grows_lan_auth g r : grows (lan_authenticate g r). Proof. unfold lan_authenticate. grows_auto. Qed.
Lemma grows_read_available f : forall acc, grows (read_available f acc).
Proof. induction f as [|f IH]; intros acc; cbn [read_available]; grows_auto. all: try apply IH. Qed.
Lemma grows_queue_len : grows queue_len. Proof. unfold queue_len. grows_auto. Qed.
Ltac grows_known ::= first [apply grows_write | apply grows_accept | apply grows_put_connect | apply grows_advance
  | apply grows_the_conn | apply grows_log | apply grows_set_conn | apply grows_set_lan | apply grows_disconnect | apply grows_pop
  | apply grows_read_queue | apply grows_flush | apply grows_lan_read | apply grows_proto_auth | apply grows_authenticated | apply grows_alive
  | apply grows_auth_loop | apply grows_lan_auth | apply grows_read_available | apply grows_queue_len].
Lemma grows_send_loop r f : forall acc, grows (send_loop r f acc).
Proof. induction r as [|r IH]; intros acc; cbn [send_loop]; grows_auto. all: try apply IH. Qed.
Ltac grows_known ::= first [apply grows_write | apply grows_accept | apply grows_put_connect | apply grows_advance
  | apply grows_the_conn | apply grows_log | apply grows_set_conn | apply grows_set_lan | apply grows_disconnect | apply grows_pop
  | apply grows_read_queue | apply grows_flush | apply grows_lan_read | apply grows_proto_auth | apply grows_authenticated | apply grows_alive
  | apply grows_auth_loop | apply grows_lan_auth | apply grows_read_available | apply grows_queue_len | apply grows_send_loop].
Lemma grows_lan_send f r : grows (lan_send f r). Proof. unfold lan_send. grows_auto. Qed.

(* ---------- an exchange that starts unauthenticated starts with a handshake ---------- *)
Definition is_write (e : event) : bool := match e with EvHs _ _ _ | EvData _ _ _ _ | EvData2 _ _ => true | _ => false end.
Definition is_hs (e : event) : bool := match e with EvHs _ _ _ => true | _ => false end.
Definition quiet (evs : list event) : Prop := filter is_write evs = [].
(* the first packet written, if any, is a handshake request *)
Definition hs_first (evs : list event) : Prop :=
  match filter is_write evs with [] => True | e :: _ => is_hs e = true end.

Lemma quiet_app a b : quiet a -> quiet b -> quiet (a ++ b).
Proof. unfold quiet. intros Ha Hb. rewrite filter_app, Ha, Hb. reflexivity. Qed.
Lemma quiet_app_inv a b : quiet (a ++ b) -> quiet a /\ quiet b.
Proof. unfold quiet. rewrite filter_app. intros H. apply app_eq_nil in H. exact H. Qed.
Lemma hs_first_quiet_l a b : quiet a -> hs_first b -> hs_first (a ++ b).
Proof. unfold quiet, hs_first. intros Ha Hb. rewrite filter_app, Ha. exact Hb. Qed.
Lemma hs_first_loud_l a b : hs_first a -> ~ quiet a -> hs_first (a ++ b).
Proof.
  unfold quiet, hs_first. intros Ha Hn. rewrite filter_app. destruct (filter is_write a); [congruence|exact Ha].
Qed.
Lemma hs_first_app_quiet a b : hs_first a -> quiet b -> hs_first (a ++ b).
Proof. unfold quiet, hs_first. intros Ha Hb. rewrite filter_app, Hb, app_nil_r. exact Ha. Qed.
Lemma quiet_hs_first a : quiet a -> hs_first a.
Proof. unfold quiet, hs_first. intros ->. exact I. Qed.
Lemma quiet_dec a : quiet a \/ ~ quiet a.
Proof. unfold quiet. destruct (filter is_write a); [left; reflexivity|right; discriminate]. Qed.

Definition is_err {A} (r : res A) : Prop := match r with Err _ => True | Ok _ => False end.
Definition quietm {A} (m : M A) : Prop := forall w, exists evs, w_log (snd (m w)) = w_log w ++ evs /\ quiet evs.
(* strict: handshake first, and if nothing at all was written then the computation failed *)
Definition strict {A} (m : M A) : Prop :=
  forall w, exists evs, w_log (snd (m w)) = w_log w ++ evs /\ hs_first evs /\ (quiet evs -> is_err (fst (m w))).

Lemma strict_raise {A} e : strict (@raise A e).
Proof. intros w. exists []. split; [symmetry; apply app_nil_r|]. split; [exact I|intros _; exact I]. Qed.

Lemma strict_bind_grows {A B} (m : M A) (f : A -> M B) : strict m -> (forall a, grows (f a)) -> strict (mbind m f).
Proof.
  intros Hm Hf w. unfold mbind. destruct (Hm w) as (e1 & H1 & Hh & Hq). destruct (m w) as [[a|e] w']; cbn [fst snd] in *.
  - destruct (Hf a w') as [e2 H2]. exists (e1 ++ e2). rewrite H2, H1, app_assoc. split; [reflexivity|].
    destruct (quiet_dec e1) as [Q|Q]; [destruct (Hq Q)|]. split; [apply hs_first_loud_l; assumption|].
    intros Hq'. apply quiet_app_inv in Hq'. tauto.
  - exists e1. repeat split; try assumption; try (intros _; exact I).
Qed.

Lemma strict_bind_quiet {A B} (m : M A) (f : A -> M B) : strict m -> (forall a, quietm (f a)) -> strict (mbind m f).
Proof.
  intros Hm Hf w. unfold mbind. destruct (Hm w) as (e1 & H1 & Hh & Hq). destruct (m w) as [[a|e] w']; cbn [fst snd] in *.
  - destruct (Hf a w') as (e2 & H2 & Q2). exists (e1 ++ e2). rewrite H2, H1, app_assoc. split; [reflexivity|].
    split; [apply hs_first_app_quiet; assumption|]. intros Hq'. apply quiet_app_inv in Hq'. destruct (Hq (proj1 Hq')).
  - exists e1. repeat split; try assumption; try (intros _; exact I).
Qed.

Lemma quiet_bind_strict {A B} (m : M A) (f : A -> M B) : quietm m -> (forall a, strict (f a)) -> strict (mbind m f).
Proof.
  intros Hm Hf w. unfold mbind. destruct (Hm w) as (e1 & H1 & Q1). destruct (m w) as [[a|e] w']; cbn [fst snd] in *.
  - destruct (Hf a w') as (e2 & H2 & Hh & Hq). exists (e1 ++ e2). rewrite H2, H1, app_assoc. split; [reflexivity|].
    split; [apply hs_first_quiet_l; assumption|]. intros Hq'. apply quiet_app_inv in Hq'. apply Hq, Hq'.
  - exists e1. split; [exact H1|]. split; [apply quiet_hs_first, Q1|intros _; exact I].
Qed.

Lemma strict_catch {A} (m : M A) cs h : strict m -> (forall e, strict (h e)) -> strict (mcatch m cs h).
Proof.
  intros Hm Hh w. unfold mcatch. destruct (Hm w) as (e1 & H1 & Hf & Hq). destruct (m w) as [[a|e] w']; cbn [fst snd] in *.
  - exists e1. repeat split; assumption.
  - destruct (existsb (subclass e) cs).
    + destruct (Hh e w') as (e2 & H2 & Hf2 & Hq2). exists (e1 ++ e2). rewrite H2, H1, app_assoc. split; [reflexivity|].
      destruct (quiet_dec e1) as [Q|Q].
      * split; [apply hs_first_quiet_l; assumption|]. intros Hq'. apply quiet_app_inv in Hq'. apply Hq2, Hq'.
      * split; [apply hs_first_loud_l; assumption|]. intros Hq'. apply quiet_app_inv in Hq'. tauto.
    + exists e1. repeat split; try assumption; try (intros _; exact I).
Qed.

Lemma quietm_ret {A} (a : A) : quietm (ret a).
Proof. intros w. exists []. split; [symmetry; apply app_nil_r|reflexivity]. Qed.
Lemma quietm_raise {A} e : quietm (@raise A e).
Proof. intros w. exists []. split; [symmetry; apply app_nil_r|reflexivity]. Qed.
Lemma quietm_get : quietm get.
Proof. intros w. exists []. split; [symmetry; apply app_nil_r|reflexivity]. Qed.
Lemma quietm_bind {A B} (m : M A) (f : A -> M B) : quietm m -> (forall a, quietm (f a)) -> quietm (mbind m f).
Proof.
  intros Hm Hf w. unfold mbind. destruct (Hm w) as (e1 & H1 & Q1). destruct (m w) as [[a|e] w']; cbn [snd] in *.
  - destruct (Hf a w') as (e2 & H2 & Q2). exists (e1 ++ e2). rewrite H2, H1, app_assoc. split; [reflexivity|apply quiet_app; assumption].
  - exists e1. split; assumption.
Qed.
Lemma quietm_set_lan f : quietm (set_lan f).
Proof. intros w. exists []. split; [cbn; symmetry; apply app_nil_r|reflexivity]. Qed.
Lemma quietm_advance t : quietm (advance_to t).
Proof.
  unfold advance_to. apply quietm_bind; [|intros _; apply quietm_set_lan].
  intros w. exists []. split; [cbn; symmetry; apply app_nil_r|reflexivity].
Qed.
Lemma quietm_the_conn : quietm the_conn.
Proof. unfold the_conn. apply quietm_bind; [apply quietm_get|]. intros w. destruct (l_proto (w_lan w)); [apply quietm_ret|apply quietm_raise]. Qed.
Lemma quietm_disconnect : quietm lan_disconnect.
Proof.
  unfold lan_disconnect. apply quietm_bind; [apply quietm_get|]. intros w. destruct (l_proto (w_lan w)) as [c|]; [|apply quietm_ret].
  apply quietm_bind; [|intros _; apply quietm_set_lan].
  destruct (c_closing c); [apply quietm_ret|]. intros w'. exists [EvClose (c_id c)]. split; reflexivity.
Qed.
Lemma quietm_connect : quietm lan_connect.
Proof.
  intros w. unfold lan_connect, mbind, get. destruct (hd ConnOk (w_conns w)); cbn [put raise fst snd].
  - eexists. split; reflexivity.
  - exists []. split; [symmetry; apply app_nil_r|reflexivity].
  - destruct (quietm_advance (w_now w + CONNECT_TIMEOUT)
               (mkWorld (w_lan w) (w_now w) (tl (w_conns w)) (w_hsr w) (w_replies w) (w_ncid w) (w_nkid w) (w_log w))) as (evs & H & Q).
    destruct (advance_to _ _) as [[u|e] w']; cbn [fst snd] in *; exists evs; split; assumption.
Qed.
Lemma quietm_alive : quietm lan_alive.
Proof. unfold lan_alive. apply quietm_bind; [apply quietm_get|]. intros w. apply quietm_ret. Qed.
Lemma quietm_authenticated : quietm authenticated.
Proof. unfold authenticated. apply quietm_bind; [apply quietm_the_conn|]. intros c. apply quietm_bind; [apply quietm_get|]. intros w. apply quietm_ret. Qed.
Lemma quietm_flush : quietm flush.
Proof. apply quietm_set_lan. Qed.

Lemma strict_write_hs g : strict (proto_write (WHs g)).
Proof.
  intros w. unfold proto_write. destruct (l_proto (w_lan w)) as [c|].
  - destruct (write_refused (WHs g) c).
    + exists []. split; [symmetry; apply app_nil_r|]. split; [exact I|intros _; exact I].
    + exists [EvHs (c_id c) (c_pid c) g]. split; [reflexivity|]. split; [reflexivity|]. intros Q. discriminate Q.
  - exists []. split; [symmetry; apply app_nil_r|]. split; [exact I|intros _; exact I].
Qed.

Lemma strict_proto_auth creds : strict (proto_authenticate creds).
Proof.
  unfold proto_authenticate. destruct creds as [g|]; [|apply strict_raise].
  apply quiet_bind_strict; [apply quietm_flush|]. intros _.
  apply strict_bind_grows.
  - apply strict_catch; [|intros e; apply strict_raise].
    apply strict_bind_grows; [apply strict_write_hs|]. intros _. apply grows_read_queue.
  - intros p. destruct (as_hs g p); [apply grows_accept|apply grows_raise].
Qed.

Lemma strict_auth_loop r creds : strict (auth_loop (S r) creds).
Proof.
  induction r as [|r IH]; cbn [auth_loop] in *.
  - apply strict_catch; [apply strict_proto_auth|]. intros e. apply strict_raise.
  - apply strict_catch; [apply strict_proto_auth|]. intros e. exact IH.
Qed.

Lemma strict_lan_auth g r : strict (lan_authenticate g (S r)).
Proof.
  unfold lan_authenticate.
  apply quiet_bind_strict; [apply quietm_get|]. intros w0.
  apply quiet_bind_strict; [apply quietm_alive|]. intros al.
  apply quiet_bind_strict; [apply quietm_get|]. intros w.
  apply quiet_bind_strict.
  { destruct (negb al || negb _); [|apply quietm_ret].
    apply quietm_bind; [apply quietm_disconnect|]. intros _.
    apply quietm_bind; [apply quietm_set_lan|]. intros _. apply quietm_connect. }
  intros _. apply strict_bind_quiet; [apply strict_auth_loop|]. intros _.
  apply quietm_bind; [apply quietm_authenticated|]. intros a.
  apply quietm_bind; [destruct a; [apply quietm_ret|apply quietm_raise]|]. intros _.
  apply quietm_bind; [apply quietm_set_lan|]. intros _.
  apply quietm_bind; [apply quietm_get|]. intros w2. apply quietm_advance.
Qed.

(* the state of a LAN object at the start of an exchange *)
Definition conn_unauth (now : N) (c : conn) : Prop :=
  c_v3 c = true /\ match c_key c, c_lexp c with Some _, Some e => e < now | _, _ => True end.

Lemma authenticated_eq w : authenticated w =
  match l_proto (w_lan w) with
  | Some c => (Ok (match c_key c, c_lexp c with Some _, Some e => negb (e <? w_now w) | _, _ => false end), w)
  | None => (Err EAssert, w)
  end.
Proof.
  unfold authenticated, the_conn. unfold mbind at 1. unfold mbind at 1. unfold get at 1. cbv beta iota.
  destruct (l_proto (w_lan w)) as [c|]; [|reflexivity]. unfold ret at 1. cbv beta iota. reflexivity.
Qed.

Lemma authenticated_false w c : l_proto (w_lan w) = Some c -> conn_unauth (w_now w) c -> authenticated w = (Ok false, w).
Proof.
  intros E [_ Hu]. rewrite authenticated_eq, E.
  destruct (c_key c); [|reflexivity]. destruct (c_lexp c) as [e|]; [|reflexivity].
  destruct (e <? w_now w) eqn:El; [reflexivity|lia].
Qed.

Definition send_rest (frame : N) (retries : nat) : M (list N) :=
  dom n0 <- queue_len;
  dom pre <- read_available (S n0) [];
  dom got <- send_loop retries frame pre;
  dom n1 <- queue_len;
  read_available (S n1) got.
Lemma grows_send_rest f r : grows (send_rest f r).
Proof. unfold send_rest. grows_auto. Qed.

(* the part of LAN.send after the connection has been (re)established *)
Definition send_mid (frame : N) (retries : nat) : M (list N) :=
  dom c <- the_conn;
  (if c_v3 c then dom a <- authenticated; (if a then ret tt else lan_authenticate None (N.to_nat LAN_RETRIES)) else ret tt) ;;
  send_rest frame retries.

Lemma lan_send_unfold f r : lan_send f r =
  (dom al <- lan_alive; (if al then ret tt else lan_disconnect ;; lan_connect) ;; send_mid f r).
Proof. reflexivity. Qed.

Lemma send_mid_unauth f r w :
  match l_proto (w_lan w) with Some c => conn_unauth (w_now w) c | None => True end ->
  exists evs, w_log (snd (send_mid f r w)) = w_log w ++ evs /\ hs_first evs.
Proof.
  intros H. unfold send_mid. unfold mbind at 1. unfold the_conn, mbind at 1, get. cbn [fst snd].
  destruct (l_proto (w_lan w)) as [c|] eqn:E; cbn [ret raise fst snd].
  2:{ exists []. split; [symmetry; apply app_nil_r|exact I]. }
  destruct H as [Hv Hu]. rewrite Hv.
  assert (Hs : strict (lan_authenticate None (N.to_nat LAN_RETRIES))) by (change (N.to_nat LAN_RETRIES) with 3%nat; apply strict_lan_auth).
  assert (Hall : strict (lan_authenticate None (N.to_nat LAN_RETRIES) ;; send_rest f r)).
  { apply strict_bind_grows; [exact Hs|]. intros _. apply grows_send_rest. }
  unfold mbind at 1. unfold mbind at 1.
  rewrite (authenticated_false w c E (conj Hv Hu)). cbn [fst snd].
  destruct (Hall w) as (evs & Hl & Hf & _). exists evs. split; [exact Hl|exact Hf].
Qed.

Lemma mbind_ok {A B} (m : M A) (f : A -> M B) w a w1 : m w = (Ok a, w1) -> mbind m f w = f a w1.
Proof. intros H. unfold mbind. rewrite H. reflexivity. Qed.
Lemma mbind_err {A B} (m : M A) (f : A -> M B) w e w1 : m w = (Err e, w1) -> mbind m f w = (Err e, w1).
Proof. intros H. unfold mbind. rewrite H. reflexivity. Qed.

Definition alive_b (w : world) : bool :=
  match l_proto (w_lan w) with
  | Some c => negb (c_closing c) && match l_cexp (w_lan w) with Some e => negb (e <? w_now w) | None => true end
  | None => false
  end.
Lemma lan_alive_eq w : lan_alive w = (Ok (alive_b w), w).
Proof. reflexivity. Qed.

Lemma disconnect_post w : exists wd evs, lan_disconnect w = (Ok tt, wd) /\ l_proto (w_lan wd) = None
  /\ l_v3 (w_lan wd) = l_v3 (w_lan w) /\ w_now wd = w_now w /\ w_log wd = w_log w ++ evs /\ quiet evs.
Proof.
  cbv beta iota zeta delta [lan_disconnect mbind get].
  destruct (l_proto (w_lan w)) as [c|] eqn:E.
  - destruct (c_closing c).
    + eexists. exists []. cbn. repeat split. symmetry. apply app_nil_r.
    + eexists. exists [EvClose (c_id c)]. cbn. repeat split.
  - exists w, []. unfold ret. repeat split; try assumption. symmetry. apply app_nil_r.
Qed.

Lemma connect_post wd : l_proto (w_lan wd) = None ->
  (exists e w' evs, lan_connect wd = (Err e, w') /\ w_log w' = w_log wd ++ evs /\ quiet evs)
  \/ (exists wc c evs, lan_connect wd = (Ok tt, wc) /\ l_proto (w_lan wc) = Some c /\ c_v3 c = l_v3 (w_lan wd) /\ c_key c = None
                      /\ w_now wc = w_now wd /\ w_log wc = w_log wd ++ evs /\ quiet evs).
Proof.
  intros Hn. cbv beta iota zeta delta [lan_connect mbind get].
  destruct (hd ConnOk (w_conns wd)).
  - right. eexists. eexists. eexists. unfold put. split; [reflexivity|]. cbn. repeat split.
  - left. exists EProtocol. eexists. exists []. cbn. split; [reflexivity|]. split; [symmetry; apply app_nil_r|reflexivity].
  - left. exists ETimeout.
    destruct (quietm_advance (w_now wd + CONNECT_TIMEOUT)
               (mkWorld (w_lan wd) (w_now wd) (tl (w_conns wd)) (w_hsr wd) (w_replies wd) (w_ncid wd) (w_nkid wd) (w_log wd))) as (evs & H & Q).
    unfold put. cbv beta iota.
    destruct (advance_to _ _) as [[u|e] w'] eqn:Ea; cbn [fst snd] in *.
    + eexists. exists evs. unfold raise. split; [reflexivity|]. split; assumption.
    + exfalso. unfold advance_to, mbind, upd, set_conn, set_lan in Ea. cbn in Ea. discriminate.
Qed.

(* C07, expiry clause: if at the start of an exchange the V3 connection is missing, closing, past its lifetime, or
   its authentication is missing or older than 12 h, then the first packet the exchange writes - if it writes any -
   is a handshake request (after a reconnect: on the new connection) *)
Theorem exchange_starts_with_handshake f r w :
  l_v3 (w_lan w) = true ->
  (alive_b w = false \/ match l_proto (w_lan w) with Some c => conn_unauth (w_now w) c | None => True end) ->
  exists evs, w_log (snd (lan_send f r w)) = w_log w ++ evs /\ hs_first evs.
Proof.
  intros Hv3 Hentry. rewrite lan_send_unfold. rewrite (mbind_ok _ _ _ _ _ (lan_alive_eq w)).
  destruct (alive_b w) eqn:Eal.
  - (* alive: the connection is kept, so it is the authentication that is missing or expired *)
    destruct Hentry as [Hf|Hu]; [discriminate|].
    rewrite (mbind_ok (ret tt) _ w tt w eq_refl). apply send_mid_unauth. exact Hu.
  - (* not alive: disconnect, connect anew *)
    destruct (disconnect_post w) as (wd & e1 & Hd & Hdn & Hdv & Hdt & Hdl & Q1).
    destruct (connect_post wd Hdn) as [(e & w' & e2 & Hc & Hl2 & Q2)|(wc & c & e2 & Hc & Hcp & Hcv & Hck & Hct & Hl2 & Q2)].
    + assert (Hdc : (lan_disconnect ;; lan_connect) w = (Err e, w')) by (rewrite (mbind_ok _ _ _ _ _ Hd); exact Hc).
      rewrite (mbind_err _ _ _ _ _ Hdc). cbn [snd]. exists (e1 ++ e2). rewrite Hl2, Hdl, app_assoc. split; [reflexivity|].
      apply quiet_hs_first, quiet_app; assumption.
    + assert (Hdc : (lan_disconnect ;; lan_connect) w = (Ok tt, wc)) by (rewrite (mbind_ok _ _ _ _ _ Hd); exact Hc).
      rewrite (mbind_ok _ _ _ _ _ Hdc).
      destruct (send_mid_unauth f r wc) as (e3 & H3 & F3).
      { rewrite Hcp. split; [rewrite Hcv, Hdv; exact Hv3|]. rewrite Hck. exact I. }
      exists (e1 ++ e2 ++ e3). rewrite H3, Hl2, Hdl, !app_assoc. split; [reflexivity|].
      rewrite <- app_assoc. apply hs_first_quiet_l; [exact Q1|]. apply hs_first_quiet_l; assumption.
Qed.

(* a data packet's key is that of an EARLIER accepted handshake on the same connection *)
Lemma last_auth_in c l : forall acc k, last_auth c l acc = Some k -> In (EvAuthOk c k) l \/ acc = Some k.
Proof.
  induction l as [|e t IH]; intros acc k H; cbn [last_auth] in H; [right; exact H|].
  destruct e as [c0 v|c0 p g|c0 p k0 f|c0 f|c0 k0|c0];
    try (destruct (IH _ _ H) as [Hin|Ha]; [left; right; exact Hin|right; exact Ha]).
  destruct (Nat.eqb_spec c0 c) as [->|Hne].
  - destruct (IH _ _ H) as [Hin|Ha]; [left; right; exact Hin|]. injection Ha as ->. left. left. reflexivity.
  - destruct (IH _ _ H) as [Hin|Ha]; [left; right; exact Hin|right; exact Ha].
Qed.

Theorem data_after_handshake log pre c p k f post : wf_log log -> log = pre ++ EvData c p k f :: post ->
  In (EvAuthOk c k) pre /\ p = N.of_nat (nwrites c pre) mod 4096.
Proof.
  intros Hw E. destruct (Hw pre _ post E) as [Hp Hl]. split; [|exact Hp].
  destruct (last_auth_in c pre None k Hl) as [H|H]; [exact H|discriminate].
Qed.
