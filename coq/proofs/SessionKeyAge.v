(* The 12 h life of a session key counts from the handshake that produced it: nothing but an accepted handshake (EvAuthOk) sets
   _local_key_expiration; exchanges, failures, waiting, reconnects can only keep it or drop it. *)
From MS Require Import lib.Base gen.GenLan model.Session proofs.SessionProofs proofs.SessionHoare.
Local Open Scope N_scope.

Definition is_authok (e : event) : bool := match e with EvAuthOk _ _ => true | _ => false end.
Definition nauth (evs : list event) : nat := length (filter is_authok evs).
Lemma nauth_app a b : nauth (a ++ b) = (nauth a + nauth b)%nat.
Proof. unfold nauth. rewrite filter_app, app_length. reflexivity. Qed.
Definition lexp_of (w : world) : option N := match l_proto (w_lan w) with Some c => c_lexp c | None => None end.

Definition kf {A} (m : M A) : Prop := forall w, exists evs,
  w_log (snd (m w)) = w_log w ++ evs /\ (nauth evs = 0%nat -> lexp_of (snd (m w)) = lexp_of w \/ lexp_of (snd (m w)) = None).

Lemma kf_same {A} (m : M A) : (forall w, w_log (snd (m w)) = w_log w /\ (lexp_of (snd (m w)) = lexp_of w \/ lexp_of (snd (m w)) = None)) -> kf m.
Proof. intros H w. exists []. destruct (H w) as [H1 H2]. rewrite app_nil_r. auto. Qed.
Lemma kf_ret {A} (a : A) : kf (ret a). Proof. apply kf_same. intros w. cbn. auto. Qed.
Lemma kf_raise {A} e : kf (@raise A e). Proof. apply kf_same. intros w. cbn. auto. Qed.
Lemma kf_get : kf get. Proof. apply kf_same. intros w. cbn. auto. Qed.
Lemma kf_seq {A B} (m : M A) (f : A -> M B) w w1 :
  (exists evs, w_log w1 = w_log w ++ evs /\ (nauth evs = 0%nat -> lexp_of w1 = lexp_of w \/ lexp_of w1 = None)) ->
  forall w2, (exists evs, w_log w2 = w_log w1 ++ evs /\ (nauth evs = 0%nat -> lexp_of w2 = lexp_of w1 \/ lexp_of w2 = None)) ->
  exists evs, w_log w2 = w_log w ++ evs /\ (nauth evs = 0%nat -> lexp_of w2 = lexp_of w \/ lexp_of w2 = None).
Proof.
  intros (e1 & L1 & K1) w2 (e2 & L2 & K2). exists (e1 ++ e2). split; [rewrite L2, L1, app_assoc; reflexivity|].
  rewrite nauth_app. intros Hn. assert (nauth e1 = 0%nat /\ nauth e2 = 0%nat) as [N1 N2] by lia.
  destruct (K2 N2) as [E2|E2]; [|right; exact E2]. destruct (K1 N1) as [E1|E1]; [left|right]; congruence.
Qed.
Lemma kf_bind {A B} (m : M A) (f : A -> M B) : kf m -> (forall a, kf (f a)) -> kf (mbind m f).
Proof.
  intros Hm Hf w. unfold mbind. specialize (Hm w). destruct (m w) as [[a|e] w1]; cbn [snd] in *; [|exact Hm].
  exact (kf_seq m f w w1 Hm _ (Hf a w1)).
Qed.
Lemma kf_catch {A} (m : M A) cs h : kf m -> (forall e, kf (h e)) -> kf (mcatch m cs h).
Proof.
  intros Hm Hh w. unfold mcatch. specialize (Hm w). destruct (m w) as [[a|e] w1]; cbn [snd] in *; [exact Hm|].
  destruct (existsb (subclass e) cs); [|exact Hm]. exact (kf_seq m (fun _ => m) w w1 Hm _ (Hh e w1)).
Qed.
Lemma kf_set_conn f : (forall c, c_lexp (f c) = c_lexp c) -> kf (set_conn f).
Proof. intros Hf. apply kf_same. intros w. unfold set_conn, lexp_of. cbn. destruct (l_proto (w_lan w)); cbn; [rewrite Hf|]; auto. Qed.
Lemma conn_deliver_lexp t c : c_lexp (conn_deliver t c) = c_lexp c.
Proof. unfold conn_deliver. destruct (deliver t (c_in c) (c_q c) (c_closing c)) as [[r q] cl]. reflexivity. Qed.
Lemma conn_deliver_head_lexp c : c_lexp (conn_deliver_head c) = c_lexp c.
Proof. unfold conn_deliver_head. destruct (c_in c) as [|[a p] rest]; reflexivity. Qed.
Lemma kf_advance t : kf (advance_to t).
Proof. unfold advance_to. apply kf_bind; [apply kf_same; intros w; cbn; auto|]. intros _. apply kf_set_conn, conn_deliver_lexp. Qed.
Lemma kf_the_conn : kf the_conn.
Proof. unfold the_conn. apply kf_bind; [apply kf_get|]. intros w. destruct (l_proto (w_lan w)); [apply kf_ret|apply kf_raise]. Qed.
Lemma write_event_not_auth k c : is_authok (write_event k c) = false.
Proof. destruct k; cbn; [reflexivity|destruct (c_v3 c); reflexivity]. Qed.
Lemma kf_write k : kf (proto_write k).
Proof.
  intros w. unfold proto_write. destruct (l_proto (w_lan w)) as [c|] eqn:Hc; [|exists []; rewrite app_nil_r; cbn; auto].
  destruct (write_refused k c); [exists []; rewrite app_nil_r; cbn; auto|].
  exists [write_event k c]. cbn [snd]. split; [reflexivity|]. intros _. left. unfold lexp_of, write_world. cbn. rewrite Hc. reflexivity.
Qed.
Lemma kf_accept kid : kf (accept_key kid).
Proof.
  intros w. unfold accept_key. destruct (l_proto (w_lan w)) as [c|]; [|exists []; rewrite app_nil_r; cbn; auto].
  exists [EvAuthOk (c_id c) kid]. cbn [snd]. split; [reflexivity|]. intros H. discriminate H.
Qed.
Lemma kf_log e : is_authok e = false -> kf (log e).
Proof. intros He w. exists [e]. split; [reflexivity|]. intros _. left. reflexivity. Qed.
Lemma kf_set_lan_keep f : (forall l, l_proto (f l) = l_proto l) -> kf (set_lan f).
Proof. intros Hf. apply kf_same. intros w. unfold lexp_of. cbn. rewrite Hf. auto. Qed.
Lemma kf_disconnect : kf lan_disconnect.
Proof.
  unfold lan_disconnect. apply kf_bind; [apply kf_get|]. intros w. destruct (l_proto (w_lan w)) as [c|]; [|apply kf_ret].
  apply kf_bind; [destruct (c_closing c); [apply kf_ret|apply kf_log; reflexivity]|]. intros _.
  apply kf_same. intros w'. unfold lexp_of. cbn. auto.
Qed.
Lemma kf_connect : kf lan_connect.
Proof.
  intros w. cbv beta iota zeta delta [lan_connect mbind get]. destruct (hd ConnOk (w_conns w)); cbn [put raise snd fst].
  - exists [EvConnect (w_ncid w) (l_v3 (w_lan w))]. split; [reflexivity|]. intros _. right. reflexivity.
  - exists []. rewrite app_nil_r. cbn. auto.
  - match goal with |- context [advance_to ?t ?w0] => pose proof (kf_advance t w0) as H; destruct (advance_to t w0) as [[u|e] w'] end; exact H.
Qed.
Lemma kf_pop : kf pop_queue.
Proof.
  unfold pop_queue. apply kf_bind; [apply kf_the_conn|]. intros c. destruct (c_q c); [apply kf_raise|].
  apply kf_bind; [apply kf_set_conn; reflexivity|]. intros _. apply kf_ret.
Qed.
Lemma kf_read_queue b : kf (read_queue b).
Proof.
  unfold read_queue. apply kf_bind; [apply kf_the_conn|]. intros c. destruct (c_q c); [|apply kf_pop].
  destruct (negb b); [apply kf_raise|]. apply kf_bind; [apply kf_get|]. intros w. cbv zeta.
  assert (Hto : forall t, kf (advance_to t ;; @raise pkt ETimeout)) by (intros t; apply kf_bind; [apply kf_advance|intros _; apply kf_raise]).
  destruct (if c_closing c then None else first_arrival (c_in c)) as [a|]; [|apply Hto].
  destruct (a <? w_now w + READ_TIMEOUT); [|apply Hto].
  apply kf_bind; [apply kf_advance|]. intros _. apply kf_bind; [apply kf_set_conn, conn_deliver_head_lexp|]. intros _. apply kf_pop.
Qed.
Lemma kf_proto_auth creds : kf (proto_authenticate creds).
Proof.
  unfold proto_authenticate. destruct creds as [g|]; [|apply kf_raise].
  apply kf_bind; [apply kf_set_conn; reflexivity|]. intros _. apply kf_bind.
  - apply kf_catch; [|intros e; apply kf_raise]. apply kf_bind; [apply kf_write|]. intros _. apply kf_read_queue.
  - intros p. destruct (as_hs g p); [apply kf_accept|apply kf_raise].
Qed.
Lemma kf_auth_loop r creds : kf (auth_loop r creds).
Proof.
  induction r as [|r IH]; cbn [auth_loop]; [apply kf_ret|].
  apply kf_catch; [apply kf_proto_auth|]. intros e. destruct r; [apply kf_raise|exact IH].
Qed.
Lemma kf_alive : kf lan_alive.
Proof. unfold lan_alive. apply kf_bind; [apply kf_get|]. intros w. apply kf_ret. Qed.
Lemma kf_authenticated : kf authenticated.
Proof. unfold authenticated. apply kf_bind; [apply kf_the_conn|]. intros c. apply kf_bind; [apply kf_get|]. intros w. apply kf_ret. Qed.
Theorem kf_lan_authenticate g r : kf (lan_authenticate g r).
Proof.
  unfold lan_authenticate.
  apply kf_bind; [apply kf_get|]. intros w0. apply kf_bind; [apply kf_alive|]. intros al. apply kf_bind; [apply kf_get|]. intros w1.
  apply kf_bind.
  { destruct (negb al || _); [|apply kf_ret]. apply kf_bind; [apply kf_disconnect|]. intros _.
    apply kf_bind; [apply kf_set_lan_keep; reflexivity|]. intros _. apply kf_connect. }
  intros _. apply kf_bind; [apply kf_auth_loop|]. intros _.
  apply kf_bind; [apply kf_authenticated|]. intros a.
  apply kf_bind; [destruct a; [apply kf_ret|apply kf_raise]|]. intros _.
  apply kf_bind; [apply kf_set_lan_keep; reflexivity|]. intros _.
  apply kf_bind; [apply kf_get|]. intros w2. apply kf_advance.
Qed.
Lemma kf_lan_read b : kf (lan_read b).
Proof.
  unfold lan_read. apply kf_bind; [apply kf_read_queue|]. intros p. apply kf_bind; [apply kf_the_conn|]. intros c.
  destruct (as_data c p); [apply kf_ret|apply kf_raise].
Qed.
Lemma kf_read_available f : forall acc, kf (read_available f acc).
Proof.
  induction f as [|f IH]; intros acc; cbn [read_available]; [apply kf_ret|].
  apply kf_catch; [|intros e; apply kf_ret]. apply kf_bind.
  - apply kf_catch; [|intros e; apply kf_ret]. apply kf_bind; [apply kf_lan_read|]. intros x. apply kf_ret.
  - intros r. apply IH.
Qed.
Lemma kf_queue_len : kf queue_len.
Proof. unfold queue_len. apply kf_bind; [apply kf_the_conn|]. intros c. apply kf_ret. Qed.
Lemma kf_send_loop r f : forall acc, kf (send_loop r f acc).
Proof.
  induction r as [|r IH]; intros acc; cbn [send_loop]; [apply kf_ret|].
  apply kf_bind; [apply kf_write|]. intros _. apply kf_bind.
  - apply kf_catch; [apply kf_catch; [apply kf_catch|]|].
    + apply kf_bind; [apply kf_lan_read|]. intros x. apply kf_ret.
    + intros e. destruct r; [apply kf_bind; [apply kf_disconnect|intros _; apply kf_raise]|apply kf_ret].
    + intros e. apply kf_bind; [apply kf_disconnect|intros _; apply kf_raise].
    + intros e. apply kf_bind; [apply kf_disconnect|intros _; apply kf_raise].
  - intros got. destruct got; [apply kf_ret|apply IH].
Qed.
Theorem kf_lan_send f r : kf (lan_send f r).
Proof.
  unfold lan_send.
  apply kf_bind; [apply kf_alive|]. intros al.
  apply kf_bind; [destruct al; [apply kf_ret|apply kf_bind; [apply kf_disconnect|intros _; apply kf_connect]]|]. intros _.
  apply kf_bind; [apply kf_the_conn|]. intros c.
  apply kf_bind.
  { destruct (c_v3 c); [|apply kf_ret]. apply kf_bind; [apply kf_authenticated|]. intros a. destruct a; [apply kf_ret|apply kf_lan_authenticate]. }
  intros _. apply kf_bind; [apply kf_queue_len|]. intros n0.
  apply kf_bind; [apply kf_read_available|]. intros pre.
  apply kf_bind; [apply kf_send_loop|]. intros got.
  apply kf_bind; [apply kf_queue_len|]. intros n1. apply kf_read_available.
Qed.
Lemma kf_dev_send f : kf (dev_send_command f).
Proof. unfold dev_send_command. apply kf_catch; [apply kf_lan_send|intros e; apply kf_ret]. Qed.
Lemma kf_dev_auth g : kf (dev_authenticate g).
Proof. unfold dev_authenticate. apply kf_catch; [apply kf_lan_authenticate|intros e; apply kf_raise]. Qed.

(* the only writer: accepting a handshake reply sets the expiry to now + 12 h *)
Lemma accept_sets_key_expiry kid w w' : accept_key kid w = (Ok tt, w') -> lexp_of w' = Some (w_now w + AUTH_EXP_MS).
Proof. unfold accept_key, lexp_of. destruct (l_proto (w_lan w)) as [c|]; [|discriminate]. intros H. injection H as <-. reflexivity. Qed.

Lemma settle_kf w : w_log (settle w) = w_log w /\ lexp_of (settle w) = lexp_of w.
Proof. unfold settle, set_conn, lexp_of. cbn. destruct (l_proto (w_lan w)); cbn; [rewrite conn_deliver_lexp|]; auto. Qed.
Lemma run_op_kf o w : exists evs, w_log (snd (run_op o w)) = w_log w ++ evs /\
  (nauth evs = 0%nat -> lexp_of (snd (run_op o w)) = lexp_of w \/ lexp_of (snd (run_op o w)) = None).
Proof.
  assert (Hraw : exists evs, w_log (snd (run_op_raw o w)) = w_log w ++ evs /\
                 (nauth evs = 0%nat -> lexp_of (snd (run_op_raw o w)) = lexp_of w \/ lexp_of (snd (run_op_raw o w)) = None)).
  { destruct o as [f r|g r|f|g|ms|ms]; cbn [run_op_raw].
    - pose proof (kf_lan_send f r w) as H. destruct (lan_send f r w) as [[l|e] w']; exact H.
    - pose proof (kf_lan_authenticate g r w) as H. destruct (lan_authenticate g r w) as [[l|e] w']; exact H.
    - pose proof (kf_dev_send f w) as H. destruct (dev_send_command f w) as [[l|e] w']; exact H.
    - pose proof (kf_dev_auth g w) as H. destruct (dev_authenticate g w) as [[l|e] w']; exact H.
    - pose proof (kf_advance (w_now w + ms) w) as H. destruct (advance_to (w_now w + ms) w) as [x w']; exact H.
    - exists []. rewrite app_nil_r. cbn. auto. }
  unfold run_op. destruct (run_op_raw o w) as [r w']. cbn [snd] in *. destruct (settle_kf w') as [S1 S2]. rewrite S1, S2. exact Hraw.
Qed.
Theorem key_age_counted_from_handshake os : forall w, exists evs,
  w_log (snd (run_ops os w)) = w_log w ++ evs /\
  (nauth evs = 0%nat -> lexp_of (snd (run_ops os w)) = lexp_of w \/ lexp_of (snd (run_ops os w)) = None).
Proof.
  induction os as [|o t IH]; intros w; cbn [run_ops]; [exists []; rewrite app_nil_r; cbn; auto|].
  pose proof (run_op_kf o w) as H1. destruct (run_op o w) as [r w1]. cbn [snd] in *.
  specialize (IH w1). destruct (run_ops t w1) as [rs w2]. cbn [snd] in *.
  exact (kf_seq (@ret unit tt) (fun _ => ret tt) w w1 H1 w2 IH).
Qed.
