(* C10: the reference decoder inverts the control body on the whole settable domain. *)
From MS Require Import lib.Base gen.GenConst gen.GenCmd gen.GenDev model.Frame model.Command model.Response model.Device
  spec.RefAC proofs.FrameProofs.
From Coq Require Import ZifyBool ZifyN ZifyNat.
Ltac Zify.zify_post_hook ::= Z.div_mod_to_equations.

(* the state a caller asks for, read off a ctrl record *)
Definition req_of (c : ctrl) : request := {|
  q_power := c_power c; q_beep := c_beep c; q_mode := c_mode c;
  q_target := 2 * Z.to_N (c_tint c) + (if c_tfrac c then 1 else 0);
  q_fan := c_fan c; q_swing := c_swing c; q_turbo := c_turbo c; q_follow_me := c_follow_me c;
  q_eco := c_eco c; q_purifier := c_purifier c; q_aux_heat := c_aux_heat c; q_sleep := c_sleep c;
  q_fahrenheit := c_fahrenheit c; q_humidity := c_humidity c; q_freeze := c_freeze c;
  q_indep_aux := c_indep_aux c |}.

(* the settable domain of the property: 13.0 .. 43.5 C, fan byte 0..127, mode 0..7, swing nibble, humidity 0..127;
   force_aux_heat is not a settable attribute (apply never sets it) *)
Definition valid_ctrl (c : ctrl) : Prop :=
  (13 <= c_tint c <= 43)%Z /\ c_mode c < 8 /\ c_fan c < 128 /\ c_swing c < 16 /\ c_humidity c < 128
  /\ c_force_aux c = false.

Definition tints : list Z := map Z.of_nat (seq 13 31).
Lemma in_tints t : (13 <= t <= 43)%Z -> In t tints.
Proof. intros H. unfold tints. apply in_map_iff. exists (Z.to_nat t). split; [lia|]. apply in_seq. lia. Qed.

(* byte 1 *)
Lemma byte1 beep power :
  bitb (N.lor (N.lor CONTROL_SOURCE (flag beep 64)) (flag power 1)) 0 = power
  /\ bitb (N.lor (N.lor CONTROL_SOURCE (flag beep 64)) (flag power 1)) 6 = beep.
Proof. destruct beep, power; vm_compute; split; reflexivity. Qed.

(* bytes 2 and 18 together: setpoint, half bit, mode *)
Definition enc_b2 (t : Z) (frac : bool) (mode : N) : N :=
  let prim := andb (17 <=? t)%Z (t <=? 30)%Z in
  N.lor (N.lor (if prim then N.land (Z.to_N (t - 16)) 15 else 0) (flag frac 16)) (N.shiftl (N.land mode 7) 5).
Definition enc_b18 (t : Z) : N :=
  if andb (17 <=? t)%Z (t <=? 30)%Z then 0 else Z.to_N (Z.land (t - 12) 31).
Definition dec_target (b2 b18 : N) : N :=
  let alt := N.land b18 31 in
  2 * (if alt =? 0 then N.land b2 15 + 16 else alt + 12) + (if bitb b2 4 then 1 else 0).

Definition check_b2 (t : Z) (frac : bool) (mode : N) : bool :=
  implb (mode <? 8)
    ((dec_target (enc_b2 t frac mode) (enc_b18 t) =? 2 * Z.to_N t + (if frac then 1 else 0))
     && (N.shiftr (enc_b2 t frac mode) 5 =? mode)).

Lemma byte2_18 t frac mode : (13 <= t <= 43)%Z -> mode < 8 ->
  dec_target (enc_b2 t frac mode) (enc_b18 t) = 2 * Z.to_N t + (if frac then 1 else 0)
  /\ N.shiftr (enc_b2 t frac mode) 5 = mode.
Proof.
  intros Ht Hm.
  assert (H : forallb (fun t => forallb (fun m => check_b2 t true m && check_b2 t false m) all_bytes) tints = true)
    by (vm_compute; reflexivity).
  rewrite forallb_forall in H. specialize (H t (in_tints t Ht)).
  rewrite forallb_forall in H. specialize (H mode (in_all_bytes mode ltac:(lia))).
  unfold check_b2 in H. destruct (mode <? 8) eqn:E; [|lia]. cbn [implb] in H.
  destruct frac; lia.
Qed.

Lemma land_small x k m : m = N.ones k -> x < 2 ^ k -> N.land x m = x.
Proof. intros -> H. rewrite N.land_ones. apply N.mod_small. exact H. Qed.

Lemma byte7 swing : swing < 16 -> N.land (N.lor 48 (N.land swing 63)) 15 = swing.
Proof.
  intros H.
  assert (Hall : forallb (fun s => implb (s <? 16) (N.land (N.lor 48 (N.land s 63)) 15 =? s)) all_bytes = true)
    by (vm_compute; reflexivity).
  pose proof (forall_bytes _ Hall swing ltac:(lia)) as Hs. cbv beta in Hs.
  destruct (swing <? 16) eqn:E; [cbn [implb] in Hs; lia|lia].
Qed.

Lemma byte8 follow turbo :
  bitb (N.lor (flag follow 128) (flag turbo 32)) 5 = turbo /\ bitb (N.lor (flag follow 128) (flag turbo 32)) 7 = follow.
Proof. destruct follow, turbo; vm_compute; split; reflexivity. Qed.

Lemma byte9 eco pur aux :
  let b := N.lor (N.lor (N.lor (flag eco 128) (flag pur 32)) (flag false 16)) (flag aux 8) in
  bitb b 7 = eco /\ bitb b 5 = pur /\ bitb b 3 = aux.
Proof. destruct eco, pur, aux; vm_compute; repeat split; reflexivity. Qed.

Lemma byte10 sleep turbo fahr :
  let b := N.lor (N.lor (flag sleep 1) (flag turbo 2)) (flag fahr 4) in
  bitb b 0 = sleep /\ bitb b 1 = turbo /\ bitb b 2 = fahr.
Proof. destruct sleep, turbo, fahr; vm_compute; repeat split; reflexivity. Qed.

Lemma byte21 fr : bitb (flag fr 128) 7 = fr.
Proof. destruct fr; reflexivity. Qed.
Lemma byte22 ia : bitb (flag ia 8) 3 = ia.
Proof. destruct ia; reflexivity. Qed.

Theorem control_roundtrip c : valid_ctrl c ->
  exists b, set_state_body c = Ok b /\ ref_decode_control b = Some (req_of c).
Proof.
  intros (Ht & Hm & Hf & Hs & Hh & Hfa).
  assert (Lfan : N.land (c_fan c) 127 = c_fan c) by (apply (land_small _ 7); [reflexivity|exact Hf]).
  assert (Lhum : N.land (c_humidity c) 127 = c_humidity c) by (apply (land_small _ 7); [reflexivity|exact Hh]).
  unfold set_state_body. destruct (255 <? c_fan c) eqn:Hfan; [lia|].
  clear Hfan Hf Hh.
  eexists. split; [reflexivity|].
  cbn [ref_decode_control].
  replace (64 =? 64) with true by reflexivity. cbn [negb].
  fold (enc_b2 (c_tint c) (c_tfrac c) (c_mode c)). fold (enc_b18 (c_tint c)).
  fold (dec_target (enc_b2 (c_tint c) (c_tfrac c) (c_mode c)) (enc_b18 (c_tint c))).
  destruct (byte2_18 (c_tint c) (c_tfrac c) (c_mode c) Ht Hm) as [Ht2 Hm2].
  destruct (byte1 (c_beep c) (c_power c)) as [Hp Hb].
  destruct (byte8 (c_follow_me c) (c_turbo c)) as [H8t H8f].
  rewrite Hfa. destruct (byte9 (c_eco c) (c_purifier c) (c_aux_heat c)) as (H9e & H9p & H9a).
  destruct (byte10 (c_sleep c) (c_turbo c) (c_fahrenheit c)) as (H10s & H10t & H10f).
  unfold req_of.
  rewrite Hp, Hb, Hm2, Ht2, H8t, H8f, H9e, H9p, H9a, H10s, H10t, H10f, byte21, byte22, (byte7 _ Hs).
  rewrite Lfan, !Lhum, orb_diag. reflexivity.
Qed.

(* equal bodies mean equal requested states: distinct requested states never share a command body *)
Theorem control_injective c1 c2 b : valid_ctrl c1 -> valid_ctrl c2 ->
  set_state_body c1 = Ok b -> set_state_body c2 = Ok b -> req_of c1 = req_of c2.
Proof.
  intros H1 H2 E1 E2.
  destruct (control_roundtrip c1 H1) as (b1 & Hb1 & Hd1).
  destruct (control_roundtrip c2 H2) as (b2 & Hb2 & Hd2).
  rewrite E1 in Hb1. rewrite E2 in Hb2. apply Ok_inj in Hb1. apply Ok_inj in Hb2. subst b1 b2.
  rewrite Hd1 in Hd2.
  exact (f_equal (fun o => match o with Some x => x | None => req_of c1 end) Hd2).
Qed.

(* through apply(): the control command built from the device attributes decodes to those attributes *)
Definition valid_dev (d : dev) : Prop :=
  26 <= d_target d <= 87 /\ d_mode d < 8 /\ d_fan d < 128 /\ d_swing d < 16
  /\ match d_humidity d with Some h => h < 128 | None => True end.

Definition requested (d : dev) : request := {|
  q_power := d_power d; q_beep := d_beep d; q_mode := d_mode d; q_target := d_target d; q_fan := d_fan d;
  q_swing := d_swing d; q_turbo := d_turbo d; q_follow_me := d_follow_me d; q_eco := d_eco d;
  q_purifier := d_purifier d; q_aux_heat := d_aux_mode d =? AuxHeatMode_AUX_HEAT; q_sleep := d_sleep d;
  q_fahrenheit := d_fahrenheit d;
  q_humidity := match d_humidity d with Some h => h | None => 40 end;
  q_freeze := match d_freeze d with Some b => b | None => false end;
  q_indep_aux := d_aux_mode d =? AuxHeatMode_AUX_ONLY |}.

Theorem control_apply d : valid_dev d ->
  exists b, set_state_body (apply_ctrl d) = Ok b /\ ref_decode_control b = Some (requested d).
Proof.
  intros (Ht & Hm & Hf & Hs & Hh).
  assert (Hv : valid_ctrl (apply_ctrl d)).
  { assert (Hlo : 13 <= d_target d / 2) by (apply N.div_le_lower_bound; lia).
    assert (Hhi : d_target d / 2 < 44) by (apply N.div_lt_upper_bound; lia).
    unfold valid_ctrl, apply_ctrl; cbn [c_beep c_power c_tint c_tfrac c_mode c_fan c_swing c_eco c_turbo c_fahrenheit c_sleep c_freeze c_follow_me c_purifier c_humidity c_aux_heat c_force_aux c_indep_aux]. repeat split; try assumption; try lia.
    destruct (d_humidity d); cbv beta iota in Hh |- *; lia. }
  destruct (control_roundtrip _ Hv) as (b & Hb & Hd). exists b. split; [exact Hb|].
  rewrite Hd. f_equal. unfold req_of, requested, apply_ctrl; cbn [c_beep c_power c_tint c_tfrac c_mode c_fan c_swing c_eco c_turbo c_fahrenheit c_sleep c_freeze c_follow_me c_purifier c_humidity c_aux_heat c_force_aux c_indep_aux].
  f_equal. rewrite N2Z.id. destruct (d_target d mod 2 =? 0) eqn:E; cbv beta iota delta [negb]; lia.
Qed.
