(* A Hoare logic for the session monad, and with it: containment (C09), the retry/timeout contract (C08) and
   recovery after failures. *)
From MS Require Import lib.Base gen.GenLan model.Session proofs.SessionProofs.
From Coq Require Import ZifyBool ZifyN ZifyNat.
Local Open Scope N_scope.

Definition hoare {A} (P : world -> Prop) (m : M A) (Q : A -> world -> Prop) (E : exn -> world -> Prop) : Prop :=
  forall w, P w -> match m w with (Ok a, w') => Q a w' | (Err e, w') => E e w' end.

Lemma hoare_ret {A} (P : world -> Prop) (a : A) (Q : A -> world -> Prop) (E : exn -> world -> Prop) : (forall w, P w -> Q a w) -> hoare P (ret a) Q E.
Proof. intros H w Hp. exact (H w Hp). Qed.
Lemma hoare_raise {A} (P : world -> Prop) e (Q : A -> world -> Prop) (E : exn -> world -> Prop) : (forall w, P w -> E e w) -> hoare P (raise e) Q E.
Proof. intros H w Hp. exact (H w Hp). Qed.
Lemma hoare_bind {A B} (P : world -> Prop) (m : M A) (f : A -> M B) (R : A -> world -> Prop) (Q : B -> world -> Prop) (E : exn -> world -> Prop) :
  hoare P m R E -> (forall a, hoare (R a) (f a) Q E) -> hoare P (mbind m f) Q E.
Proof.
  intros Hm Hf w Hp. unfold mbind. specialize (Hm w Hp). destruct (m w) as [[a|e] w']; [apply Hf, Hm|exact Hm].
Qed.
Lemma hoare_catch {A} (P : world -> Prop) (m : M A) cs h (Q : A -> world -> Prop) (E1 E : exn -> world -> Prop) :
  hoare P m Q E1 ->
  (forall e, existsb (subclass e) cs = true -> hoare (E1 e) (h e) Q E) ->
  (forall e w, existsb (subclass e) cs = false -> E1 e w -> E e w) ->
  hoare P (mcatch m cs h) Q E.
Proof.
  intros Hm Hh Hpass w Hp. unfold mcatch. specialize (Hm w Hp). destruct (m w) as [[a|e] w']; [exact Hm|].
  destruct (existsb (subclass e) cs) eqn:Ec; [apply (Hh e Ec), Hm|apply (Hpass e w' Ec), Hm].
Qed.
Lemma hoare_conseq {A} (P P' : world -> Prop) (m : M A) (Q Q' : A -> world -> Prop) (E E' : exn -> world -> Prop) :
  hoare P' m Q' E' -> (forall w, P w -> P' w) -> (forall a w, Q' a w -> Q a w) -> (forall e w, E' e w -> E e w) ->
  hoare P m Q E.
Proof.
  intros H Hp Hq He w Hw. specialize (H w (Hp w Hw)). destruct (m w) as [[a|e] w']; [apply Hq, H|apply He, H].
Qed.
Lemma hoare_get (P : world -> Prop) (E : exn -> world -> Prop) : hoare P get (fun a w => a = w /\ P w) E.
Proof. intros w Hp. split; [reflexivity|exact Hp]. Qed.

(* ---------- containment: only protocol / authentication errors and timeouts leave the transport layer ---------- *)
Definition allowed (e : exn) : Prop := e = EProtocol \/ e = EAuth \/ e = ETimeout.
Definition allowed_q (e : exn) : Prop := allowed e \/ e = EQueueEmpty.

Definition has_conn (w : world) : Prop := exists c, l_proto (w_lan w) = Some c.
Definition has_conn3 (w : world) : Prop := exists c, l_proto (w_lan w) = Some c /\ c_v3 c = true.
(* the local key is set and fresh *)
Definition authed (w : world) : Prop :=
  exists c k e, l_proto (w_lan w) = Some c /\ c_v3 c = true /\ c_key c = Some k /\ c_lexp c = Some e /\ w_now w <= e.

Lemma set_conn_has f : forall w, has_conn w -> has_conn (snd (set_conn f w)).
Proof. intros w [c E]. unfold set_conn, set_lan, upd. cbn. rewrite E. eexists. reflexivity. Qed.
Lemma set_conn_has3 f : (forall c, c_v3 (f c) = c_v3 c) -> forall w, has_conn3 w -> has_conn3 (snd (set_conn f w)).
Proof. intros Hf w (c & E & Hv). unfold set_conn, set_lan, upd. cbn. rewrite E. eexists. split; [reflexivity|]. rewrite Hf. exact Hv. Qed.

(* the judgement used for most functions: a precondition that is kept in every outcome, and only allowed errors *)
Definition keeps {A} (P : world -> Prop) (m : M A) (ok : exn -> Prop) : Prop :=
  hoare P m (fun _ w => P w) (fun e w => P w /\ ok e).

Lemma keeps_ret {A} (P : world -> Prop) (a : A) (ok : exn -> Prop) : keeps P (ret a) ok.
Proof. apply hoare_ret. auto. Qed.
Lemma keeps_raise {A} (P : world -> Prop) e (ok : exn -> Prop) : ok e -> keeps P (@raise A e) ok.
Proof. intros H. apply hoare_raise. auto. Qed.
Lemma keeps_bind {A B} (P : world -> Prop) (m : M A) (f : A -> M B) (ok : exn -> Prop) : keeps P m ok -> (forall a, keeps P (f a) ok) -> keeps P (mbind m f) ok.
Proof. intros Hm Hf. eapply hoare_bind; [exact Hm|]. intros a. apply Hf. Qed.
Lemma keeps_catch {A} (P : world -> Prop) (m : M A) cs h (ok1 ok : exn -> Prop) :
  keeps P m ok1 -> (forall e, keeps P (h e) ok) -> (forall e, existsb (subclass e) cs = false -> ok1 e -> ok e) ->
  keeps P (mcatch m cs h) ok.
Proof.
  intros Hm Hh Hpass. eapply hoare_catch; [exact Hm| |].
  - intros e _. eapply hoare_conseq; [apply (Hh e)| | |]; cbn; intuition.
  - intros e w Hc [Hp Ho]. split; [exact Hp|apply (Hpass e Hc Ho)].
Qed.
Lemma keeps_weaken {A} (P : world -> Prop) (m : M A) (ok ok' : exn -> Prop) : keeps P m ok -> (forall e, ok e -> ok' e) -> keeps P m ok'.
Proof. intros H Hw. eapply hoare_conseq; [exact H| | |]; cbn; intuition. Qed.
Lemma keeps_get (P : world -> Prop) (ok : exn -> Prop) : keeps P get ok.
Proof. intros w Hp. exact Hp. Qed.
Lemma keeps_set_conn (P : world -> Prop) f (ok : exn -> Prop) : (forall w, P w -> P (snd (set_conn f w))) -> keeps P (set_conn f) ok.
Proof. intros H w Hp. exact (H w Hp). Qed.

(* a connection of protocol version v exists (v = true: V3) *)
Definition hc (v : bool) (w : world) : Prop := exists c, l_proto (w_lan w) = Some c /\ c_v3 c = v.

Lemma hc_set_conn v f : (forall c, c_v3 (f c) = c_v3 c) -> forall w, hc v w -> hc v (snd (set_conn f w)).
Proof. intros Hf w (c & E & Hv). unfold set_conn, set_lan, upd. cbn. rewrite E. eexists. split; [reflexivity|]. rewrite Hf. exact Hv. Qed.

Lemma advance_to_ok t w : exists w', advance_to t w = (Ok tt, w').
Proof. cbv beta iota zeta delta [advance_to mbind upd set_conn set_lan]. eexists. reflexivity. Qed.

Section Keep.
  Variable v : bool.
  Notation P := (hc v).

  Lemma keeps_the_conn ok : keeps P the_conn ok.
  Proof. intros w Hp. unfold the_conn, mbind, get. destruct Hp as (c & E & Hv). rewrite E. exists c. auto. Qed.

  Lemma the_conn_v ok : hoare P the_conn (fun c w => P w /\ c_v3 c = v) (fun e w => P w /\ ok e).
  Proof. intros w Hp. unfold the_conn, mbind, get. destruct Hp as (c & E & Hv). rewrite E. cbn. split; [exists c; auto|exact Hv]. Qed.

  Lemma keeps_advance t ok : keeps P (advance_to t) ok.
  Proof.
    unfold advance_to. apply keeps_bind.
    - intros w Hp. exact Hp.
    - intros _. apply keeps_set_conn. apply hc_set_conn. intros c. apply conn_deliver_fields.
  Qed.

  Lemma keeps_pop : keeps P pop_queue (fun e => e = EQueueEmpty).
  Proof.
    unfold pop_queue. apply keeps_bind; [apply keeps_the_conn|]. intros c. destruct (c_q c).
    - apply keeps_raise. reflexivity.
    - apply keeps_bind; [apply keeps_set_conn, hc_set_conn; reflexivity|]. intros _. apply keeps_ret.
  Qed.

  (* delivering never empties the queue *)
  Lemma deliver_q_nonempty t l : forall q cl, q <> [] -> snd (fst (deliver t l q cl)) <> [].
  Proof.
    induction l as [|[a p] rest IH]; intros q cl Hq; cbn [deliver]; [exact Hq|].
    destruct cl; [exact Hq|]. destruct (a <? t); [|exact Hq].
    destruct p; try (apply IH; destruct q; discriminate). exact Hq.
  Qed.

  Lemma head_q_nonempty c : c_q c <> [] -> c_q (conn_deliver_head c) <> [].
  Proof.
    intros H. unfold conn_deliver_head. destruct (c_in c) as [|[a p] rest]; [exact H|]. cbn [c_q].
    destruct (c_q c); [congruence|discriminate].
  Qed.

  Lemma wake_q c t a p rest : c_q c = [] -> c_closing c = false -> c_in c = (a, p) :: rest -> p <> PClose ->
    c_q (conn_deliver_head (conn_deliver t c)) <> [].
  Proof.
    intros Eq Hcl Ein Hp.
    destruct (a <? t) eqn:El.
    - apply head_q_nonempty. unfold conn_deliver. rewrite Ein, Eq, Hcl. cbn [deliver]. rewrite El.
      assert (Hd : snd (fst (deliver t rest [p] false)) <> []) by (apply deliver_q_nonempty; discriminate).
      destruct p; try congruence; destruct (deliver t rest _ false) as [[r q'] cl']; cbn [c_q fst snd] in *; exact Hd.
    - unfold conn_deliver_head, conn_deliver. rewrite Ein, Eq, Hcl. cbn [deliver]. rewrite El. cbn [c_in c_q]. discriminate.
  Qed.

  Lemma wake_v c t : c_v3 (conn_deliver_head (conn_deliver t c)) = c_v3 c.
  Proof.
    unfold conn_deliver_head. destruct (c_in (conn_deliver t c)) as [|[? ?] ?]; cbn [c_v3];
      apply (proj1 (proj2 (conn_deliver_fields t c))).
  Qed.

  (* a blocking read returns a packet or times out; it keeps the connection *)
  Lemma keeps_read_blocking : keeps P (read_queue true) (fun e => e = ETimeout).
  Proof.
    intros w Hp. destruct Hp as (c & E & Hv).
    cbv beta iota zeta delta [read_queue mbind the_conn get ret]. rewrite E.
    destruct (c_q c) as [|p0 q0] eqn:Eq.
    - cbn [negb]. cbv beta iota.
      assert (Hto : forall t, match (advance_to t ;; @raise pkt ETimeout) w with
                              | (Ok _, w') => P w' | (Err e, w') => P w' /\ e = ETimeout end).
      { intros t. pose proof (keeps_advance t (fun _ => True) w (ex_intro _ c (conj E Hv))) as Ha.
        destruct (advance_to_ok t w) as [w' Hw']. rewrite (mbind_ok _ _ _ _ _ Hw'). rewrite Hw' in Ha.
        unfold raise. split; [exact Ha|reflexivity]. }
      destruct (if c_closing c then None else first_arrival (c_in c)) as [a|] eqn:Ef; [|apply Hto].
      destruct (a <? w_now w + READ_TIMEOUT); [|apply Hto].
      assert (Hcl : c_closing c = false) by (destruct (c_closing c); [discriminate|reflexivity]).
      rewrite Hcl in Ef. destruct (c_in c) as [|[a' p'] rest] eqn:Ein; [discriminate|].
      assert (Hp' : p' <> PClose) by (intros ->; discriminate).
      pose proof (wake_q c (N.max a (w_now w)) a' p' rest Eq Hcl Ein Hp') as Hq2.
      cbv beta iota zeta delta [mbind advance_to upd set_conn set_lan pop_queue the_conn get ret].
      cbn [w_lan l_proto option_map fst snd]. rewrite E. cbn [option_map].
      destruct (c_q (conn_deliver_head (conn_deliver (N.max a (w_now w)) c))) as [|p2 q2] eqn:Eq2; [congruence|].
      cbn [w_lan l_proto option_map fst snd]. eexists. split; [reflexivity|]. cbn [c_v3]. rewrite wake_v. exact Hv.
    - cbv beta iota zeta delta [pop_queue mbind the_conn get ret set_conn set_lan upd]. rewrite E, Eq.
      cbn [w_lan l_proto option_map fst snd]. rewrite E. cbn [option_map]. eexists. split; [reflexivity|exact Hv].
  Qed.

  Lemma keeps_read_nowait : keeps P (read_queue false) (fun e => e = EQueueEmpty).
  Proof.
    unfold read_queue. apply keeps_bind; [apply keeps_the_conn|]. intros c. destruct (c_q c); [apply keeps_raise; reflexivity|apply keeps_pop].
  Qed.

  Lemma as_data_err c p e : as_data c p = Err e -> e = EProtocol.
  Proof.
    unfold as_data. destruct p; try (intros H; injection H as <-; reflexivity).
    destruct (c_v3 c); [|discriminate]. destruct (match c_key c with Some k => Nat.eqb k kid | None => false end); [discriminate|].
    intros H; injection H as <-; reflexivity.
  Qed.

  Lemma keeps_lan_read_blocking : keeps P (lan_read true) (fun e => e = ETimeout \/ e = EProtocol).
  Proof.
    unfold lan_read. apply keeps_bind; [eapply keeps_weaken; [apply keeps_read_blocking|]; intuition|]. intros p.
    apply keeps_bind; [apply keeps_the_conn|]. intros c.
    destruct (as_data c p) as [f|e] eqn:Ed; [apply keeps_ret|]. apply keeps_raise. right. eapply as_data_err; eassumption.
  Qed.
  Lemma keeps_lan_read_nowait : keeps P (lan_read false) (fun e => e = EQueueEmpty \/ e = EProtocol).
  Proof.
    unfold lan_read. apply keeps_bind; [eapply keeps_weaken; [apply keeps_read_nowait|]; intuition|]. intros p.
    apply keeps_bind; [apply keeps_the_conn|]. intros c.
    destruct (as_data c p) as [f|e] eqn:Ed; [apply keeps_ret|]. apply keeps_raise. right. eapply as_data_err; eassumption.
  Qed.

  Lemma keeps_flush ok : keeps P flush ok.
  Proof. unfold flush. apply keeps_set_conn, hc_set_conn. reflexivity. Qed.

  Lemma keeps_write k : (match k with WHs _ => v = true | _ => True end) -> keeps P (proto_write k) (fun e => e = EProtocol).
  Proof.
    intros Hk w Hp. unfold proto_write. destruct Hp as (c & E & Hv). rewrite E.
    destruct (write_refused k c) as [e|] eqn:Er.
    - split; [exists c; auto|]. unfold write_refused in Er.
      destruct k as [g|f].
      + rewrite Hv, Hk in Er. destruct (c_closing c); [injection Er as <-; reflexivity|discriminate].
      + destruct (c_v3 c); destruct (c_key c); try (injection Er as <-; reflexivity);
          destruct (c_closing c); try discriminate; injection Er as <-; reflexivity.
    - unfold write_world. cbn [w_lan l_proto]. eexists. split; [reflexivity|exact Hv].
  Qed.

  Lemma keeps_accept kid ok : keeps P (accept_key kid) ok.
  Proof. intros w (c & E & Hv). unfold accept_key. rewrite E. cbn. eexists. split; [reflexivity|exact Hv]. Qed.

  Lemma keeps_authenticated ok : keeps P authenticated ok.
  Proof. unfold authenticated. apply keeps_bind; [apply keeps_the_conn|]. intros c. apply keeps_bind; [apply keeps_get|]. intros w. apply keeps_ret. Qed.

  Lemma keeps_queue_len ok : keeps P queue_len ok.
  Proof. unfold queue_len. apply keeps_bind; [apply keeps_the_conn|]. intros c. apply keeps_ret. Qed.

  Lemma keeps_read_available f : forall acc, keeps P (read_available f acc) (fun e => e = EProtocol).
  Proof.
    induction f as [|f IH]; intros acc; cbn [read_available]; [apply keeps_ret|].
    eapply keeps_catch with (ok1 := fun e => e = EQueueEmpty \/ e = EProtocol).
    - apply keeps_bind.
      + eapply keeps_catch with (ok1 := fun e => e = EQueueEmpty \/ e = EProtocol).
        * apply keeps_bind; [apply keeps_lan_read_nowait|]. intros x. apply keeps_ret.
        * intros e. apply keeps_ret.
        * intros e Hc Ho. exact Ho.
      + intros r. eapply keeps_weaken; [apply IH|]. intuition.
    - intros e. apply keeps_ret.
    - intros e Hc [->| ->]; [discriminate Hc|reflexivity].
  Qed.

  (* after fix F10: the non-blocking reads before and after a request never raise - an invalid packet waiting in the
     queue (a late handshake reply, an error packet, data under an old key) is skipped *)
  Lemma read_available_never_raises f : forall acc, keeps P (read_available f acc) (fun _ => False).
  Proof.
    induction f as [|f IH]; intros acc; cbn [read_available]; [apply keeps_ret|].
    eapply keeps_catch with (ok1 := fun e => e = EQueueEmpty).
    - apply keeps_bind.
      + eapply keeps_catch with (ok1 := fun e => e = EQueueEmpty \/ e = EProtocol).
        * apply keeps_bind; [apply keeps_lan_read_nowait|]. intros x. apply keeps_ret.
        * intros e. apply keeps_ret.
        * intros e Hc [->| ->]; [reflexivity|discriminate Hc].
      + intros r. eapply keeps_weaken; [apply IH|]. intros e [].
    - intros e. apply keeps_ret.
    - intros e Hc ->. discriminate Hc.
  Qed.
End Keep.

(* the handshake needs a V3 protocol object *)
Lemma as_hs_err g p e : as_hs g p = Err e -> e = EAuth.
Proof. unfold as_hs. destruct p; try (intros H; injection H as <-; reflexivity). destruct g; [discriminate|intros H; injection H as <-; reflexivity]. Qed.


Lemma hoare_raise_keep {A} (P : world -> Prop) (Q : A -> world -> Prop) (ok : exn -> Prop) e :
  ok e -> hoare P (raise e) Q (fun e' w => P w /\ ok e').
Proof. intros Ho w Hp. split; assumption. Qed.

(* ---------- authentication ---------- *)
Definition authed_now (w : world) : Prop :=
  exists c k, l_proto (w_lan w) = Some c /\ c_v3 c = true /\ c_key c = Some k /\ c_lexp c = Some (w_now w + AUTH_EXP_MS).

Definition auth_err (e : exn) : Prop := e = EAuth \/ e = ETimeout.

Lemma hoare_accept kid : hoare (hc true) (accept_key kid) (fun _ w => authed_now w) (fun e w => hc true w /\ auth_err e).
Proof.
  intros w (c & E & Hv). unfold accept_key. rewrite E. unfold authed_now. cbn [w_lan l_proto w_now].
  eexists. exists kid. split; [reflexivity|]. cbn [c_v3 c_key c_lexp]. split; [exact Hv|]. split; reflexivity.
Qed.

Lemma hoare_proto_auth creds :
  hoare (hc true) (proto_authenticate creds) (fun _ w => authed_now w) (fun e w => hc true w /\ auth_err e).
Proof.
  unfold proto_authenticate. destruct creds as [g|]; [|apply hoare_raise_keep; left; reflexivity].
  eapply hoare_bind; [apply (keeps_flush true auth_err)|]. intros ?.
  eapply hoare_bind with (R := fun _ w => hc true w).
  - assert (Hk : keeps (hc true) (mcatch (proto_write (WHs g) ;; read_queue true) [EProtocol] (fun _ => raise EAuth)) auth_err).
    { eapply keeps_catch with (ok1 := fun e => e = EProtocol \/ e = ETimeout).
      - apply keeps_bind; [eapply keeps_weaken; [apply (keeps_write true (WHs g) eq_refl)|]; intuition|].
        intros ?. eapply keeps_weaken; [apply (keeps_read_blocking true)|]. intuition.
      - intros e. apply keeps_raise. left. reflexivity.
      - intros e Hc [-> | ->]; [discriminate Hc|right; reflexivity]. }
    exact Hk.
  - intros p. destruct (as_hs g p) as [kid|e] eqn:Eh; [apply hoare_accept|].
    apply hoare_raise_keep. left. eapply as_hs_err; eassumption.
Qed.

Lemma hoare_auth_loop r creds :
  hoare (hc true) (auth_loop (S r) creds) (fun _ w => authed_now w) (fun e w => hc true w /\ auth_err e).
Proof.
  induction r as [|r IH]; cbn [auth_loop] in *.
  - eapply hoare_catch; [apply hoare_proto_auth| |].
    + intros e _ w [H _]. unfold raise. split; [exact H|right; reflexivity].
    + intros e w _ H. exact H.
  - eapply hoare_catch; [apply hoare_proto_auth| |].
    + intros e _ w [H _]. apply IH. exact H.
    + intros e w _ H. exact H.
Qed.

Lemma authed_now_authenticated w : authed_now w -> authenticated w = (Ok true, w).
Proof.
  intros (c & k & E & Hv & Hk & Hl). rewrite authenticated_eq, E, Hk, Hl.
  destruct (w_now w + AUTH_EXP_MS <? w_now w) eqn:El; [lia|reflexivity].
Qed.

(* (re)establishing a V3 connection *)
Lemma hoare_reconnect3 :
  hoare (fun _ => True)
        (lan_disconnect ;; set_lan (fun l => mkLan (l_proto l) true (l_creds l) (l_cexp l) (l_maxlife l)) ;; lan_connect)
        (fun _ w => hc true w) (fun e _ => allowed e).
Proof.
  intros w _. destruct (disconnect_post w) as (wd & e1 & Hd & Hdn & _).
  rewrite (mbind_ok _ _ _ _ _ Hd).
  set (ws := snd (set_lan (fun l => mkLan (l_proto l) true (l_creds l) (l_cexp l) (l_maxlife l)) wd)).
  assert (Hs : set_lan (fun l => mkLan (l_proto l) true (l_creds l) (l_cexp l) (l_maxlife l)) wd = (Ok tt, ws)) by reflexivity.
  rewrite (mbind_ok _ _ _ _ _ Hs).
  assert (Hsn : l_proto (w_lan ws) = None) by (unfold ws; cbn; exact Hdn).
  destruct (connect_post ws Hsn) as [(e & w' & e2 & Hc & _)|(wc & c & e2 & Hc & Hcp & Hcv & _)]; rewrite Hc.
  - unfold lan_connect in Hc. revert Hc. cbv beta iota zeta delta [mbind get put raise].
    destruct (hd ConnOk (w_conns ws)); intros Hc; try discriminate.
    + injection Hc as <- _. left. reflexivity.
    + destruct (advance_to_ok (w_now ws + CONNECT_TIMEOUT)
                  (mkWorld (w_lan ws) (w_now ws) (tl (w_conns ws)) (w_hsr ws) (w_replies ws) (w_ncid ws) (w_nkid ws) (w_log ws))) as [wa Ha].
      rewrite Ha in Hc. injection Hc as <- _. right. right. reflexivity.
  - exists c. split; [exact Hcp|]. rewrite Hcv. reflexivity.
Qed.

Theorem hoare_lan_authenticate g r :
  hoare (fun _ => True) (lan_authenticate g (S r)) (fun _ w => hc true w) (fun e _ => allowed e).
Proof.
  unfold lan_authenticate.
  eapply hoare_bind; [apply (hoare_get (fun _ => True))|]. intros w0.
  eapply hoare_bind with (R := fun al w => al = alive_b w).
  { intros w _. rewrite lan_alive_eq. reflexivity. }
  intros al.
  eapply hoare_bind with (R := fun w' w => w' = w /\ al = alive_b w).
  { intros w H. cbn. auto. }
  intros w.
  eapply hoare_bind with (R := fun _ w1 => hc true w1).
  { destruct (negb al || negb match l_proto (w_lan w) with Some c => c_v3 c | None => false end) eqn:Eb.
    - eapply hoare_conseq; [apply hoare_reconnect3| | |]; cbn; auto.
    - apply hoare_ret. intros w1 [-> Hal]. apply orb_false_elim in Eb. destruct Eb as [Ea Ev].
      destruct (l_proto (w_lan w1)) as [c|] eqn:E; [|cbn in Ev; discriminate].
      exists c. split; [exact E|]. destruct (c_v3 c); [reflexivity|discriminate]. }
  intros ?.
  eapply hoare_bind with (R := fun _ w1 => authed_now w1).
  { eapply hoare_conseq; [apply hoare_auth_loop| | |]; cbn; auto.
    intros e w1 [_ [-> | ->]]; [right; left|right; right]; reflexivity. }
  intros ?.
  eapply hoare_bind with (R := fun a w1 => a = true /\ authed_now w1).
  { intros w1 Ha. rewrite (authed_now_authenticated w1 Ha). auto. }
  intros ok.
  eapply hoare_bind with (R := fun _ w1 => authed_now w1).
  { destruct ok; [apply hoare_ret; tauto|]. intros w1 [Hf _]. discriminate. }
  intros ?.
  eapply hoare_bind with (R := fun _ w1 => hc true w1).
  { intros w1 (c & k & E & Hv & _). cbn. rewrite E. exists c. auto. }
  intros ?.
  eapply hoare_bind with (R := fun _ w1 => hc true w1); [intros w1 H; exact H|]. intros w2.
  eapply hoare_conseq; [apply (keeps_advance true _ (fun _ => False))| | |]; cbn; intuition.
Qed.

Lemma hoare_disconnect_const (Q : Prop) (E : exn -> world -> Prop) : hoare (fun _ => Q) lan_disconnect (fun _ _ => Q) E.
Proof. intros w Hq. destruct (disconnect_post w) as (wd & evs & Hd & _). rewrite Hd. exact Hq. Qed.

Lemma hoare_disconnect_raise {A} (P : world -> Prop) (Q : A -> world -> Prop) e :
  hoare P (lan_disconnect ;; raise e) Q (fun e' _ => e' = e).
Proof.
  intros w _. destruct (disconnect_post w) as (wd & evs & Hd & _). rewrite (mbind_ok _ _ _ _ _ Hd). reflexivity.
Qed.

Lemma hoare_disconnect_raise_ok {A} (P : world -> Prop) (Q : A -> world -> Prop) (E : exn -> world -> Prop) e :
  (forall w, E e w) -> hoare P (lan_disconnect ;; raise e) Q E.
Proof.
  intros He w _. destruct (disconnect_post w) as (wd & evs & Hd & _). rewrite (mbind_ok _ _ _ _ _ Hd). apply He.
Qed.

(* ---------- an exchange ---------- *)
Lemma hoare_send_loop v r f : forall acc,
  hoare (hc v) (send_loop r f acc) (fun _ w => hc v w) (fun e _ => allowed e).
Proof.
  induction r as [|r IH]; intros acc; cbn [send_loop]; [apply hoare_ret; auto|].
  eapply hoare_bind with (R := fun _ w => hc v w).
  { eapply hoare_conseq; [apply (keeps_write v (WData f) I)| | |]; cbn; auto. intros e w [_ ->]. left. reflexivity. }
  intros ?.
  eapply hoare_bind with (R := fun _ w => hc v w).
  - eapply hoare_catch with (E1 := fun e w => allowed e).
    + eapply hoare_catch with (E1 := fun e w => allowed e).
      * eapply hoare_catch with (E1 := fun e w => hc v w /\ (e = ETimeout \/ e = EProtocol)).
        -- eapply hoare_bind; [apply (keeps_lan_read_blocking v)|]. intros x. apply hoare_ret. auto.
        -- intros e _. destruct r.
           ++ apply hoare_disconnect_raise_ok. intros w. right. right. reflexivity.
           ++ apply hoare_ret. tauto.
        -- intros e w Hc [_ [-> | ->]]; [discriminate Hc|left; reflexivity].
      * intros e _ w Ha. destruct (disconnect_post w) as (wd & evs & Hd & _). rewrite (mbind_ok _ _ _ _ _ Hd). exact Ha.
      * intros e w _ H. exact H.
    + intros e _. apply hoare_disconnect_raise_ok. intros w. right. right. reflexivity.
    + intros e w _ H. exact H.
  - intros got. destruct got as [x|]; [apply hoare_ret; auto|apply IH].
Qed.

Lemma hoare_of_keeps {A} (P : world -> Prop) (m : M A) (ok : exn -> Prop) (E : exn -> world -> Prop) :
  keeps P m ok -> (forall e w, ok e -> E e w) -> hoare P m (fun _ w => P w) E.
Proof. intros Hk He. eapply hoare_conseq; [exact Hk| | |]; cbn; auto. intros e w [_ Ho]. apply He, Ho. Qed.

Lemma allowed_protocol e (w : world) : e = EProtocol -> allowed e.
Proof. intros ->. left. reflexivity. Qed.

Lemma hoare_send_rest v f r : hoare (hc v) (send_rest f r) (fun _ _ => True) (fun e _ => allowed e).
Proof.
  unfold send_rest.
  eapply hoare_bind; [apply (hoare_of_keeps _ _ _ _ (keeps_queue_len v (fun _ => False))); intros e w []|]. intros n0.
  eapply hoare_bind; [apply (hoare_of_keeps _ _ _ _ (keeps_read_available v (S n0) [])); intros e w; apply allowed_protocol, w|]. intros pre.
  eapply hoare_bind; [apply hoare_send_loop|]. intros got.
  eapply hoare_bind; [apply (hoare_of_keeps _ _ _ _ (keeps_queue_len v (fun _ => False))); intros e w []|]. intros n1.
  eapply hoare_conseq; [apply (hoare_of_keeps _ _ _ (fun e _ => allowed e) (keeps_read_available v (S n1) got)); intros e w; apply allowed_protocol, w| | |]; cbn; auto.
Qed.

Lemma hoare_pure {A} (P : world -> Prop) (F : Prop) (m : M A) (Q : A -> world -> Prop) (E : exn -> world -> Prop) :
  (F -> hoare P m Q E) -> hoare (fun w => P w /\ F) m Q E.
Proof. intros H w [Hp Hf]. apply (H Hf w Hp). Qed.

Lemma hoare_send_mid v f r : hoare (hc v) (send_mid f r) (fun _ _ => True) (fun e _ => allowed e).
Proof.
  unfold send_mid.
  eapply hoare_bind with (R := fun c w => hc v w /\ c_v3 c = v).
  { eapply hoare_conseq; [apply (the_conn_v v (fun _ => False))| | |]; cbn; tauto. }
  intros c. cbv beta.
  apply hoare_pure. intros Hcv. rewrite Hcv.
  eapply hoare_bind with (R := fun _ w => hc v w).
  - destruct v.
    + eapply hoare_bind; [apply (hoare_of_keeps _ _ _ _ (keeps_authenticated true (fun _ => False))); intros e w []|].
      intros a. destruct a; [apply hoare_ret; auto|].
      eapply hoare_conseq; [apply (hoare_lan_authenticate None 2)| | |]; cbn; auto.
    + apply hoare_ret. auto.
  - intros ?. apply hoare_send_rest.
Qed.

(* C09, session level: whatever the peer and the network do, LAN.send ends with frames, a protocol/authentication error
   or a timeout *)
Theorem lan_send_contained f r : hoare (fun _ => True) (lan_send f r) (fun _ _ => True) (fun e _ => allowed e).
Proof.
  rewrite lan_send_unfold.
  eapply hoare_bind with (R := fun al w => al = alive_b w).
  { intros w _. rewrite lan_alive_eq. reflexivity. }
  intros al.
  eapply hoare_bind with (R := fun _ w => exists v, hc v w).
  - destruct al.
    + apply hoare_ret. intros w Hal. unfold alive_b in Hal. destruct (l_proto (w_lan w)) as [c|] eqn:E; [|discriminate].
      exists (c_v3 c), c. auto.
    + intros w _. destruct (disconnect_post w) as (wd & e1 & Hd & Hdn & _). rewrite (mbind_ok _ _ _ _ _ Hd).
      destruct (connect_post wd Hdn) as [(e & w' & e2 & Hc & _)|(wc & c & e2 & Hc & Hcp & Hcv & _)]; rewrite Hc.
      * revert Hc. cbv beta iota zeta delta [lan_connect mbind get put raise].
        destruct (hd ConnOk (w_conns wd)); intros Hc; try discriminate.
        -- injection Hc as <- _. left. reflexivity.
        -- destruct (advance_to_ok (w_now wd + CONNECT_TIMEOUT)
                       (mkWorld (w_lan wd) (w_now wd) (tl (w_conns wd)) (w_hsr wd) (w_replies wd) (w_ncid wd) (w_nkid wd) (w_log wd))) as [wa Ha].
           rewrite Ha in Hc. injection Hc as <- _. right. right. reflexivity.
      * exists (c_v3 c), c. auto.
  - intros ? w [v Hv]. apply (hoare_send_mid v f r w Hv).
Qed.

Theorem lan_authenticate_contained g r : hoare (fun _ => True) (lan_authenticate g (S r)) (fun _ _ => True) (fun e _ => allowed e).
Proof. eapply hoare_conseq; [apply hoare_lan_authenticate| | |]; cbn; auto. Qed.

(* Device._send_command never raises: it returns a (possibly empty) list; Device.authenticate raises only
   AuthenticationError *)
Theorem dev_send_command_total f w : exists l, fst (dev_send_command f w) = Ok l.
Proof.
  unfold dev_send_command, mcatch. pose proof (lan_send_contained f (N.to_nat LAN_RETRIES) w I) as H.
  destruct (lan_send f (N.to_nat LAN_RETRIES) w) as [[l|e] w']; [exists l; reflexivity|].
  destruct H as [-> | [-> | ->]]; cbn; eexists; reflexivity.
Qed.

Theorem dev_authenticate_contained g w e : fst (dev_authenticate g w) = Err e -> e = EAuth.
Proof.
  unfold dev_authenticate, mcatch. pose proof (lan_authenticate_contained (Some g) 2 w I) as H.
  change (N.to_nat LAN_RETRIES) with 3%nat.
  destruct (lan_authenticate (Some g) 3 w) as [[l|e'] w']; [discriminate|].
  destruct H as [-> | [-> | ->]]; cbn; intros He; injection He as <-; reflexivity.
Qed.

(* ---------- C08: how often a request is transmitted ---------- *)
Definition is_data (e : event) : bool := match e with EvData _ _ _ _ | EvData2 _ _ => true | _ => false end.
Definition ndata (evs : list event) : nat := length (filter is_data evs).
Lemma ndata_app a b : ndata (a ++ b) = (ndata a + ndata b)%nat.
Proof. unfold ndata. rewrite filter_app, app_length. reflexivity. Qed.

(* at most k data transmissions *)
Definition bounded {A} (k : nat) (m : M A) : Prop :=
  forall w, exists evs, w_log (snd (m w)) = w_log w ++ evs /\ (ndata evs <= k)%nat.

Lemma bounded_weaken {A} k k' (m : M A) : (k <= k')%nat -> bounded k m -> bounded k' m.
Proof. intros Hk H w. destruct (H w) as (evs & Hl & Hn). exists evs. split; [exact Hl|lia]. Qed.
Lemma bounded_ret {A} (a : A) : bounded 0 (ret a).
Proof. intros w. exists []. split; [symmetry; apply app_nil_r|cbn; lia]. Qed.
Lemma bounded_raise {A} e : bounded 0 (@raise A e).
Proof. intros w. exists []. split; [symmetry; apply app_nil_r|cbn; lia]. Qed.
Lemma bounded_bind {A B} k1 k2 (m : M A) (f : A -> M B) : bounded k1 m -> (forall a, bounded k2 (f a)) -> bounded (k1 + k2) (mbind m f).
Proof.
  intros Hm Hf w. unfold mbind. destruct (Hm w) as (e1 & H1 & N1). destruct (m w) as [[a|e] w']; cbn [snd] in *.
  - destruct (Hf a w') as (e2 & H2 & N2). exists (e1 ++ e2). rewrite H2, H1, app_assoc, ndata_app. split; [reflexivity|lia].
  - exists e1. split; [exact H1|lia].
Qed.
Lemma bounded_catch {A} k1 k2 (m : M A) cs h : bounded k1 m -> (forall e, bounded k2 (h e)) -> bounded (k1 + k2) (mcatch m cs h).
Proof.
  intros Hm Hh w. unfold mcatch. destruct (Hm w) as (e1 & H1 & N1). destruct (m w) as [[a|e] w']; cbn [snd] in *.
  - exists e1. split; [exact H1|lia].
  - destruct (existsb (subclass e) cs).
    + destruct (Hh e w') as (e2 & H2 & N2). exists (e1 ++ e2). rewrite H2, H1, app_assoc, ndata_app. split; [reflexivity|lia].
    + exists e1. split; [exact H1|lia].
Qed.
(* anything that writes no data packet *)
Definition dataless (evs : list event) : Prop := ndata evs = 0%nat.
Lemma quiet_dataless evs : quiet evs -> dataless evs.
Proof.
  unfold quiet, dataless, ndata. induction evs as [|e t IH]; [reflexivity|]. cbn [filter].
  destruct e; cbn [is_write is_data]; try discriminate; exact IH.
Qed.
Lemma bounded_quietm {A} (m : M A) : quietm m -> bounded 0 m.
Proof. intros H w. destruct (H w) as (evs & Hl & Q). exists evs. split; [exact Hl|]. rewrite (quiet_dataless evs Q). lia. Qed.

Lemma bounded_write k : bounded 1 (proto_write k).
Proof.
  intros w. unfold proto_write. destruct (l_proto (w_lan w)) as [c|]; [|exists []; split; [symmetry; apply app_nil_r|cbn; lia]].
  destruct (write_refused k c); [exists []; split; [symmetry; apply app_nil_r|cbn; lia]|].
  exists [write_event k c]. split; [reflexivity|]. unfold ndata. cbn [filter]. destruct (is_data _); cbn; lia.
Qed.
Lemma bounded_write_hs g : bounded 0 (proto_write (WHs g)).
Proof.
  intros w. unfold proto_write. destruct (l_proto (w_lan w)) as [c|]; [|exists []; split; [symmetry; apply app_nil_r|cbn; lia]].
  destruct (write_refused (WHs g) c); [exists []; split; [symmetry; apply app_nil_r|cbn; lia]|].
  exists [write_event (WHs g) c]. split; [reflexivity|]. cbn. lia.
Qed.

Lemma quietm_set_conn f : quietm (set_conn f). Proof. apply quietm_set_lan. Qed.
Lemma quietm_pop : quietm pop_queue.
Proof.
  unfold pop_queue. apply quietm_bind; [apply quietm_the_conn|]. intros c. destruct (c_q c); [apply quietm_raise|].
  apply quietm_bind; [apply quietm_set_conn|]. intros _. apply quietm_ret.
Qed.
Lemma quietm_catch {A} (m : M A) cs h : quietm m -> (forall e, quietm (h e)) -> quietm (mcatch m cs h).
Proof.
  intros Hm Hh w. unfold mcatch. destruct (Hm w) as (e1 & H1 & Q1). destruct (m w) as [[a|e] w']; cbn [snd] in *; [exists e1; auto|].
  destruct (existsb (subclass e) cs); [|exists e1; auto].
  destruct (Hh e w') as (e2 & H2 & Q2). exists (e1 ++ e2). rewrite H2, H1, app_assoc. split; [reflexivity|apply quiet_app; assumption].
Qed.
Lemma quietm_read_queue b : quietm (read_queue b).
Proof.
  unfold read_queue. apply quietm_bind; [apply quietm_the_conn|]. intros c. destruct (c_q c); [|apply quietm_pop].
  destruct (negb b); [apply quietm_raise|]. apply quietm_bind; [apply quietm_get|]. intros w. cbv zeta.
  assert (Hto : forall t, quietm (advance_to t ;; @raise pkt ETimeout)).
  { intros t. apply quietm_bind; [apply quietm_advance|]. intros _. apply quietm_raise. }
  destruct (if c_closing c then None else first_arrival (c_in c)) as [a|]; [|apply Hto].
  destruct (a <? w_now w + READ_TIMEOUT); [|apply Hto].
  apply quietm_bind; [apply quietm_advance|]. intros _. apply quietm_bind; [apply quietm_set_conn|]. intros _. apply quietm_pop.
Qed.
Lemma quietm_lan_read b : quietm (lan_read b).
Proof.
  unfold lan_read. apply quietm_bind; [apply quietm_read_queue|]. intros p. apply quietm_bind; [apply quietm_the_conn|].
  intros c. destruct (as_data c p); [apply quietm_ret|apply quietm_raise].
Qed.
Lemma quietm_read_available f : forall acc, quietm (read_available f acc).
Proof.
  induction f as [|f IH]; intros acc; cbn [read_available]; [apply quietm_ret|].
  apply quietm_catch; [|intros e; apply quietm_ret]. apply quietm_bind; [|intros r; apply IH].
  apply quietm_catch; [|intros e; apply quietm_ret]. apply quietm_bind; [apply quietm_lan_read|]. intros x. apply quietm_ret.
Qed.
Lemma quietm_queue_len : quietm queue_len.
Proof. unfold queue_len. apply quietm_bind; [apply quietm_the_conn|]. intros c. apply quietm_ret. Qed.

(* the retry loop transmits the request at most `retries` times *)
Theorem send_loop_bounded r f : forall acc, bounded r (send_loop r f acc).
Proof.
  induction r as [|r IH]; intros acc; cbn [send_loop]; [apply bounded_ret|].
  change (S r) with (1 + (0 + r))%nat. apply bounded_bind; [apply bounded_write|]. intros _.
  apply bounded_bind.
  - change 0%nat with (0 + 0)%nat. apply bounded_catch; [|intros e; apply bounded_quietm; apply quietm_bind; [apply quietm_disconnect|intros _; apply quietm_raise]].
    change 0%nat with (0 + 0)%nat. apply bounded_catch; [|intros e; apply bounded_quietm; apply quietm_bind; [apply quietm_disconnect|intros _; apply quietm_raise]].
    change 0%nat with (0 + 0)%nat. apply bounded_catch.
    + apply bounded_quietm. apply quietm_bind; [apply quietm_lan_read|]. intros x. apply quietm_ret.
    + intros e. destruct r; [apply bounded_quietm; apply quietm_bind; [apply quietm_disconnect|intros _; apply quietm_raise]|apply bounded_ret].
  - intros got. destruct got; [eapply bounded_weaken; [|apply bounded_ret]; lia|apply IH].
Qed.

(* authentication writes handshakes only *)
Lemma bounded_proto_auth creds : bounded 0 (proto_authenticate creds).
Proof.
  unfold proto_authenticate. destruct creds as [g|]; [|apply bounded_raise].
  change 0%nat with (0 + (0 + 0))%nat. apply bounded_bind; [apply bounded_quietm, quietm_flush|]. intros _.
  apply bounded_bind.
  - change 0%nat with (0 + 0)%nat. apply bounded_catch; [|intros e; apply bounded_raise].
    change 0%nat with (0 + 0)%nat. apply bounded_bind; [apply bounded_write_hs|]. intros _. apply bounded_quietm, quietm_read_queue.
  - intros p. destruct (as_hs g p) as [n|]; [|apply bounded_raise].
    intros w. unfold accept_key. destruct (l_proto (w_lan w)) as [c|]; [|exists []; split; [symmetry; apply app_nil_r|cbn; lia]].
    exists [EvAuthOk (c_id c) n]. split; [reflexivity|cbn; lia].
Qed.
Lemma bounded_auth_loop r creds : bounded 0 (auth_loop r creds).
Proof.
  induction r as [|r IH]; cbn [auth_loop]; [apply bounded_ret|].
  change 0%nat with (0 + 0)%nat. apply bounded_catch; [apply bounded_proto_auth|]. intros e. destruct r; [apply bounded_raise|exact IH].
Qed.
Lemma bounded_lan_auth g r : bounded 0 (lan_authenticate g r).
Proof.
  unfold lan_authenticate.
  change 0%nat with (0 + (0 + (0 + (0 + (0 + (0 + (0 + (0 + (0 + 0)))))))))%nat.
  apply bounded_bind; [apply bounded_quietm, quietm_get|]. intros w0.
  apply bounded_bind; [apply bounded_quietm, quietm_alive|]. intros al.
  apply bounded_bind; [apply bounded_quietm, quietm_get|]. intros w.
  apply bounded_bind.
  { apply bounded_quietm. destruct (negb al || negb _); [|apply quietm_ret].
    apply quietm_bind; [apply quietm_disconnect|]. intros _. apply quietm_bind; [apply quietm_set_lan|]. intros _. apply quietm_connect. }
  intros _. apply bounded_bind; [apply bounded_auth_loop|]. intros _.
  apply bounded_bind; [apply bounded_quietm, quietm_authenticated|]. intros a.
  apply bounded_bind; [destruct a; [apply bounded_ret|apply bounded_raise]|]. intros _.
  apply bounded_bind; [apply bounded_quietm, quietm_set_lan|]. intros _.
  apply bounded_bind; [apply bounded_quietm, quietm_get|]. intros w2. apply bounded_quietm, quietm_advance.
Qed.

(* C08: an exchange transmits its request at most `retries` times - for every environment, every state *)
Theorem lan_send_tx_upper f r : bounded r (lan_send f r).
Proof.
  rewrite lan_send_unfold.
  apply (bounded_weaken (0 + (0 + (0 + (0 + (0 + (0 + (r + (0 + 0))))))))%nat); [lia|].
  apply bounded_bind; [apply bounded_quietm, quietm_alive|]. intros al.
  apply bounded_bind.
  { apply bounded_quietm. destruct al; [apply quietm_ret|]. apply quietm_bind; [apply quietm_disconnect|]. intros _. apply quietm_connect. }
  intros _. unfold send_mid.
  apply bounded_bind; [apply bounded_quietm, quietm_the_conn|]. intros c.
  apply bounded_bind.
  { destruct (c_v3 c); [|apply bounded_ret].
    change 0%nat with (0 + 0)%nat. apply bounded_bind; [apply bounded_quietm, quietm_authenticated|]. intros a.
    destruct a; [apply bounded_ret|apply bounded_lan_auth]. }
  intros _. unfold send_rest.
  apply bounded_bind; [apply bounded_quietm, quietm_queue_len|]. intros n0.
  apply bounded_bind; [apply bounded_quietm, quietm_read_available|]. intros pre.
  apply bounded_bind; [apply send_loop_bounded|]. intros got.
  apply bounded_bind; [apply bounded_quietm, quietm_queue_len|]. intros n1.
  apply bounded_quietm, quietm_read_available.
Qed.

Lemma mbind_inv_ok {A B} (m : M A) (f : A -> M B) w b w' :
  mbind m f w = (Ok b, w') -> exists a w1, m w = (Ok a, w1) /\ f a w1 = (Ok b, w').
Proof. unfold mbind. destruct (m w) as [[a|e] w1]; [eauto|discriminate]. Qed.

(* a successful retry loop with a non-zero budget has transmitted the request at least once *)
Theorem send_loop_tx_lower r f acc w l w' : send_loop (S r) f acc w = (Ok l, w') ->
  exists evs, w_log w' = w_log w ++ evs /\ (1 <= ndata evs)%nat.
Proof.
  cbn [send_loop]. intros H. apply mbind_inv_ok in H. destruct H as (u & w1 & Hw & Hrest).
  assert (Hev : exists e, w_log w1 = w_log w ++ [e] /\ is_data e = true).
  { unfold proto_write in Hw. destruct (l_proto (w_lan w)) as [c|]; [|discriminate].
    destruct (write_refused (WData f) c); [discriminate|]. injection Hw as _ <-.
    exists (write_event (WData f) c). split; [reflexivity|]. cbn. destruct (c_v3 c); reflexivity. }
  destruct Hev as (e & Hl1 & Hd).
  match type of Hrest with ?k w1 = _ => assert (Hg : grows k) end.
  { apply grows_bind.
    - repeat (apply grows_catch; [|intros ?; try (apply grows_bind; [apply grows_disconnect|intros ?; apply grows_raise])]).
      + apply grows_bind; [apply grows_lan_read|]. intros x. apply grows_ret.
      + destruct r; [apply grows_bind; [apply grows_disconnect|intros ?; apply grows_raise]|apply grows_ret].
    - intros got. destruct got; [apply grows_ret|apply grows_send_loop]. }
  destruct (Hg w1) as [e2 H2]. rewrite Hrest in H2. cbn [snd] in H2.
  exists ([e] ++ e2). rewrite H2, Hl1, <- app_assoc. split; [reflexivity|].
  rewrite ndata_app. unfold ndata at 1. cbn [filter]. rewrite Hd. cbn. lia.
Qed.

(* exhausting the retries (or a cancelled read) raises a timeout AND drops the connection *)
Theorem send_loop_timeout_disconnects r f : forall acc,
  hoare (fun _ => True) (send_loop r f acc) (fun _ _ => True) (fun e w => e = ETimeout -> l_proto (w_lan w) = None).
Proof.
  induction r as [|r IH]; intros acc; cbn [send_loop]; [apply hoare_ret; auto|].
  eapply hoare_bind with (R := fun _ _ => True).
  { intros w _. unfold proto_write. destruct (l_proto (w_lan w)) as [c|]; [|intros H; discriminate].
    destruct (write_refused (WData f) c) as [e|] eqn:Er; [|exact I]. intros ->. exfalso.
    unfold write_refused in Er. destruct (c_v3 c), (c_key c), (c_closing c); discriminate. }
  intros ?.
  assert (Hdr : forall (A : Type) (Q : A -> world -> Prop) e0,
            hoare (fun _ => True) (lan_disconnect ;; @raise A e0) Q (fun e w => e = ETimeout -> l_proto (w_lan w) = None)).
  { intros A Q e0 w _. destruct (disconnect_post w) as (wd & evs & Hd & Hn & _). rewrite (mbind_ok _ _ _ _ _ Hd). intros _. exact Hn. }
  eapply hoare_bind with (R := fun _ _ => True).
  - eapply hoare_catch with (E1 := fun e w => e = ETimeout -> l_proto (w_lan w) = None).
    + eapply hoare_catch with (E1 := fun e w => e = ETimeout -> l_proto (w_lan w) = None).
      * eapply hoare_catch with (E1 := fun e w => True).
        -- intros w _. destruct (mbind (lan_read true) _ w) as [[x|e] w']; exact I.
        -- intros e _. destruct r; [apply Hdr|apply hoare_ret; auto].
        -- intros e w Hc _ ->. discriminate Hc.
      * intros e _. eapply hoare_conseq; [apply (Hdr _ (fun _ _ => True) e)| | |]; cbn; auto.
      * intros e w _ H. exact H.
    + intros e _. eapply hoare_conseq; [apply (Hdr _ (fun _ _ => True) ETimeout)| | |]; cbn; auto.
    + intros e w _ H. exact H.
  - intros got. destruct got; [apply hoare_ret; auto|]. eapply hoare_conseq; [apply IH| | |]; cbn; auto.
Qed.

(* ---------- C08: recovery. After a failure that dropped the connection (final timeout, protocol error during the
   exchange, cancellation, refused or hanging connect) the next exchange with a promptly answering device succeeds
   without any user intervention: it reconnects and - on V3 - re-authenticates with the cached credentials first ---------- *)
Theorem recovery_v2 w f r x d cs rs :
  l_proto (w_lan w) = None -> l_v3 (w_lan w) = false ->
  w_conns w = ConnOk :: cs -> w_replies w = [(d, RFrame x)] :: rs -> d < READ_TIMEOUT ->
  fst (lan_send f (S r) w) = Ok [x].
Proof.
  destruct w as [[proto v3 creds cexp maxlife] now conns hsr replies ncid nkid lg].
  cbn [w_lan l_proto l_v3 w_conns w_replies]. intros -> -> -> -> Hd.
  cbv beta iota zeta delta -[N.add N.ltb N.leb N.max N.land READ_TIMEOUT CONNECT_TIMEOUT AUTH_EXP_MS].
  replace (now + d <? now + READ_TIMEOUT) with true by (symmetry; apply N.ltb_lt; lia).
  cbv beta iota zeta delta -[N.add N.ltb N.leb N.max N.land READ_TIMEOUT CONNECT_TIMEOUT AUTH_EXP_MS].
  replace (now + d <? N.max (now + d) now) with false by (symmetry; apply N.ltb_ge; lia).
  reflexivity.
Qed.

Ltac sym_eval :=
  repeat (progress (cbv beta iota zeta delta -[N.add N.ltb N.leb N.max N.land Nat.eqb READ_TIMEOUT CONNECT_TIMEOUT AUTH_EXP_MS app];
                    cbn [app])).
Ltac decide_cmp :=
  match goal with
  | |- context [?a <? ?b] =>
      first [ replace (a <? b) with true by (symmetry; apply N.ltb_lt; unfold READ_TIMEOUT, AUTH_EXP_MS in *; lia)
            | replace (a <? b) with false by (symmetry; apply N.ltb_ge; unfold READ_TIMEOUT, AUTH_EXP_MS in *; lia) ]
  | |- context [Nat.eqb ?a ?a] => rewrite (Nat.eqb_refl a)
  end.

Theorem recovery_v3 w f r x d1 d2 cs hs rs :
  l_proto (w_lan w) = None -> l_v3 (w_lan w) = true -> l_creds (w_lan w) = Some true ->
  l_cexp (w_lan w) = None -> l_maxlife (w_lan w) = None ->
  w_conns w = ConnOk :: cs -> w_hsr w = [(d1, RHsOk)] :: hs -> w_replies w = [(d2, RFrame x)] :: rs ->
  d1 < READ_TIMEOUT -> d2 < READ_TIMEOUT ->
  fst (lan_send f (S r) w) = Ok [x]
  /\ exists cid kid p1 p2, w_log (snd (lan_send f (S r) w))
       = w_log w ++ [EvConnect cid true; EvHs cid p1 true; EvAuthOk cid kid; EvData cid p2 kid f].
Proof.
  destruct w as [[proto v3 creds cexp maxlife] now conns hsr replies ncid nkid lg].
  cbn [w_lan l_proto l_v3 l_creds l_cexp l_maxlife w_conns w_hsr w_replies w_log]. intros -> -> -> -> -> -> -> -> Hd1 Hd2.
  sym_eval. repeat (decide_cmp; sym_eval).
  split; [reflexivity|].
  exists ncid, nkid, 0, (N.land (0 + 1) PACKET_ID_MASK).
  rewrite <- !app_assoc. reflexivity.
Qed.

(* ---------- C06, session level: a failed authentication replaces nothing ---------- *)
Definition cframe {A} (m : M A) : Prop := forall w, l_creds (w_lan (snd (m w))) = l_creds (w_lan w).
Lemma cframe_ret {A} (a : A) : cframe (ret a). Proof. intros w. reflexivity. Qed.
Lemma cframe_raise {A} e : cframe (@raise A e). Proof. intros w. reflexivity. Qed.
Lemma cframe_get : cframe get. Proof. intros w. reflexivity. Qed.
Lemma cframe_bind {A B} (m : M A) (f : A -> M B) : cframe m -> (forall a, cframe (f a)) -> cframe (mbind m f).
Proof. intros Hm Hf w. unfold mbind. specialize (Hm w). destruct (m w) as [[a|e] w']; cbn [snd] in *; [rewrite Hf; exact Hm|exact Hm]. Qed.
Lemma cframe_catch {A} (m : M A) cs h : cframe m -> (forall e, cframe (h e)) -> cframe (mcatch m cs h).
Proof.
  intros Hm Hh w. unfold mcatch. specialize (Hm w). destruct (m w) as [[a|e] w']; cbn [snd] in *; [exact Hm|].
  destruct (existsb (subclass e) cs); [rewrite Hh; exact Hm|exact Hm].
Qed.
Lemma cframe_set_lan f : (forall l, l_creds (f l) = l_creds l) -> cframe (set_lan f).
Proof. intros Hf w. cbn. apply Hf. Qed.
Lemma cframe_set_conn f : cframe (set_conn f). Proof. apply cframe_set_lan. reflexivity. Qed.
Lemma cframe_advance t : cframe (advance_to t).
Proof. unfold advance_to. apply cframe_bind; [intros w; reflexivity|]. intros _. apply cframe_set_conn. Qed.
Lemma cframe_the_conn : cframe the_conn.
Proof. unfold the_conn. apply cframe_bind; [apply cframe_get|]. intros w. destruct (l_proto (w_lan w)); [apply cframe_ret|apply cframe_raise]. Qed.
Lemma cframe_write k : cframe (proto_write k).
Proof. intros w. unfold proto_write. destruct (l_proto (w_lan w)) as [c|]; [|reflexivity]. destruct (write_refused k c); reflexivity. Qed.
Lemma cframe_accept kid : cframe (accept_key kid).
Proof. intros w. unfold accept_key. destruct (l_proto (w_lan w)); reflexivity. Qed.
Lemma cframe_disconnect : cframe lan_disconnect.
Proof.
  unfold lan_disconnect. apply cframe_bind; [apply cframe_get|]. intros w. destruct (l_proto (w_lan w)) as [c|]; [|apply cframe_ret].
  apply cframe_bind; [destruct (c_closing c); [apply cframe_ret|intros w'; reflexivity]|]. intros _. apply cframe_set_lan. reflexivity.
Qed.
Lemma cframe_connect : cframe lan_connect.
Proof.
  intros w. cbv beta iota zeta delta [lan_connect mbind get]. destruct (hd ConnOk (w_conns w)); cbn [put raise snd]; try reflexivity.
  all: try (match goal with |- context [advance_to ?t ?w0] => pose proof (cframe_advance t w0) as H; destruct (advance_to t w0) as [[u|e] w'] end; exact H).
Qed.
Lemma cframe_pop : cframe pop_queue.
Proof.
  unfold pop_queue. apply cframe_bind; [apply cframe_the_conn|]. intros c. destruct (c_q c); [apply cframe_raise|].
  apply cframe_bind; [apply cframe_set_conn|]. intros _. apply cframe_ret.
Qed.
Lemma cframe_read_queue b : cframe (read_queue b).
Proof.
  unfold read_queue. apply cframe_bind; [apply cframe_the_conn|]. intros c. destruct (c_q c); [|apply cframe_pop].
  destruct (negb b); [apply cframe_raise|]. apply cframe_bind; [apply cframe_get|]. intros w. cbv zeta.
  assert (Hto : forall t, cframe (advance_to t ;; @raise pkt ETimeout)) by (intros t; apply cframe_bind; [apply cframe_advance|intros _; apply cframe_raise]).
  destruct (if c_closing c then None else first_arrival (c_in c)) as [a|]; [|apply Hto].
  destruct (a <? w_now w + READ_TIMEOUT); [|apply Hto].
  apply cframe_bind; [apply cframe_advance|]. intros _. apply cframe_bind; [apply cframe_set_conn|]. intros _. apply cframe_pop.
Qed.
Lemma cframe_proto_auth creds : cframe (proto_authenticate creds).
Proof.
  unfold proto_authenticate. destruct creds as [g|]; [|apply cframe_raise].
  apply cframe_bind; [apply cframe_set_conn|]. intros _. apply cframe_bind.
  - apply cframe_catch; [|intros e; apply cframe_raise]. apply cframe_bind; [apply cframe_write|]. intros _. apply cframe_read_queue.
  - intros p. destruct (as_hs g p); [apply cframe_accept|apply cframe_raise].
Qed.
Lemma cframe_auth_loop r creds : cframe (auth_loop r creds).
Proof.
  induction r as [|r IH]; cbn [auth_loop]; [apply cframe_ret|].
  apply cframe_catch; [apply cframe_proto_auth|]. intros e. destruct r; [apply cframe_raise|exact IH].
Qed.

Definition errframe {A} (m : M A) : Prop :=
  forall w e, fst (m w) = Err e -> l_creds (w_lan (snd (m w))) = l_creds (w_lan w).
Lemma errframe_of_cframe {A} (m : M A) : cframe m -> errframe m.
Proof. intros H w e _. apply H. Qed.
Lemma errframe_bind {A B} (m : M A) (f : A -> M B) : cframe m -> (forall a, errframe (f a)) -> errframe (mbind m f).
Proof.
  intros Hm Hf w e. unfold mbind. specialize (Hm w). destruct (m w) as [[a|e'] w']; cbn [fst snd] in *.
  - intros He. rewrite (Hf a w' e He). exact Hm.
  - intros _. exact Hm.
Qed.
Lemma errframe_total {A} (m : M A) : (forall w, exists a w', m w = (Ok a, w')) -> errframe m.
Proof. intros H w e He. destruct (H w) as (a & w' & Hw). rewrite Hw in He. discriminate. Qed.

(* LAN.authenticate that fails leaves the stored token/key exactly as they were (a success stores the pair used) *)
Theorem authenticate_failure_keeps_credentials g r : errframe (lan_authenticate g r).
Proof.
  unfold lan_authenticate.
  apply errframe_bind; [apply cframe_get|]. intros w0.
  apply errframe_bind; [intros w1; reflexivity|]. intros al.
  apply errframe_bind; [apply cframe_get|]. intros w1.
  apply errframe_bind.
  { destruct (negb al || _); [|apply cframe_ret]. apply cframe_bind; [apply cframe_disconnect|]. intros _.
    apply cframe_bind; [apply cframe_set_lan; reflexivity|]. intros _. apply cframe_connect. }
  intros _. apply errframe_bind; [apply cframe_auth_loop|]. intros _.
  apply errframe_bind.
  { unfold authenticated. apply cframe_bind; [apply cframe_the_conn|]. intros c. apply cframe_bind; [apply cframe_get|]. intros w2. apply cframe_ret. }
  intros a. apply errframe_bind; [destruct a; [apply cframe_ret|apply cframe_raise]|]. intros _.
  (* from here on nothing can fail *)
  apply errframe_total. intros w. cbv beta iota zeta delta [mbind set_lan upd get advance_to set_conn]. eexists. eexists. reflexivity.
Qed.
