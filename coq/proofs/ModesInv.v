(* Round trips for PKCS#7 padding, ECB and CBC (zero IV) over the AES model. *)
From MS Require Import lib.Base crypto.AES crypto.Modes proofs.AESInv.
From Coq Require Import Arith.
Local Open Scope nat_scope.

(* ------------------------------------------------------------------ *)
(* PKCS#7                                                              *)
(* ------------------------------------------------------------------ *)
Lemma pkcs7_pad_lengths (l : bytes) :
  length (pkcs7_pad l) mod 16 = 0 /\ length (pkcs7_pad l) = (length l / 16 + 1) * 16.
Proof.
  unfold pkcs7_pad. rewrite app_length, repeat_length.
  pose proof (Nat.div_mod (length l) 16 ltac:(lia)).
  pose proof (Nat.mod_upper_bound (length l) 16 ltac:(lia)).
  assert (E : length l + (16 - length l mod 16) = (length l / 16 + 1) * 16) by lia.
  rewrite E. split; [|reflexivity]. apply Nat.mod_mul. lia.
Qed.

Lemma pkcs7_pad_length_mod (l : bytes) : length (pkcs7_pad l) mod 16 = 0.
Proof. apply pkcs7_pad_lengths. Qed.

Lemma pkcs7_pad_length (l : bytes) : length (pkcs7_pad l) = (length l / 16 + 1) * 16.
Proof. apply pkcs7_pad_lengths. Qed.

Lemma pkcs7_pad_app (l : bytes) :
  exists k, 1 <= k <= 16 /\ k = 16 - length l mod 16 /\ pkcs7_pad l = l ++ repeat (N.of_nat k) k.
Proof.
  pose proof (Nat.mod_upper_bound (length l) 16 ltac:(lia)).
  exists (16 - length l mod 16). repeat split; try lia.
Qed.

Lemma repeat_wfb x k : (x < 256)%N -> wfb (repeat x k).
Proof. intros Hx. unfold wfb. induction k; cbn [repeat]; constructor; assumption. Qed.

Lemma pkcs7_pad_wfb (l : bytes) : wfb l -> wfb (pkcs7_pad l).
Proof.
  intros W. destruct (pkcs7_pad_app l) as (k & Hk & _ & ->).
  unfold wfb. apply Forall_app. split; [exact W|]. apply repeat_wfb. lia.
Qed.

Lemma last_app_repeat (l : bytes) x k : 0 < k -> last (l ++ repeat x k) 0%N = x.
Proof.
  intros Hk. destruct k; [lia|]. replace (S k) with (k + 1) by lia.
  rewrite repeat_app, app_assoc. cbn [repeat]. apply last_last.
Qed.

Lemma forallb_eqb_repeat x k : forallb (N.eqb x) (repeat x k) = true.
Proof. induction k; cbn [repeat forallb]; [reflexivity|]. now rewrite N.eqb_refl. Qed.

(* no hypothesis on l is needed *)
Lemma pkcs7_unpad_pad_any (l : bytes) : pkcs7_unpad (pkcs7_pad l) = Ok l.
Proof.
  pose proof (pkcs7_pad_length_mod l) as Hm.
  destruct (pkcs7_pad_app l) as (k & Hk & _ & Hpad).
  assert (Hn : length (pkcs7_pad l) = length l + k)
    by (rewrite Hpad, app_length, repeat_length; lia).
  unfold pkcs7_unpad. cbv zeta. rewrite Hm.
  replace (length (pkcs7_pad l) =? 0) with false by (symmetry; apply Nat.eqb_neq; lia).
  cbn [Nat.eqb negb].
  rewrite Hn, Hpad, last_app_repeat by lia.
  replace ((N.of_nat k <? 1)%N || (N.min 16 (N.of_nat (length l + k)) <? N.of_nat k)%N) with false
    by (symmetry; apply orb_false_iff; split; apply N.ltb_ge; lia).
  rewrite Nnat.Nat2N.id. replace (length l + k - k) with (length l) by lia.
  rewrite skipn_app, firstn_app, Nat.sub_diag, skipn_O, firstn_O, app_nil_r.
  rewrite skipn_all, firstn_all. cbn [app].
  now rewrite forallb_eqb_repeat.
Qed.

Theorem pkcs7_unpad_pad : forall l, wfb l -> pkcs7_unpad (pkcs7_pad l) = Ok l.
Proof. intros l _. apply pkcs7_unpad_pad_any. Qed.

(* ------------------------------------------------------------------ *)
(* Lists of 16-byte blocks                                             *)
(* ------------------------------------------------------------------ *)
Definition len16 (b : bytes) : Prop := length b = 16.

Lemma firstn16_app (b t : bytes) : length b = 16 -> firstn 16 (b ++ t) = b.
Proof.
  intros Hb. rewrite firstn_app, Hb, Nat.sub_diag, firstn_O, app_nil_r.
  apply firstn_all2. lia.
Qed.
Lemma skipn16_app (b t : bytes) : length b = 16 -> skipn 16 (b ++ t) = t.
Proof.
  intros Hb. rewrite skipn_app, Hb, Nat.sub_diag, skipn_O.
  rewrite (skipn_all2 (n:=16) b) by lia. reflexivity.
Qed.

Lemma chunks16_S (f : nat) (l : bytes) :
  l <> [] -> chunks16 (S f) l = firstn 16 l :: chunks16 f (skipn 16 l).
Proof. destruct l; [congruence|reflexivity]. Qed.

Lemma chunks16_concat bs :
  Forall len16 bs -> forall fuel, length bs <= fuel -> chunks16 fuel (concat bs) = bs.
Proof.
  induction 1 as [|b bs Hb _ IH]; intros fuel Hf.
  - destruct fuel; reflexivity.
  - cbn [length] in Hf. destruct fuel as [|fuel]; [lia|]. cbn [concat].
    unfold len16 in Hb.
    rewrite chunks16_S by (destruct b; [discriminate Hb|discriminate]).
    rewrite firstn16_app, skipn16_app by assumption.
    rewrite IH by lia. reflexivity.
Qed.

Lemma concat_len16 bs : Forall len16 bs -> length (concat bs) = 16 * length bs.
Proof.
  induction 1 as [|b bs Hb _ IH]; [reflexivity|].
  cbn [concat length]. rewrite app_length, IH. unfold len16 in Hb. lia.
Qed.

Lemma blocks_exist n : forall l : bytes, length l = 16 * n ->
  exists bs, l = concat bs /\ Forall len16 bs.
Proof.
  induction n as [|n IH]; intros l Hl.
  - exists []. split; [|constructor]. destruct l; [reflexivity|discriminate Hl].
  - destruct (IH (skipn 16 l)) as (bs & E & F); [rewrite skipn_length; lia|].
    exists (firstn 16 l :: bs). split.
    + cbn [concat]. rewrite <- E. symmetry. apply firstn_skipn.
    + constructor; [|exact F]. unfold len16. rewrite firstn_length. lia.
Qed.

Lemma aligned_blocks (l : bytes) : length l mod 16 = 0 ->
  exists bs, l = concat bs /\ Forall len16 bs.
Proof.
  intros Hm. apply (blocks_exist (length l / 16)).
  pose proof (Nat.div_mod (length l) 16 ltac:(lia)). lia.
Qed.

Lemma concat_aligned bs : Forall len16 bs -> aligned16 (concat bs) = true.
Proof.
  intros F. unfold aligned16. rewrite (concat_len16 bs F).
  apply Nat.eqb_eq. rewrite Nat.mul_comm. apply Nat.mod_mul. lia.
Qed.

Lemma concat_wfb bs : Forall wfb bs -> wfb (concat bs).
Proof.
  induction 1 as [|b bs Hb _ IH]; [constructor|].
  cbn [concat]. unfold wfb. apply Forall_app. split; assumption.
Qed.

Lemma wfb_concat bs : wfb (concat bs) -> Forall wfb bs.
Proof.
  induction bs as [|b bs IH]; intros W; [constructor|].
  cbn [concat] in W. unfold wfb in W. apply Forall_app in W. destruct W as [W1 W2].
  constructor; [exact W1|apply IH, W2].
Qed.

Lemma chunks16_of_concat bs :
  Forall len16 bs -> chunks16 (length (concat bs)) (concat bs) = bs.
Proof. intros F. apply chunks16_concat; [exact F|]. rewrite (concat_len16 bs F). lia. Qed.

Lemma ecb_blocks_concat f bs : Forall len16 bs -> ecb_blocks f (concat bs) = concat (map f bs).
Proof. intros F. unfold ecb_blocks. now rewrite chunks16_of_concat. Qed.

(* ------------------------------------------------------------------ *)
(* xor_bytes                                                           *)
(* ------------------------------------------------------------------ *)
Lemma xor_bytes_length a : forall b, length a = length b -> length (xor_bytes a b) = length a.
Proof.
  induction a as [|x a IH]; intros [|y b] E; try discriminate E; [reflexivity|].
  cbn [xor_bytes length]. f_equal. apply IH. now injection E.
Qed.

Lemma xor_bytes_wfb a : forall b, wfb a -> wfb b -> wfb (xor_bytes a b).
Proof.
  unfold wfb. induction a as [|x a IH]; intros [|y b] Wa Wb; cbn [xor_bytes]; try constructor.
  - apply Forall_cons_iff in Wa. apply Forall_cons_iff in Wb. apply lxor_lt; tauto.
  - apply Forall_cons_iff in Wa. apply Forall_cons_iff in Wb. apply IH; tauto.
Qed.

Lemma xor_bytes_cancel a : forall b, length a = length b -> xor_bytes (xor_bytes a b) b = a.
Proof.
  induction a as [|x a IH]; intros [|y b] E; try discriminate E; [reflexivity|].
  cbn [xor_bytes]. rewrite lxor_cancel, IH; [reflexivity|now injection E].
Qed.

Lemma xor_bytes_good a b : good a -> good b -> good (xor_bytes a b).
Proof.
  intros [La Wa] [Lb Wb]. split.
  - rewrite xor_bytes_length; congruence.
  - now apply xor_bytes_wfb.
Qed.

Lemma zeros_length n : length (zeros n) = n.
Proof. induction n; cbn [zeros length]; congruence. Qed.
Lemma zeros_wfb n : wfb (zeros n).
Proof. unfold wfb. induction n; cbn [zeros]; constructor; [reflexivity|assumption]. Qed.
Lemma zeros16_good : good (zeros 16).
Proof. split; [apply zeros_length|apply zeros_wfb]. Qed.

(* ------------------------------------------------------------------ *)
(* ECB and CBC over an abstract pair of block maps e, d with d o e = id *)
(* ------------------------------------------------------------------ *)
Section BlockMaps.
Variables e d : bytes -> bytes.
Hypothesis e_good : forall b, good b -> good (e b).
Hypothesis d_e : forall b, good b -> d (e b) = b.

Lemma map_e_len16 bs : Forall len16 bs -> Forall wfb bs -> Forall len16 (map e bs).
Proof.
  induction 1 as [|b bs Hb _ IH]; intros W; cbn [map]; [constructor|].
  apply Forall_cons_iff in W. destruct W as [Wb W].
  constructor; [|now apply IH]. now apply e_good.
Qed.
Lemma map_e_wfb bs : Forall len16 bs -> Forall wfb bs -> Forall wfb (map e bs).
Proof.
  induction 1 as [|b bs Hb _ IH]; intros W; cbn [map]; [constructor|].
  apply Forall_cons_iff in W. destruct W as [Wb W].
  constructor; [|now apply IH]. now apply e_good.
Qed.
Lemma map_d_e bs : Forall len16 bs -> Forall wfb bs -> map d (map e bs) = bs.
Proof.
  induction 1 as [|b bs Hb _ IH]; intros W; cbn [map]; [reflexivity|].
  apply Forall_cons_iff in W. destruct W as [Wb W].
  rewrite IH by assumption. rewrite d_e by (split; assumption). reflexivity.
Qed.

Lemma ecb_round_trip (l : bytes) : wfb l -> length l mod 16 = 0 ->
  let c := ecb_blocks e l in
  length c = length l /\ wfb c /\ aligned16 l = true /\ aligned16 c = true /\ ecb_blocks d c = l.
Proof.
  intros W Hm. destruct (aligned_blocks l Hm) as (bs & -> & F). cbv zeta.
  apply wfb_concat in W.
  pose proof (map_e_len16 bs F W) as F'. pose proof (map_e_wfb bs F W) as W'.
  rewrite ecb_blocks_concat by assumption. repeat split.
  - rewrite !concat_len16 by assumption. now rewrite map_length.
  - now apply concat_wfb.
  - now apply concat_aligned.
  - now apply concat_aligned.
  - rewrite ecb_blocks_concat by assumption. now rewrite map_d_e.
Qed.

(* CBC as lists of blocks *)
Fixpoint cbc_enc_list (prev : bytes) (bs : list bytes) : list bytes :=
  match bs with
  | [] => []
  | b :: t => let c := e (xor_bytes b prev) in c :: cbc_enc_list c t
  end.
Fixpoint cbc_dec_list (prev : bytes) (cs : list bytes) : list bytes :=
  match cs with
  | [] => []
  | c :: t => xor_bytes (d c) prev :: cbc_dec_list c t
  end.

Lemma cbc_enc_blocks_list bs : forall prev,
  cbc_enc_blocks e prev bs = concat (cbc_enc_list prev bs).
Proof. induction bs as [|b bs IH]; intros prev; cbn [cbc_enc_blocks cbc_enc_list concat];
  [reflexivity|]. now rewrite IH. Qed.
Lemma cbc_dec_blocks_list cs : forall prev,
  cbc_dec_blocks d prev cs = concat (cbc_dec_list prev cs).
Proof. induction cs as [|c cs IH]; intros prev; cbn [cbc_dec_blocks cbc_dec_list concat];
  [reflexivity|]. now rewrite IH. Qed.

Lemma cbc_enc_list_length bs : forall prev, length (cbc_enc_list prev bs) = length bs.
Proof. induction bs as [|b bs IH]; intros prev; cbn [cbc_enc_list length]; [reflexivity|].
  now rewrite IH. Qed.
Lemma cbc_dec_list_length cs : forall prev, length (cbc_dec_list prev cs) = length cs.
Proof. induction cs as [|c cs IH]; intros prev; cbn [cbc_dec_list length]; [reflexivity|].
  now rewrite IH. Qed.

(* encrypt then decrypt *)
Lemma cbc_enc_list_good bs : Forall len16 bs -> Forall wfb bs -> forall prev, good prev ->
  Forall len16 (cbc_enc_list prev bs) /\ Forall wfb (cbc_enc_list prev bs).
Proof.
  induction 1 as [|b bs Hb _ IH]; intros W prev G; cbn [cbc_enc_list]; [split; constructor|].
  apply Forall_cons_iff in W. destruct W as [Wb W].
  assert (Gc : good (e (xor_bytes b prev))) by (apply e_good, xor_bytes_good; [split|]; assumption).
  destruct (IH W _ Gc) as [I1 I2]. split; constructor; try assumption; apply Gc.
Qed.

Lemma cbc_dec_enc_list bs : Forall len16 bs -> Forall wfb bs -> forall prev, good prev ->
  cbc_dec_list prev (cbc_enc_list prev bs) = bs.
Proof.
  induction 1 as [|b bs Hb _ IH]; intros W prev G; cbn [cbc_enc_list cbc_dec_list]; [reflexivity|].
  apply Forall_cons_iff in W. destruct W as [Wb W].
  assert (Gx : good (xor_bytes b prev)) by (apply xor_bytes_good; [split|]; assumption).
  rewrite d_e by assumption.
  rewrite xor_bytes_cancel by (destruct G as [Lp _]; unfold len16 in Hb; congruence).
  rewrite IH; [reflexivity|assumption|now apply e_good].
Qed.

Lemma cbc_round_trip_enc (l : bytes) : wfb l -> length l mod 16 = 0 ->
  let c := cbc_enc_blocks e (zeros 16) (chunks16 (length l) l) in
  length c = length l /\ wfb c /\ aligned16 l = true /\ aligned16 c = true /\
  cbc_dec_blocks d (zeros 16) (chunks16 (length c) c) = l.
Proof.
  intros W Hm. destruct (aligned_blocks l Hm) as (bs & -> & F). cbv zeta.
  apply wfb_concat in W.
  rewrite chunks16_of_concat by assumption. rewrite cbc_enc_blocks_list.
  destruct (cbc_enc_list_good bs F W _ zeros16_good) as [F' W'].
  repeat split.
  - rewrite !concat_len16 by assumption. now rewrite cbc_enc_list_length.
  - now apply concat_wfb.
  - now apply concat_aligned.
  - now apply concat_aligned.
  - rewrite chunks16_of_concat by assumption. rewrite cbc_dec_blocks_list.
    now rewrite cbc_dec_enc_list by (try assumption; apply zeros16_good).
Qed.
End BlockMaps.

(* decrypt then encrypt: the same development with the roles exchanged;
   here d is applied first, so the hypotheses are about d *)
Section BlockMapsRev.
Variables e d : bytes -> bytes.
Hypothesis d_good : forall b, good b -> good (d b).
Hypothesis e_d : forall b, good b -> e (d b) = b.

Lemma cbc_dec_list_good cs : Forall len16 cs -> Forall wfb cs -> forall prev, good prev ->
  Forall len16 (cbc_dec_list d prev cs) /\ Forall wfb (cbc_dec_list d prev cs).
Proof.
  induction 1 as [|c cs Hc _ IH]; intros W prev G; cbn [cbc_dec_list]; [split; constructor|].
  apply Forall_cons_iff in W. destruct W as [Wc W].
  assert (Gc : good c) by (split; assumption).
  assert (Gx : good (xor_bytes (d c) prev)) by (apply xor_bytes_good; [apply d_good|]; assumption).
  destruct (IH W _ Gc) as [I1 I2]. split; constructor; try assumption; apply Gx.
Qed.

Lemma cbc_enc_dec_list cs : Forall len16 cs -> Forall wfb cs -> forall prev, good prev ->
  cbc_enc_list e prev (cbc_dec_list d prev cs) = cs.
Proof.
  induction 1 as [|c cs Hc _ IH]; intros W prev G; cbn [cbc_enc_list cbc_dec_list]; [reflexivity|].
  apply Forall_cons_iff in W. destruct W as [Wc W].
  assert (Gc : good c) by (split; assumption).
  pose proof (d_good c Gc) as [Ld _].
  rewrite xor_bytes_cancel by (destruct G as [Lp _]; congruence).
  rewrite e_d by assumption.
  rewrite IH by assumption. reflexivity.
Qed.

Lemma cbc_round_trip_dec (l : bytes) : wfb l -> length l mod 16 = 0 ->
  let p := cbc_dec_blocks d (zeros 16) (chunks16 (length l) l) in
  length p = length l /\ wfb p /\ aligned16 l = true /\ aligned16 p = true /\
  cbc_enc_blocks e (zeros 16) (chunks16 (length p) p) = l.
Proof.
  intros W Hm. destruct (aligned_blocks l Hm) as (cs & -> & F). cbv zeta.
  apply wfb_concat in W.
  rewrite chunks16_of_concat by assumption. rewrite cbc_dec_blocks_list.
  destruct (cbc_dec_list_good cs F W _ zeros16_good) as [F' W'].
  repeat split.
  - rewrite !concat_len16 by assumption. now rewrite cbc_dec_list_length.
  - now apply concat_wfb.
  - now apply concat_aligned.
  - now apply concat_aligned.
  - rewrite chunks16_of_concat by assumption. rewrite cbc_enc_blocks_list.
    now rewrite cbc_enc_dec_list by (try assumption; apply zeros16_good).
Qed.
End BlockMapsRev.

(* ------------------------------------------------------------------ *)
(* Instantiation with AES                                              *)
(* ------------------------------------------------------------------ *)
Lemma aes_encrypt_with_good ks b : good b -> good (aes_encrypt_with ks b).
Proof. intros [L _]. split; [now rewrite aes_encrypt_with_length|apply aes_encrypt_with_wfb]. Qed.
Lemma aes_decrypt_with_good ks b : good b -> good (aes_decrypt_with ks b).
Proof. intros [L _]. split; [now rewrite aes_decrypt_with_length|apply aes_decrypt_with_wfb]. Qed.
Lemma aes_dec_enc_good ks b : good b -> aes_decrypt_with ks (aes_encrypt_with ks b) = b.
Proof. intros [L W]. now apply aes_dec_enc_with. Qed.
Lemma aes_enc_dec_good ks b : good b -> aes_encrypt_with ks (aes_decrypt_with ks b) = b.
Proof. intros [L W]. now apply aes_enc_dec_with. Qed.

Lemma aligned16_false (l : bytes) : length l mod 16 <> 0 -> aligned16 l = false.
Proof. intros H. unfold aligned16. now apply Nat.eqb_neq. Qed.

Lemma ecb_enc_unaligned key l : length l mod 16 <> 0 -> ecb_enc key l = Err EValue.
Proof. intros H. unfold ecb_enc. now rewrite aligned16_false. Qed.
Lemma ecb_dec_unaligned key l : length l mod 16 <> 0 -> ecb_dec key l = Err EValue.
Proof. intros H. unfold ecb_dec. now rewrite aligned16_false. Qed.
Lemma cbc_enc_unaligned key l : length l mod 16 <> 0 -> cbc_enc key l = Err EValue.
Proof. intros H. unfold cbc_enc. now rewrite aligned16_false. Qed.
Lemma cbc_dec_unaligned key l : length l mod 16 <> 0 -> cbc_dec key l = Err EValue.
Proof. intros H. unfold cbc_dec. now rewrite aligned16_false. Qed.

Theorem ecb_dec_enc : forall key l, wfb l -> length l mod 16 = 0 ->
  exists c, ecb_enc key l = Ok c /\ length c = length l /\ wfb c /\ ecb_dec key c = Ok l.
Proof.
  intros key l W Hm.
  destruct (ecb_round_trip (aes_encrypt_with (key_expansion key)) (aes_decrypt_with (key_expansion key))
              (aes_encrypt_with_good _) (aes_dec_enc_good _) l W Hm) as (L & Wc & A & Ac & R).
  eexists. unfold ecb_enc, ecb_dec. cbv zeta. rewrite A.
  split; [reflexivity|]. rewrite Ac, R. auto.
Qed.

Theorem ecb_enc_dec : forall key l, wfb l -> length l mod 16 = 0 ->
  exists p, ecb_dec key l = Ok p /\ length p = length l /\ wfb p /\ ecb_enc key p = Ok l.
Proof.
  intros key l W Hm.
  destruct (ecb_round_trip (aes_decrypt_with (key_expansion key)) (aes_encrypt_with (key_expansion key))
              (aes_decrypt_with_good _) (aes_enc_dec_good _) l W Hm) as (L & Wc & A & Ac & R).
  eexists. unfold ecb_enc, ecb_dec. cbv zeta. rewrite A.
  split; [reflexivity|]. rewrite Ac, R. auto.
Qed.

Theorem cbc_dec_enc : forall key l, wfb l -> length l mod 16 = 0 ->
  exists c, cbc_enc key l = Ok c /\ length c = length l /\ wfb c /\ cbc_dec key c = Ok l.
Proof.
  intros key l W Hm.
  destruct (cbc_round_trip_enc (aes_encrypt_with (key_expansion key)) (aes_decrypt_with (key_expansion key))
              (aes_encrypt_with_good _) (aes_dec_enc_good _) l W Hm) as (L & Wc & A & Ac & R).
  eexists. unfold cbc_enc, cbc_dec. cbv zeta. rewrite A.
  split; [reflexivity|]. rewrite Ac, R. auto.
Qed.

Theorem cbc_enc_dec : forall key l, wfb l -> length l mod 16 = 0 ->
  exists p, cbc_dec key l = Ok p /\ length p = length l /\ wfb p /\ cbc_enc key p = Ok l.
Proof.
  intros key l W Hm.
  destruct (cbc_round_trip_dec (aes_encrypt_with (key_expansion key)) (aes_decrypt_with (key_expansion key))
              (aes_decrypt_with_good _) (aes_enc_dec_good _) l W Hm) as (L & Wc & A & Ac & R).
  eexists. unfold cbc_enc, cbc_dec. cbv zeta. rewrite A.
  split; [reflexivity|]. rewrite Ac, R. auto.
Qed.

Print Assumptions pkcs7_unpad_pad.
Print Assumptions pkcs7_pad_length.
Print Assumptions ecb_dec_enc.
Print Assumptions ecb_enc_dec.
Print Assumptions cbc_dec_enc.
Print Assumptions cbc_enc_dec.
