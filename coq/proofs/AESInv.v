(* The AES block cipher model of crypto/AES.v is a bijection on 16-byte blocks:
   decrypt inverts encrypt and encrypt inverts decrypt, for EVERY key byte string
   (no hypothesis on the key: the proofs go through an arbitrary round-key list). *)
From MS Require Import lib.Base crypto.AES.
From Coq Require Import Btauto.

(* ------------------------------------------------------------------ *)
(* Reflection over the 256 byte values                                 *)
(* ------------------------------------------------------------------ *)
Definition bytes256 : list N := map N.of_nat (seq 0 256).

Lemma in_bytes256 x : x < 256 -> In x bytes256.
Proof.
  intros H. unfold bytes256. apply in_map_iff. exists (N.to_nat x).
  split; [lia|]. apply in_seq. lia.
Qed.

Lemma forall_bytes (P : N -> bool) :
  forallb P bytes256 = true -> forall x, x < 256 -> P x = true.
Proof. intros C x Hx. rewrite forallb_forall in C. apply C, in_bytes256, Hx. Qed.

Lemma forall_bytes2 (P : N -> N -> bool) :
  forallb (fun a => forallb (P a) bytes256) bytes256 = true ->
  forall x y, x < 256 -> y < 256 -> P x y = true.
Proof.
  intros C x y Hx Hy. pose proof (forall_bytes _ C x Hx) as C'. cbv beta in C'.
  exact (forall_bytes _ C' y Hy).
Qed.

(* ------------------------------------------------------------------ *)
(* xor facts                                                           *)
(* ------------------------------------------------------------------ *)
Ltac lxor_ac :=
  apply N.bits_inj; let n := fresh "n" in intro n; rewrite ?N.lxor_spec;
  repeat match goal with |- context[N.testbit ?x n] =>
    let b := fresh "b" in generalize (N.testbit x n); intro b end;
  btauto.

Lemma lxor_lt a b : a < 256 -> b < 256 -> N.lxor a b < 256.
Proof.
  intros Ha Hb. destruct (N.eq_dec (N.lxor a b) 0) as [->|Hz]; [lia|].
  apply N.log2_lt_pow2 with (b:=8); [lia|].
  eapply N.le_lt_trans; [apply N.log2_lxor|].
  destruct (N.eq_dec a 0), (N.eq_dec b 0); subst; simpl; try lia;
  apply N.max_lub_lt; try (apply N.log2_lt_pow2; lia); simpl; lia.
Qed.

Lemma lxor_cancel a m : N.lxor (N.lxor a m) m = a.
Proof. now rewrite N.lxor_assoc, N.lxor_nilpotent, N.lxor_0_r. Qed.

(* ------------------------------------------------------------------ *)
(* S-box                                                               *)
(* ------------------------------------------------------------------ *)
Lemma sbox_inv_chk :
  forallb (fun b => (inv_sub_byte (sub_byte b) =? b) && (sub_byte (inv_sub_byte b) =? b)
                    && (sub_byte b <? 256) && (inv_sub_byte b <? 256)) bytes256 = true.
Proof. vm_compute. reflexivity. Qed.

Lemma sbox_facts b : b < 256 ->
  inv_sub_byte (sub_byte b) = b /\ sub_byte (inv_sub_byte b) = b /\
  sub_byte b < 256 /\ inv_sub_byte b < 256.
Proof.
  intros Hb. pose proof (forall_bytes _ sbox_inv_chk b Hb) as C. cbv beta in C.
  rewrite !andb_true_iff, !N.eqb_eq, !N.ltb_lt in C. tauto.
Qed.

Lemma inv_sub_sub_byte b : b < 256 -> inv_sub_byte (sub_byte b) = b.
Proof. intros Hb. apply (sbox_facts b Hb). Qed.
Lemma sub_inv_sub_byte b : b < 256 -> sub_byte (inv_sub_byte b) = b.
Proof. intros Hb. apply (sbox_facts b Hb). Qed.

Lemma sub_byte_lt b : sub_byte b < 256.
Proof.
  destruct (N.ltb_spec b 256) as [Hb|Hb]; [apply (sbox_facts b Hb)|].
  unfold sub_byte. destruct (N.ltb_spec b 256); [lia|reflexivity].
Qed.
Lemma inv_sub_byte_lt b : inv_sub_byte b < 256.
Proof.
  destruct (N.ltb_spec b 256) as [Hb|Hb]; [apply (sbox_facts b Hb)|].
  unfold inv_sub_byte. destruct (N.ltb_spec b 256); [lia|reflexivity].
Qed.

Lemma sub_bytes_length s : length (sub_bytes s) = length s.
Proof. apply map_length. Qed.
Lemma inv_sub_bytes_length s : length (inv_sub_bytes s) = length s.
Proof. apply map_length. Qed.

Lemma sub_bytes_wfb s : wfb (sub_bytes s).
Proof. unfold wfb, sub_bytes. apply Forall_forall. intros x Hx.
  apply in_map_iff in Hx. destruct Hx as (y & <- & _). apply sub_byte_lt. Qed.
Lemma inv_sub_bytes_wfb s : wfb (inv_sub_bytes s).
Proof. unfold wfb, inv_sub_bytes. apply Forall_forall. intros x Hx.
  apply in_map_iff in Hx. destruct Hx as (y & <- & _). apply inv_sub_byte_lt. Qed.

Lemma inv_sub_sub_bytes s : wfb s -> inv_sub_bytes (sub_bytes s) = s.
Proof.
  unfold wfb, inv_sub_bytes, sub_bytes. induction 1 as [|b s Hb _ IH]; [reflexivity|].
  cbn [map]. now rewrite IH, inv_sub_sub_byte.
Qed.
Lemma sub_inv_sub_bytes s : wfb s -> sub_bytes (inv_sub_bytes s) = s.
Proof.
  unfold wfb, inv_sub_bytes, sub_bytes. induction 1 as [|b s Hb _ IH]; [reflexivity|].
  cbn [map]. now rewrite IH, sub_inv_sub_byte.
Qed.

(* ------------------------------------------------------------------ *)
(* ShiftRows: a fixed permutation of the 16 positions                  *)
(* ------------------------------------------------------------------ *)
Ltac destruct17 s :=
  do 16 (destruct s as [|? s]; [reflexivity|]); destruct s; reflexivity.

Lemma inv_shift_shift_rows s : inv_shift_rows (shift_rows s) = s.
Proof. destruct17 s. Qed.
Lemma shift_inv_shift_rows s : shift_rows (inv_shift_rows s) = s.
Proof. destruct17 s. Qed.
Lemma shift_rows_length s : length (shift_rows s) = length s.
Proof. destruct17 s. Qed.
Lemma inv_shift_rows_length s : length (inv_shift_rows s) = length s.
Proof. destruct17 s. Qed.

Ltac split_wfb H :=
  unfold wfb in H;
  repeat (apply Forall_cons_iff in H; let W := fresh "W" in destruct H as [W H]).
Ltac solve_wfb_lit :=
  unfold wfb; repeat (apply Forall_cons; [assumption|]); apply Forall_nil.

Lemma shift_rows_wfb s : wfb s -> wfb (shift_rows s).
Proof.
  intros H. do 16 (destruct s as [|? s]; [exact H|]). destruct s; [|exact H].
  split_wfb H. cbn [shift_rows]. solve_wfb_lit.
Qed.
Lemma inv_shift_rows_wfb s : wfb s -> wfb (inv_shift_rows s).
Proof.
  intros H. do 16 (destruct s as [|? s]; [exact H|]). destruct s; [|exact H].
  split_wfb H. cbn [inv_shift_rows]. solve_wfb_lit.
Qed.

(* ------------------------------------------------------------------ *)
(* AddRoundKey                                                         *)
(* ------------------------------------------------------------------ *)
Lemma add_round_key_length s : forall k, length (add_round_key s k) = length s.
Proof. induction s as [|a s IH]; intros k; cbn [add_round_key length]; [reflexivity|]. now rewrite IH. Qed.

Lemma add_round_key_wfb s : forall k, wfb s -> wfb (add_round_key s k).
Proof.
  unfold wfb. induction s as [|a s IH]; intros k H; cbn [add_round_key]; [constructor|].
  apply Forall_cons_iff in H. destruct H as [Ha Hs]. constructor; [|now apply IH].
  apply lxor_lt; [assumption|]. apply N.mod_lt. discriminate.
Qed.

Lemma add_round_key_invol s : forall k, add_round_key (add_round_key s k) k = s.
Proof.
  induction s as [|a s IH]; intros k; cbn [add_round_key]; [reflexivity|].
  now rewrite IH, lxor_cancel.
Qed.

(* ------------------------------------------------------------------ *)
(* MixColumns: GF(2)-linearity of xtime by exhaustive check, then       *)
(* superposition of the four unit columns                              *)
(* ------------------------------------------------------------------ *)
Lemma xtime_lin_chk :
  forallb (fun a => forallb (fun b => xtime (N.lxor a b) =? N.lxor (xtime a) (xtime b)) bytes256)
          bytes256 = true.
Proof. vm_compute. reflexivity. Qed.

Lemma xtime_lin a b : a < 256 -> b < 256 -> xtime (N.lxor a b) = N.lxor (xtime a) (xtime b).
Proof.
  intros Ha Hb.
  pose proof (forall_bytes2 (fun a b => xtime (N.lxor a b) =? N.lxor (xtime a) (xtime b))
                            xtime_lin_chk a b Ha Hb) as C.
  now apply N.eqb_eq in C.
Qed.

Lemma xtime_lt_chk : forallb (fun a => xtime a <? 256) bytes256 = true.
Proof. vm_compute. reflexivity. Qed.
Lemma xtime_lt a : a < 256 -> xtime a < 256.
Proof. intros Ha. pose proof (forall_bytes _ xtime_lt_chk a Ha) as C. now apply N.ltb_lt in C. Qed.

Lemma gm2_lt a : a < 256 -> gm2 a < 256. Proof. apply xtime_lt. Qed.
Lemma gm3_lt a : a < 256 -> gm3 a < 256. Proof. intros; unfold gm3; auto using lxor_lt, xtime_lt. Qed.
Lemma gm4_lt a : a < 256 -> gm4 a < 256. Proof. intros; unfold gm4; auto using xtime_lt. Qed.
Lemma gm8_lt a : a < 256 -> gm8 a < 256. Proof. intros; unfold gm8; auto using xtime_lt, gm4_lt. Qed.
Lemma gm9_lt a : a < 256 -> gm9 a < 256. Proof. intros; unfold gm9; auto using lxor_lt, gm8_lt. Qed.
Lemma gm11_lt a : a < 256 -> gm11 a < 256.
Proof. intros; unfold gm11; auto using lxor_lt, gm8_lt, gm2_lt. Qed.
Lemma gm13_lt a : a < 256 -> gm13 a < 256.
Proof. intros; unfold gm13; auto using lxor_lt, gm8_lt, gm4_lt. Qed.
Lemma gm14_lt a : a < 256 -> gm14 a < 256.
Proof. intros; unfold gm14; auto using lxor_lt, gm8_lt, gm4_lt, gm2_lt. Qed.

Lemma gm2_lin a b : a < 256 -> b < 256 -> gm2 (N.lxor a b) = N.lxor (gm2 a) (gm2 b).
Proof. apply xtime_lin. Qed.
Lemma gm3_lin a b : a < 256 -> b < 256 -> gm3 (N.lxor a b) = N.lxor (gm3 a) (gm3 b).
Proof. intros. unfold gm3. rewrite xtime_lin by assumption. lxor_ac. Qed.
Lemma gm4_lin a b : a < 256 -> b < 256 -> gm4 (N.lxor a b) = N.lxor (gm4 a) (gm4 b).
Proof. intros. unfold gm4. rewrite xtime_lin by assumption. apply xtime_lin; now apply xtime_lt. Qed.
Lemma gm8_lin a b : a < 256 -> b < 256 -> gm8 (N.lxor a b) = N.lxor (gm8 a) (gm8 b).
Proof. intros. unfold gm8. rewrite gm4_lin by assumption. apply xtime_lin; now apply gm4_lt. Qed.
Lemma gm9_lin a b : a < 256 -> b < 256 -> gm9 (N.lxor a b) = N.lxor (gm9 a) (gm9 b).
Proof. intros. unfold gm9. rewrite gm8_lin by assumption. lxor_ac. Qed.
Lemma gm11_lin a b : a < 256 -> b < 256 -> gm11 (N.lxor a b) = N.lxor (gm11 a) (gm11 b).
Proof. intros. unfold gm11. rewrite gm8_lin, gm2_lin by assumption. lxor_ac. Qed.
Lemma gm13_lin a b : a < 256 -> b < 256 -> gm13 (N.lxor a b) = N.lxor (gm13 a) (gm13 b).
Proof. intros. unfold gm13. rewrite gm8_lin, gm4_lin by assumption. lxor_ac. Qed.
Lemma gm14_lin a b : a < 256 -> b < 256 -> gm14 (N.lxor a b) = N.lxor (gm14 a) (gm14 b).
Proof. intros. unfold gm14. rewrite gm8_lin, gm4_lin, gm2_lin by assumption. lxor_ac. Qed.

Definition cxor (x y : column) : column :=
  let '(a, b, c, d) := x in
  let '(a', b', c', d') := y in (N.lxor a a', N.lxor b b', N.lxor c c', N.lxor d d').
Definition cok (x : column) : Prop :=
  let '(a, b, c, d) := x in a < 256 /\ b < 256 /\ c < 256 /\ d < 256.

Lemma mixc_lin x y : cok x -> cok y -> mixc (cxor x y) = cxor (mixc x) (mixc y).
Proof.
  destruct x as [[[a b] c] d], y as [[[a' b'] c'] d']. cbn [cok cxor mixc].
  intros (?&?&?&?) (?&?&?&?).
  rewrite !gm2_lin, !gm3_lin by assumption. f_equal; [f_equal; [f_equal|]|]; lxor_ac.
Qed.
Lemma imixc_lin x y : cok x -> cok y -> imixc (cxor x y) = cxor (imixc x) (imixc y).
Proof.
  destruct x as [[[a b] c] d], y as [[[a' b'] c'] d']. cbn [cok cxor imixc].
  intros (?&?&?&?) (?&?&?&?).
  rewrite !gm9_lin, !gm11_lin, !gm13_lin, !gm14_lin by assumption.
  f_equal; [f_equal; [f_equal|]|]; lxor_ac.
Qed.
Lemma mixc_ok x : cok x -> cok (mixc x).
Proof.
  destruct x as [[[a b] c] d]. cbn [cok mixc]. intros (?&?&?&?).
  repeat split; auto 10 using lxor_lt, gm2_lt, gm3_lt.
Qed.
Lemma imixc_ok x : cok x -> cok (imixc x).
Proof.
  destruct x as [[[a b] c] d]. cbn [cok imixc]. intros (?&?&?&?).
  repeat split; auto 10 using lxor_lt, gm9_lt, gm11_lt, gm13_lt, gm14_lt.
Qed.

Definition ceqb (x y : column) : bool :=
  let '(a, b, c, d) := x in
  let '(a', b', c', d') := y in (a =? a') && (b =? b') && (c =? c') && (d =? d').
Lemma ceqb_eq x y : ceqb x y = true -> x = y.
Proof.
  destruct x as [[[a b] c] d], y as [[[a' b'] c'] d']. cbn [ceqb].
  rewrite !andb_true_iff, !N.eqb_eq. intuition congruence.
Qed.

Definition units_chk (F : column -> column) : bool :=
  forallb (fun a => ceqb (F (a, 0, 0, 0)) (a, 0, 0, 0) && ceqb (F (0, a, 0, 0)) (0, a, 0, 0)
                    && ceqb (F (0, 0, a, 0)) (0, 0, a, 0) && ceqb (F (0, 0, 0, a)) (0, 0, 0, a))
          bytes256.

(* a GF(2)-linear map on columns that fixes every unit column is the identity *)
Lemma linear_units_id (F : column -> column) :
  (forall x y, cok x -> cok y -> F (cxor x y) = cxor (F x) (F y)) ->
  units_chk F = true ->
  forall a b c d, a < 256 -> b < 256 -> c < 256 -> d < 256 -> F (a, b, c, d) = (a, b, c, d).
Proof.
  intros Flin Fu a b c d Ha Hb Hc Hd.
  assert (U : forall a, a < 256 ->
            F (a, 0, 0, 0) = (a, 0, 0, 0) /\ F (0, a, 0, 0) = (0, a, 0, 0) /\
            F (0, 0, a, 0) = (0, 0, a, 0) /\ F (0, 0, 0, a) = (0, 0, 0, a)).
  { intros x Hx. pose proof (forall_bytes _ Fu x Hx) as C. cbv beta in C.
    rewrite !andb_true_iff in C. destruct C as [[[C1 C2] C3] C4]. auto using ceqb_eq. }
  assert (E : (a, b, c, d) = cxor (cxor (a, 0, 0, 0) (0, b, 0, 0)) (cxor (0, 0, c, 0) (0, 0, 0, d))).
  { cbn [cxor]. now rewrite !N.lxor_0_r, !N.lxor_0_l. }
  rewrite E at 1.
  rewrite !Flin; try (cbn [cxor cok]; rewrite ?N.lxor_0_r, ?N.lxor_0_l; repeat split; lia).
  destruct (U a Ha) as (-> & _ & _ & _). destruct (U b Hb) as (_ & -> & _ & _).
  destruct (U c Hc) as (_ & _ & -> & _). destruct (U d Hd) as (_ & _ & _ & ->).
  cbn [cxor]. now rewrite !N.lxor_0_r, !N.lxor_0_l.
Qed.

Lemma imix_mix_units : units_chk (fun x => imixc (mixc x)) = true.
Proof. vm_compute. reflexivity. Qed.
Lemma mix_imix_units : units_chk (fun x => mixc (imixc x)) = true.
Proof. vm_compute. reflexivity. Qed.

Lemma imixc_mixc x : cok x -> imixc (mixc x) = x.
Proof.
  destruct x as [[[a b] c] d]. intros (Ha & Hb & Hc & Hd).
  apply (linear_units_id (fun x => imixc (mixc x))); try assumption; [|exact imix_mix_units].
  intros x y Hx Hy. cbv beta. rewrite mixc_lin by assumption. apply imixc_lin; now apply mixc_ok.
Qed.
Lemma mixc_imixc x : cok x -> mixc (imixc x) = x.
Proof.
  destruct x as [[[a b] c] d]. intros (Ha & Hb & Hc & Hd).
  apply (linear_units_id (fun x => mixc (imixc x))); try assumption; [|exact mix_imix_units].
  intros x y Hx Hy. cbv beta. rewrite imixc_lin by assumption. apply mixc_lin; now apply imixc_ok.
Qed.

(* lifting to 16-byte states *)
Lemma map_columns_16 f a0 a1 a2 a3 b0 b1 b2 b3 c0 c1 c2 c3 d0 d1 d2 d3 :
  map_columns f [a0; a1; a2; a3; b0; b1; b2; b3; c0; c1; c2; c3; d0; d1; d2; d3] =
  col_bytes (f (a0, a1, a2, a3)) ++ col_bytes (f (b0, b1, b2, b3)) ++
  col_bytes (f (c0, c1, c2, c3)) ++ col_bytes (f (d0, d1, d2, d3)).
Proof. reflexivity. Qed.

Lemma map_columns_cols f A B C D :
  map_columns f (col_bytes A ++ col_bytes B ++ col_bytes C ++ col_bytes D) =
  col_bytes (f A) ++ col_bytes (f B) ++ col_bytes (f C) ++ col_bytes (f D).
Proof.
  destruct A as [[[? ?] ?] ?], B as [[[? ?] ?] ?], C as [[[? ?] ?] ?], D as [[[? ?] ?] ?].
  reflexivity.
Qed.

Lemma col_bytes_length c : length (col_bytes c) = 4%nat.
Proof. destruct c as [[[? ?] ?] ?]. reflexivity. Qed.

Lemma col_bytes_wfb c : cok c -> wfb (col_bytes c).
Proof. destruct c as [[[? ?] ?] ?]. intros (?&?&?&?). cbn [col_bytes]. solve_wfb_lit. Qed.

Lemma map_columns_length f s : length (map_columns f s) = length s.
Proof.
  do 16 (destruct s as [|? s]; [reflexivity|]). destruct s; [|reflexivity].
  rewrite map_columns_16, !app_length, !col_bytes_length. reflexivity.
Qed.

Lemma map_columns_wfb f s :
  (forall c, cok c -> cok (f c)) -> wfb s -> wfb (map_columns f s).
Proof.
  intros Hf H. do 16 (destruct s as [|? s]; [exact H|]). destruct s; [|exact H].
  split_wfb H. rewrite map_columns_16. unfold wfb.
  repeat (apply Forall_app; split); apply col_bytes_wfb, Hf; cbn [cok]; auto.
Qed.

Lemma map_columns_inv f g s :
  (forall c, cok c -> g (f c) = c) ->
  length s = 16%nat -> wfb s -> map_columns g (map_columns f s) = s.
Proof.
  intros Hgf L H.
  do 16 (destruct s as [|? s]; [discriminate L|]). destruct s; [|discriminate L].
  split_wfb H. rewrite map_columns_16, map_columns_cols.
  rewrite !Hgf by (cbn [cok]; auto). reflexivity.
Qed.

Lemma mix_columns_length s : length (mix_columns s) = length s.
Proof. apply map_columns_length. Qed.
Lemma inv_mix_columns_length s : length (inv_mix_columns s) = length s.
Proof. apply map_columns_length. Qed.
Lemma mix_columns_wfb s : wfb s -> wfb (mix_columns s).
Proof. apply map_columns_wfb, mixc_ok. Qed.
Lemma inv_mix_columns_wfb s : wfb s -> wfb (inv_mix_columns s).
Proof. apply map_columns_wfb, imixc_ok. Qed.
Lemma inv_mix_mix_columns s :
  length s = 16%nat -> wfb s -> inv_mix_columns (mix_columns s) = s.
Proof. apply map_columns_inv, imixc_mixc. Qed.
Lemma mix_inv_mix_columns s :
  length s = 16%nat -> wfb s -> mix_columns (inv_mix_columns s) = s.
Proof. apply map_columns_inv, mixc_imixc. Qed.

(* ------------------------------------------------------------------ *)
(* Rounds                                                              *)
(* ------------------------------------------------------------------ *)
Definition good (s : bytes) : Prop := length s = 16%nat /\ wfb s.

Lemma enc_round_length s k : length (enc_round s k) = length s.
Proof. unfold enc_round.
  now rewrite add_round_key_length, mix_columns_length, shift_rows_length, sub_bytes_length. Qed.
Lemma enc_final_length s k : length (enc_final s k) = length s.
Proof. unfold enc_final. now rewrite add_round_key_length, shift_rows_length, sub_bytes_length. Qed.
Lemma dec_round_length s k : length (dec_round s k) = length s.
Proof. unfold dec_round.
  now rewrite inv_sub_bytes_length, inv_shift_rows_length, inv_mix_columns_length, add_round_key_length. Qed.
Lemma dec_final_length s k : length (dec_final s k) = length s.
Proof. unfold dec_final.
  now rewrite inv_sub_bytes_length, inv_shift_rows_length, add_round_key_length. Qed.

(* S-box output is always a byte, so these hold for every input state *)
Lemma enc_round_wfb s k : wfb (enc_round s k).
Proof. unfold enc_round.
  apply add_round_key_wfb, mix_columns_wfb, shift_rows_wfb, sub_bytes_wfb. Qed.
Lemma enc_final_wfb s k : wfb (enc_final s k).
Proof. unfold enc_final. apply add_round_key_wfb, shift_rows_wfb, sub_bytes_wfb. Qed.
Lemma dec_round_wfb s k : wfb (dec_round s k).
Proof. unfold dec_round. apply inv_sub_bytes_wfb. Qed.
Lemma dec_final_wfb s k : wfb (dec_final s k).
Proof. unfold dec_final. apply inv_sub_bytes_wfb. Qed.

Lemma enc_round_good s k : good s -> good (enc_round s k).
Proof. intros [L _]. split; [now rewrite enc_round_length|apply enc_round_wfb]. Qed.
Lemma dec_round_good s k : good s -> good (dec_round s k).
Proof. intros [L _]. split; [now rewrite dec_round_length|apply dec_round_wfb]. Qed.
Lemma add_round_key_good s k : good s -> good (add_round_key s k).
Proof. intros [L W]. split; [now rewrite add_round_key_length|now apply add_round_key_wfb]. Qed.

Lemma dec_enc_round s k : good s -> dec_round (enc_round s k) k = s.
Proof.
  intros [L W]. unfold dec_round, enc_round.
  rewrite add_round_key_invol.
  rewrite inv_mix_mix_columns
    by (rewrite ?shift_rows_length, ?sub_bytes_length; auto using shift_rows_wfb, sub_bytes_wfb).
  rewrite inv_shift_shift_rows. now apply inv_sub_sub_bytes.
Qed.

Lemma enc_dec_round s k : good s -> enc_round (dec_round s k) k = s.
Proof.
  intros [L W]. unfold dec_round, enc_round.
  rewrite sub_inv_sub_bytes
    by auto using inv_shift_rows_wfb, inv_mix_columns_wfb, add_round_key_wfb.
  rewrite shift_inv_shift_rows.
  rewrite mix_inv_mix_columns
    by (rewrite ?add_round_key_length; auto using add_round_key_wfb).
  apply add_round_key_invol.
Qed.

Lemma dec_enc_final s k : good s -> dec_final (enc_final s k) k = s.
Proof.
  intros [L W]. unfold dec_final, enc_final.
  rewrite add_round_key_invol, inv_shift_shift_rows. now apply inv_sub_sub_bytes.
Qed.

Lemma enc_dec_final s k : good s -> enc_final (dec_final s k) k = s.
Proof.
  intros [L W]. unfold dec_final, enc_final.
  rewrite sub_inv_sub_bytes by auto using inv_shift_rows_wfb, add_round_key_wfb.
  rewrite shift_inv_shift_rows. apply add_round_key_invol.
Qed.

(* ------------------------------------------------------------------ *)
(* Folding the rounds over an arbitrary list of round keys             *)
(* ------------------------------------------------------------------ *)
Lemma fold_enc_good ks : forall s, good s -> good (fold_left enc_round ks s).
Proof. induction ks as [|k ks IH]; intros s G; cbn [fold_left]; [assumption|].
  apply IH, enc_round_good, G. Qed.
Lemma fold_dec_good ks : forall s, good s -> good (fold_left dec_round ks s).
Proof. induction ks as [|k ks IH]; intros s G; cbn [fold_left]; [assumption|].
  apply IH, dec_round_good, G. Qed.
Lemma fold_enc_length ks : forall s, length (fold_left enc_round ks s) = length s.
Proof. induction ks as [|k ks IH]; intros s; cbn [fold_left]; [reflexivity|].
  now rewrite IH, enc_round_length. Qed.
Lemma fold_dec_length ks : forall s, length (fold_left dec_round ks s) = length s.
Proof. induction ks as [|k ks IH]; intros s; cbn [fold_left]; [reflexivity|].
  now rewrite IH, dec_round_length. Qed.
Lemma fold_dec_wfb ks : forall s, wfb s -> wfb (fold_left dec_round ks s).
Proof. induction ks as [|k ks IH]; intros s W; cbn [fold_left]; [assumption|].
  apply IH, dec_round_wfb. Qed.

Lemma fold_dec_enc ks : forall s, good s ->
  fold_left dec_round (rev ks) (fold_left enc_round ks s) = s.
Proof.
  induction ks as [|k ks IH]; intros s G; cbn [fold_left rev]; [reflexivity|].
  rewrite fold_left_app. cbn [fold_left].
  rewrite IH by now apply enc_round_good. now apply dec_enc_round.
Qed.

Lemma fold_enc_dec ks : forall s, good s ->
  fold_left enc_round ks (fold_left dec_round (rev ks) s) = s.
Proof.
  induction ks as [|k ks IH]; intros s G; cbn [fold_left rev]; [reflexivity|].
  rewrite fold_left_app. cbn [fold_left].
  rewrite enc_dec_round by now apply fold_dec_good. now apply IH.
Qed.

(* ------------------------------------------------------------------ *)
(* The block cipher over any round-key list, then over any key         *)
(* ------------------------------------------------------------------ *)
Lemma aes_encrypt_with_length ks blk : length (aes_encrypt_with ks blk) = length blk.
Proof. unfold aes_encrypt_with.
  now rewrite enc_final_length, fold_enc_length, add_round_key_length. Qed.
Lemma aes_decrypt_with_length ks blk : length (aes_decrypt_with ks blk) = length blk.
Proof. unfold aes_decrypt_with.
  now rewrite add_round_key_length, fold_dec_length, dec_final_length. Qed.

(* no hypothesis on ks or blk: the last SubBytes / InvSubBytes makes every byte < 256 *)
Lemma aes_encrypt_with_wfb ks blk : wfb (aes_encrypt_with ks blk).
Proof. unfold aes_encrypt_with. apply enc_final_wfb. Qed.
Lemma aes_decrypt_with_wfb ks blk : wfb (aes_decrypt_with ks blk).
Proof. unfold aes_decrypt_with. apply add_round_key_wfb, fold_dec_wfb, dec_final_wfb. Qed.

Theorem aes_dec_enc_with ks blk :
  length blk = 16%nat -> wfb blk -> aes_decrypt_with ks (aes_encrypt_with ks blk) = blk.
Proof.
  intros L W. unfold aes_decrypt_with, aes_encrypt_with.
  assert (G0 : good (add_round_key blk (hd [] ks))) by (apply add_round_key_good; now split).
  rewrite dec_enc_final by now apply fold_enc_good.
  rewrite fold_dec_enc by assumption.
  apply add_round_key_invol.
Qed.

Theorem aes_enc_dec_with ks blk :
  length blk = 16%nat -> wfb blk -> aes_encrypt_with ks (aes_decrypt_with ks blk) = blk.
Proof.
  intros L W. unfold aes_decrypt_with, aes_encrypt_with.
  rewrite add_round_key_invol.
  assert (G0 : good (dec_final blk (last (tl ks) []))).
  { split; [now rewrite dec_final_length|apply dec_final_wfb]. }
  rewrite fold_enc_dec by assumption.
  apply enc_dec_final. now split.
Qed.

Lemma aes_encrypt_block_length key blk :
  length blk = 16%nat -> length (aes_encrypt_block key blk) = 16%nat.
Proof. intros L. unfold aes_encrypt_block. now rewrite aes_encrypt_with_length. Qed.
Lemma aes_decrypt_block_length key blk :
  length blk = 16%nat -> length (aes_decrypt_block key blk) = 16%nat.
Proof. intros L. unfold aes_decrypt_block. now rewrite aes_decrypt_with_length. Qed.

Lemma aes_encrypt_block_wfb key blk : wfb (aes_encrypt_block key blk).
Proof. apply aes_encrypt_with_wfb. Qed.
Lemma aes_decrypt_block_wfb key blk : wfb (aes_decrypt_block key blk).
Proof. apply aes_decrypt_with_wfb. Qed.

Theorem aes_dec_enc : forall key blk,
  length blk = 16%nat -> wfb blk -> aes_decrypt_block key (aes_encrypt_block key blk) = blk.
Proof. intros key blk. apply aes_dec_enc_with. Qed.

Theorem aes_enc_dec : forall key blk,
  length blk = 16%nat -> wfb blk -> aes_encrypt_block key (aes_decrypt_block key blk) = blk.
Proof. intros key blk. apply aes_enc_dec_with. Qed.

Print Assumptions aes_dec_enc.
Print Assumptions aes_enc_dec.
Print Assumptions aes_encrypt_block_wfb.
Print Assumptions aes_decrypt_block_wfb.
