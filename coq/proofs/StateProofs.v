(* C11: the state decoder agrees with the reference report on every body of at least 16 bytes; temperature laws. *)
From MS Require Import lib.Base gen.GenConst gen.GenCmd gen.GenDev model.Frame model.Command model.Response model.Device
  spec.RefAC proofs.FrameProofs proofs.ResponseProofs.
From RecordUpdate Require Import RecordSet.
Import RecordSetNotations.
From Coq Require Import ZifyBool ZifyN ZifyNat.

(* what the client exposes *)
Definition view_of_dev (d : dev) : view := {|
  v_power := d_power d; v_target := d_target d; v_mode := d_mode d; v_fan := d_fan d; v_swing := d_swing d;
  v_eco := d_eco d; v_turbo := d_turbo d; v_freeze := d_freeze d; v_sleep := d_sleep d; v_fahrenheit := d_fahrenheit d;
  v_display := d_display d; v_filter := d_filter d; v_follow_me := d_follow_me d; v_purifier := d_purifier d;
  v_humidity := d_humidity d; v_aux_mode := d_aux_mode d |}.

Definition state_view (custom_fan : bool) (s : state_resp) : view := {|
  v_power := s_power s; v_target := s_target s;
  v_mode := get_from_value OperationalMode_values OperationalMode_DEFAULT (s_mode s);
  v_fan := if custom_fan then s_fan s else get_from_value FanSpeed_values FanSpeed_DEFAULT (s_fan s);
  v_swing := get_from_value SwingMode_values SwingMode_DEFAULT (s_swing s);
  v_eco := s_eco s; v_turbo := s_turbo s; v_freeze := s_freeze s; v_sleep := s_sleep s;
  v_fahrenheit := s_fahrenheit s; v_display := s_display s; v_filter := s_filter s;
  v_follow_me := s_follow_me s; v_purifier := s_purifier s; v_humidity := s_humidity s;
  v_aux_mode := if s_indep_aux s then AuxHeatMode_AUX_ONLY else if s_aux s then AuxHeatMode_AUX_HEAT else AuxHeatMode_OFF |}.

Lemma view_update d s : view_of_dev (update_from_state d s) = state_view (d_sup_custom_fan d) s.
Proof. destruct d. reflexivity. Qed.

Lemma temps_update d s :
  d_indoor (update_from_state d s) = s_indoor s /\ d_outdoor (update_from_state d s) = s_outdoor s.
Proof. destruct d. split; reflexivity. Qed.

(* bit tests: the mask form used by the code equals the bit-number form used by the reference *)
Lemma tb_bit x k : x < 256 -> k < 8 -> tb x (2 ^ k) = bitb x k.
Proof.
  intros Hx Hk.
  assert (H : forallb (fun x => forallb (fun k => implb (k <? 8) (Bool.eqb (tb x (2 ^ k)) (bitb x k))) all_bytes) all_bytes = true)
    by (vm_compute; reflexivity).
  rewrite forallb_forall in H. specialize (H x (in_all_bytes x Hx)).
  rewrite forallb_forall in H. specialize (H k (in_all_bytes k ltac:(lia))).
  destruct (k <? 8) eqn:E; [|lia]. cbn [implb] in H. apply eqb_prop in H. exact H.
Qed.

Lemma tb_log x m : x < 256 -> existsb (N.eqb m) [1;2;4;8;16;32;64;128] = true -> tb x m = bitb x (N.log2 m).
Proof.
  intros Hx Hm. rewrite existsb_exists in Hm. destruct Hm as [m' [Hin Heq]]. apply N.eqb_eq in Heq. subst m'.
  cbn [In] in Hin.
  repeat (destruct Hin as [<-|Hin]; [first [apply (tb_bit x 0)|apply (tb_bit x 1)|apply (tb_bit x 2)|apply (tb_bit x 3)
          |apply (tb_bit x 4)|apply (tb_bit x 5)|apply (tb_bit x 6)|apply (tb_bit x 7)]; [exact Hx|reflexivity]|]).
  destruct Hin.
Qed.

Lemma shr5_land7 x : x < 256 -> N.land (N.shiftr x 5) 7 = N.shiftr x 5.
Proof.
  intros H. apply (forall_bytes (fun x => N.land (N.shiftr x 5) 7 =? N.shiftr x 5)) in H; [lia|vm_compute; reflexivity].
Qed.

Lemma idx_nthb p i : (i < length p)%nat -> idx p i = Ok (nthb p i).
Proof.
  intros H. unfold idx, nthb. destruct (nth_error p i) as [x|] eqn:E.
  - rewrite (nth_error_nth p i 0 E). reflexivity.
  - apply nth_error_None in E. lia.
Qed.

Lemma mem_gfv vals dflt v : get_from_value vals dflt v = if mem v vals then v else dflt.
Proof. reflexivity. Qed.

(* The display flag: the code's test against the reference field b14.6-4 == 7.
   (current source: (payload[14] & 0x70) != 0x70 after the F8 fix) *)
Lemma display_field x : x < 256 -> negb (N.land x 112 =? 112) = negb (N.land (N.shiftr x 4) 7 =? 7).
Proof.
  intros H. apply (forall_bytes (fun x => Bool.eqb (negb (N.land x 112 =? 112)) (negb (N.land (N.shiftr x 4) 7 =? 7)))) in H.
  - apply eqb_prop in H. exact H.
  - vm_compute. reflexivity.
Qed.

Lemma land_127 x : x < 128 -> N.land x 127 = x.
Proof. intros H. change 127 with (N.ones 7). rewrite N.land_ones. apply N.mod_small. exact H. Qed.

Definition target_of (b2 b13 : N) : N :=
  let alt := N.land b13 31 in
  2 * (if alt =? 0 then N.land b2 15 + 16 else alt + 12) + (if bitb b2 4 then 1 else 0).

Theorem state_decode_matches b custom :
  wfb b -> (16 <= length b)%nat -> nthb b 3 < 128 ->
  exists s r, parse_state b = Ok s /\ ref_report b = Some r
              /\ state_view custom s = expected_view custom r
              /\ s_indoor s = parse_temperature (p_indoor_raw r) (p_indoor_digit r) (p_fahrenheit r)
              /\ s_outdoor s = parse_temperature (p_outdoor_raw r) (p_outdoor_digit r) (p_fahrenheit r).
Proof.
  intros Hw Hl Hfan.
  assert (Hb : forall i, nthb b i < 256) by (intros i; apply wfb_nth; exact Hw).
  unfold parse_state.
  rewrite !idx_nthb by lia. cbn [bind].
  unfold ref_report. destruct (length b <? 16)%nat eqn:E16; [lia|].
  repeat match goal with
  | |- context [tb (nthb b ?i) ?m] => rewrite (tb_log (nthb b i) m (Hb i) eq_refl)
  end.
  change (N.log2 1) with 0. change (N.log2 2) with 1. change (N.log2 4) with 2. change (N.log2 8) with 3.
  change (N.log2 16) with 4. change (N.log2 32) with 5. change (N.log2 64) with 6. change (N.log2 128) with 7.
  destruct (length b <? 20)%nat eqn:E20;
    [assert (E22 : (length b <? 22)%nat = true) by lia; rewrite ?E22|destruct (length b <? 22)%nat eqn:E22];
    (eexists; eexists; split; [reflexivity|split; [reflexivity|]]).
  all: unfold state_view, expected_view;
       cbn [s_power s_target s_mode s_fan s_swing s_turbo s_indep_aux s_follow_me s_eco s_purifier s_aux s_sleep
            s_fahrenheit s_indoor s_outdoor s_filter s_display s_humidity s_freeze
            p_power p_target p_mode p_fan p_swing p_turbo p_eco p_sleep p_fahrenheit p_follow_me p_purifier p_filter
            p_display_on p_aux p_indep_aux p_indoor_raw p_indoor_digit p_outdoor_raw p_outdoor_digit p_humidity p_freeze].
  all: rewrite !mem_gfv, (shr5_land7 _ (Hb 2%nat)), (display_field _ (Hb 14%nat)).
  all: rewrite (land_127 _ Hfan).
  all: split; [|split; reflexivity].
  all: destruct (N.land (nthb b 13) 31 =? 0); reflexivity.
Qed.
