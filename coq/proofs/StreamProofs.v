(* C04, stream half: behind marker-free garbage exactly the complete packets are extracted. *)
From MS Require Import lib.Base model.Lan proofs.DrainProofs.
From Coq Require Import Arith.
Local Open Scope nat_scope.

(* a well-formed packet: 83 70 hi lo ++ rest, total length = be16 hi lo + 8 *)
Definition wf_pkt (p:bytes) : Prop :=
  exists hi lo rest, p = 0x83%N :: 0x70%N :: hi :: lo :: rest /\ length p = be16 hi lo + 8.

Definition marker_free (g:bytes) := find g = None.

Transparent find.
Lemma find_marker_head t : find (0x83%N :: 0x70%N :: t) = Some 0.
Proof. reflexivity. Qed.

(* garbage g marker-free, followed by something starting with 0x83 0x70: first marker is at |g| *)
Lemma find_garbage g t : marker_free g -> find (g ++ 0x83%N :: 0x70%N :: t) = Some (length g).
Proof.
  unfold marker_free. induction g as [|a g IH]; intros Hg.
  - reflexivity.
  - destruct g as [|b g'].
    + (* g = [a] *) simpl app. rewrite find_cons2.
      destruct (N.eqb a 131 && N.eqb 131 112)%bool eqn:E.
      * apply andb_true_iff in E. destruct E as [_ E]. discriminate.
      * rewrite find_marker_head. reflexivity.
    + change ((a :: b :: g') ++ 131%N :: 112%N :: t) with (a :: b :: (g' ++ 131%N :: 112%N :: t)).
      rewrite find_cons2. rewrite find_cons2 in Hg.
      destruct (N.eqb a 131 && N.eqb b 112)%bool; [discriminate|].
      destruct (find (b :: g')) eqn:F; [discriminate|].
      change (b :: g' ++ 131%N :: 112%N :: t) with ((b :: g') ++ 131%N :: 112%N :: t).
      rewrite (IH eq_refl). reflexivity.
Qed.
Opaque find.

(* step on  g ++ p ++ t  with p well-formed extracts p and leaves t *)
Lemma step_stream g p t : marker_free g -> wf_pkt p -> step (g ++ p ++ t) = Some (p, t).
Proof.
  intros Hg (hi & lo & rest & -> & Hl).
  rewrite !step_unfold; cbv zeta. change ((131%N :: 112%N :: hi :: lo :: rest) ++ t) with (131%N :: 112%N :: ((hi :: lo :: rest) ++ t)).
  rewrite (find_garbage g _ Hg).
  rewrite skipn_app, Nat.sub_diag, skipn_O, skipn_all, app_nil_l.
  set (p := 131%N :: 112%N :: hi :: lo :: rest) in *.
  change (131%N :: 112%N :: (hi :: lo :: rest) ++ t) with (p ++ t).
  assert (Ht: total_size (p ++ t) = length p) by (rewrite Hl; unfold total_size, p; reflexivity).
  rewrite Ht, app_length.
  replace (length p + length t <? 6) with false by (symmetry; apply Nat.ltb_ge; unfold be16 in Hl; lia).
  replace (length p + length t <? length p) with false by (symmetry; apply Nat.ltb_ge; lia).
  rewrite firstn_app, skipn_app, Nat.sub_diag, firstn_O, skipn_O, firstn_all, skipn_all, app_nil_r. reflexivity.
Qed.

(* a strict prefix of a well-formed packet is stuck, even behind garbage *)
Lemma step_partial g p t : marker_free g -> wf_pkt p -> (exists u, p = t ++ u /\ u <> []) -> step (g ++ t) = None.
Proof.
  intros Hg (hi & lo & rest & -> & Hl) (u & Hu & Hne).
  assert (Lt: length t < be16 hi lo + 8).
  { rewrite <- Hl, Hu, app_length. destruct u; [congruence|simpl; lia]. }
  rewrite !step_unfold; cbv zeta.
  destruct t as [|t0 [|t1 t']].
  - rewrite app_nil_r. unfold marker_free in Hg. now rewrite Hg.
  - (* only first byte arrived: no marker yet *)
    injection Hu as <- Hu'.
    destruct (find (g ++ [131%N])) as [s|] eqn:F; [|reflexivity].
    (* a marker inside g ++ [0x83] would be inside g *)
    exfalso. revert s F. unfold marker_free in Hg. clear -Hg.
    induction g as [|a g IH]; intros s F.
    + Transparent find. unfold find in F; cbn [find2] in F. Opaque find. discriminate.
    + destruct g as [|b g'].
      * simpl app in F. rewrite find_cons2 in F.
        destruct (N.eqb a 131 && N.eqb 131 112)%bool eqn:E.
        { apply andb_true_iff in E. destruct E as [_ E]. discriminate. }
        rewrite find_one in F. discriminate.
      * change ((a :: b :: g') ++ [131%N]) with (a :: b :: (g' ++ [131%N])) in F.
        rewrite find_cons2 in F. rewrite find_cons2 in Hg.
        destruct (N.eqb a 131 && N.eqb b 112)%bool; [discriminate|].
        destruct (find (b :: g')) eqn:F2; [discriminate|].
        change (b :: g' ++ [131%N]) with ((b :: g') ++ [131%N]) in F.
        destruct (find ((b :: g') ++ [131%N])) eqn:F3; [|discriminate].
        eapply IH; eauto.
  - injection Hu as <- <- Hu'.
    rewrite (find_garbage g _ Hg).
    rewrite skipn_app, Nat.sub_diag, skipn_O, skipn_all, app_nil_l.
    destruct (length (131%N :: 112%N :: t') <? 6) eqn:E6; [reflexivity|].
    apply Nat.ltb_ge in E6.
    (* header complete: hi lo are in t' *)
    destruct t' as [|h0 [|l0 t'']]; simpl in E6; try lia.
    simpl in Hu'. injection Hu' as <- <- _.
    unfold total_size, nthb. simpl nth. fold (be16 hi lo).
    replace (length (131%N :: 112%N :: hi :: lo :: t'') <? be16 hi lo + 8) with true
      by (symmetry; apply Nat.ltb_lt; exact Lt).
    reflexivity.
Qed.


(* ---------- whole streams ---------- *)
(* what may trail the complete packets: nothing, or a strict prefix of a well-formed packet *)
Definition partial (t : bytes) : Prop := exists p u, wf_pkt p /\ p = t ++ u /\ u <> [].

Lemma wf_pkt_len p : wf_pkt p -> 8 <= length p.
Proof. intros (hi & lo & rest & -> & Hl). rewrite Hl. lia. Qed.

Lemma marker_free_nil : marker_free [].
Proof. reflexivity. Qed.

Lemma drain_stuck buf q : step buf = None -> drain_all buf q = (buf, q).
Proof. intros H. unfold drain_all. cbn [drain]. destruct buf; [reflexivity|]. rewrite H. reflexivity. Qed.

Theorem drain_stream ps : forall g t q, marker_free g -> Forall wf_pkt ps -> partial t ->
  drain_all (g ++ concat ps ++ t) q = ((match ps with [] => g | _ => [] end) ++ t, q ++ ps).
Proof.
  induction ps as [|p ps IH]; intros g t q Hg Hw Hpart.
  - destruct Hpart as (p0 & u & Hp0 & Hu & Hne). cbn [concat app]. rewrite app_nil_r. apply drain_stuck.
    apply (step_partial g p0 t Hg Hp0). exists u. split; assumption.
  - inversion Hw as [|? ? Hp Hps]; subst.
    cbn [concat]. rewrite <- app_assoc.
    pose proof (step_stream g p (concat ps ++ t) Hg Hp) as Hs.
    unfold drain_all. cbn [drain].
    destruct (g ++ p ++ concat ps ++ t) as [|x xs] eqn:E.
    { pose proof (wf_pkt_len p Hp) as Hl. apply (f_equal (@length N)) in E. rewrite !app_length in E. cbn in E. lia. }
    rewrite Hs. rewrite <- E.
    assert (Hlen : length (concat ps ++ t) < length (g ++ p ++ concat ps ++ t)).
    { pose proof (wf_pkt_len p Hp). rewrite !app_length. lia. }
    rewrite (drain_fuel (length (g ++ p ++ concat ps ++ t)) (S (length (concat ps ++ t)))) by lia.
    fold (drain_all (concat ps ++ t) (q ++ [p])).
    change (concat ps ++ t) with ([] ++ concat ps ++ t).
    rewrite (IH [] t (q ++ [p]) marker_free_nil Hps Hpart).
    rewrite <- app_assoc. cbn [app]. destruct ps; reflexivity.
Qed.

(* together with segmentation independence: for every segmentation of (garbage, complete packets, partial tail) the
   queue holds exactly the complete packets, in order, once, and the tail stays buffered *)
Theorem reassembly segs g ps t : marker_free g -> Forall wf_pkt ps -> partial t ->
  concat segs = g ++ concat ps ++ t ->
  fold_left data_received segs ([], []) = ((match ps with [] => g | _ => [] end) ++ t, ps).
Proof.
  intros Hg Hw Ht Hc. rewrite seg_indep, Hc. apply (drain_stream ps g t [] Hg Hw Ht).
Qed.

(* a complete stream (nothing trailing) *)
Theorem reassembly_complete segs g ps : marker_free g -> Forall wf_pkt ps -> ps <> [] ->
  concat segs = g ++ concat ps ->
  fold_left data_received segs ([], []) = ([], ps).
Proof.
  intros Hg Hw Hne Hc.
  assert (Hp : partial []).
  { exists [131%N; 112%N; 0%N; 0%N; 0%N; 0%N; 0%N; 0%N], [131%N; 112%N; 0%N; 0%N; 0%N; 0%N; 0%N; 0%N].
    split; [exists 0%N, 0%N, [0%N; 0%N; 0%N; 0%N]; split; reflexivity|split; [reflexivity|discriminate]]. }
  rewrite (reassembly segs g ps [] Hg Hw Hp) by (rewrite app_nil_r; exact Hc).
  destruct ps; [congruence|reflexivity].
Qed.
